(** C09 — Parallel writers do not interfere.
    Property theorems only; each is closed by [exact] of a lemma proved in Proofs/. *)
Require Import Sedpack.Model.Base Sedpack.Model.Effects Sedpack.Proofs.EffectsProofs.
Require Sedpack.Model.Filler Sedpack.Model.Meta Sedpack.Proofs.NoDupProofs Sedpack.Proofs.CheckProofs Sedpack.Proofs.OrderProofs.

(** Let every worker process perform its own list of file-system effects (mkdir with exist_ok,
    files coming to hold some content, removals).  If the workers are pairwise independent — no
    two of them ever touch the same file (shared mkdirs are idempotent) — then EVERY interleaving of
    their effect lists, each in its own order, leaves exactly the file system that running the
    workers one after another in argument order leaves.  (What the parent then merges depends only
    on that file system and on the returned summaries in argument order.) *)
Theorem c09_interleaving_irrelevant :
  forall (path : Type) (peqb : path -> path -> bool),
    (forall p, peqb p p = true) -> (forall p q, peqb p q = true -> p = q) ->
  forall (content : Type) (ws : list (list (eff path content))) (l : list (eff path content)),
    Interleaving path content ws l -> writers_independent path peqb content ws ->
    forall fs, fs_eq path content (apply_all path peqb content l fs) (apply_all path peqb content (concat ws) fs).
Proof. exact interleaving_irrelevant_lemma. Qed.
Print Assumptions c09_interleaving_irrelevant.

(** Non-vacuity: two writers in their own directories plus the shared mkdir of the split. *)
(** The multi-writer call in the session model of C04 (its writers run one after another in argument order, each into its own fresh
    directory): after any history ending with such a call — any number of writers, uneven loads, several splits per writer,
    writers that write nothing — the metadata is exact (every summary, no shard listed twice, none unlisted) and the integrity
    check passes.  (That the real, concurrently running workers produce what the sequential model produces is the subject of the
    theorem above together with the measured independence of the workers.) *)
Theorem c09_multi_writer_result_is_exact_and_checked :
  forall eps : nat, 1 <= eps -> forall (h : list Meta.session) (writers : list (list Filler.wop)) (fs : Meta.fsT) (info : Meta.dinfo),
    Meta.run_history eps (h ++ [Meta.SMulti writers]) = Meta.Ok (fs, info) -> Meta.exact_all fs info = true /\ Meta.check fs info = true.
Proof. exact CheckProofs.multi_writer_exact_checked. Qed.
Print Assumptions c09_multi_writer_result_is_exact_and_checked.

(** "each writer's examples in its own order": whatever sessions came before and whatever sessions follow, the shards the j-th writer
    of a multi-writer call closed for a split are found contiguously, in its close order and with exactly its examples, in the
    depth-first shard list of that split (the payload offset 100*j identifies the writer in the model). *)
Theorem c09_each_writers_examples_in_its_own_order :
  forall eps : nat, 1 <= eps ->
  forall (h1 : list Meta.session) (writers : list (list Filler.wop)) (h2 : list Meta.session) (st1 st3 : Meta.fsT * Meta.dinfo),
  Meta.run_history eps h1 = Meta.Ok st1 -> Meta.run_history eps (h1 ++ Meta.SMulti writers :: h2) = Meta.Ok st3 ->
  forall (j : nat) (ops : list Filler.wop), nth_error writers j = Some ops ->
  forall s : split, exists pre post : list (list nat),
    map (Meta.examples_of (fst st3)) (Meta.dfs Meta.FUEL (fst st3) [Filler.split_code s]) =
    pre ++ map (OrderProofs.stored (Meta.base (fst st1) + 100 * j)) (Filler.closed_of s (Filler.session_closed eps ops)) ++ post.
Proof. exact OrderProofs.multi_block_in_order. Qed.
Print Assumptions c09_each_writers_examples_in_its_own_order.

Theorem c09_nonvacuous :
  let w1 := [EMkdir [0]; EMkdir [0; 7]; EWrite [0; 7; 1] 11; EWrite [0; 7; 99] 12] in
  let w2 := [EMkdir [0]; EMkdir [0; 8]; EWrite [0; 8; 1] 21] in
  let eqb := fun a b : list nat => if list_eq_dec Nat.eq_dec a b then true else false in
  let fs0 := {| dirs := fun _ => false; files := fun _ : list nat => @None nat |} in
  let l := [EMkdir [0]; EMkdir [0]; EMkdir [0; 8]; EMkdir [0; 7]; EWrite [0; 8; 1] 21; EWrite [0; 7; 1] 11; EWrite [0; 7; 99] 12] in
  map (files (list nat) nat (apply_all (list nat) eqb nat l fs0)) [[0; 7; 1]; [0; 7; 99]; [0; 8; 1]; [0; 9; 1]]
  = map (files (list nat) nat (apply_all (list nat) eqb nat (w1 ++ w2) fs0)) [[0; 7; 1]; [0; 7; 99]; [0; 8; 1]; [0; 9; 1]].
Proof. vm_compute. reflexivity. Qed.
Print Assumptions c09_nonvacuous.
