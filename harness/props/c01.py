"""C01 — round-trip fidelity: every value read equals the value written."""
import json
import struct

from harness import common
from harness.common import Broken, COQ, REPO
from translator import pygen

PID = "C01"
INTS = {"uint8": (False, 1), "int8": (True, 1), "uint16": (False, 2), "int16": (True, 2), "uint32": (False, 4), "int32": (True, 4), "uint64": (False, 8), "int64": (True, 8)}
FLOATS = {"float16": 2, "float32": 4, "float64": 8}
FMT_DTYPES = {
    "fb": list(INTS) + list(FLOATS),
    "npz": list(INTS) + list(FLOATS) + ["bytes", "str"],
    "tfrec": ["uint8", "int8", "int32", "int64", "float16", "float32", "float64", "bytes", "str"],
}
COMPRESSIONS = {"fb": ["", "BZ2", "GZIP", "LZMA", "LZ4", "ZLIB", "ZSTD"], "npz": ["", "ZIP"], "tfrec": ["", "GZIP", "ZLIB"]}
READERS = {"fb": ["sync", "concurrent", "async", "rust", "tf", "sync_shuffled", "concurrent_shuffled", "async_shuffled"],
           "npz": ["sync", "concurrent", "async", "tf", "concurrent_shuffled", "async_shuffled"], "tfrec": ["sync", "tf"]}
SHAPES = [[], [1], [3], [2, 3], [3, 1, 2], [2, 1, 2, 2], [1, 1], [4, 2]]
PRES = ["C", "C", "F", "strided", "reversed", "transposed", "be", "readonly", "mutated", "narrow", "scalar", "list"]
# float layouts: (exponent bits, mantissa bits)
FL = {"float16": (5, 10), "float32": (8, 23), "float64": (11, 52)}


def width(dt):
    return INTS[dt][1] if dt in INTS else FLOATS[dt]


def special_bits(rng, dt, allow_nan=True):
    w = width(dt)
    top = (1 << (8 * w)) - 1
    if dt in INTS:
        return rng.choice([0, 1, top, 1 << (8 * w - 1), (1 << (8 * w - 1)) - 1, rng.randrange(top + 1), rng.randrange(top + 1), rng.randrange(256)])
    e, m = FL[dt]
    sign = rng.choice([0, 1]) << (e + m)
    expo_all = ((1 << e) - 1) << m
    pool = [0, sign, sign | expo_all,                                     # +-0, +-inf
            sign | 1, sign | ((1 << m) - 1),                               # subnormals
            sign | (((1 << e) - 2) << m) | ((1 << m) - 1),                 # largest finite
            sign | (rng.randrange(1, (1 << e) - 1) << m) | rng.randrange(1 << m)]   # random finite
    if allow_nan:
        pool += [sign | expo_all | (1 << (m - 1)) | rng.randrange(1 << (m - 1)),     # quiet NaN with payload
                 sign | expo_all | rng.randrange(1, 1 << (m - 1)),                    # signalling NaN
                 rng.randrange(top + 1)]                                              # random bits
    return rng.choice(pool)


def narrower_sources(dt):
    """Source dtypes that cast safely to dt and differ from it."""
    if dt in INTS:
        s, w = INTS[dt]
        out = []
        for n, (s2, w2) in INTS.items():
            if n == dt:
                continue
            if (s2 == s and w2 < w) or (not s2 and s and w2 < w):
                out.append(n)
        return out
    out = [n for n, w2 in FLOATS.items() if w2 < FLOATS[dt]]
    mant = FL[dt][1] + 1
    out += [n for n, (s2, w2) in INTS.items() if 8 * w2 - (1 if s2 else 0) <= mant]
    return out


def rand_bytes(rng):
    k = rng.choice(["empty", "nul", "trailing", "leading", "random", "random", "single-nul", "long"])
    if k == "empty":
        return b""
    if k == "single-nul":
        return b"\x00"
    body = bytes(rng.randrange(256) for _ in range(rng.choice([1, 2, 5, 17])))
    if k == "nul":
        return body + b"\x00" + body
    if k == "trailing":
        return body.rstrip(b"\x00") + b"\x01\x00\x00"
    if k == "leading":
        return b"\x00" + body
    if k == "long":
        return bytes(rng.randrange(256) for _ in range(300))
    return body


def rand_str(rng):
    return rng.choice(["", "a", "žš", "text with spaces", "a\x00b", "日本語", "tail\x00", "\U0001f600x", " lead"])


def gen_value(rng, fmt, a, pres):
    dt = a["dtype"]
    if dt == "bytes":
        return {"pres": "C", "hex": rand_bytes(rng).hex()}
    if dt == "str":
        return {"pres": "C", "hex": rand_str(rng).encode("utf-8").hex()}
    n = 1
    for d in a["shape"]:
        n *= d
    if pres == "scalar" and a["shape"]:
        pres = "C"
    if pres == "list" and dt not in ("int64", "float64"):
        pres = "F"
    if pres == "be" and width(dt) == 1:
        pres = "C"
    if pres == "narrow":
        srcs = narrower_sources(dt)
        if not srcs:
            pres = "C"
        else:
            src = rng.choice(srcs)
            return {"pres": rng.choice(["C", "F", "be"]) if width(src) > 1 else "C", "src": src, "bits": [special_bits(rng, src, allow_nan=False) for _ in range(n)]}
    return {"pres": pres, "bits": [special_bits(rng, dt) for _ in range(n)]}


def gen_jobs(ctx):
    rng = ctx.rng
    jobs = []
    # systematic: every (format, dtype) with every compression at least once, all presentations rotating
    k = 0
    for fmt in ("fb", "npz", "tfrec"):
        for dt in FMT_DTYPES[fmt]:
            comps = COMPRESSIONS[fmt] if ctx.tier == "thorough" else [COMPRESSIONS[fmt][k % len(COMPRESSIONS[fmt])]]
            for comp in comps:
                k += 1
                shape = [] if dt in ("bytes", "str") else SHAPES[k % len(SHAPES)]
                a = {"name": "a0", "dtype": dt, "shape": shape}
                other = {"name": "a1", "dtype": "int32" if dt != "int32" else "uint8", "shape": [2]}
                attrs = [a, other] if k % 2 else [other, a]
                exs = []
                for i in range(5 if ctx.tier == "quick" else len(PRES)):
                    pres = PRES[(k + i) % len(PRES)] if ctx.tier == "quick" else PRES[i]
                    exs.append([gen_value(rng, fmt, x, pres if x is a else "C") for x in attrs])
                jobs.append({"format": fmt, "compression": comp, "eps": 2, "attrs": attrs, "examples": exs})
    # every special bit pattern of every dtype once per format, C order
    for fmt in ("fb", "npz", "tfrec"):
        for dt in FMT_DTYPES[fmt]:
            if dt in ("bytes", "str"):
                vals = ([b"", b"\x00", b"a\x00", b"\x00a", b"a\x00b", bytes(range(256))] if dt == "bytes" else
                        ["", "a", "a\x00", "\x00a", "žš", "日本語\U0001f600"])
                exs = [[{"pres": "C", "hex": (v if isinstance(v, bytes) else v.encode("utf-8")).hex()}] for v in vals]
                jobs.append({"format": fmt, "compression": "", "eps": 4, "attrs": [{"name": "a0", "dtype": dt, "shape": []}], "examples": exs})
                continue
            w = width(dt)
            top = (1 << (8 * w)) - 1
            if dt in INTS:
                bits = [0, 1, top, 1 << (8 * w - 1), (1 << (8 * w - 1)) - 1, top - 1]
            else:
                e, m = FL[dt]
                ea = ((1 << e) - 1) << m
                sg = 1 << (e + m)
                bits = [0, sg, ea, sg | ea, 1, sg | 1, (1 << m) - 1, (((1 << e) - 2) << m) | ((1 << m) - 1), ea | (1 << (m - 1)), ea | (1 << (m - 1)) | 5, sg | ea | (1 << (m - 1)) | 1, ea | 1, sg | ea | ((1 << (m - 1)) - 1), 1 << m]
            jobs.append({"format": fmt, "compression": "", "eps": 2, "attrs": [{"name": "a0", "dtype": dt, "shape": [len(bits)]}], "examples": [[{"pres": "C", "bits": bits}], [{"pres": "C", "bits": bits[::-1]}]]})
    for _ in range(ctx.scale(45, 900)):
        fmt = rng.choice(["fb", "fb", "npz", "tfrec"])
        attrs = []
        for i in range(rng.choice([1, 2, 3, 4])):
            dt = rng.choice(FMT_DTYPES[fmt])
            attrs.append({"name": f"a{i}", "dtype": dt, "shape": [] if dt in ("bytes", "str") else rng.choice(SHAPES)})
        exs = [[gen_value(rng, fmt, a, rng.choice(PRES)) for a in attrs] for _ in range(rng.choice([1, 3, 4]))]
        jobs.append({"format": fmt, "compression": rng.choice(COMPRESSIONS[fmt]), "eps": rng.choice([1, 2, 3]), "attrs": attrs, "examples": exs})
    # attributes DECLARED with an explicit byte order (">i4", "<u2", "=f8"): the same values must come back whatever the spelling of the declaration
    for dt, decl in (("int32", ">i4"), ("float64", ">f8"), ("uint16", "<u2"), ("int64", "=i8"), ("float32", ">f4")):
        a = {"name": "a0", "dtype": dt, "declared": decl, "shape": [2, 3]}
        jobs.append({"format": "fb", "compression": "", "eps": 2, "attrs": [a], "examples": [[gen_value(rng, "fb", a, pres)] for pres in ("C", "be", "F")]})
    # two datasets with an equally named attribute of different dtype read through the Rust interface at the same time
    for dt, odt in (("int32", "float32"), ("uint8", "int8"), ("float64", "int64")):
        a = {"name": "a0", "dtype": dt, "shape": [3]}
        b = {"name": "a0", "dtype": odt, "shape": [3]}
        jobs.append({"format": "fb", "compression": "", "eps": 2, "attrs": [a], "examples": [[gen_value(rng, "fb", a, "C")] for _ in range(4)],
                     "companion": {"attrs": [b], "examples": [[gen_value(rng, "fb", b, "C")] for _ in range(4)]}, "only_readers": ["sync", "rust_interleaved"]})
    # shards well above 1 MiB (a float64[400, 400] value is 1.28 MB): codecs may treat large inputs differently (blocks, frames, members) and every
    # reader, the Rust one included, has to cope; not sent through the Coq model (the value alone would be a 160 000-element literal)
    for comp in (COMPRESSIONS["fb"] if ctx.tier == "thorough" else ["GZIP", "LZ4", "ZLIB"]):
        big = [(i * 2654435761 + 12345) % (1 << 52) | (1023 << 52) for i in range(160000)]
        jobs.append({"format": "fb", "compression": comp, "eps": 2, "big": True, "attrs": [{"name": "a0", "dtype": "float64", "shape": [400, 400]}],
                     "examples": [[{"pres": "C", "bits": big}], [{"pres": "C", "bits": big[::-1]}]]})
    for fmt, comp in (("npz", "ZIP"), ("tfrec", "GZIP")) + ((("npz", ""), ("tfrec", ""), ("tfrec", "ZLIB")) if ctx.tier == "thorough" else ()):
        big = [(i * 2246822519 + 7) % (1 << 52) | (1022 << 52) for i in range(160000)]
        jobs.append({"format": fmt, "compression": comp, "eps": 2, "big": True, "attrs": [{"name": "a0", "dtype": "float64", "shape": [400, 400]}],
                     "examples": [[{"pres": "C", "bits": big}], [{"pres": "F", "bits": big[::-1]}]]})
    for j in jobs:
        rs = list(READERS[j["format"]])
        if j["format"] == "npz" and any(a["dtype"] in ("bytes", "str") for a in j["attrs"]):
            rs.remove("tf")        # as_tfdataset has no TensorFlow dtype for a bytes/str attribute of an npz dataset: an unsupported cell, it fails loudly
        if j.get("only_readers"):
            rs = list(j["only_readers"])
        if any("declared" in a for a in j["attrs"]):
            rs.remove("tf")        # ... nor for a dtype string with an explicit byte order ('>i4'): TypeError from TensorFlow for every such dataset
        j["readers"] = rs
    return jobs


def le_hex(bits, w):
    return b"".join(int(b).to_bytes(w, "little") for b in bits).hex()


def coq_idt(dt):
    s, w = INTS[dt]
    return "{| sgn := %s; wd := %d |}" % ("true" if s else "false", w)


def model_eval(fb_values, casts):
    """fb_values: [(w, shape, bits)] -> [(bytes, decoded)]; casts: [(src, dst, bits)] -> [cast bits]"""
    out_v, out_c = [], []
    files = {}
    head = ["Require Import Sedpack.Model.Base Sedpack.Generated.GenCodec Sedpack.Model.Codec.", "Open Scope Z_scope.",
            "Definition tab (shape : list nat) (l : list Z) (idx : list nat) : Z := nth (ravel shape idx) l 0.",
            "Definition run (w : nat) (shape : list nat) (l : list Z) := match fb_write_attr BNative SysLittle w shape (tab shape l) with "
            "Some b => (b, fb_decode_flat SysLittle w (prod shape) b) | None => ([], []) end."]
    zl = lambda l: "[" + "; ".join(str(x) for x in l) + "]"  # noqa: E731
    nl = lambda l: "[" + "; ".join(f"{x}%nat" for x in l) + "]"  # noqa: E731
    for ci in range(0, len(fb_values), 300):
        body = list(head)
        for w, shape, bits in fb_values[ci:ci + 300]:
            body.append(f"Eval vm_compute in run {w}%nat {nl(shape)} {zl(bits)}.")
        files[f"v{ci // 300}"] = "\n".join(body) + "\n"
    for ci in range(0, len(casts), 400):
        body = list(head)
        for src, dst, bits in casts[ci:ci + 400]:
            body.append(f"Eval vm_compute in map (cast {coq_idt(src)} {coq_idt(dst)}) {zl(bits)}.")
        files[f"c{ci // 400}"] = "\n".join(body) + "\n"
    res = common.coq_eval_many(PID, files) if files else {}
    for ci in range(0, len(fb_values), 300):
        out_v += common.coq_answers(res[f"v{ci // 300}"])
    for ci in range(0, len(casts), 400):
        out_c += common.coq_answers(res[f"c{ci // 400}"])
    return out_v, out_c


def is_snan_quieting(dt, exp_hex, got_hex):
    """Do the two byte strings differ only by signalling NaNs whose quiet bit was set?"""
    if dt not in FL or len(exp_hex) != len(got_hex):
        return False
    w = FLOATS[dt]
    e, m = FL[dt]
    eb, gb = bytes.fromhex(exp_hex), bytes.fromhex(got_hex)
    diff = False
    for i in range(0, len(eb), w):
        x, y = int.from_bytes(eb[i:i + w], "little"), int.from_bytes(gb[i:i + w], "little")
        if x == y:
            continue
        expo_all = ((1 << e) - 1) << m
        is_nan = (x & expo_all) == expo_all and (x & ((1 << m) - 1)) != 0
        if not (is_nan and y == x | (1 << (m - 1))):
            return False
        diff = True
    return diff


def check_jobs(ctx, jobs, broken):
    res = []
    ct = None
    for ci in range(0, len(jobs), 30):
        out = common.run_impl("roundtrip_run.py", {"jobs": jobs[ci:ci + 30], "cast_table": ci == 0}, timeout=2400)
        res += out["jobs"]
        ct = out.get("cast_table") or ct
    # what the model says: stored bytes and decoded elements for every fb value; integer casts for every narrower integer presentation
    fb_values, casts, where_v, where_c = [], [], [], []
    for ji, job in enumerate(jobs):
        for ei, ex in enumerate(job["examples"]):
            for ai, (a, p) in enumerate(zip(job["attrs"], ex)):
                if "bits" not in p:
                    continue
                src = p.get("src", a["dtype"])
                if src != a["dtype"] and src in INTS and a["dtype"] in INTS:
                    casts.append((src, a["dtype"], p["bits"]))
                    where_c.append((ji, ei, ai))
    cast_of = {}
    stats = {"values": 0, "by_format": {}, "by_pres": {}, "by_dtype": {}, "readers": {}, "compressions": {}, "nan_values": 0, "reads_compared": 0, "stored_compared": 0}
    n_model, n_agree = 0, 0
    try:
        if not broken:
            rc, log = common.coq_make(["Model/Codec.vo"])
            if rc:
                raise Broken("Model/Codec.v no longer compiles against the generated kernels", log[-2000:])
            _, cres = model_eval([], casts)
            for wh, c in zip(where_c, cres):
                cast_of[wh] = list(c)
    except Broken as b:
        broken.append(b)
    # expected bit patterns in the declared dtype
    expected = {}
    for ji, (job, r) in enumerate(zip(jobs, res)):
        for ei, ex in enumerate(job["examples"]):
            for ai, (a, p) in enumerate(zip(job["attrs"], ex)):
                if "bits" not in p:
                    expected[(ji, ei, ai)] = ("raw", p["hex"])
                    continue
                src = p.get("src", a["dtype"])
                if src == a["dtype"]:
                    bits = p["bits"]
                elif (ji, ei, ai) in cast_of:
                    bits = cast_of[(ji, ei, ai)]
                else:
                    bits = None     # float target: numpy's cast, reported by the runner
                expected[(ji, ei, ai)] = ("bits", bits)
    # fb: model bytes vs stored bytes
    for ji, (job, r) in enumerate(zip(jobs, res)):
        if job["format"] != "fb" or r.get("write_error") or not isinstance(r.get("stored"), list) or job.get("big"):
            continue
        for ei, ex in enumerate(job["examples"]):
            for ai, (a, p) in enumerate(zip(job["attrs"], ex)):
                kind, bits = expected[(ji, ei, ai)]
                if kind == "bits" and bits is not None:
                    fb_values.append((width(a["dtype"]), a["shape"], bits))
                    where_v.append((ji, ei, ai))
    try:
        if not broken:
            vres, _ = model_eval(fb_values, [])
            for (ji, ei, ai), (w, shape, bits), (mb, md) in zip(where_v, fb_values, vres):
                n_model += 1
                job, r = jobs[ji], res[ji]
                stored = r["stored"][ei][ai] if ei < len(r["stored"]) and ai < len(r["stored"][ei]) else None
                mhex = bytes(mb).hex()
                ok = stored == mhex and list(md) == list(bits)
                if ok:
                    n_agree += 1
                else:
                    a, p = job["attrs"][ai], job["examples"][ei][ai]
                    if list(md) != list(bits):
                        broken.append(Broken("model: decode(encode) is not the identity on a concrete case", json.dumps({"w": w, "shape": shape, "bits": bits})))
                    else:
                        ctx.report(f"fb:stored:{a['dtype']}:{p['pres']}", f"fb {job['compression'] or 'uncompressed'}: the bytes stored for attribute {a['name']} ({a['dtype']}{a['shape']}, presented {p['pres']}"
                                   f"{' from ' + p['src'] if 'src' in p else ''}) are {str(stored)[:80]}, the little-endian C-order bytes of the written value are {mhex[:80]}",
                                   {"job": job, "example": ei, "attribute": ai})
    except Broken as b:
        broken.append(b)
    # every reader
    for ji, (job, r) in enumerate(zip(jobs, res)):
        fmt = job["format"]
        stats["by_format"][fmt] = stats["by_format"].get(fmt, 0) + 1
        stats["compressions"][f"{fmt}:{job['compression']}"] = stats["compressions"].get(f"{fmt}:{job['compression']}", 0) + 1
        if r.get("write_error"):
            ctx.report(f"{fmt}:write-error", f"{fmt}: a valid write was rejected: {r['write_error']}", {"job": job})
            continue
        for ex in job["examples"]:
            for a, p in zip(job["attrs"], ex):
                stats["values"] += 1
                stats["by_pres"][p["pres"] + ("+narrow" if "src" in p else "")] = stats["by_pres"].get(p["pres"] + ("+narrow" if "src" in p else ""), 0) + 1
                stats["by_dtype"][a["dtype"]] = stats["by_dtype"].get(a["dtype"], 0) + 1
        for reader in job["readers"]:
            stats["readers"][f"{fmt}:{reader}"] = stats["readers"].get(f"{fmt}:{reader}", 0) + 1
            got = r["read"].get(reader)
            if isinstance(got, dict) and "unsupported" in got:
                stats["readers"][f"{fmt}:{reader}:unsupported-compression"] = stats["readers"].get(f"{fmt}:{reader}:unsupported-compression", 0) + 1
                continue
            if not isinstance(got, list):
                ctx.report(f"{fmt}:{reader}:error", f"{fmt} {job['compression']}: reader {reader} failed: {got}", {"job": job, "reader": reader})
                continue
            if len(got) != len(job["examples"]):
                ctx.report(f"{fmt}:{reader}:count", f"{fmt}: reader {reader} returned {len(got)} examples, {len(job['examples'])} were written", {"job": job, "reader": reader})
                continue
            if reader.endswith("_shuffled"):
                # order unknown: the multiset of examples must be the one the unshuffled reader of the same interface family returns (itself compared value by value)
                ref = r["read"].get("sync")
                if isinstance(ref, list) and sorted(json.dumps(x, sort_keys=True) for x in got) != sorted(json.dumps(x, sort_keys=True) for x in ref):
                    bad = [x for x in got if x not in ref]
                    ctx.report(f"{fmt}:{reader}:values", f"{fmt} {job['compression'] or 'uncompressed'}: reader {reader} (shuffle=100, file_parallelism=3) returned examples that were never written "
                                                         f"or returned some twice, e.g. {json.dumps(bad[:1])[:200]}", {"job": job, "reader": reader})
                stats["reads_compared"] += len(got)
                continue
            for ei, ex in enumerate(job["examples"]):
                for ai, (a, p) in enumerate(zip(job["attrs"], ex)):
                    stats["reads_compared"] += 1
                    g = got[ei][ai]
                    dt = a["dtype"]
                    kind, bits = expected[(ji, ei, ai)]
                    desc = f"{fmt} {job['compression'] or 'uncompressed'} reader={reader}: attribute {a['name']} ({dt}{a['shape']}, presented {p['pres']}{' from ' + p['src'] if 'src' in p else ''}) of example {ei}"
                    rp = {"job": job, "reader": reader, "example": ei, "attribute": ai}
                    if kind == "raw":
                        want = p["hex"]
                        if g["hex"] != want:
                            wb = bytes.fromhex(want)
                            if fmt == "npz" and bytes.fromhex(g["hex"]) == wb.rstrip(b"\x00"):
                                sig = f"npz-{dt}-trailing-nul"
                            else:
                                sig = f"{fmt}:{reader}:{dt}:bytes-differ"
                            ctx.report(sig, f"{desc}: wrote {want[:60]!r} read {g['hex'][:60]!r}", rp)
                        continue
                    src = p.get("src", dt)
                    # dtype and shape
                    want_dt = dt if fmt == "fb" else ("int64" if fmt == "tfrec" and dt in INTS else dt if fmt == "tfrec" else None)
                    if want_dt and g["dtype"] != want_dt:
                        ctx.report(f"{fmt}:{reader}:{dt}:dtype", f"{desc}: read back as {g['dtype']}, expected {want_dt}", rp)
                        continue
                    if g["shape"] != a["shape"]:
                        ctx.report(f"{fmt}:{reader}:{dt}:shape", f"{desc}: read back with shape {g['shape']}", rp)
                        continue
                    # value
                    if fmt == "tfrec" and dt in INTS:
                        s, w = INTS[src]
                        vals = [b - (1 << (8 * w)) if s and b >> (8 * w - 1) else b for b in p["bits"]]
                        want = b"".join(struct.pack("<q", v) for v in vals).hex()
                    elif fmt == "npz":
                        # npz keeps the dtype it was given
                        # npz keeps what it was given; np.savez stacks the examples of a shard, which may widen to their common dtype
                        if g["dtype"] == src:
                            want = le_hex(p["bits"], width(src))
                        elif g["dtype"] in INTS or g["dtype"] in FLOATS:
                            if decode_values(g["dtype"], g["hex"]) != decode_values(src, le_hex(p["bits"], width(src))):
                                ctx.report(f"npz:{reader}:{dt}:{p['pres']}+narrow:value", f"{desc}: wrote {decode_values(src, le_hex(p['bits'], width(src)))[:6]} as {src}, read {decode_values(g['dtype'], g['hex'])[:6]} as {g['dtype']}", rp)
                            continue
                        else:
                            ctx.report(f"npz:{reader}:{dt}:dtype", f"{desc}: written as {src}, read back as {g['dtype']}", rp)
                            continue
                    elif bits is not None:
                        want = le_hex(bits, width(dt))
                    else:
                        want = None      # int/float -> float cast: value equality judged by the runner's numpy cast is not available here; compare through float()
                    if want is None:
                        want = numpy_cast_hex(src, dt, p["bits"])
                    if g["hex"] != want:
                        if any((b >> FL[dt][1]) & ((1 << FL[dt][0]) - 1) == (1 << FL[dt][0]) - 1 and b & ((1 << FL[dt][1]) - 1) for b in p["bits"]) if dt in FL and src == dt else False:
                            stats["nan_values"] += 1
                        if fmt == "tfrec" and is_snan_quieting(dt, want, g["hex"]):
                            sig = f"tfrec-{dt}-snan-quieted"
                        else:
                            sig = f"{fmt}:{reader}:{dt}:{p['pres']}{'+narrow' if 'src' in p else ''}:value"
                        ctx.report(sig, f"{desc}: wrote {want[:64]} read {g['hex'][:64]}", rp)
    # npz: the model of stacking / indexing / NUL stripping against what the synchronous reader returns, shard by shard
    try:
        if not broken:
            npz_model_check(jobs, res, broken, stats)
    except Broken as b:
        broken.append(b)
    # the cast table against numpy
    table_bad = []
    if ct:
        names = ct["ints"]
        lines = ["Require Import Sedpack.Model.Base Sedpack.Model.Codec.",
                 "Eval vm_compute in map (fun a => map (can_cast_safe a) [" + "; ".join(coq_idt(n) for n in names) + "]) [" + "; ".join(coq_idt(n) for n in names) + "]."]
        try:
            if not broken:
                m = common.coq_answers(common.coq_eval(PID, "casttable", "\n".join(lines) + "\n"))[0]
                for i, a in enumerate(names):
                    for j, b in enumerate(names):
                        if bool(m[i][j]) != ct["safe"][i][j]:
                            table_bad.append((a, b))
                if table_bad:
                    broken.append(Broken("correspondence: can_cast_safe differs from np.can_cast(casting='safe')", json.dumps(table_bad)))
        except Broken as b:
            broken.append(b)
    return stats, n_model, n_agree, ct, table_bad


def npz_model_check(jobs, res, broken, stats):
    """Model/Npz.v evaluated on every shard of every npz job: fixed-width attributes written in their declared dtype (any layout) and bytes/str attributes."""
    head = ["Require Import Sedpack.Model.Base Sedpack.Generated.GenCodec Sedpack.Generated.GenNpz Sedpack.Model.Codec Sedpack.Model.Npz.", "Open Scope Z_scope.",
            "Definition tab (shape : list nat) (l : list Z) (idx : list nat) : Z := nth (ravel shape idx) l 0.",
            "Definition fixed (shape : list nat) (vals : list (list Z)) : list (list Z) :=",
            "  let st := npz_stack shape (map (tab shape) vals) in map (fun i => map (npz_read shape st i) (indices shape)) (seq 0 (length vals)).",
            "Definition strs (vals : list (list Z)) : list (list Z) := map (npz_read_str (npz_stack_str vals)) (seq 0 (length vals))."]
    zl = lambda l: "[" + "; ".join(str(x) for x in l) + "]"  # noqa: E731
    nl = lambda l: "[" + "; ".join(f"{x}%nat" for x in l) + "]"  # noqa: E731
    lines, where = [], []
    for ji, (job, r) in enumerate(zip(jobs, res)):
        if job["format"] != "npz" or job.get("big") or r.get("write_error") or not isinstance(r.get("read", {}).get("sync"), list):
            continue
        got = r["read"]["sync"]
        if len(got) != len(job["examples"]):
            continue
        eps = job.get("eps", 3)
        for s0 in range(0, len(job["examples"]), eps):
            grp = list(range(s0, min(s0 + eps, len(job["examples"]))))
            for ai, a in enumerate(job["attrs"]):
                ps = [job["examples"][ei][ai] for ei in grp]
                if a["dtype"] in ("bytes", "str"):
                    if a["dtype"] == "bytes":
                        vals = [list(bytes.fromhex(p["hex"])) for p in ps]
                        impl = [list(bytes.fromhex(got[ei][ai]["hex"])) for ei in grp]
                    else:
                        vals = [[ord(c) for c in bytes.fromhex(p["hex"]).decode("utf-8")] for p in ps]
                        impl = [[ord(c) for c in bytes.fromhex(got[ei][ai]["hex"]).decode("utf-8")] for ei in grp]
                    lines.append("Eval vm_compute in strs " + "[" + "; ".join(zl(v) for v in vals) + "].")
                    where.append((ji, grp, ai, impl))
                elif all("src" not in p and p["pres"] != "list" for p in ps) and all(got[ei][ai]["dtype"] == a["dtype"] for ei in grp):
                    w = width(a["dtype"])
                    impl = []
                    for ei in grp:
                        raw = bytes.fromhex(got[ei][ai]["hex"])
                        impl.append([int.from_bytes(raw[k:k + w], "little") for k in range(0, len(raw), w)])
                    lines.append(f"Eval vm_compute in fixed {nl(a['shape'])} " + "[" + "; ".join(zl(p["bits"]) for p in ps) + "].")
                    where.append((ji, grp, ai, impl))
    stats["npz_model_shard_attributes"] = len(where)
    if not where:
        return
    rc, log = common.coq_make(["Model/Npz.vo"])
    if rc:
        raise Broken("Model/Npz.v no longer compiles", log[-2000:])
    files = {f"npz{ci // 250}": "\n".join(head + lines[ci:ci + 250]) + "\n" for ci in range(0, len(lines), 250)}
    outs = common.coq_eval_many(PID, files)
    ans = []
    for ci in range(0, len(lines), 250):
        ans += common.coq_answers(outs[f"npz{ci // 250}"])
    dis = 0
    for (ji, grp, ai, impl), m in zip(where, ans):
        if [list(x) for x in m] != impl:
            dis += 1
            if dis <= 2:
                broken.append(Broken("correspondence npz model (stacking, indexing, NUL stripping) vs what the reader returns",
                                     json.dumps({"job": jobs[ji], "examples": grp, "attribute": ai, "model": [list(x) for x in m], "impl": impl})[:3000]))
    stats["npz_model_disagreements"] = dis


def run(ctx):
    broken = []
    tr = pygen.regenerate(REPO, COQ / "Generated", only=["GenCodec", "GenNpz"])
    if tr["GenCodec"]:
        broken.append(Broken("translator: GenCodec (the FlatBuffers attribute codec / decode_array / compress.py lost the shape the model assumes)", tr["GenCodec"]))
    if tr["GenNpz"]:
        broken.append(Broken("translator: GenNpz (the npz writer's buffering / np.savez call / the reader's indexing lost the shape the model assumes)", tr["GenNpz"]))
    proof = None
    if not broken:
        try:
            proof = common.check_property_file(PID)
        except Broken as b:
            broken.append(b)
    jobs = gen_jobs(ctx)
    stats, n_model, n_agree, ct, table_bad = check_jobs(ctx, jobs, broken)
    if broken and not ctx.violations:
        b = broken[0]
        ctx.report(f"broken:{b.what}", b.what, {"unchecked": b.what, "detail": b.detail[-3000:]}, found_input=False)
    ctx.sample(jobs[0])
    ctx.sample([j for j in jobs if not j.get("big")][-1])
    ctx.coverage.update({
        "obligations": proof["obligations"] if proof else 11, "discharged": proof["discharged"] if proof else 0,
        "theorems": proof["theorems"] if proof else [],
        "checker_cmd": "make -C coq Proofs/CodecProofs.vo && coqc -Q coq Sedpack coq/Properties/C01.v (Print Assumptions under each theorem)",
        "trusted_base": common.TRUSTED_BASE_COMMON + [
            "translator/pygen.py gen_codec: statement order of save_numpy_vector_as_bytearray (copy+flatten, safe-cast test, conversion, byte-order match, dump), decode_array (declared dtype, byte order, frombuffer, reshape), "
            "the per-attribute loop of the reader, RustGenerator.to_dict, and the compress/decompress tables are read from the source",
            "oracles (section hypotheses of C01_fb_shard_roundtrip, validated only by the runs): the FlatBuffers builder/reader (parse (build x) = x), every compressor (decompress (compress c) = c), "
            "NumPy's copy/flatten/astype honouring logical order and value, np.savez/np.load, tf.train.Example/parse_single_example, the Rust decompressors and FlatBuffers reader",
            "floating-point casts (narrower float or integer presented for a float attribute) are NumPy's; only integer casts are modelled and proved exact",
            "npz: Model/Npz.v models the buffering, np.asanyarray stacking (one dtype and shape per attribute), indexing along the leading axis and NumPy's S/U item semantics (pad to the common width, strip trailing NULs); "
            "the writer/reader statements are pinned (GenNpz) and the model is compared with the synchronous reader on every shard of every npz job; the .npy byte encoding itself is NumPy's (oracle)",
            "the TFRecord encoding is not modelled beyond the integer widening; its fidelity is measured by the runs"],
        "evaluations": stats["reads_compared"] + n_model, "distinct_nontrivial": stats["values"],
        "rule": "datasets written through Dataset.filler for fb/npz/tfrec x compression x dtype x shape (rank 0..4) x presentation (C, F, strided, reversed, transposed, big-endian, read-only, buffer reused after the write, "
                "safely castable narrower dtype, NumPy scalar, nested list) x extreme bit patterns (min/max, sign bit, +-0, +-inf, quiet/signalling NaN payloads, subnormals, random bits; bytes/str with NULs, empty, non-ASCII); "
                "the bytes lying in the .fb files are compared with the model's fb_write_attr, and what every reader returns (dtype, shape, bit pattern) with the written value",
        "input_distribution": stats, "model_vs_impl_compared": n_model, "model_vs_impl_agree": n_agree, "cast_table_cells": 64 if ct else 0, "cast_table_disagreements": len(table_bad),
        "unsupported_cells_not_run": ["npz + bytes/str attribute + as_tfdataset (TypeError: no TensorFlow dtype for 'bytes'): fails loudly for every such dataset",
                                      "attribute declared with an explicit byte order ('>i4', '<u2', '=i8') + as_tfdataset (TypeError: TensorFlow cannot convert the dtype string): fails loudly for every such dataset"],
    })
    ctx.assumptions += ["little-endian host (the big-endian host branch is covered by the theorem only)"]


def decode_values(dt, hexs):
    """The numbers a little-endian byte string holds (ints exactly, floats through Python floats; NaNs by bit pattern)."""
    raw = bytes.fromhex(hexs)
    w = width(dt)
    out = []
    for i in range(0, len(raw), w):
        b = int.from_bytes(raw[i:i + w], "little")
        if dt in INTS:
            s, _ = INTS[dt]
            v = b - (1 << (8 * w)) if s and b >> (8 * w - 1) else b
            out.append(v if v else ("zero", 0))
        else:
            v = struct.unpack({"float16": "<e", "float32": "<f", "float64": "<d"}[dt], raw[i:i + w])[0]
            if v != v:
                out.append(("nan", dt, b))
            elif v == 0:
                out.append(("zero", b >> (8 * w - 1)))
            elif v in (float("inf"), float("-inf")) or v != int(v):
                out.append(v)
            else:
                out.append(int(v))
    return out


def numpy_cast_hex(src, dst, bits):
    """Value-preserving cast of bit patterns from src to a float dst without numpy: through Python floats / ints (exact for every safe cast)."""
    w = width(src)
    if src in INTS and dst in INTS:
        # only reached when the Coq model could not be evaluated (a broken tie): the same value in the wider integer dtype
        s, _ = INTS[src]
        wd = width(dst)
        return b"".join(((b - (1 << (8 * w)) if s and b >> (8 * w - 1) else b) % (1 << (8 * wd))).to_bytes(wd, "little") for b in bits).hex()
    if src in INTS:
        s, _ = INTS[src]
        vals = [float(b - (1 << (8 * w)) if s and b >> (8 * w - 1) else b) for b in bits]
    else:
        code = {"float16": "<e", "float32": "<f", "float64": "<d"}[src]
        vals = [struct.unpack(code, int(b).to_bytes(w, "little"))[0] for b in bits]
    code = {"float16": "<e", "float32": "<f", "float64": "<d"}[dst]
    return b"".join(struct.pack(code, v) for v in vals).hex()


def replay(ctx, rp):
    job = rp["replay"].get("job")
    if not job:
        print("no concrete input in this replay file:", rp["replay"].get("unchecked"))
        return False
    broken = []
    before = len(ctx.violations)
    check_jobs(ctx, [job], broken)
    for v in ctx.violations[before:]:
        print(v["what"])
    for b in broken:
        print("broken:", b.what, b.detail[:500])
    return len(ctx.violations) == before and not broken
