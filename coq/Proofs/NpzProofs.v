Require Import Sedpack.Model.Base Sedpack.Generated.GenCodec Sedpack.Model.Codec Sedpack.Proofs.CodecProofs Sedpack.Generated.GenNpz Sedpack.Model.Npz.
Open Scope list_scope.

Lemma nth_concat_blocks {A} (n : nat) (d : A) : forall (ls : list (list A)) i j, (forall l, In l ls -> length l = n) ->
  (i < length ls)%nat -> (j < n)%nat -> nth (i * n + j) (concat ls) d = nth j (nth i ls []) d.
Proof.
  induction ls as [|l ls IH]; intros i j Hl Hi Hj; [cbn in Hi; lia|].
  cbn [concat]. destruct i as [|i].
  - rewrite app_nth1 by (rewrite (Hl l (or_introl eq_refl)); lia). reflexivity.
  - rewrite app_nth2 by (rewrite (Hl l (or_introl eq_refl)); lia). rewrite (Hl l (or_introl eq_refl)).
    replace (S i * n + j - n)%nat with (i * n + j)%nat by lia. cbn [nth]. apply IH; [intros l' Hin; apply Hl; right; exact Hin|cbn in Hi; lia|exact Hj].
Qed.

(** Every element of every example comes back: for every shape of any rank, every number of examples, every array function. *)
Theorem npz_fixed_roundtrip shape (vals : list (list nat -> Z)) i idx : (i < length vals)%nat -> in_range shape idx ->
  npz_read shape (npz_stack shape vals) i idx = nth i vals (fun _ => 0%Z) idx.
Proof.
  intros Hi Hr. unfold npz_read, npz_stack.
  rewrite (nth_concat_blocks (prod shape) 0%Z).
  - rewrite (nth_indep _ [] (map (fun _ => 0%Z) (indices shape))) by (rewrite map_length; exact Hi).
    rewrite (map_nth (fun arr => map arr (indices shape)) vals (fun _ => 0%Z) i). apply reshape_flatten. exact Hr.
  - intros l Hin. apply in_map_iff in Hin. destruct Hin as (arr & <- & _). rewrite map_length. apply indices_length.
  - rewrite map_length. exact Hi.
  - apply ravel_lt. exact Hr.
Qed.

(** *** strings *)
Lemma strip_nul_app_zeros l k : strip_nul (l ++ repeat 0%Z k) = strip_nul l.
Proof.
  induction l as [|x t IH]; cbn [app strip_nul].
  - induction k as [|k IHk]; [reflexivity|]. cbn [repeat strip_nul]. rewrite IHk. reflexivity.
  - rewrite IH. reflexivity.
Qed.

Theorem npz_str_readback vals i : (i < length vals)%nat -> npz_read_str (npz_stack_str vals) i = strip_nul (nth i vals []).
Proof.
  intros Hi. unfold npz_read_str, npz_stack_str.
  rewrite (nth_indep _ [] (pad (width vals) [])) by (rewrite map_length; exact Hi).
  rewrite (map_nth (pad (width vals)) vals [] i). unfold pad. apply strip_nul_app_zeros.
Qed.

Lemma strip_nul_id l : last l 1%Z <> 0%Z -> strip_nul l = l.
Proof.
  induction l as [|x t IH]; intros H; [reflexivity|]. cbn [strip_nul]. destruct t as [|y t'].
  - cbn in *. destruct (Z.eqb_spec x 0); [contradiction|reflexivity].
  - rewrite IH by exact H. reflexivity.
Qed.

Lemma strip_nul_last l : strip_nul l = l -> last l 1%Z <> 0%Z.
Proof.
  induction l as [|x t IH]; intros H; [cbn; discriminate|]. cbn [strip_nul] in H. destruct t as [|y t'].
  - cbn in *. destruct (Z.eqb_spec x 0); [discriminate|exact n].
  - destruct (strip_nul (y :: t')) as [|a r] eqn:E.
    + destruct (x =? 0)%Z; discriminate.
    + apply IH. congruence.
Qed.

(** a bytes / str value survives the npz shard exactly when it does not end in NUL *)
Theorem npz_str_exact_iff vals i : (i < length vals)%nat ->
  (npz_read_str (npz_stack_str vals) i = nth i vals [] <-> last (nth i vals []) 1%Z <> 0%Z).
Proof.
  intros Hi. rewrite (npz_str_readback vals i Hi). split; [apply strip_nul_last|apply strip_nul_id].
Qed.

(** ... so the unrestricted round-trip statement is FALSE for the npz format (finding F11): the witness is b"A\0" *)
Theorem npz_str_roundtrip_refuted : exists vals i, (i < length vals)%nat /\ npz_read_str (npz_stack_str vals) i <> nth i vals [].
Proof. exists [[65%Z; 0%Z]], 0%nat. split; [cbn; lia|]. vm_compute. discriminate. Qed.
