"""C04 — shard-list metadata always accounts exactly for what is stored."""
import json

from harness import common, history
from harness.common import Broken, COQ, REPO
from translator import pygen

PID = "C04"


def oracle_c04(h, k, d):
    bad = []
    if d.get("error_open"):
        return [("cannot-reopen", d["error_open"])]
    if d["error"]:
        kind = "assertion-in-merge" if d["error"].startswith("AssertionError") else "session-error"
        bad.append((kind, f"session {k} raised {d['error']}"))
    for p in d["problems"]:
        sig = ("in-memory-differs" if "held in memory" in p else "unlisted-shard" if "not listed" in p else
               "listed-twice" if "twice" in p else "count-mismatch" if ("records" in p or "total" in p or "recorded" in p) else
               "checksum-stale" if "checksum" in p else "metadata-inexact")
        bad.append((sig, f"after session {k}: {p}"))
    return bad


def run_history_check(ctx, PID, oracle, proof_target_note, extra_cov=None, extra_gens=()):
    broken = []
    gens = ["GenMerge", "GenFiller"] + list(extra_gens)
    tr = pygen.regenerate(REPO, COQ / "Generated", only=gens)
    for g in gens:
        if tr[g]:
            broken.append(Broken(f"translator: {g} (the source no longer has the shape the model transcribes)", tr[g]))
    proof = None
    if not broken:
        try:
            proof = common.check_property_file(PID)
        except Broken as b:
            broken.append(b)
    hs = history.corpus() + [history.gen_history(ctx.rng) for _ in range(ctx.scale(70, 1500))]
    impl = []
    for i in range(0, len(hs), 100):
        impl += common.run_impl("history_run.py", {"histories": hs[i:i + 100]}, timeout=2400)["results"]
    for h, dumps in zip(hs, impl):
        for k, d in enumerate(dumps):
            for sig, text in oracle(h, k, d):
                ctx.report(sig, text, {"history": h, "session": k, "impl": {x: d.get(x) for x in ("info", "problems", "error", "iterate", "check")}})
    disagreements = 0
    model_bad = 0
    if not any(tr.values()):
        try:
            rc, log = common.coq_make(["Model/Meta.vo"])
            if rc:
                raise Broken("Model/Meta.v no longer compiles against the generated kernels", log[-2000:])
            model = history.model_eval(PID, hs)
            for h, i, m in zip(hs, impl, model):
                d = history.compare(h, i, m)
                if d:
                    disagreements += 1
                    if disagreements <= 2:
                        broken.append(Broken("correspondence metadata-tree model vs implementation", json.dumps({"history": h, "diffs": d[:3]})))
                for mo in m:
                    cm = history.canon_model(mo)
                    if not cm.get("error") and not (cm["exact"] and cm["check"]):
                        model_bad += 1
        except Broken as b:
            broken.append(b)
    if broken and not ctx.violations:
        b = broken[0]
        ctx.report(f"broken:{b.what}", b.what, {"unchecked": b.what, "detail": b.detail[-3000:]}, found_input=False)
    feats = {}
    for h in hs:
        for f in history.features(h):
            feats[f] = feats.get(f, 0) + 1
    distinct = {json.dumps(h, sort_keys=True) for h in hs if history.features(h)}
    for h in hs[6:9]:
        ctx.sample(h)
    ctx.coverage.update({
        "obligations": proof["obligations"] if proof else 1, "discharged": proof["discharged"] if proof else 0,
        "theorems": proof["theorems"] if proof else [],
        "checker_cmd": f"make -C coq (dependencies of Properties/{PID}.v) && coqc -Q coq Sedpack coq/Properties/{PID}.v (Print Assumptions under each theorem)",
        "trusted_base": common.TRUSTED_BASE_COMMON + [
            "Model/Meta.v transcribes merge_shard_infos.py / write_config / close_shard / _shard_info_iterator by hand; every statement of merge_shard_infos is pinned by the translator, "
            "and the model is compared with the real library after every session of every generated history (all list files, counts, iteration order)",
            "modelled, not verified: pydantic (de)serialisation, the shard writers (an accepted write stores exactly that example), uuid4 freshness, a digest identifies a write event",
            proof_target_note],
        "evaluations": sum(len(h["sessions"]) for h in hs), "histories": len(hs),
        "distinct_nontrivial": len(distinct),
        "rule": "histories of 1..6 sessions over {root filler, sub-directory filler (fresh, reused, nested, below a known child), multi-writer call with 1..3 writers incl. empty ones} x "
                "reopen-or-keep handle x eps 1..4 x op lists around the shard-size boundaries; state dumped and compared after every session; "
                "non-trivial = reuses a directory, nests, writes below a known child, uses the multi-writer call, reopens, or has >= 3 sessions",
        "feature_counts": feats, "model_vs_impl_disagreements": disagreements,
        "traces_validated_against_impl": len(hs) - disagreements, "model_states_not_exact": model_bad,
    })
    if extra_cov:
        ctx.coverage.update(extra_cov)
    ctx.assumptions += ["sessions complete (no exception inside the with block escapes)", "one live handle at a time", "uuid4 names never repeat"]
    return hs, impl


def run(ctx):
    run_history_check(ctx, PID, oracle_c04, "see DESIGN.md C04 for what is theorem and what is correspondence")


def replay(ctx, rp):
    h = rp["replay"].get("history")
    if not h:
        print("no concrete input in this replay file:", rp["replay"].get("unchecked"))
        return False
    dumps = common.run_impl("history_run.py", {"histories": [h]})["results"][0]
    bad = [x for k, d in enumerate(dumps) for x in oracle_c04(h, k, d)]
    print(json.dumps({"history": h, "oracle": bad}, indent=1)[:3000])
    return not bad
