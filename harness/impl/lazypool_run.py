"""Run the real LazyPool/Collector threads under a controlled scheduler (no source change: the
`queue` module attribute of sedpack.io.itertools.lazy_pool is replaced by a gated queue whose
get/put park the calling thread until the scheduler grants exactly one operation).

stdin: {"trials":[{"T":..,"n":..,"seed":..,"fail":idx|null,"take":k|null,"strategy":..}]}
stdout: per trial: status, out, exc, trace [[tid, kind, queue, payload]], leftover threads, reuse result
payload codes: tp: input a -> a+10, sentinel -> 0 ; rs: result of a -> a+10, forwarded exception -> 1, sentinel -> 0
"""
import json
import random
import sys
import threading
import types
import queue as _queue

import sedpack.io.itertools.lazy_pool as lp

threading.excepthook = lambda a: None  # a dying worker must not spam stderr


class Deadlock(BaseException):
    pass


class Scheduler:
    def __init__(self, rng, strategy, T):
        self.cv = threading.Condition()
        self.pending = {}
        self.granted = None
        self.live = set()
        self.trace = []
        self.rng = rng
        self.strategy = strategy
        self.T = T
        self.deadlock = False
        self.tids = {"consumer": 0}
        self.marks = []
        self.timeouts = {}

    def tid(self, name):
        return self.tids[name]

    def register(self, name):
        with self.cv:
            self.live.add(name)
            if name not in self.tids:
                self.tids[name] = 2 + len([k for k in self.tids if k != "consumer"])
            self.cv.notify_all()

    def finished(self, name):
        with self.cv:
            self.live.discard(name)
            self.pending.pop(name, None)
            self.cv.notify_all()

    def request(self, name, kind, q, item=None):
        """kind: put | get (blocking) | tget (timed or non-blocking get: may report Empty) | sync (pure scheduling point)"""
        with self.cv:
            self.pending[name] = (kind, q, item)
            self.cv.notify_all()
            while self.granted != name:
                self.cv.wait()
                if self.deadlock:
                    raise Deadlock()
            self.granted = None
            del self.pending[name]
            try:
                if kind == "put":
                    q._items.append(item)
                    self.trace.append([self.tids[name], 0, q.label, code(item)])
                    return item
                if kind == "sync":
                    self.trace.append([self.tids[name], 4, 9, 0])
                    return None
                if kind == "tget" and not q._items:
                    self.trace.append([self.tids[name], 3, q.label, 0])
                    self.timeouts[name] = self.timeouts.get(name, 0) + 1
                    raise _queue.Empty()
                x = q._items.pop(0)
                self.timeouts[name] = 0
                self.trace.append([self.tids[name], 1, q.label, code(x)])
                return x
            finally:
                self.cv.notify_all()

    def choose(self, enabled):
        s = self.strategy
        names = sorted(enabled, key=lambda n: self.tids[n])
        if s == "random":
            return self.rng.choice(names)
        if s == "consumer_first":
            return "consumer" if "consumer" in names else self.rng.choice(names)
        if s == "consumer_last":
            rest = [n for n in names if n != "consumer"]
            return self.rng.choice(rest) if rest else "consumer"
        if s == "starve_worker":
            victim = 2 + (self.rng.randrange(self.T) if not hasattr(self, "_v") else self._v)
            self._v = victim - 2
            rest = [n for n in names if self.tids[n] != victim]
            return self.rng.choice(rest) if rest else names[0]
        if s == "lowest":
            return names[0]
        if s == "highest":
            return names[-1]
        if s == "bursty":
            last = getattr(self, "_last", None)
            if last in names and self.rng.random() < 0.8:
                return last
            self._last = self.rng.choice(names)
            return self._last
        return self.rng.choice(names)

    def run(self):
        with self.cv:
            while True:
                ok = self.cv.wait_for(lambda: self.granted is None and all(n in self.pending for n in self.live), timeout=20)
                if not self.live:
                    return "done"
                if not ok:
                    return "timeout"
                enabled = [n for n, (k, q, _) in self.pending.items() if k in ("put", "sync") or q._items]
                # a timed get on an empty queue may time out; do not let one thread spin while others can run
                timed = [n for n, (k, q, _) in self.pending.items() if k == "tget" and not q._items]
                cand = [n for n in timed if self.timeouts.get(n, 0) < 2 or not enabled]
                if self.strategy == "check_then_act" and "consumer" in self.pending:
                    # the consumer runs eagerly; right after it has passed a pure check (empty(), qsize(), is_alive()) it is held at its
                    # next request while every other thread runs as far as it can: the window of a check-then-act race
                    if getattr(self, "_held", False):
                        others = [n for n in enabled if n != "consumer"]
                        if others:
                            enabled = others
                        else:
                            self._held = False
                    if not getattr(self, "_held", False) and "consumer" in (enabled + cand):
                        k, q, _ = self.pending["consumer"]
                        if k == "sync":
                            self._held = True
                        if "consumer" in cand and "consumer" not in enabled:
                            enabled = enabled + ["consumer"]
                        if self.rng.random() < 0.85:
                            self.granted = "consumer"
                            self.cv.notify_all()
                            continue
                elif self.strategy == "timeout_then_workers" and "consumer" in self.pending:
                    # run the consumer eagerly until one of its timed gets fires on an empty queue, then hold it
                    # at its next scheduling point (e.g. an is_alive() poll) while all other threads run as far
                    # as they can
                    k, q, _ = self.pending["consumer"]
                    if k == "sync":
                        others = [n for n in enabled if n != "consumer"]
                        if others:
                            enabled = others
                    elif "consumer" in cand and self.rng.random() < 0.8:
                        self.granted = "consumer"
                        self.cv.notify_all()
                        continue
                    elif "consumer" in enabled and self.rng.random() < 0.8:
                        enabled = ["consumer"]
                elif cand and (not enabled or self.rng.random() < 0.3):
                    enabled = enabled + cand
                if not enabled:
                    self.deadlock = True
                    self.cv.notify_all()
                    return "deadlock"
                self.granted = self.choose(enabled)
                self.cv.notify_all()


def code(x):
    if isinstance(x, lp.StopSentinel):
        return 0
    if hasattr(lp, "RaisedInThread") and isinstance(x, lp.RaisedInThread):
        return 1
    if isinstance(x, Res):
        return x.a + 10
    return int(x) + 10


class Res:
    def __init__(self, a):
        self.a = a


SCHED = None
_qcount = [0]


class GatedQueue:
    def __class_getitem__(cls, k):
        return cls

    def __init__(self, *a, **k):
        self._items = []
        self.label = _qcount[0] % 2
        _qcount[0] += 1

    def put(self, x, *a, **k):
        SCHED.request(threading.current_thread().name, "put", self, x)

    def get(self, block=True, timeout=None):
        kind = "get" if (block and timeout is None) else "tget"
        return SCHED.request(threading.current_thread().name, kind, self)

    def get_nowait(self):
        return SCHED.request(threading.current_thread().name, "tget", self)

    def put_nowait(self, x):
        self.put(x)

    def qsize(self):
        SCHED.request(threading.current_thread().name, "sync", self)
        return len(self._items)

    def empty(self):
        SCHED.request(threading.current_thread().name, "sync", self)
        return not self._items


lp.queue = types.SimpleNamespace(Queue=GatedQueue, Empty=_queue.Empty)
_orig_run = lp.Collector.run
_orig_start = lp.Collector.start


def _run(self):
    try:
        _orig_run(self)
    except Deadlock:
        pass
    finally:
        SCHED.finished(self.name)


def _start(self):
    SCHED.register(self.name)
    _orig_start(self)


def _is_alive(self):
    cur = threading.current_thread().name
    if SCHED is not None and cur in SCHED.live:
        SCHED.request(cur, "sync", None)
        return self.name in SCHED.live
    return threading.Thread.is_alive(self)


def _join(self, timeout=None):
    cur = threading.current_thread().name
    if SCHED is not None and cur in SCHED.live and timeout is None:
        while self.name in SCHED.live:
            SCHED.request(cur, "sync", None)
        return None
    return threading.Thread.join(self, timeout)


lp.Collector.run = _run
lp.Collector.start = _start
lp.Collector.is_alive = _is_alive
lp.Collector.join = _join


def trial(t):
    global SCHED
    T, n = t["T"], t["n"]
    SCHED = Scheduler(random.Random(t["seed"]), t.get("strategy", "random"), T)
    _qcount[0] = 0
    res = {"out": [], "exc": None, "reuse": None, "first_pass_ops": None, "abandon_at": None}
    fail, take = t.get("fail"), t.get("take")

    class Cancelled(BaseException):
        """a failure that is not derived from Exception (like SystemExit, KeyboardInterrupt, asyncio.CancelledError)"""

    def f(x):
        if x == fail:
            if t.get("fail_kind") == "base":
                raise Cancelled("boom")
            raise RuntimeError("boom")
        return Res(x)

    kept = []       # an abandoned generator the consumer still holds a reference to (closed only during the next use of the pool)

    def consumer():
        try:
            pool = lp.LazyPool(T)
            try:
                with pool:
                    for (n0, take0) in t.get("before", []):
                        got = []
                        for y in pool.imap_unordered(lambda x: Res(x), range(n0)):
                            got.append(y.a)
                            if take0 is not None and len(got) >= take0:
                                break
                        res.setdefault("before_out", []).append(got)
                        _qcount[0] = 0
                    gen = pool.imap_unordered(f, range(n))
                    if t.get("keep"):
                        kept.append(gen)
                    for y in gen:
                        res["out"].append(y.a)
                        if take is not None and len(res["out"]) >= take:
                            res["abandon_at"] = len(SCHED.trace)
                            break
            except Deadlock:
                raise
            except BaseException as e:  # noqa: BLE001
                res["exc"] = type(e).__name__
            res["first_pass_ops"] = len(SCHED.trace)
            res["state_after"] = [pool._active_threads, pool._to_process is None, pool._results is None]
            if t.get("reuse"):
                _qcount[0] = 0
                with pool:
                    got2 = []
                    for y in pool.imap_unordered(lambda x: Res(x), range(t.get("reuse_n", 3))):
                        got2.append(y.a)
                        if kept and len(got2) == 1:
                            kept.pop().close()        # the old, abandoned generator is finalised while the pool serves a new iteration
                    res["reuse"] = sorted(got2)
        except Deadlock:
            res["exc"] = "Deadlock"
        except BaseException as e:  # noqa: BLE001
            res["exc2"] = type(e).__name__ + ": " + str(e)[:100]
        finally:
            SCHED.finished("consumer")

    th = threading.Thread(target=consumer, name="consumer")
    SCHED.register("consumer")
    before = {x.name for x in threading.enumerate()}
    th.start()
    status = SCHED.run()
    th.join(5)
    leftover = []
    for x in threading.enumerate():
        if isinstance(x, lp.Collector):
            x.join(2)
            if x.is_alive():
                leftover.append(x.name)
    res.update({"status": status, "trace": SCHED.trace, "leftover_threads": len(leftover),
                "pending": {str(SCHED.tids[k]): [v[0], v[1].label] for k, v in SCHED.pending.items()} if status != "done" else {}})
    return res


def main():
    req = json.load(sys.stdin)
    out = [trial(t) for t in req["trials"]]
    print("@@RESULT@@" + json.dumps({"results": out}))
    sys.stdout.flush()
    import os
    os._exit(0)  # leaked (deadlocked) threads must not keep the process alive


main()
