"""C19 — repeating iteration cycles through the whole split forever."""
import json

from harness import common, combinators, iterlib
from harness.common import Broken, COQ, REPO
from translator import pygen

PID = "C19"
GENS = ["GenIter", "GenRegistry"]


def jobs_for(ctx, n):
    rng = ctx.rng
    jobs = []
    for _ in range(n):
        spec = iterlib.gen_dataset(rng, min_shards=rng.choice([1, 2, 3, 5]), max_sessions=2)
        reqs = []
        for iface in iterlib.ifaces_for(spec):
            for sh in ([0, rng.choice([1, 2, 5, 40])] if ctx.quick else [0, 1, 3, 40]):
                reqs.append({"iface": iface, "split": 0, "shuffle": sh, "repeat": True, "file_parallelism": rng.choice([1, 2, 3, 4, 5, 8, 16]),
                             "epochs": rng.choice([2, 3]), "extra": rng.choice([0, 1, 2])})
        if "tf" in iterlib.ifaces_for(spec):
            # batches that do not divide the split: a batch may straddle two epochs, nothing may be dropped at the boundary
            reqs.append({"iface": "tf", "split": 0, "shuffle": 0, "repeat": True, "file_parallelism": rng.choice([1, 2, 4]), "batch": rng.choice([2, 3, 5, 7, 16]),
                         "epochs": 3, "extra": rng.choice([0, 1])})
        jobs.append({"dataset": spec, "requests": reqs})
    # very long streams: a thousand and more epochs of a tiny split (anything that grows per epoch -- recursion depth, a list, a counter -- shows only then)
    Wl = ["W", 0, None, True]
    spec = {"format": "fb", "compression": "", "eps": 2, "sessions": [{"kind": "filler", "sub": [], "reopen": False, "ops": [Wl] * 3}]}
    jobs.append({"dataset": spec, "requests": [{"iface": iface, "split": 0, "shuffle": sh, "repeat": True, "file_parallelism": 2, "epochs": 1300, "extra": 1}
                                               for iface in ("sync", "concurrent", "async", "rust") for sh in ((0, 2) if iface == "sync" else (0,))]})
    # a split of several thousand examples over two and a half epochs (anything capped at a few thousand shows only then)
    spec = {"format": "fb", "compression": "", "eps": 700, "sessions": [{"kind": "filler", "sub": [], "reopen": False, "ops": [Wl] * 5000}]}
    jobs.append({"dataset": spec, "requests": [{"iface": iface, "split": 0, "shuffle": 0, "repeat": True, "file_parallelism": 2, "epochs": 2, "extra": 2500}
                                               for iface in (("sync", "async") if ctx.quick else ("sync", "concurrent", "async", "rust", "tf"))]})
    # two repeating streams alive at once and pulled alternately (training / validation), per interface
    W = lambda s: ["W", s, None, True]  # noqa: E731
    for fmt, comp in (("fb", ""), ("fb", "LZ4"), ("npz", "")):
        spec = {"format": fmt, "compression": comp, "eps": 2, "sessions": [{"kind": "filler", "sub": [], "reopen": False,
                "ops": [W(0)] * 5 + [W(1)] * 3 + [W(0)] * 2}]}
        reqs = []
        for iface in [i for i in iterlib.ifaces_for(spec) if i != "async"]:
            for sh in (0, 3):
                reqs.append({"iface": iface, "split": 0, "shuffle": sh, "repeat": True, "file_parallelism": 2, "epochs": 3, "extra": 1, "pairing": True,
                             "pair": {"iface": iface, "split": 1, "shuffle": sh, "repeat": True, "file_parallelism": 2, "take": 10}})
        jobs.append({"dataset": spec, "requests": reqs})
    # any number of streams alive at once, pulled and dropped in an arbitrary order (the registry of live Rust iterators; Model/Registry.v)
    for n in range(ctx.scale(3, 24)):
        fmt, comp = rng.choice([("fb", ""), ("fb", "LZ4"), ("fb", "GZIP"), ("npz", "")]) if n else ("fb", "")
        eps = rng.choice([1, 2, 3])
        spec = {"format": fmt, "compression": comp, "eps": eps, "sessions": [{"kind": "filler", "sub": [], "reopen": False,
                "ops": [W(0)] * rng.choice([1, 3, 5]) + [W(1)] * rng.choice([1, 2, 4]) + [W(2)] * rng.choice([1, 2, 3]) + [W(0)] * rng.choice([0, 2])}]}
        reqs = []
        for iface in [i for i in iterlib.ifaces_for(spec) if i != "async"]:
            for _k in range(2 if iface != "rust" else (3 if ctx.quick else 6)):
                k = rng.choice([2, 2, 3, 4])
                streams = [{"split": rng.choice([0, 1, 2]), "repeat": rng.random() < 0.7, "shuffle": 0, "file_parallelism": rng.choice([1, 2, 3])} for _ in range(k)]
                ops = []
                for _o in range(rng.choice([12, 25, 40])):
                    ops.append(["A", rng.randrange(k)] if rng.random() < 0.06 else ["P", rng.randrange(k)])
                reqs.append({"iface": iface, "split": 0, "shuffle": 0, "repeat": True, "multi": {"streams": streams, "ops": ops}, "multi_req": True, "epochs": 0, "extra": 0})
        jobs.append({"dataset": spec, "requests": reqs})
    return jobs


def multi_oracle(q, ans, reference):
    """The property on several live streams: stream i receives the one-pass sequence of ITS split, repeated; it ends only if it was dropped,
    or is not repeating and has received its whole pass; it never fails."""
    m = q["multi"]
    got = {i: [] for i in range(len(m["streams"]))}
    dropped = set()
    for (kind, i), a in zip(m["ops"], ans):
        st = m["streams"][i]
        ref = reference[str(st["split"])]["seq"]
        if kind == "A":
            dropped.add(i)
            if a is not None:
                return f"dropping stream {i} failed: {a}"
            continue
        if isinstance(a, str) and a.startswith("error"):
            return f"stream {i} (split {st['split']}) failed with {a} after {len(got[i])} examples"
        if a == "stop":
            if i in dropped or (not st["repeat"] and got[i] == ref):
                continue
            return f"stream {i} (split {st['split']}, repeat={st['repeat']}) ended after {got[i]} although it was not dropped; its split holds {ref}"
        if i in dropped:
            return f"stream {i} was dropped but still delivers {a}"
        pos = len(got[i])
        if (not st["repeat"] and pos >= len(ref)) or a != ref[pos % len(ref)]:
            return (f"stream {i} (split {st['split']}, repeat={st['repeat']}) received {a} at position {pos}; its split holds {ref}"
                    f"{' (an example of another split)' if a not in ref else ''}")
        got[i].append(a)
    return None


def registry_model(cases):
    """cases: [(passes per stream, repeat flags, ops)] -> the model's answers, evaluated by coqc."""
    body = ["Require Import Sedpack.Model.Base Sedpack.Generated.GenRegistry Sedpack.Model.Registry.", "From Coq Require Import NArith.",
            "Definition ans (r : option (@res N)) : N * N := match r with Some (Yield e) => (0, e) | Some Stop => (1, 0) | Some Panic => (2, 0) | Some OutOfFuel => (3, 0) | None => (4, 0) end%N.",
            "Definition go (ps : list (list N)) (rp : list bool) (ops : list op) : list (N * N) :=",
            "  map ans (snd (run (fun n => n) (init (fun i _ => nth i ps []) (fun i => nth i rp false)) ops))."]
    for ps, rp, ops in cases:
        body.append("Eval vm_compute in go " + common.clist(ps, lambda l: common.clist(l, lambda x: f"{x}%N")) + " " + common.clist(rp, lambda b: "true" if b else "false")
                    + " " + common.clist(ops, lambda o: f"{'Pull' if o[0] == 'P' else 'Abandon'} {o[1]}") + ".")
    return common.coq_answers(common.coq_eval(PID, "registry", "\n".join(body) + "\n"))


def run(ctx):
    broken = []
    tr = pygen.regenerate(REPO, COQ / "Generated", only=GENS)
    for g in GENS:
        if tr[g]:
            broken.append(Broken(f"translator: {g}", tr[g]))
    proof = None
    if not broken:
        try:
            proof = common.check_property_file(PID)
        except Broken as b:
            broken.append(b)
    jobs = jobs_for(ctx, ctx.scale(8, 80))
    # the number of examples of split 0 is only known after the build: take = epochs*N + extra is resolved by a first pass
    sizes = iterlib.run_jobs([{"dataset": j["dataset"], "requests": []} for j in jobs])
    for j, s in zip(jobs, sizes):
        n = len(s["reference"]["0"]["seq"]) if "reference" in s else 1
        for q in j["requests"]:
            q["take"] = q["epochs"] * n + q["extra"]
            if q.get("multi_req"):
                q.pop("take")
    res = iterlib.run_jobs(jobs, timeout=60)
    runs, nontrivial = 0, set()
    nmulti, mcases, mwhere = 0, [], []
    for job, r in zip(jobs, res):
        if "build_error" in r:
            ctx.report("harness", r["build_error"], {"job": job}, found_input=False)
            continue
        ref = r["reference"]["0"]["seq"]
        n = len(ref)
        for q, o in zip(job["requests"], r["results"]):
            if o.get("skipped"):
                continue
            runs += 1
            one = {"dataset": job["dataset"], "requests": [q]}
            if o.get("hang"):
                ctx.report("repeating-stream-stalls", f"{q}: {q['take']} examples not delivered within the watchdog", {"job": one})
                continue
            if o.get("error"):
                ctx.report("iteration-error", f"{q}: {o['error']}", {"job": one})
                continue
            out = o["out"]
            if q.get("multi"):
                nmulti += 1
                nontrivial.add(json.dumps([job["dataset"]["format"], q["iface"], q["multi"]]))
                bad = multi_oracle(q, out, r["reference"])
                if bad:
                    ctx.report("interleaved-streams-interfere", f"{q['iface']}: {len(q['multi']['streams'])} streams alive at once, ops {q['multi']['ops'][:14]}..: {bad}", {"job": one})
                if q["iface"] == "rust":
                    mcases.append(([r["reference"][str(st["split"])]["seq"] for st in q["multi"]["streams"]], [st["repeat"] for st in q["multi"]["streams"]], q["multi"]["ops"]))
                    mwhere.append((one, out))
                continue
            if q.get("pair"):
                out, other = o["out"]
                ref1 = r["reference"]["1"]["seq"]
                bad1 = sorted(set(other) - set(ref1))
                if bad1 or len(other) != q["pair"]["take"] or (q["shuffle"] == 0 and any(x != ref1[i % len(ref1)] for i, x in enumerate(other))):
                    ctx.report("interleaved-streams-interfere", f"{q['iface']} shuffle={q['shuffle']}: with two repeating streams alive, the stream of split 1 returned {other[:12]} (split holds {ref1})",
                               {"job": one})
            nontrivial.add(json.dumps([job["dataset"]["format"], q["iface"], q["shuffle"], q["file_parallelism"], n, q["take"]]))
            if len(out) != q["take"]:
                ctx.report("stream-ends", f"{q['iface']} shuffle={q['shuffle']} repeat=True ended after {len(out)} of {q['take']} examples", {"job": one})
                continue
            foreign = sorted(set(out) - set(ref))
            if foreign:
                ctx.report("foreign-example", f"{q['iface']} shuffle={q['shuffle']}: examples {foreign[:8]} are not in the split", {"job": one})
            if q["shuffle"] == 0:
                bad = next((i for i, x in enumerate(out) if x != ref[i % n]), None)
                if bad is not None:
                    ctx.report("not-periodic", f"{q['iface']} file_parallelism={q['file_parallelism']} unshuffled repeating stream differs from the periodic one-pass sequence at position {bad} "
                                               f"(epoch {bad // n}): got {out[bad:bad + 6]} expected {[ref[(bad + d) % n] for d in range(6)]}", {"job": one, "got": out, "one_pass": ref})
            if q["iface"] == "rust":
                for e in range(len(out) // n):
                    blk = out[e * n:(e + 1) * n]
                    if sorted(blk) != sorted(ref):
                        ctx.report("rust-epoch-not-a-permutation", f"rust shuffle={q['shuffle']} epoch {e} is {blk[:12]}.. not a permutation of the split", {"job": one, "got": out})
                        break
    dis, ncomb, rdis = 0, 0, 0
    if not any(tr.values()):
        try:
            rc, log = common.coq_make(["Model/Iter.vo"])
            if rc:
                raise Broken("Model/Iter.v no longer compiles", log[-2000:])
            sb, rr, _r, br, dis = combinators.check(ctx, PID)
            ncomb = len(sb) + len(rr)
            broken += br
            rc, log = common.coq_make(["Model/Registry.vo"])
            if rc:
                raise Broken("Model/Registry.v no longer compiles against the generated kernel", log[-2000:])
            code = {0: None, 1: "stop", 2: "error:panic", 3: "error:fuel", 4: None}
            for (one, out), ma in zip(mwhere, registry_model(mcases) if mcases else []):
                want = [int(v) if int(c) == 0 else code[int(c)] for c, v in ma]
                got = [("error:panic" if isinstance(a, str) and a.startswith("error") else a) for a in out]
                if want != got:
                    rdis += 1
                    if rdis <= 2:
                        broken.append(Broken("correspondence registry model vs the Rust interface (several live streams)", json.dumps({"job": one, "model": want, "impl": out})))
        except Broken as b:
            broken.append(b)
    if broken and not ctx.violations:
        b = broken[0]
        ctx.report(f"broken:{b.what}", b.what, {"unchecked": b.what, "detail": b.detail[-3000:]}, found_input=False)
    ctx.sample(jobs[0]["requests"][0])
    ctx.coverage.update({
        "obligations": proof["obligations"] if proof else 3, "discharged": proof["discharged"] if proof else 0,
        "theorems": proof["theorems"] if proof else [],
        "checker_cmd": "make -C coq Proofs/IterProofs.vo && coqc -Q coq Sedpack coq/Properties/C19.v (Print Assumptions under each theorem)",
        "trusted_base": common.TRUSTED_BASE_COMMON + [
            "itertools.cycle is the periodic stream of its argument (oracle, matched by cycle_source); reading a shard is a function of its path",
            "Model/Registry.v transcribes RustGenerator (control flow regenerated from dataset_iteration.py) and the registry of rust/src/lib.rs (pinned text) by hand; hypothesis of its theorems: the random keys never repeat (rand::random::<usize>()); "
            "an ExampleIterator delivers the examples of its shards in order (C15); the model's answers are compared with the real interface on every multi-stream request",
            "tf.data repeat is validated on the implementation only (prefixes of 2-3 epochs)"],
        "evaluations": runs + ncomb, "distinct_nontrivial": len(nontrivial) + ncomb,
        "rule": "prefixes of epochs*N+extra examples (epochs 2..3, extra 0..2) of every interface with repeat=True x shuffle in {0,1,2,3,5,40} x file_parallelism in {1..16} on generated datasets; "
                "unshuffled must equal the one-pass sequence repeated; shuffled must stay inside the split; rust epochs must be permutations; "
                "plus 2..4 streams (repeating or not, over different splits) of one interface alive at once, pulled and dropped in random order (12..40 operations)",
        "multi_stream_requests": nmulti, "registry_model_cases": len(mcases), "registry_model_vs_impl_disagreements": rdis, "pipeline_runs": runs, "combinator_cases": ncomb, "model_vs_impl_disagreements": dis, "traces_validated_against_impl": ncomb - dis + len(mcases) - rdis,
    })
    ctx.assumptions += ["the selected split is non-empty"]


def replay(ctx, rp):
    job = rp["replay"].get("job")
    if not job:
        print("no concrete input in this replay file:", rp["replay"].get("unchecked"))
        return False
    r = iterlib.run_jobs([job], timeout=60)[0]
    q, o = job["requests"][0], r["results"][0]
    ref = r["reference"]["0"]["seq"]
    out = o.get("out", [])
    print(json.dumps({"one_pass": ref, "got": out, "error": o.get("error"), "hang": o.get("hang")})[:2000])
    if q.get("multi"):
        bad = None if o.get("error") or o.get("hang") else multi_oracle(q, out, r["reference"])
        print(bad)
        return not (o.get("error") or o.get("hang") or bad)
    if o.get("error") or o.get("hang") or len(out) != q["take"] or set(out) - set(ref):
        return False
    if q["shuffle"] == 0 and any(x != ref[i % len(ref)] for i, x in enumerate(out)):
        return False
    return True
