(** C01 — round-trip fidelity (FlatBuffers codec on bit patterns; integer casts; codec pairs).
    Only statements, closed by [exact], with [Print Assumptions] beneath. *)
Require Import Coq.Strings.String.
Require Import Sedpack.Model.Base Sedpack.Generated.GenCodec Sedpack.Model.Codec Sedpack.Proofs.CodecProofs.
Require Import Sedpack.Generated.GenNpz Sedpack.Model.Npz Sedpack.Proofs.NpzProofs.
Open Scope list_scope.
Open Scope Z_scope.

(** every element width, every bit pattern *)
Theorem C01_le_roundtrip : forall w x, 0 <= x < 2 ^ (8 * Z.of_nat w) -> le_decode (le_encode w x) = x.
Proof. exact le_roundtrip. Qed.
Print Assumptions C01_le_roundtrip.

(** whatever byte-order flag the converted array carries and whatever the machine's byte order, the bytes handed to the
    container are the little-endian ones (the branch table is regenerated from the writer's match statement) *)
Theorem C01_stored_little_endian : forall f s w x, s <> SysOther -> f <> BOther -> (f = BNone -> (w <= 1)%nat) ->
  stored_bytes f s w x = Some (le_encode w x).
Proof. exact stored_le. Qed.
Print Assumptions C01_stored_little_endian.

(** one attribute: for every array (a function on multi-indices, hence every memory layout), every shape of any rank,
    every width: writing then decoding with the declared width and shape returns every element unchanged *)
Theorem C01_fb_attr_roundtrip : forall f s w shape (arr : list nat -> Z),
  s <> SysOther -> f <> BOther -> (f = BNone -> (w <= 1)%nat) ->
  (forall idx, in_range shape idx -> 0 <= arr idx < 2 ^ (8 * Z.of_nat w)) ->
  exists bytes, fb_write_attr f s w shape arr = Some bytes /\ length bytes = (w * prod shape)%nat /\
    forall idx, in_range shape idx -> fb_read_attr s w shape bytes idx = arr idx.
Proof. exact fb_attr_roundtrip. Qed.
Print Assumptions C01_fb_attr_roundtrip.

(** a whole shard: the container (FlatBuffers builder/reader) and the compressor are oracles with the stated inverse laws *)
Theorem C01_fb_shard_roundtrip : forall (container file : Type)
  (build : list (list (list Z)) -> container) (parse : container -> list (list (list Z))),
  (forall x, parse (build x) = x) ->
  forall (compress : container -> file) (decompress : file -> container),
  (forall c, decompress (compress c) = c) ->
  forall f s, s <> SysOther -> f <> BOther /\ f <> BNone ->
  forall decls exs, (forall ex, List.In ex exs -> well_formed decls ex) ->
  exists fl, write_shard container file build compress f s decls exs = Some fl /\
    forall e a idx, (e < length exs)%nat -> (a < length decls)%nat -> in_range (snd (nth a decls (0%nat, []))) idx ->
      read_value container file parse decompress s decls fl e a idx = nth a (nth e exs []) (fun _ => 0) idx.
Proof. exact fb_shard_roundtrip. Qed.
Print Assumptions C01_fb_shard_roundtrip.

(** a safely castable integer presentation stores the same number *)
Theorem C01_safe_cast_exact : forall a b x, (0 < wd a)%nat -> 0 <= x < 2 ^ (8 * Z.of_nat (wd a)) -> can_cast_safe a b = true ->
  interp b (cast a b x) = interp a x.
Proof. exact safe_cast_exact. Qed.
Print Assumptions C01_safe_cast_exact.

(** TFRecord: integers widened to int64 keep their value *)
Theorem C01_tfrec_widen_exact : forall a x, (0 < wd a <= 8)%nat -> (sgn a = false -> (wd a < 8)%nat) -> 0 <= x < 2 ^ (8 * Z.of_nat (wd a)) ->
  interp {| sgn := true; wd := 8 |} (cast a {| sgn := true; wd := 8 |} x) = interp a x.
Proof. exact tfrec_widen_exact. Qed.
Print Assumptions C01_tfrec_widen_exact.

(** every compression type is decompressed by the library that compressed it (tables regenerated from compress.py) *)
Theorem C01_codec_pairs_agree : forall e, List.In e compress_table -> List.In e decompress_table.
Proof. exact codec_pairs_agree. Qed.
Print Assumptions C01_codec_pairs_agree.

(** npz, fixed-width attributes: np.copy per value, one stacked array per attribute, example i = element i along the leading axis —
    every element of every example comes back, for every shape, every number of examples, every array function (memory layout). *)
Theorem C01_npz_fixed_roundtrip : forall shape (vals : list (list nat -> Z)) i idx, (i < length vals)%nat -> in_range shape idx ->
  npz_read shape (npz_stack shape vals) i idx = nth i vals (fun _ => 0) idx.
Proof. exact npz_fixed_roundtrip. Qed.
Print Assumptions C01_npz_fixed_roundtrip.

(** npz, bytes / str attributes (NumPy S / U arrays): what comes back is the value without its trailing NULs, so a value survives
    exactly when it does not end in NUL ... *)
Theorem C01_npz_str_exact_iff : forall vals i, (i < length vals)%nat ->
  (npz_read_str (npz_stack_str vals) i = nth i vals [] <-> last (nth i vals []) 1 <> 0).
Proof. exact npz_str_exact_iff. Qed.
Print Assumptions C01_npz_str_exact_iff.

(** ... and the unrestricted round-trip statement is false for this format (finding F11, witness b"A\0"; replayed on the library by the check). *)
Theorem C01_npz_str_roundtrip_refuted : exists vals i, (i < length vals)%nat /\ npz_read_str (npz_stack_str vals) i <> nth i vals [].
Proof. exact npz_str_roundtrip_refuted. Qed.
Print Assumptions C01_npz_str_roundtrip_refuted.

(** non-vacuity: a 2x3 array of int16 bit patterns incl. the sign bit, presented in any layout, on both machine byte orders *)
Theorem C01_nonvacuous :
  let arr := fun idx => match idx with [i; j] => 32768 + Z.of_nat (10 * i + j) | _ => 0 end in
  fb_write_attr BNative SysLittle 2 [2; 3]%nat arr = fb_write_attr BNative SysBig 2 [2; 3]%nat arr
  /\ option_map (fun b => map (fb_read_attr SysLittle 2 [2; 3]%nat b) [[0; 0]; [1; 2]]%nat) (fb_write_attr BNative SysLittle 2 [2; 3]%nat arr) = Some [32768; 32780]
  /\ interp {| sgn := true; wd := 2 |} 32780 = -32756
  /\ List.In ("LZ4", "lz4.frame")%string compress_table.
Proof. vm_compute. repeat split; auto 10. Qed.
Print Assumptions C01_nonvacuous.
