#!/usr/bin/env python3
"""Rewrite section 13.7 of DESIGN.md (the list of property theorems) from coq/Properties/*.v."""
import re
from pathlib import Path
V = Path("/verif")
lines = []
total = 0
for f in sorted((V / "coq/Properties").glob("C*.v")):
    names = re.findall(r"^Theorem\s+(\w+)", f.read_text(), flags=re.M)
    total += len(names)
    lines.append(f"* **{f.stem}** ({len(names)}): " + ", ".join(f"`{n}`" for n in names))
nlines = sum(len(f.read_text().splitlines()) for sub in ("Model", "Proofs") for f in (V / "coq" / sub).glob("*.v"))
d = (V / "DESIGN.md").read_text()
d = re.sub(r"all \d+ property theorems", f"all {total} property theorems", d)
i = d.index("### 13.7 The property theorems")
j = d.find("\n### ", i + 5)
j = len(d) if j < 0 else j
head = d[i:d.index("\n", i) + 1]
d = d[:i] + head + "\n" + "\n".join(lines) + f"\n\n{total} theorems in the property files; about {nlines // 50 * 50} lines of Gallina under `coq/Model` and `coq/Proofs`.\n" + d[j:]
(V / "DESIGN.md").write_text(d)
print(total)
