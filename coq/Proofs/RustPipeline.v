(** C02/C03/C19: as_numpy_iterator_rust as a whole — every pass is the generated composition [anr] (shard-level shuffle of the selected
    paths, the examples of those shards in order, process_record), and the passes of any number of generators reach their consumers
    through the shared registry of live Rust iterators (Model/Registry.v), in any interleaving. *)
Require Import Sedpack.Model.Base Sedpack.Generated.GenIter Sedpack.Model.Iter Sedpack.Model.PipeBase Sedpack.Generated.GenPipeline Sedpack.Proofs.IterProofs Sedpack.Proofs.PipelineProofs.
Require Import Sedpack.Generated.GenRegistry Sedpack.Model.Registry Sedpack.Proofs.RegistryProofs.
From Coq Require Import Permutation.

Section R.
Variables (path ex : Type) (read : path -> list ex) (process : ex -> ex).
Variable idgen : nat -> nat.
Hypothesis idgen_inj : forall a b, idgen a = idgen b -> a = b.
(** per generator: selected paths, shuffle size, process_record present?, repeat flag; per generator and pass: the random choices *)
Variables (paths : nat -> list path) (shuffle : nat -> nat) (hp : nat -> bool) (rep : nat -> bool).
Variables (pick : nat -> nat -> nat -> nat -> nat) (perm : nat -> nat -> list path -> list path).
Hypothesis pick_ok : forall i n j len, 0 < len -> pick i n j len < len.
Hypothesis perm_ok : forall i n l, Permutation (perm i n l) l.
Hypothesis paths_ne : forall i, paths i <> [].

Definition rust_pass (i n : nat) : list ex := anr path ex read process (pick i n) (perm i n) (shuffle i) (hp i) (paths i).

(** every interleaving of pulls and drops: what consumer i received is whole passes plus a prefix of the current pass, each pass a
    permutation of [spec] = every example of every selected shard of generator i, processed once; nothing fails *)
Theorem rust_interface_exactly_once ops i :
  let rs := snd (run idgen (init rust_pass rep) ops) in
  (exists n k, stream i ops rs = concat (map (rust_pass i) (seq 0 n)) ++ firstn k (rust_pass i n)) /\
  (forall n, Permutation (rust_pass i n) (spec path ex read process (hp i) (paths i))) /\
  ~ In (Some Panic) rs.
Proof.
  cbv zeta. destruct (streams_isolated idgen idgen_inj rust_pass rep ops i) as [H1 H2]. split; [exact H1|split; [|exact H2]].
  intros n. unfold rust_pass. apply anr_exactly_once; auto.
Qed.

(** unshuffled: every pass is exactly [spec] in list order, so the stream is periodic *)
Theorem rust_interface_unshuffled ops i : shuffle i = 0 ->
  forall m e, nth_error (stream i ops (snd (run idgen (init rust_pass rep) ops))) m = Some e ->
              nth_error (spec path ex read process (hp i) (paths i)) (m mod length (spec path ex read process (hp i) (paths i))) = Some e.
Proof.
  intros Hs. apply (stream_periodic idgen idgen_inj rust_pass rep ops i).
  intros n. unfold rust_pass. rewrite Hs. apply anr_ordered.
Qed.
End R.
