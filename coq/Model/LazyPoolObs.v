(** Observable trace of the lazy-pool model on natural-number inputs, in the vocabulary of the
    controlled-scheduler harness: for every effective step the queue operation it performs. *)
Require Import Sedpack.Model.Base Sedpack.Generated.GenLazyPool Sedpack.Model.LazyPool.

(** [(kind, queue, payload)]: kind 0 put / 1 get / 2 internal; queue 0 to_process / 1 results;
    payload: input or result of input [a] -> [a+10]; forwarded exception -> 1; sentinel -> 0. *)
Definition obs3 := (nat * (nat * nat))%type.
Definition icode (x : item nat) : nat := match x with In a => a + 10 | Stop => 0 end.
Definition rcode (x : res nat) : nat := match x with Out b => b + 10 | Exc => 1 | StopR => 0 end.

Section O.
Variable fail : option nat.      (* the mapped function raises on this input; results are the inputs *)
Variable T : nat.
Definition fobs (a : nat) : option nat :=
  match fail with Some k => if a =? k then None else Some a | None => Some a end.

Definition obs (s : st nat nat) (t : nat) : obs3 :=
  match t with
  | 0 => match pc s with
         | Prefill _ | Put _ => (0, (0, icode (fst (next_item nat (src s)))))
         | Get => (1, (1, match rs s with x :: _ => rcode x | [] => 99 end))
         | Reset (S _) _ => (0, (0, 0))
         | _ => (2, (0, 0))
         end
  | 1 => (2, (0, 1))
  | S (S w) =>
      match nth_error (wk s) w with
      | Some Idle => (1, (0, match tp s with x :: _ => icode x | [] => 99 end))
      | Some (Busy a) => match fobs a with
                         | Some b => (0, (1, b + 10))
                         | None => match worker_on_exception with Forward => (0, (1, 1)) | Die => (2, (1, 1)) end
                         end
      | Some Stopping => (0, (1, 0))
      | _ => (2, (9, 9))
      end
  end.

(** Replay a schedule: the observations of the effective steps, how many choices were blocked,
    and the final state's summary. *)
Fixpoint replay (s : st nat nat) (sched : list nat) (acc : list obs3) (blocked : nat)
  : list obs3 * nat * st nat nat :=
  match sched with
  | [] => (rev acc, blocked, s)
  | t :: rest =>
      match step nat nat fobs T s t with
      | Some s' => replay s' rest (obs s t :: acc) blocked
      | None => replay s rest acc (S blocked)
      end
  end.

Definition fin_code (c : cpc nat) : nat :=
  match c with Final Finished => 1 | Final Raised => 2 | Final Abandoned => 3 | Reset _ _ => 4 | _ => 0 end.

Definition replay_summary (n : nat) (sched : list nat) :=
  let '(tr, blocked, s) := replay (init nat nat T (seq 0 n)) sched [] 0 in
  (tr, (blocked, (fin_code (pc s), (out s, (quiescent s, enabled nat nat fobs T s))))).
End O.
