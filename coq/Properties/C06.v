(** C06 — A writer crash never corrupts or loses committed data.
    Property theorems only; each is closed by [exact] of a lemma proved in Proofs/.

    A writing session is a trace of file-system effects; a crash (or the instant a concurrent
    reader looks) is a prefix of it, the effect in flight possibly torn.  The PUBLICATION DISCIPLINE
    ([discipline], an executable check of the trace against the running state) says: metadata paths
    are only ever changed by renaming over them a temporary that was written completely and closed;
    at that moment everything the new document references is already complete (shards closed with
    the recorded digest, child lists installed); a new document extends the one it replaces; closed
    shards and metadata are never opened for writing again.  The real traces of the library are
    checked against [discipline] on every run (this very boolean is evaluated on them by coqc). *)
Require Import Sedpack.Model.Base Sedpack.Model.Crash Sedpack.Proofs.CrashProofs Sedpack.Proofs.PublishProofs.
Require Import Sedpack.Generated.GenMerge Sedpack.Generated.GenFiller Sedpack.Model.Filler Sedpack.Model.Meta Sedpack.Proofs.LogProofs.

(** Under the discipline EVERY prefix of the trace leaves a consistent disk: every metadata path
    holds a complete document (the old or a new version) and every shard it lists is a completely
    written file with the recorded digest, every child list it names is a complete document. *)
Theorem c06_every_crash_point_is_consistent :
  forall (kind_of : path -> kind) (d : disk) (tr : list eff) (n : nat),
    Consistent kind_of d -> discipline kind_of d tr = true -> Consistent kind_of (apply_all (firstn n tr) d).
Proof. exact crash_consistent_lemma. Qed.
Print Assumptions c06_every_crash_point_is_consistent.

(** Nothing committed is lost: whatever shard or child list a metadata document referenced before
    the session is still referenced by the document at that path after any part of the session. *)
Theorem c06_committed_references_persist :
  forall (kind_of : path -> kind) (tr : list eff) (d : disk) (q : path) (r : path * nat),
    kind_of q = KMeta -> discipline kind_of d tr = true ->
    (refs_in d q r -> refs_in (apply_all tr d) q r) /\ (forall c, child_in d q c -> child_in (apply_all tr d) q c).
Proof. exact refs_persist_lemma. Qed.
Print Assumptions c06_committed_references_persist.

(** The sessions themselves (model of Model/Meta.v: fillers into any directory, multi-writer calls, the recursive merge).
    The list documents and shard files of the model's file system are publication logs stamped by one shared counter: a stamp
    is the moment the shard file was complete, resp. the list file was replaced (the [Close] / [Rename] effects above).
    For every shard size and every history of sessions that completes: every list document ever published references only
    shard files (with the recorded digest) and child lists published strictly before it ([LogOK]); hence in the crash state
    at ANY moment [v] — the log cut at [v] — every document that is visible resolves all its references inside that crash
    state.  (What lies between two publications — temporary files, half-written shards — is the subject of the first theorem.) *)
Theorem c06_every_history_publishes_in_order :
  forall (eps : nat) (h : list session) (fs : fsT) (info : dinfo), run_history eps h = Ok (fs, info) -> LogOK fs.
Proof. exact history_log_closed. Qed.
Print Assumptions c06_every_history_publishes_in_order.

Theorem c06_every_cut_is_closed :
  forall (fs : fsT) (v : nat), LogOK fs -> forall d s h, List.In (d, (s, h)) (lists (cut v fs)) ->
    (forall sh, List.In sh (sl_files s) -> has_shard (cut v fs) sh v) /\ (forall c, List.In c (sl_children s) -> has_list (cut v fs) (li_dir c) v).
Proof. exact every_cut_is_closed. Qed.
Print Assumptions c06_every_cut_is_closed.

(** The bridge between the two levels.  Seen at the effect level, a session is a sequence of PUBLICATIONS: a new shard file
    ([Create; Write; Close]) or a metadata file replaced through a temporary ([Create tmp; Write; Close; Rename] — the shape of
    [safe_update_file], pinned from the source).  If every publication, on the disk as it is when it starts, (i) uses a fresh path,
    (ii) references only complete files already there, (iii) keeps what the document it replaces referenced ([pubs_ok], executable),
    then the whole effect trace obeys the discipline, hence every crash point inside it is consistent.  (ii) is what
    [c06_every_history_publishes_in_order] establishes for every history of the session model, (iii) what
    [c08_history_appends_only] establishes, (i) is the uuid / time-stamped temporary name. *)
Theorem c06_publications_obey_the_discipline :
  forall (kind_of : path -> kind) (xs : list (pub)) (d : disk),
    pubs_ok kind_of d xs = true -> discipline kind_of d (flat_map compile xs) = true.
Proof. exact publications_disciplined. Qed.
Print Assumptions c06_publications_obey_the_discipline.

Theorem c06_publications_crash_consistent :
  forall (kind_of : path -> kind) (xs : list pub) (d : disk) (n : nat),
    Consistent kind_of d -> pubs_ok kind_of d xs = true -> Consistent kind_of (apply_all (firstn n (flat_map compile xs)) d).
Proof. exact publications_crash_consistent. Qed.
Print Assumptions c06_publications_crash_consistent.

(** Non-vacuity: the trace of a small session (shard, list temp + rename, description temp +
    rename) satisfies the discipline; writing the list file in place, or renaming before the
    temporary is closed, violates it. *)
Definition k (p : path) : kind := if p <? 10 then KMeta else if p <? 100 then KShard else KTmp.
Definition d0 : disk := fun _ => None.
Definition listdoc := {| d_shards := [(20, 7)]; d_children := [] |}.
Definition infodoc := {| d_shards := []; d_children := [1] |}.
Definition good := [Mkdir; Create 20 (BShard 7); Write 20; Close 20; Create 100 (BDoc listdoc); Write 100; Close 100; Rename 100 1;
                    Create 101 (BDoc infodoc); Write 101; Close 101; Rename 101 0].
Theorem c06_nonvacuous :
  discipline k d0 good = true /\
  discipline k d0 [Create 20 (BShard 7); Write 20; Close 20; Create 1 (BDoc listdoc); Write 1; Close 1] = false /\
  discipline k d0 [Create 20 (BShard 7); Write 20; Close 20; Create 100 (BDoc listdoc); Write 100; Rename 100 1; Close 1] = false /\
  discipline k d0 [Create 100 (BDoc listdoc); Write 100; Close 100; Rename 100 1; Create 20 (BShard 7); Write 20; Close 20] = false.
Proof. vm_compute. repeat split. Qed.
Print Assumptions c06_nonvacuous.
