"""Dataset.create on a directory that already holds a dataset must raise and change nothing."""
import hashlib
import json
import os
import random
import shutil
import sys
import tempfile
from pathlib import Path

import numpy as np
from sedpack.io import Dataset, Metadata, DatasetStructure, Attribute


def snapshot(root):
    out = {}
    for d, _x, fs in os.walk(root):
        for f in fs:
            p = Path(d, f)
            out[str(p.relative_to(root))] = hashlib.sha256(p.read_bytes()).hexdigest()
    return out


def main():
    req = json.load(sys.stdin)
    rng = random.Random(req.get("seed", 0))
    cases = []
    for i in range(req["n"]):
        tmp = Path(tempfile.mkdtemp(prefix="verif_create_"))
        try:
            fmt = rng.choice(["fb", "npz"])
            st = DatasetStructure(saved_data_description=[Attribute(name="a", dtype="int32", shape=(1,))], shard_file_type=fmt,
                                  compression="", examples_per_shard=rng.randint(1, 3))
            ds = Dataset.create(path=tmp / "d", metadata=Metadata(description="first"), dataset_structure=st)
            n = rng.choice([0, 1, 4])
            if n:
                with ds.filler() as f:
                    for k in range(n):
                        f.write_example(values={"a": np.array([k], np.int32)}, split=rng.choice(["train", "test"]))
            before = snapshot(tmp / "d")
            st2 = DatasetStructure(saved_data_description=[Attribute(name="b", dtype="float32", shape=(2,))], shard_file_type=rng.choice(["fb", "npz"]),
                                   compression="", examples_per_shard=7)
            # the same directory, spelled differently: Path / str, relative to the working directory, through '..', with a trailing
            # slash, through the home directory (~)
            spell = ["path", "str", "relative", "dotdot", "slash", "home"][i % 6]
            cwd, home = os.getcwd(), os.environ.get("HOME")
            try:
                if spell == "path":
                    arg = tmp / "d"
                elif spell == "str":
                    arg = str(tmp / "d")
                elif spell == "relative":
                    os.chdir(tmp)
                    arg = "d"
                elif spell == "dotdot":
                    (tmp / "x").mkdir()
                    arg = tmp / "x" / ".." / "d"
                elif spell == "slash":
                    arg = str(tmp / "d") + "/"
                else:
                    os.environ["HOME"] = str(tmp)
                    arg = "~/d"
                try:
                    Dataset.create(path=arg, metadata=Metadata(description="second"), dataset_structure=st2)
                    refused = False
                except Exception as ex:  # noqa: BLE001
                    refused = type(ex).__name__
            finally:
                os.chdir(cwd)
                if home is None:
                    os.environ.pop("HOME", None)
                else:
                    os.environ["HOME"] = home
            after = snapshot(tmp / "d")
            changed = sorted(k for k in set(before) | set(after) if before.get(k) != after.get(k))
            cases.append({"refused": refused, "changed": changed, "examples": n, "spelling": spell})
        finally:
            shutil.rmtree(tmp, ignore_errors=True)
    print("@@RESULT@@" + json.dumps({"cases": cases}))


main()
