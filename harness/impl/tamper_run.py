"""C05: committed datasets x every reachable file x tamper kinds -> outcome of Dataset.check().
stdin: {"jobs":[{"dataset": spec, "algs": [...]}], "max_per_file": k}
"""
import json
import os
import shutil
import sys
import tempfile
from pathlib import Path

sys.path.insert(0, str(Path(__file__).resolve().parent))
import history_run as H  # noqa: E402
import numpy as np  # noqa: E402
from sedpack.io import Dataset, Metadata, DatasetStructure, Attribute  # noqa: E402
from sedpack.io.shard_file_metadata import ShardsList  # noqa: E402

SPLITS = H.SPLITS


def build_with_versions(spec, tmp, algs):
    root = Path(tmp) / "ds"
    ds = Dataset.create(path=root, metadata=Metadata(description="t"), dataset_structure=DatasetStructure(
        saved_data_description=[Attribute(name="a", dtype="int32", shape=(1,))], shard_file_type=spec.get("format", "fb"),
        compression=spec.get("compression", ""), examples_per_shard=spec["eps"], hash_checksum_algorithms=tuple(algs)))
    base = 0
    versions = {}   # relative path -> list of earlier contents

    def snap():
        for d, _x, fs in os.walk(root):
            for f in fs:
                if f.endswith(".json"):
                    p = Path(d, f)
                    rel = str(p.relative_to(root))
                    b = p.read_bytes()
                    if not versions.get(rel) or versions[rel][-1] != b:
                        versions.setdefault(rel, []).append(b)
    snap()
    for s in spec["sessions"]:
        if s["kind"] == "filler":
            sub = Path(*[f"d{x}" for x in s["sub"]]) if s["sub"] else Path(".")
            with H.DatasetFiller(ds, relative_path_from_split=sub) as f:
                H.apply_ops(f, s["ops"], base)
            base += 100
        else:
            bases = [base + 100 * i for i in range(len(s["writers"]))]
            ds.write_multiprocessing(feed_writer=H.feed, custom_arguments=[(ops, b) for ops, b in zip(s["writers"], bases)],
                                     consistency_check=False, single_process=True)
            base += 100 * len(s["writers"])
        snap()
    return root, versions, tuple(ds.current_metadata_checksums())


def reachable(root):
    ds = Dataset(root)
    lists, shards = [], []

    def walk(rel):
        lists.append(str(rel))
        sl = ShardsList.model_validate_json((root / rel).read_text())
        for sh in sl.shard_files:
            shards.append(str(sh.file_infos[0].file_path))
        for ch in sl.children_shard_lists:
            walk(ch.shard_list_info_file.file_path)
    for li in ds._dataset_info.splits.values():
        walk(li.shard_list_info_file.file_path)
    return lists, shards


def tampers(rel, data, kind_files, versions):
    n = len(data)
    out = []
    if n:
        for name, off in (("first", 0), ("middle", n // 2), ("last", n - 1)):
            b = bytearray(data)
            b[off] ^= 0x01
            out.append((f"flip-{name}", bytes(b)))
        out.append(("truncate-0", b""))
        out.append(("truncate-half", data[: n // 2]))
        out.append(("truncate-1", data[:-1]))
        for i in range(1, 8):      # interior offsets, evenly spread
            b = bytearray(data)
            b[n * i // 8 - (1 if n * i // 8 == n else 0)] ^= 0x80 >> i
            out.append((f"flip-at{i}of8", bytes(b)))
        if rel.endswith(".json"):
            # byte changes which a text-mode reader / JSON parser would normalise away
            out.append(("text-crlf", data.replace(b"\n", b"\r\n")))
            out.append(("text-cr", data.replace(b"\n", b"\r", 1)))
            out.append(("text-space", data.replace(b":", b": ", 1) if b": " not in data[:data.find(b":") + 2] else data.replace(b": ", b":  ", 1)))
            out.append(("text-trailing-space", data + b" "))
            out.append(("text-bom", b"\xef\xbb\xbf" + data))
    out.append(("extend", data + b"\n"))
    out.append(("delete", None))
    for other in kind_files:
        if other != rel:
            out.append((f"swap:{other}", ("file", other)))
            break
    for i, old in enumerate(versions.get(rel, [])[:-1][-2:]):
        if old != data:
            out.append((f"rollback-{i}", old))
    return out


def outcome(root, expected):
    try:
        ds = Dataset(root)
        ds.check(show_progressbar=False, hash_checksums_values=expected)
        return "passed"
    except BaseException as ex:  # noqa: BLE001
        return "error:" + type(ex).__name__


def main():
    req = json.load(sys.stdin)
    res = []
    for job in req["jobs"]:
        tmp = tempfile.mkdtemp(prefix="verif_tamper_")
        try:
            root, versions, rootsum = build_with_versions(job["dataset"], tmp, job["algs"])
            lists, shards = reachable(root)
            base = {"clean": outcome(root, ()), "clean_with_root": outcome(root, rootsum), "lists": len(lists), "shards": len(shards)}
            cases = []
            work = Path(tmp) / "work"
            for kind, files in (("list", lists), ("shard", shards), ("info", ["dataset_info.json"])):
                for rel in files:
                    data = (root / rel).read_bytes()
                    for tname, new in tampers(rel, data, files, versions):
                        if work.exists():
                            shutil.rmtree(work)
                        shutil.copytree(root, work)
                        if new is None:
                            (work / rel).unlink()
                            changed = True
                        elif isinstance(new, tuple):
                            nb = (root / new[1]).read_bytes()
                            (work / rel).write_bytes(nb)
                            changed = nb != data
                        else:
                            (work / rel).write_bytes(new)
                            changed = new != data
                        exp = rootsum if kind == "info" else (rootsum if job.get("with_root") else ())
                        cases.append({"kind": kind, "file": rel, "tamper": tname, "changed": changed, "size": len(data),
                                      "outcome": outcome(work, exp)})
            # silent corruption in place: same path, same size, same modification time, in a process that has already hashed the file
            # (when it wrote it, and again in a first check()); everything is restored afterwards
            ds_live = Dataset(root)
            ds_live.check(show_progressbar=False)
            for kind, files in (("list", lists[:3]), ("shard", shards[:3])):
                for rel in files:
                    f = root / rel
                    data = f.read_bytes()
                    if not data:
                        continue
                    st = f.stat()
                    b = bytearray(data)
                    b[len(b) // 2] ^= 0x20
                    f.write_bytes(bytes(b))
                    os.utime(f, ns=(st.st_atime_ns, st.st_mtime_ns))
                    try:
                        try:
                            ds_live.check(show_progressbar=False)
                            o1 = "passed"
                        except BaseException as ex:  # noqa: BLE001
                            o1 = "error:" + type(ex).__name__
                        o2 = outcome(root, ())
                    finally:
                        f.write_bytes(data)
                        os.utime(f, ns=(st.st_atime_ns, st.st_mtime_ns))
                    cases.append({"kind": kind, "file": rel, "tamper": "inplace-same-mtime:live-handle", "changed": True, "size": len(data), "outcome": o1})
                    cases.append({"kind": kind, "file": rel, "tamper": "inplace-same-mtime:reopened", "changed": True, "size": len(data), "outcome": o2})
            res.append({"base": base, "cases": cases})
        except Exception as ex:  # noqa: BLE001
            res.append({"build_error": f"{type(ex).__name__}: {ex}"[:300]})
        finally:
            shutil.rmtree(tmp, ignore_errors=True)
    print("@@RESULT@@" + json.dumps({"jobs": res}))


if __name__ == "__main__":
    main()
