"""Regenerate MANIFEST.json from the table below (keeps it schema-valid at all times)."""
import json
from pathlib import Path

V = Path(__file__).resolve().parent.parent
ALL = [f"C{i:02d}" for i in range(1, 21)]
CLAIMED = {
    "C09": dict(
        text="Coq theorem over abstract file-system effect lists: if the workers are pairwise independent (no two touch the same file; shared mkdirs are idempotent), every interleaving of their effects that keeps each "
             "worker's own order leaves the same file system as running them one after another in argument order (n-way shuffle, induction with a move-to-front commutation lemma). "
             "PARTIAL: that the real workers are independent and that the parent's merge then yields the sequential result are measured: real forked worker processes under an audit hook (files opened for writing/renamed per pid, "
             "pairwise disjoint), and the resulting dataset (whole metadata tree, iteration order, check, return values) compared with the single-process run, incl. delays that make later writers finish first and more writers than CPUs.",
        note="Trusted: Coq kernel, harness; uuid4 names distinct; Pool.imap ordered; fork start method; workers share only the directory.",
        technique="Coq proof (commutation of independent effects over all interleavings) + measured footprints of real worker processes + differential vs sequential run",
        design="7/C09"),
    "C10": dict(
        text="Coq theorems over an executable model of the filler (write_example/close_shard/__exit__) whose decision kernels "
             "(roll-over test, metadata-change test, exit test, effect order, attach mode) are regenerated from dataset_filler.py on every run: "
             "for every eps>=1 and every op sequence (interleaved splits, metadata objects and mutations, rejected writes) every recorded shard has 1..eps "
             "examples and records that number; all but the last shard of a split are full when metadata_changed never fired. "
             "The hand-written rest of the model is tied to the code by running the same op sequences on the real library and comparing every recorded shard.",
        note="Trusted: Coq kernel, translator, correspondence harness; the shard writer's accept/reject decision is an input of the model (oracle); uuid4 freshness.",
        technique="Coq proof (invariant by induction over operations) + AST-generated kernels + differential correspondence",
        design="7/C10"),
    "C11": dict(
        text="Coq theorems over the same filler model (attach mode Copy/Alias generated from the source): for every eps>=1 and every op sequence, "
             "including in-place mutation and reuse of the caller's metadata objects and rejected writes, every accepted write with a non-empty "
             "metadata value lies in a recorded shard labelled with that value (c11_label_exact), and per split the recorded shards contain exactly "
             "the accepted writes, once each, in caller order (c11_recorded_exactly_the_accepted_writes). Correspondence: same op sequences on the real "
             "library incl. selection by metadata through as_numpy_iterator(shard_filter).",
        note="Trusted: Coq kernel, translator, harness; metadata values abstracted to naturals (0 = empty dict); writer accept/reject is an oracle.",
        technique="Coq proof (labelling invariant + refinement to the list of accepted writes) + AST-generated kernels + differential correspondence",
        design="7/C11"),
    "C15": dict(
        text="Coq theorems over a transition system transcribing rust/src/parallel_map.rs (source text pinned): for every source length, thread count >= 1, set of panicking tasks and every schedule of the consumer and worker threads: "
             "results come back exactly in source order, a pass that ends normally has delivered every task, at most min(T,n) tasks are outstanding, some thread can always move while the pass runs (no deadlock), and a panicking task "
             "is never swallowed (the pass cannot end normally). Tie: rust_harness, a crate with a path dependency on /repo/rust built on every run, drives the real parallel_map with scrambled completion orders, early drops and panics; "
             "results and the number of source pulls at every result equal the model's. PARTIAL: early-drop liveness, the decoders/pyo3 layer and the epoch loop are validated on the implementation only: Rust reader vs Python reader "
             "on datasets in all four supported compressions x thread counts x shuffled/ordered/early exit.",
        note="Trusted: Coq kernel, text pin + hand transcription, rust_harness; std::sync::mpsc FIFO/unbounded semantics; pyo3, flate2, lz4_flex, yoke not verified.",
        technique="Coq proof (ring-of-workers invariant over all schedules) + pinned Rust source + differential against the real function and the Python reader",
        design="7/C15"),
    "C16": dict(
        text="Coq theorems about the readinto loop of hash_checksums with buffer size, sentinel, slice and one-object-per-listed-name shape regenerated "
             "from utils.py: for every streaming hash family (section hypotheses: streaming law), every file, every algorithm tuple (order, repetition) and "
             "every adequate short-read script the result is the tuple of standard digests of the whole file; the chunks fed concatenate to the file. "
             "Tie: scripted short reads against the real function (toy hash), all 13 algorithms against one-shot digests and *sum tools at sizes around the "
             "128 KiB multiples, and every checksum recorded in written datasets against one-shot digests of the files.",
        note="Trusted: Coq kernel, translator, harness; hashlib/xxhash implement the named algorithms and the streaming law (oracle, checked differentially).",
        technique="Coq proof (induction over read scripts, parametric in the hash) + AST-generated loop kernel + differential correspondence",
        design="7/C16"),
    "C17": dict(
        text="Coq theorems over a model of PurePosixPath parsing/joining/lexical normalisation with the four validators (FileInfo.file_path, "
             "ShardsList.relative_path_self, ShardListInfo, filler sub-directory) regenerated from the source: for every root and every path string, "
             "an accepted path joined to the root stays inside the root; likewise root/split/sub/file for every accepted sub-directory. "
             "Tie: the path model and the generated validators are compared with pathlib and the real pydantic models on generated strings; crafted datasets "
             "with hostile paths at every metadata site (checksums made consistent) are opened/checked/iterated/continued under an audit hook: no file outside the root may be opened or created.",
        note="Trusted: Coq kernel, translator, harness; pathlib semantics (compared on every generated string); pydantic runs the validators on load; symlinks out of scope. That all read sites use validated paths is shown by audit runs, not by theorem.",
        technique="Coq proof (all strings) over AST-generated validators + differential correspondence with pathlib + audit-hook fault injection",
        design="7/C17"),
    "C01": dict(
        text="Coq theorems over a model of the FlatBuffers attribute codec on bit patterns (floats never interpreted, so -0.0/NaN payloads/subnormals are covered by construction): little-endian encode/decode inverse for every width and value; "
             "for every byte-order flag x machine byte order the stored bytes are the little-endian ones (branch table regenerated from the writer's match statement); for every array function (any memory layout), every shape of any rank: "
             "decode_array(declared width, shape) of the written bytes returns every element; whole-shard round trip with the FlatBuffers container and the compressor as oracles with stated inverse laws; safe integer casts and the TFRecord int64 widening preserve the value; "
             "compress/decompress tables (regenerated from compress.py) pair every codec with itself. PARTIAL: container, compressors, NumPy float casts, npz and TFRecord encodings, the Rust reader are oracles measured by runs: "
             "datasets are written for format x compression x dtype x shape x presentation (C/F/strided/reversed/transposed/big-endian/read-only/buffer reused/narrower dtype/scalar/list) x extreme bit patterns, the bytes in the .fb files are compared with the model's, "
             "and every reader's dtype, shape and bit pattern with what was written; the 8x8 integer cast table is compared with np.can_cast.",
        note="Trusted: Coq kernel, translator (statement pins), harness; oracles listed in the evidence trusted_base. Known findings F11 (npz trailing NULs of bytes/str), F13 (TFRecord float32 signalling NaNs quieted).",
        technique="Coq proof (all widths, shapes, layouts, values) over the fb codec with AST-generated byte-order table + byte-level differential correspondence with the written files and all readers",
        design="7/C01"),
    "C18": dict(
        text="Coq theorems over state machines of the three shard writers with faithful partial mutation (FlatBuffers: vectors built one by one, example referenced last; npz: one buffer per key of the passed dictionary; "
             "TFRecord: validate, build, then write), whose statement order and switches are regenerated from the source: for every attribute list and every sequence of good and bad writes the shard holds exactly the accepted writes in order "
             "(fb: rejected writes leave only unreferenced builder bytes; npz: all buffers keep equal length, so the shard stays loadable); the TFRecord writer's feature kind per dtype equals the reader's (tables generated from tfdata.py). "
             "Tie and search: sessions mixing every violation kind x attribute position x position in the shard x supported/unsupported declarations on all three formats are written through Dataset.filler, reopened, iterated and compared with the accepted writes; "
             "the model's accepted set/shard contents are compared with the implementation's for fb and npz. What numpy/TensorFlow do with a concrete value of a wrong dtype is observed, not modelled.",
        note="Trusted: Coq kernel, translator (statement-order pins), harness; value-level behaviour of np.can_cast/tf.train lists observed by runs only. Known finding F8 (fb accepts bytes/str declarations it cannot read).",
        technique="Coq proof (all write sequences) over writer state machines with AST-generated switches + differential correspondence and write/reopen/iterate search",
        design="7/C18"),
    "C13": dict(
        text="Coq theorems over a small-step transition system of LazyPool.imap_unordered + Collector threads at queue-operation granularity "
             "(consumer: prefill/get/put/reset/abandon; workers: get/compute/put; prefill bound, reset sentinel count and exception mode regenerated from lazy_pool.py), "
             "for every T>=1, every input list, every (possibly failing) mapped function and every schedule: no deadlock unless consumer finished and all workers ended; "
             "at most 5n+15T+12 steps under any schedule; a normally finished pass yields exactly one result per input (all counting predicates / permutation), all workers ended, "
             "pool counter reset; a failing input never lets the pass finish normally; abandonment leaves every worker able to terminate. "
             "Tie: the real threads are driven one queue operation at a time by a gated-queue scheduler (8+ strategies incl. adversarial timeouts); every recorded trace "
             "is replayed step by step in the model (same payload at every operation, same ending, same yielded list).",
        note="Trusted: Coq kernel, translator, scheduler harness; queue.Queue FIFO/atomic/unbounded; code between two queue operations is thread-local; mapped function terminates.",
        technique="Coq proof (counting + FIFO invariants, decreasing measure, over all schedules) + AST-generated kernels + controlled-scheduler trace replay",
        design="7/C13"),
    "C04": dict(
        text="Coq theorem (merge_spec, by induction on the recursion of merge_shard_infos transcribed in Model/Meta.v, partition tests and assertion switch regenerated from the source, "
             "every statement of the function pinned by the translator): whenever the merge returns, the subtree it rebuilt is exact (every shard count, list total, child summary and digest; "
             "every listed shard present in the directory of the list naming it), nothing outside the subtree changed, no shard entry was added or lost, local well-formedness is preserved. "
             "PARTIAL: the lift over whole histories (fillers + write_config, no duplicate / no unlisted shard, in-memory = on-disk description, termination of the merge) is not a theorem; "
             "it is checked by evaluating the executable oracle exact_all on the model and an independent exactness audit on the real directory after every session of every generated history, "
             "with the model compared to the implementation list file by list file.",
        note="Trusted: Coq kernel, translator, harness; hand transcription of merge/write_config/close_shard (pinned + compared after every session); pydantic JSON round trip; shard writers; digest = write event.",
        technique="Coq proof (induction over the merge recursion: exactness, footprint, preservation) + AST-pinned transcription + differential histories with an exactness oracle",
        design="7/C04"),
    "C02": dict(
        text="Coq theorems for every combinator the iteration interfaces are built from, each for all sizes and all random sequences: the shuffle buffer and the round robin (pull machines whose fill test "
             "and LCG constants are regenerated, and whose source text is pinned, from itertools.py) end and yield a permutation of their input; the batches of the unshuffled concurrent reader concatenate to the path list; "
             "the lazy pool yields one result per input under every schedule (C13). PARTIAL: the composition inside each as_* method, the depth-first shard list over nested lists and the tf.data/Rust paths are not theorems; "
             "they are checked by whole-pipeline runs: every interface x shuffle x file_parallelism x process_record on generated datasets must yield exactly the multiset stored in the split (independently decoded), "
             "process_record applied once per example. The machines equal the real generators element by element under the real LCG.",
        note="Trusted: Coq kernel, translator, harness; ThreadPoolExecutor.map ordered; asyncstdlib mirrors; tf.data multiset-preserving (oracle).",
        technique="Coq proof (permutation invariants + termination measures of pull machines) + AST-pinned sources + differential pipelines",
        design="7/C02"),
    "C12": dict(
        text="Coq theorems over the selection stages of shard_paths_dataset interpreted in the order and with the guards regenerated from the source: the stages compute the specification "
             "(predicate; error if empty; first k; at most n per metadata value) for every shard list and option values; the result is a non-empty order-preserving sub-list; no metadata value keeps more than n shards; "
             "a predicate matching nothing is an error; and the forwarding table regenerated from the keyword arguments of every as_* method shows every accepted selection option is passed to every callee that takes it. "
             "Tie: model vs shard_paths_dataset on generated metadata layouts; every interface x option values vs the property text evaluated on independently decoded shards.",
        note="Trusted: Coq kernel, translator, harness; metadata abstracted to naturals; effect of a forwarded option inside tf.data/Rust validated on the implementation only.",
        technique="Coq proof over AST-generated stage list and forwarding table + differential selection runs on every interface",
        design="7/C12"),
    "C14": dict(
        text="Coq theorems, each an invariant over arbitrary (finite or endless) sources: shuffle buffer pulled <= yielded + b; round robin never more than b inner iterators open and opened <= b + exhausted; "
             "lazy pool under every schedule inputs taken <= 2T+2 + results yielded; every batch of the ordered concurrent reader holds <= T paths. "
             "PARTIAL: the per-interface composition bounds (e.g. 3T+2+k shard files for the shuffled concurrent reader) are derived by hand and checked by runs that count shard files opened at every yield "
             "(audit-hook spy, slow consumer, finite and repeating streams, take k); Rust and tf.data read-ahead are not observable by the spy.",
        note="Trusted: Coq kernel, translator, harness; every shard holds >= 1 example (C10).",
        technique="Coq proof (read-ahead invariants over arbitrary sources and schedules) + shard-open spy on real pipelines",
        design="7/C14"),
    "C19": dict(
        text="Coq theorems: the repeating unshuffled path stream is periodic (k-th element = (k mod N)-th path, all k); a shuffle buffer over the endless cycle of a non-empty list only ever yields elements of that list "
             "(every buffer size, every random sequence, every moment). PARTIAL: whole interfaces are checked on prefixes of 2-3 epochs (+0..2): unshuffled streams must equal the one-pass sequence repeated, shuffled streams "
             "must stay in the split, every Rust epoch must be a permutation, and two repeating streams pulled alternately must not interfere.",
        note="Trusted: Coq kernel, translator, harness; itertools.cycle; RustGenerator epoch loop and tf.data repeat validated on the implementation only.",
        technique="Coq proof (periodicity, subset invariant on an endless source) + differential multi-epoch prefixes incl. interleaved streams",
        design="7/C19"),
    "C05": dict(
        text="Coq theorems about an abstract model of Dataset.check (digest of each list file against its parent's record, recursion into the children named by the file on disk, "
             "then every shard the iterator finds), shape pinned statement by statement against the source: a committed tree passes; and for ANY file system fs', if the check passes then every "
             "reachable directory holds exactly the committed list document and every listed shard has the committed digest — so every alteration, truncation, extension, deletion, swap or rollback "
             "of a reachable file is detected (hypothesis: injective digests). Tie: real check() on every tamper kind x every reachable list/shard/description file of generated committed datasets "
             "(nested, multi-split, 1..13 algorithms), and on the untouched datasets.",
        note="Trusted: Coq kernel, translator (shape pin), harness; collision-free digests; C16 and C04 as given; pydantic parsing of list files.",
        technique="Coq proof (induction over the list tree, any adversarial file system) + AST-pinned shape + exhaustive per-file tamper injection on the implementation",
        design="7/C05"),
    "C06": dict(
        text="Coq theorems over effect traces (create/write/close/rename/mkdir/remove) and an executable PUBLICATION DISCIPLINE: for every trace satisfying it and every consistent starting disk, EVERY prefix (every crash point, "
             "every instant a concurrent reader looks, torn write included) leaves every metadata path holding a complete document whose listed shards are complete files with the recorded digest and whose child lists are complete; "
             "and every reference of a committed document persists. PARTIAL: that the library's sessions satisfy the discipline is not proved for all sessions; it is checked per run: the very boolean `discipline` is evaluated by coqc on the "
             "effect trace recorded from the real session, the write-temp/close/rename shape of safe_update_file and the close-then-hash-then-list order are pinned from the source, and the forked writer is really killed before "
             "effects (and inside write calls) after which the directory is audited (valid documents, reopen, iterate: all committed examples, only written ones, checksums).",
        note="Trusted: Coq kernel, translator (pins), recorder harness (Python-level I/O of fb/npz writers; TFRecord native I/O not visible); atomic rename; crash = prefix of effects with unflushed buffers lost; OS stays up.",
        technique="Coq proof (invariant over every prefix of a disciplined effect trace) + per-trace validation of the discipline by coqc + kill-based crash injection on the real writer",
        design="7/C06"),
    "C07": dict(
        text="Coq theorems: sequential chains and the batch loop with an ordered map end by raising whenever some path is unreadable (every position, every T); the lazy pool with a failing input never finishes normally, "
             "cannot deadlock and terminates within 5n+15T+12 queue operations under every schedule (C13). PARTIAL: which damage a decoder rejects is measured; error forwarding of asyncstdlib, tf.data and the Rust reader is "
             "validated on the implementation: datasets x damaged shard (first/middle/last) x deleted/emptied/garbage x every interface x shuffled/ordered x parallelism under a watchdog; outcome must be an exception.",
        note="Trusted: Coq kernel, translator, harness (watchdog 15 s = the bounded time); executor.map re-raises in order; Rust reader covered by runs only.",
        technique="Coq proof (failure propagation in chains/batches; lazy-pool liveness over all schedules) + fault injection on every interface under a watchdog",
        design="7/C07"),
    "C08": dict(
        text="Coq theorem: the merge ending every session keeps every shard entry of every list and every shard file, and touches no list outside the merged split (corollary of merge_spec); "
             "the generated switch shows the over-strict assertion is gone and the formerly failing reuse histories complete with exactly old+new examples (vm_compute instance). "
             "PARTIAL as C04: append-only over whole histories is checked on the implementation: after every session of every generated history (root/sub/nested/reused directories, multi-writer, "
             "reopen or keep) each split returns exactly the multiset of all examples accepted so far; Dataset.create on an existing dataset must raise and change no file.",
        note="Trusted as C04.",
        technique="Coq proof (merge preserves entries) + differential histories with a multiset oracle",
        design="7/C08"),
    "C03": dict(
        text="Coq theorem: within one filler context the recorded shards of a split, concatenated in close order (= list order = unshuffled iteration order), are exactly the accepted writes in "
             "caller order, for every eps, interleaving of splits, metadata use and rejected writes. PARTIAL: order across list files (multi-writer argument order, nested trees) and determinism of "
             "every interface are checked on the implementation: per-session subsequence oracle on every generated history, and every unshuffled interface x file_parallelism x two passes on one handle x fresh handles "
             "must return the depth-first write-order sequence.",
        note="Trusted as C04; ThreadPoolExecutor.map / Pool.imap ordered; tf.data deterministic interleave (oracle).",
        technique="Coq proof (filler refinement to the list of accepted writes) + differential histories and cross-interface determinism runs",
        design="7/C03"),
    "C20": dict(
        text="Coq theorems: the version gate found in _load (comparison regenerated from the source, running version read from sedpack/__init__.py) refuses a dataset exactly when the recorded MAJOR.MINOR.PATCH is "
             "strictly newer, for all triples; the same version loads; omitting default-valued fields and restoring defaults is the identity field by field. PARTIAL: the JSON/pydantic round trip of whole descriptions and "
             "relocation are validated on the implementation: generated descriptions (unicode, nested JSON metadata at dataset/attribute/shard level, all formats/compressions/algorithm tuples) must reopen equal; datasets copied or moved to "
             "nested/unicode/blank/relative/'..'-relative locations must open, check, iterate and continue writing exactly like the original; gate outcomes on ~100 triples (multi-digit components) equal the model.",
        note="Trusted: Coq kernel, translator, harness; pydantic/json/semver (oracles, compared); pre-release/build tags are outside the model.",
        technique="Coq proof (lexicographic gate, all triples) over AST-generated comparison + differential descriptions, relocation and version runs",
        design="7/C20"),
}
REASON_TODO = "not yet built: the Coq model/theorems for this property are scheduled later in the build order of DESIGN.md section 10; nothing is claimed until its check exists"

# later strengthenings of the claims (applied to the texts above; each `old` must occur)
REWRITE = {
    "C04": [("PARTIAL: the lift over whole histories (fillers + write_config, no duplicate / no unlisted shard, in-memory = on-disk description, termination of the merge) is not a theorem; it is checked by",
             "LIFTED over whole histories (c04_every_history_is_exact): for every shard size and every history of sessions (root/sub-directory/nested/reused-directory fillers and multi-writer calls with arbitrary write sequences) "
             "that completes, every split's summary in the description is exact for its whole subtree (invariant: locally well-formed documents + fresh names + exact summaries, carried through add_shard, the exit rewrite and write_config's per-split merges). "
             "and (c04_no_shard_unlisted) every stored shard file is reached by the depth-first traversal from its split's root (every list document stays linked from the split root; second induction over the merge). "
             "and (c04_every_history_satisfies_exact_all) the whole executable oracle exact_all - exact summaries, no shard listed twice, none unlisted - holds after every history that completes. "
             "TOTAL (c04_every_bounded_history_completes_and_is_exact): every history whose sessions write at most 39 directory levels below a split completes - no assertion, no inconsistent update set, no exhausted recursion budget - and satisfies the oracle. "
             "PARTIAL: in-memory = on-disk description is not a theorem; the model is tied to the implementation by")],
    "C08": [("PARTIAL as C04: append-only over whole histories is checked on the implementation:",
             "LIFTED over whole histories (c08_history_appends_only): whatever sessions follow a prefix of a history, every stored shard file and every shard entry of every list is still there, same list, same position, "
             "only possibly followed by new entries; and (c08_iteration_returns_everything_stored) unshuffled iteration of a split is a permutation of the contents of all shard files stored below it. "
             "PARTIAL: the real readers are compared with this on the implementation:")],
    "C02": [("PARTIAL: the composition inside each as_* method, the depth-first shard list over nested lists and the tf.data/Rust paths are not theorems; they are checked by whole-pipeline runs:",
             "COMPOSED: as_numpy_common, as_numpy_iterator, as_numpy_iterator_concurrent and as_numpy_iterator_async (repeat=False) are regenerated from dataset_iteration.py as compositions of these combinators "
             "(GenPipeline.v: buffer sizes, guards, process_record placement, batches, process_and_list) and proved to yield a permutation of `every example of every selected shard, processed once` for every decoder, shuffle size, "
             "thread count, random sequence and pool completion order; under a fixed LCG seed the generated compositions equal the real interfaces element by element. "
             "And for the depth-first shard list over nested lists (c02_iteration_yields_exactly_what_is_stored): after every history of the session model, unshuffled iteration of a split is a permutation of the contents of all shard files stored below it, i.e. (c02_every_history_delivers_exactly_what_was_written) of exactly the accepted writes of all sessions to that split. "
             "RUST INTERFACE (c02_rust_interface_every_pass_exactly_once): every pass of a RustGenerator is the composition anr regenerated from _single_iter (shard-level shuffle, the shards' examples in path order - C15's theorem about parallel_map - , process_record), "
             "and any number of generators advanced and dropped in any interleaving through the shared registry of live Rust iterators (Model/Registry.v) deliver to each consumer whole passes plus a prefix of the current one, every pass a permutation of the selected shards' examples, "
             "provided the random registry keys never repeat; under a fixed LCG seed anr equals the real interface element by element. "
             "PARTIAL: as_tfdataset and the Rust decoders are not theorems; they are checked by whole-pipeline runs:")],
    "C06": [("PARTIAL: that the library's sessions satisfy the discipline is not proved for all sessions; it is checked per run:",
             "SESSIONS (c06_every_history_publishes_in_order, c06_every_cut_is_closed): in the session model of C04 (fillers into any directory, multi-writer calls, the recursive merge; kernels regenerated from the source) "
             "the stored lists and shard files form publication logs stamped by one counter, and for every history that completes every list document ever published references only shard files (with the recorded digest) and child lists "
             "published strictly before it; hence the crash state at ANY moment - the log cut at that stamp - resolves all references of every visible document. "
             "BRIDGE (c06_publications_obey_the_discipline): a session seen as a sequence of publications (new shard file; metadata file replaced through a temporary, the pinned shape of safe_update_file) whose every publication uses a fresh path, "
             "references only complete files already on disk and keeps what the replaced document referenced obeys the effect-level discipline, hence every crash point inside it is consistent. "
             "PARTIAL: that the real sessions' effect traces are such sequences (the mapping from the session model's publications to paths; the dataset description file) is checked per run:")],
    "C14": [("PARTIAL: the per-interface composition bounds (e.g. 3T+2+k shard files for the shuffled concurrent reader) are derived by hand and checked by runs",
             "COMPOSED for the synchronous interface (c14_sync_interface_readahead): the shuffle buffer over the lazy chain of shards over any stream of paths satisfies (opened-1)*m <= yielded+shuffle at every moment (every shard >= m >= 1 examples). "
             "ORDERED READERS (c14_ordered_concurrent_readahead, c14_batch_machine_is_the_ordered_reader, c14_ordered_async_readahead): the unshuffled concurrent reader as a machine (batches of T paths, every file of a batch opened at once, the next batch only after the previous one was handed over) "
             "over any stream of paths satisfies (opened-T)*m <= yielded at every moment and delivers on finite lists exactly what the composition regenerated from as_numpy_iterator_concurrent delivers; the unshuffled async reader is the plain chain: (opened-1)*m <= yielded. "
             "The machines' exact open counts on the real shard sizes are an upper envelope for the spy's counts at every yield. "
             "SHUFFLED READERS (c14_round_robin_readahead, c14_shuffled_concurrent_readahead, c14_shuffled_async_readahead): round robin over lazily opened iterables of >= m elements satisfies (opened-b)*m <= yielded (every closed iterator was used up); "
             "composed with the lazy pool in ANY reachable state (every thread schedule): (taken-(2T+2)-b)*m <= yielded, under the stated coupling that round robin has pulled exactly what the pool has yielded (a generator advances only inside its consumer's next()); "
             "for the async reader round robin runs directly over the lazily opened shards of any path stream. c14_composition_nonvacuous exhibits a coupled state where the bound is tight. "
             "PARTIAL: the generator-coupling hypothesis itself, and that the spy's counts stay below these bounds, are checked by runs")],
    "C19": [("PARTIAL: whole interfaces are checked on prefixes",
             "COMPOSED (c19_sync_reader_periodic): the lazy chain of shards over itertools.cycle of the selected paths - the unshuffled repeating synchronous reader - hands over, for every k, example (k mod N) of a single pass. "
             "CONCURRENT (c19_concurrent_reader_periodic): the unshuffled repeating concurrent reader as a batch machine over itertools.cycle (also tf.data's path for fb/npz) hands over example (k mod N) for every k and batch size, by simulation with the chain of shards over any path stream. "
             "RUST INTERFACE (c19_rust_streams_isolated, c19_rust_stream_periodic, c19_rust_streams_live): any number of RustGenerators sharing the registry of live Rust iterators (Model/Registry.v: control flow regenerated from RustGenerator, "
             "rust/src/lib.rs pinned), advanced and dropped in ANY interleaving: if the random registry keys never repeat, stream i receives complete passes of its own plus a prefix of its current pass (never another stream's example, never a panic), "
             "unshuffled that is element m mod N at position m, and a request is always answered with an example unless the stream was dropped or is non-repeating and complete; with a repeating key isolation fails (c19_rust_key_reuse_breaks_isolation). "
             "The model's answers are compared with the real interface on generated multi-stream requests. PARTIAL: the other interfaces are checked on prefixes")],
    "C01": [("PARTIAL: container, compressors, NumPy float casts, npz and TFRecord encodings, the Rust reader are oracles measured by runs:",
             "NPZ (Model/Npz.v; writer/reader statements pinned by GenNpz): stacking the per-attribute buffers and indexing along the leading axis returns every element of every example for every shape, layout and number of examples "
             "(C01_npz_fixed_roundtrip); a bytes/str value comes back without its trailing NULs, i.e. exactly iff it does not end in NUL (C01_npz_str_exact_iff), so the unrestricted statement is refuted for npz with witness b'A\\0' "
             "(C01_npz_str_roundtrip_refuted = known finding F11, replayed on the library by every run); the model is compared with the synchronous reader on every shard of every npz job. "
             "PARTIAL: container, compressors, NumPy float casts, the .npy byte encoding, the TFRecord encoding, the Rust reader are oracles measured by runs:")],
    "C05": [("Tie: real check() on every tamper kind",
             "And over the session model of C04 (c05_check_passes_after_every_history): after every history of sessions that completes, the model's integrity check returns true. Tie: real check() on every tamper kind")],
    "C09": [("PARTIAL: that the real workers are independent",
             "In the session model (c09_multi_writer_result_is_exact_and_checked) a multi-writer call - any number of writers, uneven loads, several splits, empty writers - after any history leaves exact metadata and a passing integrity check, and (c09_each_writers_examples_in_its_own_order) every writer's shards appear contiguously, in its close order and with exactly its examples, in the depth-first shard list. PARTIAL: that the real workers are independent")],
    "C10": [("all but the last shard of a split are full when metadata_changed never fired.",
             "all but the last shard of a split are full when metadata_changed never fired; and write by write (c10_short_shard_only_at_metadata_change): whenever a write closes a shard, that shard is full or the value passed and the shard's metadata are two different non-empty values.")],
    "C15": [("PARTIAL: early-drop liveness, the decoders/pyo3 layer and the epoch loop are validated on the implementation only:",
             "Termination (every pass takes at most 3n+min(T,n)+1 thread steps under every schedule) and early-drop liveness (after a drop in any state whatsoever every worker thread ends, so join returns) are theorems as well. "
             "PARTIAL: the decoders/pyo3 layer and the epoch loop are validated on the implementation only:")],
    "C03": [("PARTIAL: order across list files",
             "And (c03_unshuffled_interfaces_in_order) with shuffle=0 the three NumPy interfaces, as compositions regenerated from dataset_iteration.py, return exactly the examples of the selected shards in list order, "
             "independent of thread count, random sequences and pool completion order. And over whole histories (c03_session_block_in_order): whatever sessions precede and follow, the shards a filler session closed for a split appear contiguously, "
             "in close order and with exactly the written examples, in the depth-first shard list of that split. Every pass of the Rust interface likewise (c03_rust_pass_in_order). Over ANY stream of paths the unshuffled concurrent reader (batch machine, any batch size) hands over at every position what the synchronous reader hands over (c03_concurrent_reader_equals_sync_reader). PARTIAL: the order of a multi-writer call's directories, order across list files")],
}
for _pid, _subs in REWRITE.items():
    for _old, _new in _subs:
        assert _old in CLAIMED[_pid]["text"], (_pid, _old[:40])
        CLAIMED[_pid]["text"] = CLAIMED[_pid]["text"].replace(_old, _new)

m = {
    "version": 1,
    "setup_cmd": "./setup.sh",
    "hooks": {"guard": "SEDPACK_VERIF", "enable": "no hook is compiled in; checks set SEDPACK_VERIF=1 in the environment of implementation runs (currently unused by /repo)",
              "baseline_off_cmd": "cd /repo && /venv/bin/python -m pytest -ra -q -p no:cacheprovider --timeout=900 --continue-on-collection-errors",
              "source_commits": json.loads((V / "tools" / "source_commits.json").read_text()) if (V / "tools" / "source_commits.json").exists() else [],
              "add_only": True},
    "engines": [{"name": "coq-proof+correspondence", "path": "check", "serves_properties": sorted(CLAIMED),
                 "kind_free_text": "Coq 8.16 theorems about executable Gallina models; kernels regenerated from the Python source by translator/pygen.py; hand-written model parts compared with the implementation on generated cases (model evaluated by coqc/vm_compute)"}],
    "checks": [],
    "notes": "See DESIGN.md. known_findings.json lists genuine defects (fixed by fix: commits, or known).",
    "not_applicable": [],
}
for pid in ALL:
    if pid in CLAIMED:
        c = CLAIMED[pid]
        m["checks"].append({
            "property_id": pid, "quick_cmd": f"./check {pid} --tier quick", "thorough_cmd": f"./check {pid} --tier thorough",
            "evidence_file": f"evidence/{pid}.json", "replay_cmd_template": f"./check {pid} --replay {{path}}",
            "engine": "coq-proof+correspondence",
            "level_claimed": {"category": "proof", "text": c["text"], "design_ref": c["design"]},
            "level_note": c["note"], "technique": c["technique"]})
    else:
        m["not_applicable"].append({"property_id": pid, "reason": REASON_TODO})
(V / "MANIFEST.json").write_text(json.dumps(m, indent=1) + "\n")
print("claimed", sorted(CLAIMED))
