"""Run histories of writing sessions on the real library and dump the complete metadata tree
after every session.  stdin: {"histories":[{"eps":n,"format":"fb","sessions":[...]}]}
session = {"kind":"filler","sub":[7,8],"reopen":bool,"ops":[...]} | {"kind":"multi","reopen":bool,"writers":[[ops],...]}
"""
import hashlib
import json
import os
import re
import shutil
import sys
import tempfile
from pathlib import Path

import numpy as np

sys.path.insert(0, str(Path(__file__).resolve().parent))
from indep import decode_indep  # noqa: E402

from sedpack.io import Dataset, Metadata, DatasetStructure, Attribute
from sedpack.io.dataset_filler import DatasetFiller
from sedpack.io.flatbuffer import IterateShardFlatBuffer
from sedpack.io.npz import IterateShardNP
from sedpack.io.shard_file_metadata import ShardsList

SPLITS = ["train", "test", "holdout"]
COUNTER = [0]


def apply_ops(filler_ctx, ops, base):
    """ops as in filler_run.py; example payload = base + op index."""
    objs, raised = {}, []
    for i, op in enumerate(ops):
        if op[0] == "M":
            d = objs.setdefault(op[1], {})
            d.clear()
            if op[2]:
                d["k"] = op[2]
            raised.append(False)
        else:
            _, split, o, ok = op
            cm = None if o is None else objs.setdefault(o, {})
            v = base + i
            val = np.array([v], np.int32) if ok else np.array([v, v], np.int32)
            try:
                filler_ctx.write_example(values={"a": val}, split=SPLITS[split], custom_metadata=cm)
                raised.append(False)
            except Exception as ex:  # noqa: BLE001
                raised.append(type(ex).__name__)
    return raised


def feed(dataset_filler, ops, base):
    with dataset_filler as f:
        apply_ops(f, ops, base)
    if base % 200 == 0:
        dataset_filler.get_updated_infos()      # a writer may look at what it produced (e.g. to report counts); looking must not change anything
    return base


def decode(ds, path):
    ft = ds.dataset_structure.shard_file_type
    if ft == "fb":
        it = IterateShardFlatBuffer(dataset_structure=ds.dataset_structure, process_record=None)
    elif ft == "npz":
        it = IterateShardNP(dataset_structure=ds.dataset_structure, process_record=None)
    else:
        from sedpack.io.tfrec import IterateShardTFRec
        it = IterateShardTFRec(dataset_structure=ds.dataset_structure, process_record=None, num_parallel_calls=1)
    return [int(np.asarray(e["a"]).reshape(-1)[0]) for e in it.iterate_shard(path)]


def dirkey(rel: Path):
    """train/d7/<uuid>/shards_list.json -> [0, 7, "u:<uuid>"]"""
    parts = list(rel.parts[:-1])
    out = [SPLITS.index(parts[0])]
    for p in parts[1:]:
        out.append(int(p[1:]) if re.fullmatch(r"d\d+", p) else "u:" + p)
    return out


def digests(ds, p):
    """The digests of a file under the dataset's configured algorithms, computed independently of the library."""
    import hashlib as _h
    data = Path(p).read_bytes()
    out = []
    for a in ds.dataset_structure.hash_checksum_algorithms:
        if a.startswith("xxh"):
            import xxhash as _x
            out.append({"xxh32": _x.xxh32, "xxh64": _x.xxh64, "xxh128": _x.xxh128}[a](data).hexdigest())
        else:
            out.append(_h.new(a, data).hexdigest())
    return tuple(out)


def sha(p):
    return hashlib.sha256(Path(p).read_bytes()).hexdigest()


def dump_tree(ds, root, rel, problems, seen_shards):
    f = root / rel
    sl = ShardsList.model_validate_json(f.read_text())
    if sl.relative_path_self != rel:
        problems.append(f"{rel}: relative_path_self is {sl.relative_path_self}")
    files, own = [], 0
    for sh in sl.shard_files:
        p = sh.file_infos[0].file_path
        if p.parent != rel.parent:
            problems.append(f"{rel}: lists {p} which is not in its own directory")
        full = root / p
        if not full.is_file():
            problems.append(f"{rel}: listed shard {p} does not exist")
            ex = []
        else:
            try:
                ex = decode_indep(ds, full)
            except Exception as e:  # noqa: BLE001
                problems.append(f"{rel}: shard {p} undecodable {type(e).__name__}")
                ex = []
            if tuple(sh.file_infos[0].hash_checksums) != digests(ds, full):
                problems.append(f"{rel}: shard {p} checksum mismatch")
        if len(ex) != sh.number_of_examples:
            problems.append(f"{rel}: shard {p} records {sh.number_of_examples} examples but holds {len(ex)}")
        if str(p) in seen_shards:
            problems.append(f"shard {p} listed twice")
        seen_shards.add(str(p))
        own += sh.number_of_examples
        files.append([sh.number_of_examples, ex, int(sh.custom_metadata.get("k", 0))])
    children, subs, nsh, cnex = [], [], len(sl.shard_files), 0
    names = set()
    for ch in sl.children_shard_lists:
        cp = ch.shard_list_info_file.file_path
        if cp.parent.parent != rel.parent:
            problems.append(f"{rel}: child {cp} is not a direct sub-directory")
        if cp.parent.name in names:
            problems.append(f"{rel}: child directory {cp.parent.name} listed twice")
        names.add(cp.parent.name)
        children.append([dirkey(cp), ch.number_of_examples, ch.number_of_shards])
        if not (root / cp).is_file():
            problems.append(f"{rel}: child list {cp} does not exist")
            continue
        if tuple(ch.shard_list_info_file.hash_checksums) != digests(ds, root / cp):
            problems.append(f"{rel}: child list {cp} checksum mismatch")
        sub = dump_tree(ds, root, cp, problems, seen_shards)
        if sub["nex"] != ch.number_of_examples or sub["nsh"] != ch.number_of_shards:
            problems.append(f"{rel}: child {cp} recorded ({ch.number_of_examples},{ch.number_of_shards}) but is ({sub['nex']},{sub['nsh']})")
        subs.append(sub)
        nsh += ch.number_of_shards
        cnex += ch.number_of_examples
    if sl.number_of_examples != own + cnex:
        problems.append(f"{rel}: total {sl.number_of_examples} != own {own} + children {cnex}")
    return {"dir": dirkey(rel), "nex": sl.number_of_examples, "nsh": nsh, "files": files, "children": children, "sub": subs}


def dump(ds, root, kept):
    problems, seen = [], set()
    info_disk = json.loads((root / "dataset_info.json").read_text())
    try:
        fresh = Dataset(root)
    except Exception as ex:  # noqa: BLE001
        return {"error_open": f"{type(ex).__name__}: {ex}"[:200]}
    if kept is not None and kept._dataset_info.model_dump_json() != fresh._dataset_info.model_dump_json():
        problems.append("the description held in memory differs from what a fresh open reads")
    info, trees, iters = [], [], []
    for s, li in fresh._dataset_info.splits.items():
        si = SPLITS.index(s)
        rel = li.shard_list_info_file.file_path
        if rel != Path(s) / "shards_list.json":
            problems.append(f"split {s} points to {rel}")
        t = dump_tree(fresh, root, rel, problems, seen)
        if tuple(li.shard_list_info_file.hash_checksums) != digests(ds, root / rel):
            problems.append(f"split {s}: root list checksum mismatch")
        if (li.number_of_examples, li.number_of_shards) != (t["nex"], t["nsh"]):
            problems.append(f"split {s}: description records ({li.number_of_examples},{li.number_of_shards}) but the tree holds ({t['nex']},{t['nsh']})")
        info.append([si, li.number_of_examples, li.number_of_shards])
        trees.append(t)
        try:
            got = [int(np.asarray(e["a"]).reshape(-1)[0]) for e in fresh.as_numpy_iterator(split=s, repeat=False, shuffle=0)]
        except Exception as ex:  # noqa: BLE001
            got = f"{type(ex).__name__}"
        iters.append([si, got])
        if kept is not None:
            # the handle that has been writing (and listing) all along must see what a freshly opened one sees
            try:
                got_live = [int(np.asarray(e["a"]).reshape(-1)[0]) for e in kept.as_numpy_iterator(split=s, repeat=False, shuffle=0)]
            except Exception as ex:  # noqa: BLE001
                got_live = f"{type(ex).__name__}"
            if got_live != got:
                problems.append(f"split {s}: the handle kept open since before this session iterates {str(got_live)[:80]} but a fresh handle iterates {str(got)[:80]}")
    ext = "." + fresh.dataset_structure.shard_file_type
    for d, _dirs, fs in os.walk(root):
        for x in fs:
            if x.endswith(ext) and str(Path(d, x).relative_to(root)) not in seen:
                problems.append(f"shard file {Path(d, x).relative_to(root)} is on disk but not listed")
    try:
        fresh.check(show_progressbar=False)
        chk = True
    except Exception as ex:  # noqa: BLE001
        chk = f"{type(ex).__name__}: {ex}"[:150]
    return {"info": info, "trees": trees, "iterate": iters, "problems": problems, "check": chk}


def run_history(h, tmp):
    root = Path(tmp) / "ds"
    if root.exists():
        shutil.rmtree(root)
    ds = Dataset.create(path=root, metadata=Metadata(description="h"), dataset_structure=DatasetStructure(
        saved_data_description=[Attribute(name="a", dtype="int32", shape=(1,))], shard_file_type=h.get("format", "fb"),
        compression="", examples_per_shard=h["eps"], hash_checksum_algorithms=tuple(h.get("algs", ("sha256",)))))
    out = []
    base = 0
    early = None        # a filler object constructed (not entered) before the previous session ran
    for si, s in enumerate(h["sessions"]):
        err, raised = None, None
        if s.get("reopen"):
            ds = Dataset(root)
            early = None
        nxt = h["sessions"][si + 1] if si + 1 < len(h["sessions"]) else None
        mine, early = early, None
        if nxt is not None and nxt.get("early") and nxt["kind"] == "filler" and not nxt.get("reopen"):
            nsub = Path(*[f"d{x}" for x in nxt["sub"]]) if nxt["sub"] else Path(".")
            early = DatasetFiller(ds, relative_path_from_split=nsub)
        try:
            if s["kind"] == "filler":
                sub = Path(*[f"d{x}" for x in s["sub"]]) if s["sub"] else Path(".")
                with (mine if mine is not None and s.get("early") else DatasetFiller(ds, relative_path_from_split=sub)) as f:
                    raised = apply_ops(f, s["ops"], base)
                base += 100
            else:
                bases = [base + 100 * i for i in range(len(s["writers"]))]
                ret = ds.write_multiprocessing(feed_writer=feed, custom_arguments=[(ops, b) for ops, b in zip(s["writers"], bases)],
                                               consistency_check=False, single_process=True)
                if ret != bases:
                    err = f"ReturnValues: {ret} != {bases}"
                base += 100 * len(s["writers"])
        except BaseException as ex:  # noqa: BLE001
            err = f"{type(ex).__name__}: {ex}"[:200]
        d = dump(ds, root, ds)
        d["error"] = err
        d["raised"] = raised
        out.append(d)
        if err:
            break
    return out


def main():
    req = json.load(sys.stdin)
    tmp = tempfile.mkdtemp(prefix="verif_hist_")
    try:
        res = [run_history(h, tmp) for h in req["histories"]]
    finally:
        shutil.rmtree(tmp, ignore_errors=True)
    print("@@RESULT@@" + json.dumps({"results": res}))


if __name__ == "__main__":
    main()
