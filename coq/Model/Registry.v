(** The registry of live Rust iterators (rust/src/lib.rs, [mod static_iter]) driven by any number of Python-side
    [RustGenerator]s (dataset_iteration.py) whose generators are advanced in any interleaving by a single consumer thread.

    rust side   STATIC_ITERATORS : HashMap<usize, ExampleIterator>;  RustIter::new inserts under a fresh random key,
                next looks the key up (panics if absent) and advances that iterator, __exit__ removes the key.
    python side RustGenerator.__call__ : one pass ([_single_iter]), then further passes while [repeat];
                _single_iter : create a RustIter over the freshly computed shard paths (repeat=False), enter it, yield from it,
                exit it, forget it.   A generator abandoned early is closed: the [with RustGenerator] block exits the RustIter.

    Python generator code between two yields runs without interruption by the other generators (one consumer thread), so the
    atomic step of the model is "advance generator i to its next yield".  An ExampleIterator over a list of shards delivers
    the examples of those shards in order (that is C15's theorem about parallel_map + flatten); here it is the list [g_pass g n]
    of the examples the n-th pass of generator g is to deliver.  [g_ep] and [g_out] are bookkeeping (how many passes were started,
    what has been yielded so far); no decision depends on them except that the n-th pass asks for the n-th path list. *)
Require Import Sedpack.Model.Base Sedpack.Generated.GenRegistry.

Section Registry.
Context {ex : Type}.
Variable idgen : nat -> nat.        (* the k-th call of rand::random() *)

Inductive gst := Idle | Draining (id : nat) | Finished.
Record gen := { g_pass : nat -> list ex; g_repeat : bool; g_st : gst; g_ep : nat; g_out : list ex }.
Record world := { reg : nat -> option (list ex); nids : nat; gens : nat -> gen }.
Inductive res := Yield (e : ex) | Stop | Panic | OutOfFuel.

Definition upd {A} (f : nat -> A) (i : nat) (v : A) : nat -> A := fun j => if j =? i then v else f j.

Definition set_st (g : gen) (s : gst) := {| g_pass := g_pass g; g_repeat := g_repeat g; g_st := s; g_ep := g_ep g; g_out := g_out g |}.

(** _single_iter up to the first [next]: a new RustIter under a new key (HashMap::insert replaces an existing entry). *)
Definition start (w : world) (i : nat) : world :=
  let g := gens w i in
  let id := idgen (nids w) in
  {| reg := upd (reg w) id (Some (g_pass g (g_ep g))); nids := S (nids w);
     gens := upd (gens w) i {| g_pass := g_pass g; g_repeat := g_repeat g; g_st := Draining id; g_ep := S (g_ep g); g_out := g_out g |} |}.

(** [next] found one more example: it leaves the Rust iterator and is yielded. *)
Definition deliver (w : world) (i id : nat) (e : ex) (r : list ex) : world :=
  let g := gens w i in
  {| reg := upd (reg w) id (Some r); nids := nids w;
     gens := upd (gens w) i {| g_pass := g_pass g; g_repeat := g_repeat g; g_st := Draining id; g_ep := g_ep g; g_out := g_out g ++ [e] |} |}.
(** the pass is over: __exit__ removes the key, the iterator is forgotten; [__call__] goes on only when repeating *)
Definition end_pass (w : world) (i id : nat) : world :=
  let g := gens w i in
  {| reg := upd (reg w) id None; nids := nids w; gens := upd (gens w) i (set_st g (if another_pass (g_repeat g) then Idle else Finished)) |}.

Fixpoint pull (fuel : nat) (w : world) (i : nat) : world * res :=
  match fuel with
  | 0 => (w, OutOfFuel)
  | S fuel =>
    match g_st (gens w i) with
    | Finished => (w, Stop)
    | Idle => pull fuel (start w i) i
    | Draining id =>
      match reg w id with
      | None => (w, Panic)                                   (* expect("The static_index was not found ...") *)
      | Some (e :: r) => (deliver w i id e r, Yield e)
      | Some [] => pull fuel (end_pass w i id) i
      end
    end
  end.

(** The consumer drops generator i (GeneratorExit at the yield): the with-block exits the live RustIter. *)
Definition abandon (w : world) (i : nat) : world :=
  let g := gens w i in
  match g_st g with
  | Draining id => {| reg := upd (reg w) id None; nids := nids w; gens := upd (gens w) i (set_st g Finished) |}
  | _ => {| reg := reg w; nids := nids w; gens := upd (gens w) i (set_st g Finished) |}
  end.

Inductive op := Pull (i : nat) | Abandon (i : nat).
Definition FUEL := 4.
Definition step (w : world) (o : op) : world * option res :=
  match o with
  | Pull i => let (w', r) := pull FUEL w i in (w', Some r)
  | Abandon i => (abandon w i, None)
  end.
Fixpoint run (w : world) (ops : list op) : world * list (option res) :=
  match ops with
  | [] => (w, [])
  | o :: ops => let (w1, r) := step w o in let (w2, rs) := run w1 ops in (w2, r :: rs)
  end.

Definition init (passes : nat -> nat -> list ex) (rep : nat -> bool) : world :=
  {| reg := fun _ => None; nids := 0;
     gens := fun i => {| g_pass := passes i; g_repeat := rep i; g_st := Idle; g_ep := 0; g_out := [] |} |}.
End Registry.
