#!/bin/sh
# Run every claimed check (quick by default) on the current tree and validate the evidence files.
cd "$(dirname "$(readlink -f "$0")")/.."
tier=${1:-quick}
ids=$(python3 -c "import json; print(' '.join(c['property_id'] for c in json.load(open('MANIFEST.json'))['checks']))")
rc=0
for p in $ids; do
  VERIF_TIER=$tier ./check $p 2>&1 | grep -E "^(OK|VIOLATION|KNOWN)" | cut -c1-200 || true
done
python3-vt - <<'PY'
import json, jsonschema
m=json.load(open('MANIFEST.json')); s=json.load(open('/root/.vp/EVIDENCE.schema.json'))
jsonschema.validate(m, json.load(open('/root/.vp/MANIFEST.schema.json')))
for c in m['checks']:
    e=json.load(open(c['evidence_file'])); jsonschema.validate(e, s)
    cov=e['coverage']
    if cov.get('discharged')!=cov.get('obligations') or e.get('violations'): print("BAD EVIDENCE", c['property_id'], cov.get('discharged'), cov.get('obligations'), e.get('violations'))
print("evidence validated for", len(m['checks']), "checks")
PY
