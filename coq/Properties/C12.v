(** C12 — Shard selection options mean the same thing in every iteration interface.
    Property theorems only; each is closed by [exact] of a lemma proved in Proofs/. *)
Require Import Sedpack.Model.Base Sedpack.Generated.GenSelect Sedpack.Model.Select Sedpack.Proofs.SelectProofs.

(** The stages of [shard_paths_dataset], in the order and with the guards found in the source,
    compute the specification: keep what the predicate accepts; error if nothing is left; then the
    first [k] (if given); then at most [n] per metadata value, first come first (if given) —
    for every shard list, predicate, [k] and [n]. *)
Theorem c12_select_is_spec :
  forall (filt : option (sinfo -> bool)) (k n : nat) (l : list sinfo), select filt k n l = spec filt k n l.
Proof. exact select_spec_lemma. Qed.
Print Assumptions c12_select_is_spec.

(** Whatever is selected is a non-empty, order-preserving sub-list of the depth-first shard list
    (so the examples read are exactly those stored in the shards so selected). *)
Theorem c12_selection_is_ordered_sublist :
  forall filt k n l r, select filt k n l = Some r -> sublist r l /\ r <> [].
Proof. exact select_sublist_lemma. Qed.
Print Assumptions c12_selection_is_ordered_sublist.

(** At most [n] shards of any one metadata value survive the per-metadata limit. *)
Theorem c12_limit_per_metadata_value :
  forall (n : nat) (l : list sinfo) (m : meta), 1 <= n -> count_meta m (limit_loop n l []) <= n.
Proof. exact limit_bounded_lemma. Qed.
Print Assumptions c12_limit_per_metadata_value.

(** A predicate that matches no shard is an error, never an empty pass. *)
Theorem c12_empty_selection_errors :
  forall (p : sinfo -> bool) (k n : nat) (l : list sinfo), filter p l = [] -> select (Some p) k n l = None.
Proof. exact empty_selection_errors_lemma. Qed.
Print Assumptions c12_empty_selection_errors.

(** Every iteration interface passes every selection option it accepts on to every callee that
    takes it (table regenerated from the keyword arguments of the calls in dataset_iteration.py). *)
Theorem c12_forwarding_complete : all_forwarded = true.
Proof. reflexivity. Qed.
Print Assumptions c12_forwarding_complete.

Theorem c12_nonvacuous :
  let l := [{| s_id := 0; s_meta := 1 |}; {| s_id := 1; s_meta := 2 |}; {| s_id := 2; s_meta := 1 |}; {| s_id := 3; s_meta := 1 |}; {| s_id := 4; s_meta := 2 |}] in
  option_map (map s_id) (select None 4 1 l) = Some [0; 1] /\
  option_map (map s_id) (select (Some (fun s => s_meta s =? 1)) 0 2 l) = Some [0; 2] /\
  select (Some (fun s => s_meta s =? 9)) 0 0 l = None.
Proof. vm_compute. repeat split. Qed.
Print Assumptions c12_nonvacuous.
