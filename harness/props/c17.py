"""C17 — paths taken from metadata cannot escape the dataset directory."""
import json

from harness import common
from harness.common import Broken, COQ, REPO
from translator import pygen

PID = "C17"
COMPS = ["a", "b", "..", ".", "", "train", "shards_list.json", "x.fb", "...", "a b", "..a", "sub", "etc", "data_private"]


def gen_strings(ctx):
    rng = ctx.rng
    fixed = ["", ".", "..", "/", "//", "///", "a", "a/", "/a", "//a", "///a", "a/..", "../a", "a/../b", "a/./b", "a//b",
             "train/shards_list.json", "/train/shards_list.json", "train/../shards_list.json", "shards_list.json/..",
             "./shards_list.json", "train/shards_list.json/", "train/shards_list.json/.", "..a/b", "a/...", "/etc/passwd",
             "//etc/passwd", "../data_private/train/x.fb", "train/x.fb", "a/b/c/d/e/f/g/h", "....", ". ./a", " ", "a/ /b",
             # spellings that only another platform's separator would make hostile: single harmless components here
             "..\\a", "\\etc\\passwd", "a\\..\\..\\b", "train\\..\\..\\x.fb", "C:\\x", "..\\elsewhere/x.fb"]
    out = list(fixed)
    for _ in range(ctx.scale(300, 4000)):
        depth = rng.choice([1, 2, 2, 3, 3, 4, 6, 8])
        lead = rng.choice(["", "", "", "/", "//", "///", "./", "../"])
        trail = rng.choice(["", "", "/", "/.", "/.."]) if rng.random() < 0.3 else ""
        body = "/".join(rng.choice(COMPS) for _ in range(depth))
        out.append(lead + body + trail)
    seen, res = set(), []
    for s in out:
        if s not in seen:
            seen.add(s)
            res.append(s)
    return res


HOSTILE = ["@TMP@/elsewhere/@SHARD@", "../elsewhere/@SHARD@", "../data_private/@SHARD@", "train/../../elsewhere/@SHARD@",
           "//@TMP@/elsewhere/@SHARD@", "./../data_private/@SHARD@", "train/../../data_private/train/@SHARDNAME@",
           # the same places spelled with back-slashes (one harmless component on POSIX unless somebody normalises it after the check)
           "..\\elsewhere\\train\\@SHARDNAME@", "..\\data_private\\train\\@SHARDNAME@", "train\\..\\..\\elsewhere\\train\\@SHARDNAME@"]
HOSTILE_LISTS = ["@TMP@/elsewhere/train/sub/shards_list.json", "../elsewhere/train/sub/shards_list.json",
                 "../data_private/train/sub/shards_list.json", "train/../../data_private/train/sub/shards_list.json"]
HOSTILE_SPLIT = ["@TMP@/elsewhere/train/shards_list.json", "../elsewhere/train/shards_list.json",
                 "../data_private/train/shards_list.json"]
BENIGN = ["train/./@SHARDNAME@", "train//@SHARDNAME@", "./train/@SHARDNAME@"]
HOSTILE_SUB = ["@TMP@/elsewhere", "../elsewhere", "../../data_private", "x/../../../elsewhere", "/@TMP@/elsewhere", "//@TMP@/elsewhere"]
BENIGN_SUB = ["s1", "s1/s2", "./s1", "s1//s2"]


def model_eval(strings):
    files = {}
    for ci in range(0, len(strings), 400):
        ch = strings[ci:ci + 400]
        body = ["Require Import Sedpack.Model.Paths Sedpack.Generated.GenPaths.",
                'Definition root := parse "/data/set".',
                "Definition f (s : string) := let p := parse s in (is_absolute p, (p_root p, (p_comps p, (name_of p, (p_comps (join root p), "
                "(inside root (join root p), (fileinfo_rejects p, (shardslist_rejects p, (shardlistinfo_rejects p, filler_rejects p))))))))).",
                "Eval vm_compute in map f [" + "; ".join(common.cstring(s) for s in ch) + "]."]
        files[f"paths{ci // 400}"] = "\n".join(body) + "\n"
    res = common.coq_eval_many(PID, files)
    out = []
    for ci in range(0, len(strings), 400):
        out.extend(common.parse_coq_list(res[f"paths{ci // 400}"]))
    return out


def run(ctx):
    broken = []
    tr = pygen.regenerate(REPO, COQ / "Generated", only=["GenPaths"])
    if tr["GenPaths"]:
        broken.append(Broken("translator: GenPaths (a path validator no longer has the shape `if cond: raise; return v`)", tr["GenPaths"]))
    proof = None
    if not broken:
        try:
            proof = common.check_property_file(PID)
        except Broken as b:
            broken.append(b)
    strings = gen_strings(ctx)
    audit = ([{"site": "shard", "path": p} for p in HOSTILE + BENIGN] + [{"site": "child", "path": p} for p in HOSTILE_LISTS]
             + [{"site": "split", "path": p} for p in HOSTILE_SPLIT] + [{"site": "self", "path": p} for p in HOSTILE_LISTS[:2]]
             + [{"site": "relative_root", "path": "data"}])
    fill = [{"path": p} for p in HOSTILE_SUB + BENIGN_SUB]
    res = common.run_impl("paths_run.py", {"pathlib": strings, "audit": audit, "filler": fill}, timeout=1800)
    # 1. the property on the implementation
    for s, r in zip(strings, res["pathlib"]):
        for field in ("fileinfo", "shardslist", "shardlistinfo"):
            if r[field] == "accept" and not r["inside"]:
                kind = "absolute" if r["abs"] else "relative"
                ctx.report(f"validator-accepts-outside:{field}:{kind}",
                           f"{field} validator accepts {s!r} although root/{s!r} = {'/'.join(r['joined'])} is outside the root",
                           {"mode": "pathlib", "string": s, "impl": r})
        if r["filler"] == "accept" and not r["inside"]:
            kind = "absolute" if r["abs"] else "relative"
            ctx.report(f"filler-accepts-outside:{kind}", f"filler accepts sub-directory {s!r} which leaves the root",
                       {"mode": "pathlib", "string": s, "impl": r})
    for c, r in zip(audit, res["audit"]):
        if r["outside"]:
            kind = "absolute" if c["path"].startswith(("@TMP@", "/")) else "relative"
            ctx.report(f"reads-outside-root:{c['site']}:{kind}",
                       f"metadata path {r['hostile']!r} at site {c['site']}: files outside the root were opened: {r['outside'][:2]} (stages {r['stages']})",
                       {"mode": "audit", "case": c, "impl": r})
        if (c["path"] in BENIGN or c["site"] == "relative_root") and any(v.startswith("raised") for v in r["stages"].values()):
            ctx.report("benign-path-rejected", f"harmless path spelling {c['path']} broke {r['stages']}", {"mode": "audit", "case": c, "impl": r})
    for c, r in zip(fill, res["filler"]):
        if r["created_outside"]:
            kind = "absolute" if c["path"].startswith(("@TMP@", "/")) else "relative"
            ctx.report(f"filler-creates-outside-root:{kind}", f"sub-directory {r['sub']!r}: created {r['created_outside'][:2]} outside the root ({r['result']})",
                       {"mode": "filler", "case": c, "impl": r})
        if c["path"] in BENIGN_SUB and r["result"] != "ok":
            ctx.report("benign-subdirectory-rejected", f"sub-directory {c['path']} failed: {r['result']}", {"mode": "filler", "case": c, "impl": r})
    # 2. correspondence of the path model and the generated validators with pathlib / pydantic
    disagreements = 0
    if not tr["GenPaths"]:
        try:
            rc, log = common.coq_make(["Generated/GenPaths.vo"])
            if rc:
                raise Broken("Generated/GenPaths.v does not compile", log[-2000:])
            ms = model_eval(strings)
            for s, r, m in zip(strings, res["pathlib"], ms):
                (mabs, (mroot, (mcomps, (mname, (mjoin, (minside, (mfi, (msl, (msli, mfill))))))))) = m
                rootpart = {0: [], 1: ["/"], 2: ["//"]}[mroot]
                d = []
                if bool(mabs) != r["abs"] or rootpart + list(mcomps) != r["parts"] or mname != r["name"]:
                    d.append(f"parse: model {(mabs, rootpart + list(mcomps), mname)} pathlib {(r['abs'], r['parts'], r['name'])}")
                jr = r["joined"][1:] if r["joined"] and r["joined"][0] in ("/", "//") else r["joined"]
                if list(mjoin) != jr or bool(minside) != r["inside"]:
                    d.append(f"join/inside: model {(list(mjoin), minside)} impl {(jr, r['inside'])}")
                for field, mv in (("fileinfo", mfi), ("shardslist", msl), ("shardlistinfo", mfi or msli), ("filler", mfill)):
                    if bool(mv) != r[field].startswith("reject"):
                        d.append(f"{field}: model rejects={mv} impl {r[field]}")
                if d:
                    disagreements += 1
                    if disagreements <= 3:
                        broken.append(Broken("correspondence path model / generated validators vs pathlib / pydantic", json.dumps({"string": s, "diffs": d})))
        except Broken as b:
            broken.append(b)
    if broken and not ctx.violations:
        b = broken[0]
        ctx.report(f"broken:{b.what}", b.what, {"unchecked": b.what, "detail": b.detail[-3000:]}, found_input=False)
    nontrivial = [s for s in strings if ".." in s or s.startswith("/") or "//" in s or "/./" in s]
    for s in strings[30:34]:
        ctx.sample(s)
    ctx.sample(audit[2])
    ctx.coverage.update({
        "obligations": proof["obligations"] if proof else 4, "discharged": proof["discharged"] if proof else 0,
        "theorems": proof["theorems"] if proof else [],
        "checker_cmd": "make -C coq Proofs/PathProofs.vo && coqc -Q coq Sedpack coq/Properties/C17.v (Print Assumptions under each theorem)",
        "trusted_base": common.TRUSTED_BASE_COMMON + [
            "modelled, not verified: pathlib.PurePosixPath parsing/joining (model M7 compared with it on every generated string), pydantic running the validators on load",
            "outside the property and the model: symbolic links inside the dataset directory",
            "that every read site uses root / <validated path> is checked by audit-hook runs on crafted datasets, not by a theorem"],
        "evaluations": len(strings) + len(audit) + len(fill),
        "distinct_nontrivial": len(set(nontrivial)) + len(audit) + len(fill),
        "rule": "path strings from a grammar over {names, '.', '..', '', blanks} x leading '/', '//', '///' x trailing separators (deduplicated); "
                "non-trivial = contains '..', a leading '/', '//' or '/./'; plus crafted datasets (hostile path at shard / child list / split / self sites, "
                "checksums made consistent) under an audit hook, plus hostile/benign filler sub-directories",
        "strings": len(strings), "audit_cases": len(audit), "filler_cases": len(fill),
        "model_vs_impl_disagreements": disagreements,
        "traces_validated_against_impl": len(strings) - disagreements,
    })
    ctx.assumptions += ["no symbolic links inside the dataset directory", "the dataset root is an absolute, normalised path (Path.resolve())"]


def replay(ctx, rp):
    r = rp["replay"]
    if "mode" not in r:
        print("no concrete input in this replay file:", r.get("unchecked"))
        return False
    if r["mode"] == "pathlib":
        res = common.run_impl("paths_run.py", {"pathlib": [r["string"]]})["pathlib"][0]
        print(json.dumps(res, indent=1))
        return not any(res[f] == "accept" and not res["inside"] for f in ("fileinfo", "shardslist", "shardlistinfo", "filler"))
    res = common.run_impl("paths_run.py", {r["mode"]: [r["case"]]})[r["mode"]][0]
    print(json.dumps(res, indent=1))
    return not (res.get("outside") or res.get("created_outside"))
