(** C05: if the integrity check passes on any file system, every list file and shard file
    reachable from the committed description has exactly its committed content. *)
Require Import Sedpack.Model.Base Sedpack.Model.Integrity.

Section P.
Variable digest : Type.
Variable deqb : digest -> digest -> bool.
Hypothesis deqb_spec : forall a b, deqb a b = true <-> a = b.
Variable Hl : ldoc digest -> digest.
Hypothesis Hl_inj : forall a b, Hl a = Hl b -> a = b.

Notation check_lists := (check_lists digest deqb Hl).
Notation check_shards := (check_shards digest deqb).
Notation committed := (committed digest Hl).
Notation reach_list := (reach_list digest).

(** Accepting direction: a committed tree passes. *)
Lemma committed_passes fuel : forall fs0 p d, committed fuel fs0 p d ->
  check_lists fuel fs0 p d = true /\ check_shards fuel fs0 p = true.
Proof.
  induction fuel as [|f IH]; intros fs0 p d Hc; [destruct Hc|].
  destruct Hc as (doc & Hl0 & Hd & Hsh & Hch). simpl. rewrite Hl0. split.
  - apply andb_true_iff. split; [apply deqb_spec; exact Hd|].
    apply forallb_forall. intros c Hc. apply (IH fs0 _ _ (Hch c Hc)).
  - apply andb_true_iff. split.
    + apply forallb_forall. intros s Hs. rewrite (Hsh s Hs). apply deqb_spec. reflexivity.
    + apply forallb_forall. intros c Hc. apply (IH fs0 _ _ (Hch c Hc)).
Qed.

(** Detecting direction: whatever the file system [fs'] looks like, a passing check means
    that at every reachable directory [fs'] holds the committed list document, and every shard
    listed there has the committed digest. *)
Lemma check_detects fuel : forall fs0 fs' p d q,
  committed fuel fs0 p d ->
  check_lists fuel fs' p d = true -> check_shards fuel fs' p = true ->
  reach_list fuel fs0 p q ->
  exists doc, f_list digest fs0 q = Some doc /\ f_list digest fs' q = Some doc /\
    forall s, List.In s (ld_shards digest doc) -> f_shard digest fs' q (fst s) = Some (snd s).
Proof.
  induction fuel as [|f IH]; intros fs0 fs' p d q Hc Hcl Hcs Hr; [destruct Hc|].
  destruct Hc as (doc & Hl0 & Hd & Hsh & Hch). simpl in Hcl, Hcs.
  destruct (f_list digest fs' p) as [doc'|] eqn:El'; [|discriminate].
  apply andb_true_iff in Hcl. destruct Hcl as (Hdig & Hkids).
  apply deqb_spec in Hdig. rewrite <- Hd in Hdig. apply Hl_inj in Hdig. subst doc'.
  apply andb_true_iff in Hcs. destruct Hcs as (Hshards & Hkids2).
  destruct Hr as [<-|(doc1 & c & Hl1 & Hin & Hr)].
  - exists doc. repeat split; auto. intros s Hs. rewrite forallb_forall in Hshards. specialize (Hshards s Hs).
    destruct (f_shard digest fs' p (fst s)) as [h|]; [|discriminate]. apply deqb_spec in Hshards. congruence.
  - rewrite Hl0 in Hl1. injection Hl1 as <-.
    rewrite forallb_forall in Hkids, Hkids2.
    apply (IH fs0 fs' (p ++ [fst c]) (snd c) q (Hch c Hin) (Hkids c Hin) (Hkids2 c Hin) Hr).
Qed.
End P.
