(** Model of [_DatasetFillerContext.write_example], [close_shard] (the bookkeeping part) and
    the shard-closing loop of [DatasetFiller.__exit__] (dataset_filler.py).

    The decision kernels [metadata_changed], [rollover], [close_on_exit], the order of the four
    effects of [write_example] and [attach_mode] come from [Generated/GenFiller.v], which the
    translator rewrites from the Python source on every run.  Executable Gallina only. *)
Require Import Sedpack.Model.Base Sedpack.Generated.GenFiller.

(** What a shard's [custom_metadata] attribute holds: the pydantic default [{}], a reference to
    the caller's dictionary, or a private copy of its value. *)
Inductive mref := MDefault | MRef (o : obj) | MVal (m : meta).
Definition mval (h : heap) (r : mref) : meta :=
  match r with MDefault => 0 | MRef o => hget h o | MVal m => m end.
Definition attach (k : attach_kind) (h : heap) (o : obj) : mref :=
  match k with Alias => MRef o | Copy => MVal (hget h o) end.

(** An open or closed shard: identity (creation order stands for the uuid), the examples the
    shard writer accepted (an example is identified by the index of the write operation), the
    count kept in [shard_info.number_of_examples], and the metadata attribute. *)
Record shard := { sh_id : nat; sh_ex : list nat; sh_n : nat; sh_meta : mref;
                  sh_vals : list meta (* ghost: the metadata value of each write at the time of the write *) }.
Record progress := { p_shard : shard; p_written : nat }.

Record fstate := {
  f_heap : heap;
  f_open : split -> option progress;      (* _current_shards_progress *)
  f_order : list split;                   (* its insertion order *)
  f_closed : list (split * shard);        (* every close_shard call, in call order *)
  f_next : nat;                           (* fresh shard names *)
  f_clock : nat;                          (* index of the next write operation *)
  f_changed : list split                  (* ghost: splits in which metadata_changed fired *)
}.

(** Caller operations inside one [with ... filler()] block.  [ok = false]: the shard writer
    rejects the values (raises) and the caller catches the exception and goes on. *)
Inductive wop :=
| WWrite (s : split) (cm : option obj) (ok : bool)
| WMutate (o : obj) (v : meta).

Definition fresh_shard (n : nat) : shard := {| sh_id := n; sh_ex := []; sh_n := 0; sh_meta := MDefault; sh_vals := [] |}.

(** Local context of one [write_example] call on split [s]. *)
Record wctx := { w_prog : progress; w_closed : list (split * shard); w_next : nat }.

Definition cm_value (h : heap) (cm : option obj) : meta :=
  match cm with Some o => hget h o | None => 0 end.

Definition exec_tag (eps : nat) (s : split) (h : heap) (cm : option obj) (changed ok : bool)
           (e : nat) (t : wtag) (c : wctx) : wctx * bool :=
  let p := w_prog c in
  let sh := p_shard p in
  match t with
  | Roll =>
      if rollover (p_written p) eps changed then
        ({| w_prog := {| p_shard := fresh_shard (w_next c); p_written := 0 |};
            w_closed := w_closed c ++ [(s, sh)];
            w_next := S (w_next c) |}, false)
      else (c, false)
  | Attach =>
      match cm with
      | Some o =>
          if meta_truthy (hget h o) then
            ({| w_prog := {| p_shard := {| sh_id := sh_id sh; sh_ex := sh_ex sh; sh_n := sh_n sh;
                                           sh_meta := attach attach_mode h o; sh_vals := sh_vals sh |};
                             p_written := p_written p |};
                w_closed := w_closed c; w_next := w_next c |}, false)
          else (c, false)
      | None => (c, false)
      end
  | Write =>
      if ok then
        ({| w_prog := {| p_shard := {| sh_id := sh_id sh; sh_ex := sh_ex sh ++ [e]; sh_n := S (sh_n sh);
                                       sh_meta := sh_meta sh; sh_vals := sh_vals sh ++ [cm_value h cm] |};
                         p_written := p_written p |};
            w_closed := w_closed c; w_next := w_next c |}, false)
      else (c, true)
  | Count =>
      ({| w_prog := {| p_shard := sh; p_written := S (p_written p) |};
          w_closed := w_closed c; w_next := w_next c |}, false)
  end.

(** Run the effects in source order; an exception skips the remaining ones but what was already
    mutated stays mutated. *)
Fixpoint run_tags (eps : nat) (s : split) (h : heap) (cm : option obj) (changed ok : bool) (e : nat)
         (ts : list wtag) (c : wctx) : wctx * bool :=
  match ts with
  | [] => (c, false)
  | t :: ts' =>
      let (c', raised) := exec_tag eps s h cm changed ok e t c in
      if raised then (c', true) else run_tags eps s h cm changed ok e ts' c'
  end.

Definition upd_open (f : split -> option progress) (s : split) (p : progress) : split -> option progress :=
  fun s' => if split_eqb s' s then Some p else f s'.

Definition write_example (eps : nat) (st : fstate) (s : split) (cm : option obj) (ok : bool) : fstate * bool :=
  let h := f_heap st in
  (* "if split not in self._current_shards_progress": create the first shard *)
  let '(p0, next0, order0) :=
    match f_open st s with
    | Some p => (p, f_next st, f_order st)
    | None => ({| p_shard := fresh_shard (f_next st); p_written := 0 |}, S (f_next st), f_order st ++ [s])
    end in
  let changed := metadata_changed (cm_value h cm) (mval h (sh_meta (p_shard p0))) in
  let '(c, raised) := run_tags eps s h cm changed ok (f_clock st) write_example_order
                               {| w_prog := p0; w_closed := f_closed st; w_next := next0 |} in
  ({| f_heap := h;
      f_open := upd_open (f_open st) s (w_prog c);
      f_order := order0;
      f_closed := w_closed c;
      f_next := w_next c;
      f_clock := S (f_clock st);
      f_changed := if changed then s :: f_changed st else f_changed st |}, raised).

Definition step (eps : nat) (st : fstate) (o : wop) : fstate :=
  match o with
  | WWrite s cm ok => fst (write_example eps st s cm ok)
  | WMutate ob v =>
      {| f_heap := hset (f_heap st) ob v; f_open := f_open st; f_order := f_order st;
         f_closed := f_closed st; f_next := f_next st; f_clock := S (f_clock st); f_changed := f_changed st |}
  end.

Definition init_fstate : fstate :=
  {| f_heap := []; f_open := fun _ => None; f_order := []; f_closed := []; f_next := 0; f_clock := 0;
     f_changed := [] |}.

Definition run_ops (eps : nat) (ops : list wop) : fstate := fold_left (step eps) ops init_fstate.

(** [DatasetFiller.__exit__]: close every open shard that holds at least one example, in the
    insertion order of the progress dictionary. *)
Definition exit_closes (st : fstate) : list (split * shard) :=
  flat_map (fun s => match f_open st s with
                     | Some p => if close_on_exit (p_written p) then [(s, p_shard p)] else []
                     | None => []
                     end) (f_order st).

Definition session_closed (eps : nat) (ops : list wop) : list (split * shard) :=
  let st := run_ops eps ops in f_closed st ++ exit_closes st.

Definition closed_of (s : split) (l : list (split * shard)) : list shard :=
  map snd (filter (fun x => split_eqb (fst x) s) l).

(** Observable summary compared with the implementation: per closed shard, in close order:
    split, recorded count, examples, and the metadata value as it is dumped when the session
    ends (a reference is resolved against the final heap). *)
Definition split_code (s : split) : nat := match s with Train => 0 | Test => 1 | Holdout => 2 end.
Definition observe (eps : nat) (ops : list wop) : list (nat * (nat * (list nat * meta))) :=
  let st := run_ops eps ops in
  map (fun x => (split_code (fst x), (sh_n (snd x), (sh_ex (snd x), mval (f_heap st) (sh_meta (snd x))))))
      (f_closed st ++ exit_closes st).

(** Which write operations raised (by index), for the correspondence check. *)
Fixpoint raised_ops (eps : nat) (st : fstate) (ops : list wop) : list bool :=
  match ops with
  | [] => []
  | WWrite s cm ok :: t => let (st', r) := write_example eps st s cm ok in r :: raised_ops eps st' t
  | (WMutate _ _ as o) :: t => false :: raised_ops eps (step eps st o) t
  end.

(** Executable statement of C11: every example written under a non-empty metadata value lies in
    a shard whose recorded metadata (resolved when the session ends) is that value. *)
Definition label_ok (h : heap) (sh : shard) : bool :=
  forallb (fun v => (v =? 0) || (v =? mval h (sh_meta sh))) (sh_vals sh) && (length (sh_vals sh) =? length (sh_ex sh)).
Definition labels_ok (eps : nat) (ops : list wop) : bool :=
  forallb (fun x => label_ok (f_heap (run_ops eps ops)) (snd x)) (session_closed eps ops).
(** every accepted write is in exactly one recorded shard *)
Definition recorded_examples (eps : nat) (ops : list wop) : list nat :=
  flat_map (fun x => sh_ex (snd x)) (session_closed eps ops).

(** Executable statement of C10 (the oracle every C10 theorem is stated through). *)
Definition size_ok (eps : nat) (sh : shard) : bool :=
  (1 <=? length (sh_ex sh)) && (length (sh_ex sh) <=? eps) && (sh_n sh =? length (sh_ex sh)).
Definition full (eps : nat) (sh : shard) : bool := length (sh_ex sh) =? eps.
Definition sizes_ok (eps : nat) (ops : list wop) : bool :=
  forallb (fun x => size_ok eps (snd x)) (session_closed eps ops).
Definition all_but_last_full (eps : nat) (ops : list wop) (s : split) : bool :=
  forallb (full eps) (removelast (closed_of s (session_closed eps ops))).
Definition changed_in (eps : nat) (ops : list wop) (s : split) : bool :=
  existsb (split_eqb s) (f_changed (run_ops eps ops)).

(** The indices of the accepted writes to split [s], in caller order ([k] = index of the first op). *)
Fixpoint accepted (s : split) (ops : list wop) (k : nat) : list nat :=
  match ops with
  | [] => []
  | WWrite s' _ ok :: t => (if split_eqb s' s && ok then [k] else []) ++ accepted s t (S k)
  | WMutate _ _ :: t => accepted s t (S k)
  end.
(** What the session recorded for split [s], shard after shard. *)
Definition recorded (eps : nat) (ops : list wop) (s : split) : list nat :=
  flat_map sh_ex (closed_of s (session_closed eps ops)).
