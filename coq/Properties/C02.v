(** C02 — Exactly-once delivery: one pass yields precisely the split's examples.
    Property theorems only; each is closed by [exact] of a lemma proved in Proofs/.
    The iteration interfaces are compositions of the combinators below; each combinator is proved
    to neither lose nor duplicate anything for every buffer size, thread count, random sequence
    and (for the pool) thread schedule.  How the interfaces compose them, the depth-first list of
    shards, and the tf.data path are checked on the implementation (see DESIGN.md, C02). *)
Require Import Sedpack.Model.Base Sedpack.Generated.GenIter Sedpack.Model.Iter Sedpack.Proofs.IterProofs.
Require Import Sedpack.Model.PipeBase Sedpack.Generated.GenPipeline Sedpack.Proofs.PipelineProofs.
Require Import Sedpack.Generated.GenLazyPool Sedpack.Model.LazyPool Sedpack.Proofs.LazyPoolInv Sedpack.Proofs.LazyPoolResult.
From Coq Require Import Permutation.
Require Sedpack.Model.Filler Sedpack.Model.Meta Sedpack.Proofs.IterateProofs.
Require Sedpack.Generated.GenRegistry Sedpack.Model.Registry Sedpack.Proofs.RegistryProofs Sedpack.Proofs.RustPipeline.

(** Shuffle buffer (paths and examples): for every buffer size >= 1, every sequence of random
    indices and every final shuffle, a full pass ends and yields a permutation of its input. *)
Theorem c02_shuffle_buffer_exact :
  forall (A : Type) (pick : nat -> nat -> nat) (perm : list A -> list A) (b : nat),
    (forall j len, 0 < len -> pick j len < len) -> (forall l, Permutation (perm l) l) -> 1 <= b ->
    forall l : list A,
      let fin := sb_run list_source pick perm b (2 * length l + 3) (sb_init list_source l) in
      sb_ph fin = SbDone /\ Permutation (sb_out fin) l.
Proof. exact shuffle_buffer_perm_lemma. Qed.
Print Assumptions c02_shuffle_buffer_exact.

(** Round robin over the per-shard example lists (sync and async readers): for every buffer size
    >= 1 and every sequence of random positions, a full pass ends and yields a permutation of the
    concatenation of all inner lists (empty ones included). *)
Theorem c02_round_robin_exact :
  forall (A : Type) (pick : nat -> nat -> nat) (b : nat),
    (forall j len, 0 < len -> pick j len < len) -> 1 <= b ->
    forall ls : list (list A),
      let fin := rr_run list_source pick b (length (concat ls) + 3 * length ls + 2) (rr_init list_source ls) in
      rr_done fin = true /\ Permutation (rr_out fin) (concat ls).
Proof. exact round_robin_perm_lemma. Qed.
Print Assumptions c02_round_robin_exact.

(** Unshuffled concurrent reader: the batches of [file_parallelism] paths concatenate to the path list. *)
Theorem c02_batches_exact :
  forall (A : Type) (T : nat), 1 <= T -> forall (fuel : nat) (l : list A), length l < fuel -> concat (batches fuel T l) = l.
Proof. intros A. exact (@batches_concat_lemma A). Qed.
Print Assumptions c02_batches_exact.

(** Lazy thread pool (shuffled concurrent reader), every schedule: a finished pass has yielded a
    permutation of the results, one per input (this is C13's theorem, restated for decidable results). *)
Theorem c02_lazy_pool_exact :
  forall (A B : Type) (f : A -> option B) (T : nat), 1 <= T ->
  (forall x y : B, {x = y} + {x <> y}) ->
  forall (xs : list A) (s : st A B), reach A B f T xs s -> pc s = Final Finished ->
  Permutation (out s) (fs A B f xs) /\ length (out s) = length xs.
Proof.
  intros A B f T HT Hdec xs s Hr Hpc. split.
  - exact (finished_permutation_lemma A B f T HT Hdec xs s Hr Hpc).
  - exact (proj1 (finished_exact_lemma A B f T HT xs s Hr Hpc)).
Qed.
Print Assumptions c02_lazy_pool_exact.

(** The interfaces themselves (repeat=False), as compositions regenerated from dataset_iteration.py: for every selection of
    shards, decoder [read], [process_record], shuffle size, thread count, random sequences and completion order of the pool,
    one pass yields a permutation of [spec] = every example of every selected shard, processed once. *)
Theorem c02_as_numpy_iterator_exactly_once :
  forall (path ex : Type) (read : path -> list ex) (process : ex -> ex) pickA permA pickB permB,
  (forall j len, 0 < len -> pickA j len < len) -> (forall j len, 0 < len -> pickB j len < len) ->
  (forall l, Permutation (permA l) l) -> (forall l, Permutation (permB l) l) ->
  forall shuffle hp paths, paths <> [] ->
  Permutation (ani path ex read process pickA permA pickB permB shuffle hp paths) (spec path ex read process hp paths).
Proof. exact ani_exactly_once. Qed.
Print Assumptions c02_as_numpy_iterator_exactly_once.

Theorem c02_as_numpy_iterator_concurrent_exactly_once :
  forall (path ex : Type) (read : path -> list ex) (process : ex -> ex) pickA permA pickB pool_perm,
  (forall j len, 0 < len -> pickA j len < len) -> (forall j len, 0 < len -> pickB j len < len) ->
  (forall l, Permutation (permA l) l) -> (forall l, Permutation (pool_perm l) l) ->
  forall shuffle T hp paths, paths <> [] -> 1 <= T ->
  Permutation (anc path ex read process pickA permA pickB pool_perm shuffle T hp paths) (spec path ex read process hp paths).
Proof. exact anc_exactly_once. Qed.
Print Assumptions c02_as_numpy_iterator_concurrent_exactly_once.

Theorem c02_as_numpy_iterator_async_exactly_once :
  forall (path ex : Type) (read : path -> list ex) (process : ex -> ex) pickA permA pickB,
  (forall j len, 0 < len -> pickA j len < len) -> (forall j len, 0 < len -> pickB j len < len) ->
  (forall l, Permutation (permA l) l) ->
  forall shuffle T hp paths, paths <> [] -> 1 <= T ->
  Permutation (ana path ex read process pickA permA pickB shuffle T hp paths) (spec path ex read process hp paths).
Proof. exact ana_exactly_once. Qed.
Print Assumptions c02_as_numpy_iterator_async_exactly_once.

(** The depth-first shard list over nested shard lists, for whole histories of the session model of C04 (fillers into any
    directory, multi-writer calls, the recursive merge): after every history that completes, unshuffled iteration of a split — the
    depth-first shard list, each shard's stored examples — is a permutation of the contents of ALL shard files stored below that
    split: every stored shard exactly once, nothing else. *)
Theorem c02_iteration_yields_exactly_what_is_stored :
  forall eps : nat, 1 <= eps -> forall (h : list Meta.session) (fs : Meta.fsT) (info : Meta.dinfo), Meta.run_history eps h = Meta.Ok (fs, info) ->
  forall (s : nat) (li : Meta.list_info), Meta.dget info s = Some li ->
  Permutation (Meta.iterate fs info s) (flat_map (fun e => fst (snd e)) (filter (IterateProofs.under s) (Meta.shards fs))).
Proof. exact IterateProofs.history_iterate_is_stored. Qed.
Print Assumptions c02_iteration_yields_exactly_what_is_stored.

(** Everything together for whole histories of the session model: unshuffled iteration of a split yields exactly what the sessions
    stored for it — every shard every filler (alone or as a writer of a multi-writer call) closed for that split, each once; and
    what one filler stores for a split is its accepted writes to that split in caller order, shifted by the session's payload offset. *)
Theorem c02_every_history_delivers_exactly_what_was_written :
  forall eps : nat, 1 <= eps -> forall (h : list Meta.session) (fs : Meta.fsT) (info : Meta.dinfo), Meta.run_history eps h = Meta.Ok (fs, info) ->
  forall s : split, Permutation (Meta.iterate fs info (Filler.split_code s)) (IterateProofs.wrote_history eps 0 h s).
Proof. exact IterateProofs.history_iterate_is_written. Qed.
Print Assumptions c02_every_history_delivers_exactly_what_was_written.

Theorem c02_a_filler_stores_its_accepted_writes :
  forall eps : nat, 1 <= eps -> forall (b : nat) (ops : list Filler.wop) (s : split),
    IterateProofs.wrote_filler eps b ops s = map (Nat.add b) (Filler.accepted s ops 0).
Proof. exact IterateProofs.wrote_filler_accepted. Qed.
Print Assumptions c02_a_filler_stores_its_accepted_writes.

(** Non-vacuity with the concrete generator of the code (r*1664525+1013904223 mod 2^32). *)
(** The Rust interface as a whole: every pass of a RustGenerator is the composition [anr] regenerated from its [_single_iter] (shard-level
    shuffle of the selected paths, the examples of those shards in path order, process_record); any number of generators — repeating
    or not — are advanced and dropped in any interleaving through the shared registry of live Rust iterators.  If the registry keys
    never repeat, consumer i has received whole passes plus a prefix of the current pass, EVERY pass being a permutation of
    [spec] = every example of every selected shard of generator i, processed once; and no request fails. *)
Theorem c02_rust_interface_every_pass_exactly_once :
  forall (path ex : Type) (read : path -> list ex) (process : ex -> ex) (idgen : nat -> nat), (forall a b, idgen a = idgen b -> a = b) ->
  forall (paths : nat -> list path) (shuffle : nat -> nat) (hp rep : nat -> bool)
         (pick : nat -> nat -> nat -> nat -> nat) (perm : nat -> nat -> list path -> list path),
  (forall i n j len, 0 < len -> pick i n j len < len) -> (forall i n l, Permutation (perm i n l) l) -> (forall i, paths i <> []) ->
  forall (ops : list Registry.op) (i : nat),
    let pass := RustPipeline.rust_pass path ex read process paths shuffle hp pick perm in
    let rs := snd (Registry.run idgen (Registry.init pass rep) ops) in
    (exists n k, RegistryProofs.stream i ops rs = concat (map (pass i) (seq 0 n)) ++ firstn k (pass i n)) /\
    (forall n, Permutation (pass i n) (spec path ex read process (hp i) (paths i))) /\
    ~ List.In (Some Registry.Panic) rs.
Proof. exact RustPipeline.rust_interface_exactly_once. Qed.
Print Assumptions c02_rust_interface_every_pass_exactly_once.

Theorem c02_nonvacuous :
  sb_out (sb_run list_source (lcg_pick 12345) (@rev nat) 3 30 (sb_init list_source [1; 2; 3; 4; 5; 6; 7])) = [1; 3; 2; 5; 7; 6; 4]
  /\ rr_out (rr_run list_source (lcg_pick 7) 2 40 (rr_init list_source [[1; 2; 3]; []; [4]; [5; 6]])) = [1; 4; 2; 3; 5; 6].
Proof. vm_compute. split; reflexivity. Qed.
Print Assumptions c02_nonvacuous.
