(** C04 — Shard-list metadata always accounts exactly for what is stored.
    Property theorems only; each is closed by [exact] of a lemma proved in Proofs/.

    What is a theorem here: the partial correctness of the recursive merge that every writing
    session ends with ([merge_shard_infos], transcribed in Model/Meta.v with its partition tests
    and assertion switch regenerated from the source).  The lift of this statement over whole
    histories (fillers + [write_config]) is checked by evaluation of the executable oracle
    [exact_all] on the model and on the real library for every generated history; see DESIGN.md. *)
Require Import Sedpack.Model.Base Sedpack.Generated.GenMerge Sedpack.Model.Filler Sedpack.Model.Meta.
Require Import Sedpack.Proofs.MergeBasics Sedpack.Proofs.MergeProofs Sedpack.Proofs.HistoryProofs Sedpack.Proofs.ReachProofs Sedpack.Proofs.NoDupProofs Sedpack.Proofs.TotalProofs.

(** For every fuel, every non-empty list of updates below a common directory [p] (of depth
    [c]), and every file system whose list documents below [p] are locally well formed (what
    fillers and earlier merges leave behind: own entries exact, total = own + recorded children,
    children are direct sub-directories): whenever the merge returns, the summary it returns is
    that of [p]; the whole subtree below [p] is exact in the new file system (every count, every
    total, every recorded child summary and digest, every listed shard present in the directory
    of the list naming it with the recorded count); no shard file and no list outside the subtree
    changed; local well-formedness still holds; and no list lost or gained a shard entry. *)
Theorem c04_merge_rebuilds_exact_subtree :
  forall (fuel : nat) (U : list list_info) (c : nat) (fs fs' : fsT) (li u0 : list_info),
    hd_error U = Some u0 ->
    (forall u, List.In u U -> (c <= length (li_dir u))%nat) ->
    WFunder fs (firstn c (li_dir u0)) ->
    merge fuel U c fs = Ok (fs', li) ->
    li_dir li = firstn c (li_dir u0) /\ exact fuel fs' li = true /\ shards fs' = shards fs /\
    (forall d, ~ prefix (firstn c (li_dir u0)) d -> lookup d (lists fs') = lookup d (lists fs)) /\
    WFunder fs' (firstn c (li_dir u0)) /\
    (forall d, sl_files (load_or_create fs' d) = sl_files (load_or_create fs d)).
Proof. exact merge_spec. Qed.
Print Assumptions c04_merge_rebuilds_exact_subtree.

(** The lift over whole histories: for every shard size, every history of sessions (fillers into the split root or any
    sub-directory — new, nested, or already known — and multi-writer calls, each with any sequence of writes, metadata changes
    and rejected writes in any interleaving of splits): whenever the history completes, the summary the dataset description
    holds for every split is exact for the whole subtree below it (every shard count, list total, child summary and digest,
    every listed shard stored in the directory of the list naming it with the recorded count and digest). *)
Theorem c04_every_history_is_exact :
  forall eps : nat, 1 <= eps -> forall (h : list session) (fs : fsT) (info : dinfo),
    run_history eps h = Ok (fs, info) ->
    forall (s : nat) (li : list_info), dget info s = Some li -> li_dir li = [s] /\ exact FUEL fs li = true.
Proof. exact history_exact. Qed.
Print Assumptions c04_every_history_is_exact.

(** No stored shard is unlisted: after every history that completes, every shard file stored anywhere below a split is found by
    the depth-first traversal from that split's root list (the order in which iteration visits shards), and the description
    holds the split's summary.  (Invariant: every list document below a split is linked from the split root — re-established by
    each merge for the directories it creates or is told about — and every shard is listed by the document of its own directory.) *)
Theorem c04_no_shard_unlisted :
  forall eps : nat, 1 <= eps -> forall (h : list session) (fs : fsT) (info : dinfo), run_history eps h = Ok (fs, info) ->
  forall s t n v, lookup_shard (s :: t) n (shards fs) = Some v ->
  exists li sh, dget info s = Some li /\ li_dir li = [s] /\ List.In sh (dfs FUEL fs [s]) /\ sh_dir sh = s :: t /\ sh_name sh = n.
Proof. exact history_all_shards_listed. Qed.
Print Assumptions c04_no_shard_unlisted.

(** All of it together, as the executable oracle [exact_all] that the harness evaluates on the model and audits on the real
    directory after every session of every generated history: for every shard size and every history that completes, every
    split summary is exact for its subtree AND no shard is listed twice AND no stored shard is unlisted. *)
Theorem c04_every_history_satisfies_exact_all :
  forall eps : nat, 1 <= eps -> forall (h : list session) (fs : fsT) (info : dinfo), run_history eps h = Ok (fs, info) -> exact_all fs info = true.
Proof. exact history_exact_all. Qed.
Print Assumptions c04_every_history_satisfies_exact_all.

(** Total correctness: every history whose sessions write at most FUEL-1 = 39 directory levels below a split COMPLETES — the merge
    never trips an assertion (the generated switch says the over-strict one is not in the source), never finds its updates
    inconsistent, never runs out of recursion budget — and the result satisfies the whole oracle. *)
Theorem c04_every_bounded_history_completes_and_is_exact :
  forall eps : nat, 1 <= eps -> forall h : list session, Forall (sdepth (S FUEL)) h ->
  exists fs info, run_history eps h = Ok (fs, info) /\ exact_all fs info = true.
Proof. exact bounded_history_completes_exact. Qed.
Print Assumptions c04_every_bounded_history_completes_and_is_exact.

(** Non-vacuity and a whole-history instance: nested, reused and multi-writer sessions into two
    splits end in a state that the executable exactness oracle accepts (all counts, totals, child
    summaries, digests, no shard listed twice, none unlisted) and that passes the integrity check. *)
Theorem c04_nonvacuous :
  let W := fun s => WWrite s None true in
  let h := [SFiller [7; 8] [W Train; W Train; W Train];
            SFiller [7] [W Train; W Test];
            SFiller [] [W Train; W Train; W Train; W Train; W Train];
            SMulti [[W Train; W Train; W Train]; []; [W Test; W Train]];
            SFiller [7; 8] [W Train]] in
  match run_history 2 h with
  | Ok (fs, info) => exact_all fs info = true /\ check fs info = true /\
                     map (fun e => (fst e, li_nex (snd e), li_nsh (snd e))) info = [(0, 14%Z, 10%Z); (1, 2%Z, 2%Z)]
  | Err _ => False
  end.
Proof. vm_compute. repeat split. Qed.
Print Assumptions c04_nonvacuous.
