(** C02/C03: the iteration interfaces as compositions of the combinators (composition regenerated from dataset_iteration.py). *)
Require Import Sedpack.Model.Base Sedpack.Generated.GenIter Sedpack.Model.Iter Sedpack.Model.PipeBase Sedpack.Generated.GenPipeline Sedpack.Proofs.IterProofs.
From Coq Require Import Permutation.

Lemma Permutation_concat {A} (l1 l2 : list (list A)) : Permutation l1 l2 -> Permutation (concat l1) (concat l2).
Proof.
  induction 1 as [|x l l' _ IH|x y l|l l' l'' _ IH1 _ IH2]; cbn [concat].
  - constructor.
  - apply Permutation_app_head. exact IH.
  - rewrite !app_assoc. apply Permutation_app_tail. apply Permutation_app_comm.
  - eapply Permutation_trans; eassumption.
Qed.

Lemma concat_map_map {A B} (f : A -> B) (ls : list (list A)) : concat (map (map f) ls) = map f (concat ls).
Proof. induction ls as [|l ls IH]; cbn [map concat]; [reflexivity | rewrite map_app, IH; reflexivity]. Qed.

Section P.
Variables (path ex : Type) (read : path -> list ex) (process : ex -> ex).
Variables (pickA : nat -> nat -> nat) (permA : list path -> list path) (pickB : nat -> nat -> nat) (permB : list ex -> list ex).
Variable pool_perm : list (list ex) -> list (list ex).
Hypothesis pickA_ok : forall j len, 0 < len -> pickA j len < len.
Hypothesis pickB_ok : forall j len, 0 < len -> pickB j len < len.
Hypothesis permA_ok : forall l, Permutation (permA l) l.
Hypothesis permB_ok : forall l, Permutation (permB l) l.
Hypothesis pool_ok : forall l, Permutation (pool_perm l) l.

(** what one pass must deliver: every example of every selected shard, processed once *)
Definition spec (has_process : bool) (paths : list path) : list ex :=
  if has_process then map process (concat (map read paths)) else concat (map read paths).

Lemma sb_result_perm {A} pick (perm : list A -> list A) b (l : list A) :
  (forall j len, 0 < len -> pick j len < len) -> (forall l, Permutation (perm l) l) -> 1 <= b -> Permutation (sb_result pick perm b l) l.
Proof. intros Hp Hq Hb. unfold sb_result. apply (shuffle_buffer_perm_lemma A pick perm b Hp Hq Hb l). Qed.

Lemma rr_result_perm {A} pick b (ls : list (list A)) :
  (forall j len, 0 < len -> pick j len < len) -> 1 <= b -> Permutation (rr_result pick b ls) (concat ls).
Proof. intros Hp Hb. unfold rr_result. apply (round_robin_perm_lemma A pick b Hp Hb ls). Qed.

Lemma common_paths_perm shuffle paths : paths <> [] -> Permutation (common_paths path pickA permA shuffle paths) paths.
Proof.
  intros Hne. unfold common_paths. destruct (0 <? shuffle) eqn:S; [|apply Permutation_refl].
  apply sb_result_perm; auto. first [ destruct paths; [congruence | cbn; lia] | apply Nat.ltb_lt in S; lia ].
Qed.
Lemma common_paths_ordered paths : common_paths path pickA permA 0 paths = paths.
Proof. reflexivity. Qed.

Lemma spec_perm hp p paths : Permutation p paths -> Permutation (spec hp p) (spec hp paths).
Proof.
  intros H. unfold spec. assert (C : Permutation (concat (map read p)) (concat (map read paths))) by (apply Permutation_concat, Permutation_map, H).
  destruct hp; [apply Permutation_map|]; exact C.
Qed.

(** as_numpy_iterator *)
Theorem ani_ordered hp paths : ani path ex read process pickA permA pickB permB 0 hp paths = spec hp paths.
Proof. unfold ani, spec. rewrite common_paths_ordered. cbn. destruct hp; reflexivity. Qed.
Theorem ani_exactly_once shuffle hp paths : paths <> [] -> Permutation (ani path ex read process pickA permA pickB permB shuffle hp paths) (spec hp paths).
Proof.
  intros Hne. unfold ani. pose proof (common_paths_perm shuffle paths Hne) as Hp.
  set (p := common_paths path pickA permA shuffle paths) in *.
  assert (E : Permutation (if hp then map process (concat (map read p)) else concat (map read p)) (spec hp paths)) by (apply (spec_perm hp p paths Hp)).
  destruct (0 <? shuffle) eqn:S; [|exact E].
  eapply Permutation_trans; [|exact E]. apply sb_result_perm; auto. apply Nat.ltb_lt in S. lia.
Qed.

Lemma concat_pl hp ps : concat (map (pl path ex read process hp) ps) = spec hp ps.
Proof. unfold spec, pl. destruct hp; [|reflexivity]. rewrite <- concat_map_map, map_map. reflexivity. Qed.

(** as_numpy_iterator_concurrent *)
Theorem anc_ordered T hp paths : 1 <= T -> anc path ex read process pickA permA pickB pool_perm 0 T hp paths = spec hp paths.
Proof.
  intros HT. unfold anc. rewrite common_paths_ordered. cbn [Nat.ltb Nat.leb].
  rewrite <- concat_pl.
  assert (G : forall bs : list (list path), concat (map (fun batch => concat (map (pl path ex read process hp) batch)) bs) = concat (map (pl path ex read process hp) (concat bs))).
  { induction bs as [|b bs IH]; [reflexivity|]. cbn [map concat]. rewrite map_app, concat_app, IH. reflexivity. }
  rewrite G. rewrite (batches_concat_lemma T HT (S (length paths)) paths) by lia. reflexivity.
Qed.
Theorem anc_exactly_once shuffle T hp paths : paths <> [] -> 1 <= T ->
  Permutation (anc path ex read process pickA permA pickB pool_perm shuffle T hp paths) (spec hp paths).
Proof.
  intros Hne HT. destruct shuffle as [|s]; [rewrite anc_ordered by exact HT; apply Permutation_refl|].
  unfold anc. pose proof (common_paths_perm (S s) paths Hne) as Hp. set (p := common_paths path pickA permA (S s) paths) in *.
  cbn [Nat.ltb Nat.leb].
  eapply Permutation_trans; [apply rr_result_perm; auto|].
  eapply Permutation_trans; [apply Permutation_concat, pool_ok|].
  rewrite concat_pl. apply spec_perm. exact Hp.
Qed.

(** as_numpy_iterator_async *)
Theorem ana_ordered T hp paths : ana path ex read process pickA permA pickB 0 T hp paths = spec hp paths.
Proof. unfold ana, spec. rewrite common_paths_ordered. cbn. destruct hp; reflexivity. Qed.
Theorem ana_exactly_once shuffle T hp paths : paths <> [] -> 1 <= T ->
  Permutation (ana path ex read process pickA permA pickB shuffle T hp paths) (spec hp paths).
Proof.
  intros Hne HT. unfold ana. pose proof (common_paths_perm shuffle paths Hne) as Hp. set (p := common_paths path pickA permA shuffle paths) in *.
  assert (E : Permutation (if 0 <? shuffle then rr_result pickB T (map read p) else concat (map read p)) (concat (map read paths))).
  { eapply Permutation_trans; [|apply Permutation_concat, Permutation_map, Hp].
    destruct (0 <? shuffle); [apply rr_result_perm; auto | apply Permutation_refl]. }
  unfold spec. destruct hp; [apply Permutation_map|]; exact E.
Qed.

(** one pass of as_numpy_iterator_rust *)
Theorem anr_ordered hp paths : anr path ex read process pickA permA 0 hp paths = spec hp paths.
Proof. unfold anr, spec. rewrite common_paths_ordered. destruct hp; reflexivity. Qed.
Theorem anr_exactly_once shuffle hp paths : paths <> [] -> Permutation (anr path ex read process pickA permA shuffle hp paths) (spec hp paths).
Proof. intros Hne. unfold anr. apply (spec_perm hp _ paths (common_paths_perm shuffle paths Hne)). Qed.
End P.

Lemma unshuffled_in_order (path ex : Type) (read : path -> list ex) (process : ex -> ex) pickA permA pickB permB pool_perm hp paths :
  ani path ex read process pickA permA pickB permB 0 hp paths = spec path ex read process hp paths
  /\ (forall T, 1 <= T -> anc path ex read process pickA permA pickB pool_perm 0 T hp paths = spec path ex read process hp paths)
  /\ (forall T, ana path ex read process pickA permA pickB 0 T hp paths = spec path ex read process hp paths).
Proof.
  split; [apply ani_ordered | split; [intros T HT; apply anc_ordered; exact HT | intros T; apply ana_ordered]].
Qed.
