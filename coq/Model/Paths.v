(** M7: PurePosixPath as the path validators and the joins of sedpack see it. *)
From Coq Require Export String Ascii List Bool Arith.
Export ListNotations.
Open Scope string_scope.

(** A parsed path: root kind (0 relative, 1 "/", 2 "//") and the components.
    Python's [parts] is the root (when present) followed by the components. *)
Record ppath := { p_root : nat; p_comps : list string }.

Definition slash : ascii := "/"%char.

(** split on '/' (keeping empty pieces) *)
Fixpoint split_slash (s : string) (acc : string) : list string :=
  match s with
  | EmptyString => [acc]
  | String c t => if Ascii.eqb c slash then acc :: split_slash t "" else split_slash t (acc ++ String c "")
  end.

Definition keep_comp (c : string) : bool := negb (String.eqb c "") && negb (String.eqb c ".").

Fixpoint leading_slashes (s : string) : nat :=
  match s with String c t => if Ascii.eqb c slash then S (leading_slashes t) else 0 | EmptyString => 0 end.

(** POSIX: exactly two leading slashes are kept as a distinct root, three or more collapse. *)
Definition root_of (s : string) : nat :=
  match leading_slashes s with 0 => 0 | 2 => 2 | _ => 1 end.

Definition parse (s : string) : ppath :=
  {| p_root := root_of s; p_comps := filter keep_comp (split_slash s "") |}.

Definition is_absolute (p : ppath) : bool := negb (Nat.eqb (p_root p) 0).
Definition has_dotdot (p : ppath) : bool := existsb (String.eqb "..") (p_comps p).
Definition name_of (p : ppath) : string := last (p_comps p) "".
Definition name_is (p : ppath) (n : string) : bool := String.eqb (name_of p) n.

(** [a / b]: an absolute right operand replaces the left one. *)
Definition join (a b : ppath) : ppath :=
  if is_absolute b then b else {| p_root := p_root a; p_comps := p_comps a ++ p_comps b |}.

(** Lexical normalisation (what [resolve()] yields in the absence of symlinks). *)
Fixpoint norm_aux (cs : list string) (stack : list string) : list string :=
  match cs with
  | [] => rev stack
  | c :: t => if String.eqb c ".." then norm_aux t (tl stack) else norm_aux t (c :: stack)
  end.
Definition normalize (p : ppath) : ppath := {| p_root := p_root p; p_comps := norm_aux (p_comps p) [] |}.

Fixpoint is_prefix (a b : list string) : bool :=
  match a, b with
  | [], _ => true
  | x :: a', y :: b' => String.eqb x y && is_prefix a' b'
  | _, [] => false
  end.

(** The location [q] lies inside the directory [root] (both absolute). *)
Definition inside (root q : ppath) : bool :=
  (Nat.eqb (p_root root) (p_root (normalize q))) && is_prefix (p_comps root) (p_comps (normalize q)).

(** A dataset root as [Path.resolve()] returns it: absolute and free of "..". *)
Definition root_ok (r : ppath) : bool := is_absolute r && negb (has_dotdot r).
