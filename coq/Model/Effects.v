(** File-system effects of writers, and interleavings of several writers' effect lists. *)
Require Import Sedpack.Model.Base.

Section E.
Variable path : Type.
Variable peqb : path -> path -> bool.
Variable content : Type.

(** What a file-system call of a writer does, as far as other processes can tell. *)
Inductive eff :=
| EMkdir (d : path)                       (* mkdir(exist_ok=True) *)
| EWrite (p : path) (c : content)         (* create/append/close or rename-into: the file at p now holds c *)
| ERemove (p : path).

Record fsys := { dirs : path -> bool; files : path -> option content }.

Definition apply_eff (fs : fsys) (e : eff) : fsys :=
  match e with
  | EMkdir d => {| dirs := fun q => if peqb q d then true else dirs fs q; files := files fs |}
  | EWrite p c => {| dirs := dirs fs; files := fun q => if peqb q p then Some c else files fs q |}
  | ERemove p => {| dirs := dirs fs; files := fun q => if peqb q p then None else files fs q |}
  end.
Definition apply_all (l : list eff) (fs : fsys) : fsys := fold_left apply_eff l fs.

(** The file an effect touches ([None]: only the directory set, idempotently). *)
Definition target (e : eff) : option path := match e with EMkdir _ => None | EWrite p _ => Some p | ERemove p => Some p end.
Definition independent (e1 e2 : eff) : Prop :=
  match target e1, target e2 with Some p, Some q => peqb p q = false /\ peqb q p = false | _, _ => True end.

(** [l] is an interleaving of the effect lists [ws] (each writer's own order is kept). *)
Inductive Interleaving : list (list eff) -> list eff -> Prop :=
| il_nil ws : Forall (fun w => w = []) ws -> Interleaving ws []
| il_step ws i e rest l : nth_error ws i = Some (e :: rest) -> Interleaving (firstn i ws ++ rest :: skipn (S i) ws) l -> Interleaving ws (e :: l).

(** extensional equality of file systems *)
Definition fs_eq (a b : fsys) : Prop := (forall q, dirs a q = dirs b q) /\ (forall q, files a q = files b q).
End E.
Arguments EMkdir {path content}. Arguments EWrite {path content}. Arguments ERemove {path content}.
