(** C05 (first sentence) over whole histories: after every history that completes the integrity check of the model passes. *)
Require Import Sedpack.Model.Base Sedpack.Generated.GenMerge Sedpack.Generated.GenFiller Sedpack.Model.Filler Sedpack.Model.Meta.
Require Import Sedpack.Proofs.MergeBasics Sedpack.Proofs.MergeProofs Sedpack.Proofs.HistoryProofs Sedpack.Proofs.ReachProofs Sedpack.Proofs.NoDupProofs.
Local Open Scope Z_scope.

Lemma exact_check_lists f : forall fs li, exact f fs li = true -> check_lists f fs li = true.
Proof.
  induction f as [|f IH]; intros fs li H; [discriminate|]. cbn [exact] in H. cbn [check_lists].
  destruct (lookup (li_dir li) (lists fs)) as [[s h]|]; [|discriminate].
  repeat (apply andb_true_iff in H as [H ?]). rewrite H. cbn [andb].
  apply forallb_forall. intros c Hc. match goal with Hf : forallb _ (sl_children s) = true |- _ => rewrite forallb_forall in Hf; specialize (Hf c Hc); apply andb_true_iff in Hf as [_ Hf]; apply IH; exact Hf end.
Qed.

Lemma dfs_hashes f : forall fs q sh, WFunder fs q -> List.In sh (dfs f fs q) ->
  match lookup_shard (sh_dir sh) (sh_name sh) (shards fs) with Some (_, h) => Nat.eqb h (sh_hash sh) | None => false end = true.
Proof.
  induction f as [|f IH]; intros fs q sh Hwf Hin; [destruct Hin|]. cbn [dfs] in Hin.
  destruct (lookup q (lists fs)) as [[s h]|] eqn:E; [|destruct Hin].
  destruct (Hwf q s h (prefix_refl q) E) as (_ & _ & H3 & H4). apply in_app_or in Hin as [Hin | Hin].
  - rewrite forallb_forall in H3. specialize (H3 sh Hin). unfold shard_exact in H3. apply andb_true_iff in H3 as [Hd H3]. apply dpath_eqb_eq in Hd. rewrite Hd.
    destruct (lookup_shard q (sh_name sh) (shards fs)) as [[ex hh]|]; [|discriminate]. apply andb_true_iff in H3 as [_ H3]. exact H3.
  - apply in_flat_map in Hin as (c & Hc & Hin). rewrite Forall_forall in H4. destruct (H4 c Hc) as [x Hx]. rewrite Hx in Hin.
    apply (IH fs (q ++ [x]) sh); [eapply WFunder_mono; [apply prefix_app | exact Hwf] | exact Hin].
Qed.

Theorem history_check_passes eps : (1 <= eps)%nat -> forall h fs info, run_history eps h = Ok (fs, info) -> check fs info = true.
Proof.
  intros Heps h fs info Hr.
  destruct (history_inv4 eps Heps h (fs, info) Hr) as (((Hwf & Hfr & Hex) & _) & _ & Hnd & _). cbn [fst snd] in *.
  assert (Hent : forall e, List.In e info -> li_dir (snd e) = [fst e] /\ exact FUEL fs (snd e) = true).
  { intros [s li] He. cbn [fst snd]. apply (Hex s li (dget_of_in info s li Hnd He)). intros []. }
  unfold check. apply andb_true_iff. split; apply forallb_forall; intros e He; destruct (Hent e He) as [D E].
  - apply exact_check_lists, E.
  - apply forallb_forall. intros sh Hsh. apply (dfs_hashes FUEL fs (li_dir (snd e)) sh); [eapply WFunder_mono; [|exact Hwf]; reflexivity | exact Hsh].
Qed.

Lemma multi_writer_exact_checked eps : (1 <= eps)%nat -> forall (h : list session) (writers : list (list wop)) fs info,
  run_history eps (h ++ [SMulti writers]) = Ok (fs, info) -> exact_all fs info = true /\ check fs info = true.
Proof. intros Heps h writers fs info Hr. split; [exact (history_exact_all eps Heps _ fs info Hr) | exact (history_check_passes eps Heps _ fs info Hr)]. Qed.
