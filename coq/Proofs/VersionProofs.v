Require Import Sedpack.Model.Base Sedpack.Generated.GenVersion Sedpack.Model.Version.
From Coq Require Import ZArith.

Lemma gate_refuses_spec c : gate_refuses c = true <-> (0 < c)%Z.
Proof. unfold gate_refuses. apply Z.ltb_lt. Qed.

Lemma cmp_nat_pos a b : (0 < cmp_nat a b)%Z <-> b < a.
Proof. unfold cmp_nat. destruct (Nat.ltb_spec a b), (Nat.ltb_spec b a); split; intros; try lia. Qed.
Lemma cmp_nat_zero a b : cmp_nat a b = 0%Z <-> a = b.
Proof. unfold cmp_nat. destruct (Nat.ltb_spec a b), (Nat.ltb_spec b a); split; intros; try lia. Qed.

Lemma version_gate_lemma (rec run : version) : load_refused rec run = true <-> newer rec run.
Proof.
  unfold load_refused, newer, compare. rewrite gate_refuses_spec.
  destruct rec as (a1 & a2 & a3), run as (b1 & b2 & b3).
  destruct (Z.eqb_spec (cmp_nat a1 b1) 0) as [E1|E1].
  - apply cmp_nat_zero in E1. subst b1. destruct (Z.eqb_spec (cmp_nat a2 b2) 0) as [E2|E2].
    + apply cmp_nat_zero in E2. subst b2. rewrite cmp_nat_pos. split; [intros H; right; auto | intros [H|(_ & [H|(_ & H)])]; lia].
    + rewrite cmp_nat_pos. split; [intros H; right; auto | intros [H|(_ & [H|(H & _)])]; [lia | exact H | exfalso; apply E2, cmp_nat_zero; exact H]].
  - rewrite cmp_nat_pos. split; [intros H; left; exact H | intros [H|(H & _)]; [exact H | exfalso; apply E1, cmp_nat_zero; exact H]].
Qed.

Lemma same_version_loads_lemma (v : version) : load_refused v v = false.
Proof.
  destruct (load_refused v v) eqn:E; [|reflexivity]. apply version_gate_lemma in E.
  destruct v as (a & b & c). simpl in E. lia.
Qed.

Lemma defaults_roundtrip_lemma (V : Type) (veqb : V -> V -> bool) :
  (forall a b, veqb a b = true -> a = b) -> forall d v, restore V d (omit V veqb d v) = v.
Proof. intros H d v. unfold restore, omit. destruct (veqb v d) eqn:E; [symmetry; apply H, E | reflexivity]. Qed.
