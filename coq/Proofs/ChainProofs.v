(** C14: the read-ahead of the synchronous interface as a composition: a shuffle buffer over the lazy chain of shards. *)
Require Import Sedpack.Model.Base Sedpack.Generated.GenIter Sedpack.Model.Iter Sedpack.Proofs.IterProofs.
From Coq Require Import Permutation.

Section Chain.
Variables (path ex : Type).
Variable psrc : @source path.                 (* the (possibly shuffled, possibly endless) stream of shard paths *)
Variable read : path -> list ex.              (* decoding one shard file *)

(** [itertools.chain.from_iterable(map(iterate_shard, paths))]: a shard file is opened only when the previous one is exhausted *)
Record cstate := { c_src : s_state psrc; c_cur : list ex; c_opened : nat; c_emitted : nat }.
Definition chain_next (s : cstate) : option (ex * cstate) :=
  match c_cur s with
  | x :: t => Some (x, {| c_src := c_src s; c_cur := t; c_opened := c_opened s; c_emitted := S (c_emitted s) |})
  | [] => match s_next psrc (c_src s) with
          | None => None
          | Some (p, s') => match read p with
                            | x :: t => Some (x, {| c_src := s'; c_cur := t; c_opened := S (c_opened s); c_emitted := S (c_emitted s) |})
                            | [] => None      (* excluded below: every shard holds at least one example (C10) *)
                            end
          end
  end.
Definition chain_source : @source ex := {| s_state := cstate; s_next := chain_next |}.
Definition chain_init (s0 : s_state psrc) : cstate := {| c_src := s0; c_cur := []; c_opened := 0; c_emitted := 0 |}.

Variable m : nat.
Hypothesis m_pos : 1 <= m.
Hypothesis shard_size : forall p, m <= length (read p).

(** all examples of opened shards are emitted or still in the current shard; all but the current shard are used up *)
Definition CInv (s : cstate) : Prop := c_opened s * m <= c_emitted s + length (c_cur s) /\ (c_opened s - 1) * m <= c_emitted s.
Lemma cinv_init s0 : CInv (chain_init s0).
Proof. unfold CInv, chain_init. cbn. lia. Qed.
Lemma cinv_next s x s' : CInv s -> chain_next s = Some (x, s') -> CInv s'.
Proof.
  intros [H1 H2] Hn. unfold chain_next in Hn. destruct (c_cur s) as [|y t] eqn:Ec.
  - destruct (s_next psrc (c_src s)) as [[p s1]|]; [|discriminate]. pose proof (shard_size p) as Hp.
    destruct (read p) as [|y t] eqn:Er; [discriminate|]. injection Hn as _ <-. unfold CInv. cbn [c_opened c_emitted c_cur length] in *. nia.
  - injection Hn as _ <-. unfold CInv. cbn [c_opened c_emitted c_cur length] in *. nia.
Qed.

(** the state of a source after [n] successful pulls *)
Fixpoint after {A} (src : @source A) (n : nat) (s : s_state src) : option (s_state src) :=
  match n with O => Some s | S k => match s_next src s with Some (_, s') => after src k s' | None => None end end.
Lemma after_snoc {A} (src : @source A) n : forall s0 s x s', after src n s0 = Some s -> s_next src s = Some (x, s') -> after src (S n) s0 = Some s'.
Proof.
  induction n as [|n IH]; intros s0 s x s' Ha Hn; cbn [after] in *.
  - injection Ha as <-. rewrite Hn. reflexivity.
  - destruct (s_next src s0) as [[y s1]|]; [|discriminate]. apply (IH s1 s x s' Ha Hn).
Qed.
Lemma cinv_after n : forall s0 s, CInv s0 -> after chain_source n s0 = Some s -> CInv s /\ c_emitted s = c_emitted s0 + n.
Proof.
  induction n as [|n IH]; intros s0 s H Ha; cbn [after] in Ha; [injection Ha as <-; split; [exact H | lia]|].
  destruct (s_next chain_source s0) as [[y s1]|] eqn:En; [|discriminate]. cbn [s_next chain_source] in En.
  destruct (IH s1 s (cinv_next s0 y s1 H En) Ha) as [H' E]. split; [exact H'|]. rewrite E.
  unfold chain_next in En. destruct (c_cur s0); [destruct (s_next psrc (c_src s0)) as [[p q]|]; [destruct (read p); [discriminate|]|discriminate]|]; injection En as _ <-; cbn [c_emitted]; lia.
Qed.

(** the shuffle buffer's source is where [sb_pulled] pulls lead *)
Variable pick : nat -> nat -> nat.
Variable perm : list ex -> list ex.
Variable b : nat.
Lemma sb_src_after fuel : forall st s0, after chain_source (sb_pulled st) s0 = Some (sb_src st) ->
  after chain_source (sb_pulled (sb_run chain_source pick perm b fuel st)) s0 = Some (sb_src (sb_run chain_source pick perm b fuel st)).
Proof.
  induction fuel as [|f IH]; intros st s0 H; cbn [sb_run]; [exact H|].
  destruct (sb_step chain_source pick perm b st) as [st'|] eqn:E; [|exact H]. apply IH.
  unfold sb_step in E. destruct (sb_ph st) as [| |[|y t]|].
  - destruct (fill_continue (length (sb_buf st)) b).
    + destruct (s_next chain_source (sb_src st)) as [[x s']|] eqn:En; injection E as <-; cbn [sb_pulled sb_src]; [apply (after_snoc chain_source _ s0 _ x s' H En) | exact H].
    + injection E as <-. exact H.
  - destruct (s_next chain_source (sb_src st)) as [[x s']|] eqn:En; injection E as <-; cbn [sb_pulled sb_src]; [apply (after_snoc chain_source _ s0 _ x s' H En) | exact H].
  - injection E as <-. exact H.
  - injection E as <-. exact H.
  - discriminate.
Qed.

Hypothesis perm_ok : forall l, Permutation (perm l) l.

(** as_numpy_iterator, any shuffle size [b] (0: no buffer), any stream of paths, at every moment:
    all but one of the shard files opened so far are accounted for by the examples handed over plus the buffer. *)
Theorem sync_readahead fuel s0 :
  let st := sb_run chain_source pick perm b fuel (sb_init chain_source (chain_init s0)) in
  (c_opened (sb_src st) - 1) * m <= length (sb_out st) + b.
Proof.
  cbv zeta. set (st := sb_run chain_source pick perm b fuel (sb_init chain_source (chain_init s0))).
  pose proof (sb_src_after fuel (sb_init chain_source (chain_init s0)) (chain_init s0) eq_refl) as Ha. fold st in Ha.
  destruct (cinv_after _ _ _ (cinv_init s0) Ha) as [[_ H2] He]. cbn [chain_init c_emitted] in He.
  pose proof (sb_readahead_lemma ex pick perm b perm_ok chain_source fuel (chain_init s0)) as Hb. cbv zeta in Hb. fold st in Hb. lia.
Qed.
End Chain.
