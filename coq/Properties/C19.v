(** C19 — Repeating iteration cycles through the whole split forever.
    Property theorems only; each is closed by [exact] of a lemma proved in Proofs/. *)
Require Import Sedpack.Model.Base Sedpack.Generated.GenIter Sedpack.Model.Iter Sedpack.Proofs.IterProofs Sedpack.Proofs.ChainProofs Sedpack.Proofs.CycleChain.
Require Import Sedpack.Proofs.BatchProofs Sedpack.Proofs.BatchSim.
Require Import Sedpack.Generated.GenRegistry Sedpack.Model.Registry Sedpack.Proofs.RegistryProofs.
Require Import Sedpack.Model.PipeBase Sedpack.Generated.GenPipeline Sedpack.Proofs.PipelineProofs Sedpack.Proofs.RustPipeline.
From Coq Require Import Permutation.

(** Unshuffled: the repeating path stream is periodic — its k-th element is the (k mod N)-th
    path of the one-pass list, for every k (hence the example stream is the one-pass sequence
    repeated, because reading a shard is a function of its path). *)
Theorem c19_cycle_periodic :
  forall (A : Type) (l : list A) (d : A) (k i : nat),
    nth_error (take_src A l d (S k + i) 0) k = Some (nth (k mod length l) l d).
Proof. exact cycle_periodic_lemma. Qed.
Print Assumptions c19_cycle_periodic.

(** Shuffled: whatever the buffer size and the random indices, a shuffle buffer fed by the
    endless cycle of a non-empty list only ever yields elements of that list, at every moment. *)
Theorem c19_shuffled_stream_stays_in_split :
  forall (A : Type) (pick : nat -> nat -> nat) (perm : list A -> list A) (b : nat),
    (forall l, Permutation (perm l) l) ->
    forall (l : list A) (d : A), l <> [] -> forall fuel : nat,
      Forall (fun x => List.In x l) (sb_out (sb_run (cycle_source l d) pick perm b fuel (sb_init (cycle_source l d) 0))).
Proof. intros A pick perm b Hp l d Hl fuel. exact (cycle_shuffle_subset_lemma A pick perm b l d Hl fuel). Qed.
Print Assumptions c19_shuffled_stream_stays_in_split.

(** It never ends and never stalls: every step after the fill yields one more element (C14's
    bound says how few elements it holds back). *)
(** The unshuffled repeating synchronous reader as a composition — the lazy chain of shards over [itertools.cycle] of the selected
    paths: for EVERY k (not a prefix of a few epochs) the k-th example handed over is example (k mod N) of a single pass, N being
    the number of examples of the selection (every shard holds at least one example). *)
Theorem c19_sync_reader_periodic :
  forall (path ex : Type) (read : path -> list ex) (l : list path) (dp : path) (de : ex),
  l <> nil -> (forall p, 1 <= length (read p)) ->
  forall (k : nat) (s0 : cstate path ex (cycle_source l dp)), s0 = chain_init path ex (cycle_source l dp) 0 ->
  chain_nth path ex read l dp k s0 = Some (nth (k mod length (concat (map read l))) (concat (map read l)) de).
Proof. exact chain_cycle_periodic. Qed.
Print Assumptions c19_sync_reader_periodic.

(** The unshuffled repeating CONCURRENT reader (batches of T paths through executor.map over [itertools.cycle] of the paths; also the
    path tf.data takes for fb/npz datasets): for every k, every batch size T >= 1, the k-th example handed over is example (k mod N)
    of a single pass — reading ahead in batches does not reorder, drop or repeat (proved by simulation with the chain of shards). *)
Theorem c19_concurrent_reader_periodic :
  forall (path ex : Type) (read : path -> list ex) (l : list path) (dp : path) (de : ex) (T : nat),
  l <> nil -> (forall p, 1 <= length (read p)) -> 1 <= T ->
  forall k, nth_out (batch_source path ex (cycle_source l dp) read T) k (batch_init path ex (cycle_source l dp) 0)
            = Some (nth (k mod length (concat (map read l))) (concat (map read l)) de).
Proof. exact concurrent_cycle_periodic. Qed.
Print Assumptions c19_concurrent_reader_periodic.

(** The Rust interface: any number of generators (train / validation / ...) share the registry of live Rust iterators and are
    advanced in ANY interleaving, some dropped early.  If the keys drawn for the registry never repeat, generator i receives
    complete passes of its own followed by a prefix of its current pass — never an example of another stream, never a panic. *)
Theorem c19_rust_streams_isolated :
  forall (ex : Type) (idgen : nat -> nat), (forall a b, idgen a = idgen b -> a = b) ->
  forall (passes : nat -> nat -> list ex) (rep : nat -> bool) (ops : list op) (i : nat),
    let rs := snd (run idgen (init passes rep) ops) in
    (exists n k, stream i ops rs = concat (map (passes i) (seq 0 n)) ++ firstn k (passes i n)) /\ ~ In (Some Panic) rs.
Proof. exact @streams_isolated. Qed.
Print Assumptions c19_rust_streams_isolated.

(** ... hence, unshuffled (every pass the same sequence l), position m of the stream is element m mod |l| of l, for every m. *)
Theorem c19_rust_stream_periodic :
  forall (ex : Type) (idgen : nat -> nat), (forall a b, idgen a = idgen b -> a = b) ->
  forall (passes : nat -> nat -> list ex) (rep : nat -> bool) (ops : list op) (i : nat) (l : list ex), (forall n, passes i n = l) ->
  forall m e, nth_error (stream i ops (snd (run idgen (init passes rep) ops))) m = Some e -> nth_error l (m mod length l) = Some e.
Proof. exact @stream_periodic. Qed.
Print Assumptions c19_rust_stream_periodic.

(** ... and with the passes being the composition regenerated from RustGenerator._single_iter: the unshuffled repeating Rust stream
    hands over, at every position m, example m mod N of [spec] (the selected shards' examples in list order, processed). *)
Theorem c19_rust_interface_periodic :
  forall (path ex : Type) (read : path -> list ex) (process : ex -> ex) (idgen : nat -> nat), (forall a b, idgen a = idgen b -> a = b) ->
  forall (paths : nat -> list path) (shuffle : nat -> nat) (hp rep : nat -> bool)
         (pick : nat -> nat -> nat -> nat -> nat) (perm : nat -> nat -> list path -> list path) (ops : list op) (i : nat),
  shuffle i = 0 ->
  forall m e, nth_error (stream i ops (snd (run idgen (init (rust_pass path ex read process paths shuffle hp pick perm) rep) ops))) m = Some e ->
              nth_error (spec path ex read process (hp i) (paths i)) (m mod length (spec path ex read process (hp i) (paths i))) = Some e.
Proof. exact rust_interface_unshuffled. Qed.
Print Assumptions c19_rust_interface_periodic.

(** It never ends and never stalls: with non-empty passes every further request to generator i is answered with an example, unless
    the consumer dropped i, or i is not repeating and has received exactly its one pass. *)
Theorem c19_rust_streams_live :
  forall (ex : Type) (idgen : nat -> nat), (forall a b, idgen a = idgen b -> a = b) ->
  forall (passes : nat -> nat -> list ex) (rep : nat -> bool) (ops : list op) (i : nat), (forall i n, passes i n <> []) ->
    let w := fst (run idgen (init passes rep) ops) in
    let rs := snd (run idgen (init passes rep) ops) in
    match snd (pull idgen FUEL w i) with
    | Yield _ => True
    | Stop => dropped i ops = true \/ (rep i = false /\ stream i ops rs = passes i 0)
    | _ => False
    end.
Proof. exact @streams_live. Qed.
Print Assumptions c19_rust_streams_live.

(** The hypothesis on the keys is needed: with a key that repeats (here: always 7) the first stream receives the second one's example. *)
Theorem c19_rust_key_reuse_breaks_isolation :
  stream 0 [Pull 0; Pull 1; Pull 0] (snd (run (fun _ => 7) (init (fun i _ => if i =? 0 then [1; 2; 3] else [10; 20]) (fun _ => true)) [Pull 0; Pull 1; Pull 0])) = [1; 20].
Proof. vm_compute. reflexivity. Qed.
Print Assumptions c19_rust_key_reuse_breaks_isolation.

(** non-vacuity of the registry theorems: three generators (two repeating over [1;2;3] and [10;20], one non-repeating over [10;20]) with
    distinct keys, interleaved pulls and an early drop: every stream is its own passes; the dropped and the finished stream answer Stop. *)
Theorem c19_rust_nonvacuous :
  let ps := fun i (_ : nat) => if i =? 0 then [1; 2; 3] else [10; 20] in
  let ops := [Pull 0; Pull 1; Pull 0; Pull 1; Pull 1; Pull 0; Pull 0; Abandon 1; Pull 1; Pull 0; Pull 2; Pull 2; Pull 2] in
  let rs := snd (run (fun n => n) (init ps (fun i => negb (i =? 2))) ops) in
  stream 0 ops rs = [1; 2; 3; 1; 2] /\ stream 1 ops rs = [10; 20; 10] /\ stream 2 ops rs = [10; 20] /\
  nth 8 rs None = Some Stop /\ nth 12 rs None = Some Stop.
Proof. vm_compute. repeat split; reflexivity. Qed.
Print Assumptions c19_rust_nonvacuous.

Theorem c19_nonvacuous :
  let st := sb_run (cycle_source [1; 2; 3] 0) (lcg_pick 5) (@rev nat) 2 100 (sb_init (cycle_source [1; 2; 3] 0) 0) in
  length (sb_out st) = 97 /\ take_src nat [7; 8; 9] 0 7 0 = [7; 8; 9; 7; 8; 9; 7].
Proof. vm_compute. split; reflexivity. Qed.
Print Assumptions c19_nonvacuous.
