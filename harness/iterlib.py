"""Datasets and iteration requests for the reading-side properties (C02, C03, C07, C12, C14, C19)."""
from __future__ import annotations

from harness import common, gen_filler, history

RUST_COMPRESSIONS = ["", "GZIP", "LZ4", "ZLIB"]
FB_COMPRESSIONS = ["", "BZ2", "GZIP", "LZMA", "LZ4", "ZLIB", "ZSTD"]
NPZ_COMPRESSIONS = ["", "ZIP"]
TFREC_COMPRESSIONS = ["", "GZIP", "ZLIB"]


def gen_dataset(rng, fmt=None, min_shards=1, meta=False, max_sessions=3):
    """A dataset spec with at least `min_shards` shards in split 0 ("train")."""
    fmt = fmt or rng.choice(["fb", "fb", "npz", "tfrec"])
    comp = rng.choice({"fb": FB_COMPRESSIONS, "npz": NPZ_COMPRESSIONS, "tfrec": TFREC_COMPRESSIONS}[fmt])
    eps = rng.choice([1, 2, 3, 4])
    sessions = []
    nshards = 0
    k = 0
    while nshards < min_shards or k < 1:
        kind = rng.choice(["root", "root", "sub", "nested", "multi"]) if k < max_sessions else "root"
        n = rng.choice([1, eps - 1, eps, eps + 1, 2 * eps, 2 * eps + 1, 3 * eps - 1])
        n = max(1, n)

        def ops(count):
            out = []
            if meta:
                out.append(["M", 1, rng.choice([1, 2])])
                out.append(["M", 2, rng.choice([2, 3])])
            for i in range(count):
                split = 0 if rng.random() < 0.8 else rng.choice([1, 2])
                cm = rng.choice([None, 1, 1, 2]) if meta else None
                out.append(["W", split, cm, True])
            return out
        if kind == "multi":
            writers = [ops(rng.choice([0, 1, n])) for _ in range(rng.choice([1, 2, 3]))]
            sessions.append({"kind": "multi", "reopen": False, "writers": writers})
            for w in writers:
                c0 = len([o for o in w if o[0] == "W" and o[1] == 0])
                nshards += -(-c0 // eps)
        else:
            sub = [] if kind == "root" else ([rng.choice([1, 2, 10])] if kind == "sub" else [1, rng.choice([1, 2])])
            o = ops(n)
            sessions.append({"kind": "filler", "sub": sub, "reopen": False, "ops": o})
            c0 = len([x for x in o if x[0] == "W" and x[1] == 0])
            nshards += -(-c0 // eps)
        k += 1
        if k > 8:
            break
    return {"format": fmt, "compression": comp, "eps": eps, "sessions": sessions}


def ifaces_for(spec):
    f = ["sync", "concurrent", "tf"]
    if spec["format"] in ("fb", "npz"):
        f.append("async")
    if spec["format"] == "fb" and spec["compression"] in RUST_COMPRESSIONS:
        f.append("rust")
    return f


def run_jobs(jobs, timeout=60, chunk=8, total_timeout=3000):
    common.ensure_native()
    res = []
    for i in range(0, len(jobs), chunk):
        res += common.run_impl("iterate_run.py", {"jobs": jobs[i:i + chunk], "timeout": timeout}, timeout=total_timeout)["jobs"]
    return res
