#!/bin/sh
# tools/try_seed.sh <patch.diff> <Cxx> [<Cyy> ...]: apply a seeded change to /repo, run the quick checks, undo.
patch=$1; shift
cd /repo || exit 2
git diff --quiet || { echo "/repo is dirty"; exit 2; }
if ! git apply "$patch" 2>/dev/null; then
  git apply --3way "$patch" >/dev/null 2>&1 || { echo "PATCH DOES NOT APPLY"; git checkout -- . ; git reset -q; exit 3; }
fi
git reset -q
for p in "$@"; do
  echo "== $p on $(basename $(dirname $patch))/$(basename $patch)"
  (cd /verif && VERIF_TIER=${TIER:-quick} ./check $p 2>&1 | grep -E "^(VIOLATION|OK|KNOWN|#)" | head -8)
done
git checkout -- . ; git status --short | grep -v '^??' | head
