(** C06: a writing session seen as a sequence of PUBLICATIONS — a new shard file, or a metadata document replaced through a
    temporary ([safe_update_file]) — obeys the effect-level publication discipline provided every publication, at its moment,
    (i) uses a fresh path, (ii) references only complete files already on disk, (iii) keeps what the document it replaces
    referenced.  (ii) is what [LogProofs.LogOK] proves of every history of the session model, (iii) what
    [HistoryProofs.history_appends_only] proves; (i) is the uuid / timestamped temporary name. *)
Require Import Sedpack.Model.Base Sedpack.Model.Crash Sedpack.Proofs.CrashProofs.

Section Pub.
Variable kind_of : path -> kind.

Inductive pub :=
| PShard (p : path) (h : nat) (k : nat)     (* write a new shard file (in [k] write calls) whose digest will be [h] *)
| PDoc (t q : path) (dn : doc) (k : nat)    (* replace the metadata file [q] by [dn] through the temporary [t] *)
| PMkdir.

Definition compile (x : pub) : list eff :=
  match x with
  | PShard p h k => Create p (BShard h) :: repeat (Write p) k ++ [Close p]
  | PDoc t q dn k => Create t (BDoc dn) :: repeat (Write t) k ++ [Close t; Rename t q]
  | PMkdir => [Mkdir]
  end.

(** the three conditions, evaluated on the disk as it is when the publication starts *)
Definition pub_ok (d : disk) (x : pub) : bool :=
  match x with
  | PMkdir => true
  | PShard p _ _ => is_kind kind_of KShard p && match d p with None => true | Some _ => false end
  | PDoc t q dn _ =>
      is_kind kind_of KTmp t && is_kind kind_of KMeta q && match d t with None => true | Some _ => false end &&
      doc_ok kind_of d dn &&
      match d q with Some {| fbody := BDoc dold |} => extends dold dn | Some _ => false | None => true end
  end.

Fixpoint pubs_ok (d : disk) (xs : list pub) : bool :=
  match xs with [] => true | x :: t => pub_ok d x && pubs_ok (apply_all (compile x) d) t end.

Lemma discipline_app tr1 : forall d tr2, discipline kind_of d (tr1 ++ tr2) = discipline kind_of d tr1 && discipline kind_of (apply_all tr1 d) tr2.
Proof.
  induction tr1 as [|e t IH]; intros d tr2; cbn [app discipline apply_all fold_left]; [reflexivity|].
  rewrite IH. unfold apply_all. rewrite andb_assoc. reflexivity.
Qed.

Lemma kind_not_meta k p : k <> KMeta -> is_kind kind_of k p = true -> is_kind kind_of KMeta p = false.
Proof. unfold is_kind. destruct (kind_of p), k; congruence. Qed.

(** a temporary that is only created, written and closed leaves the references of a document intact *)
Lemma doc_ok_tmp d t f dn : is_kind kind_of KTmp t = true -> doc_ok kind_of d dn = true -> doc_ok kind_of (upd d t f) dn = true.
Proof.
  intros Ht H. unfold doc_ok in *. apply andb_true_iff in H as [H1 H2]. apply andb_true_iff. split; apply forallb_forall; intros x Hx.
  - rewrite forallb_forall in H1. specialize (H1 x Hx). unfold shard_ok in *. apply andb_true_iff in H1 as [K H1]. rewrite K. cbn [andb].
    unfold upd. destruct (Nat.eqb_spec (fst x) t) as [E|E]; [|exact H1]. rewrite E in K. unfold is_kind in Ht, K. destruct (kind_of t); discriminate.
  - rewrite forallb_forall in H2. specialize (H2 x Hx). unfold child_ok in *. apply andb_true_iff in H2 as [K H2]. rewrite K. cbn [andb].
    unfold upd. destruct (Nat.eqb_spec x t) as [E|E]; [|exact H2]. rewrite E in K. unfold is_kind in Ht, K. destruct (kind_of t); discriminate.
Qed.

(** write calls neither change the disk nor break the discipline while the file is open *)
Lemma writes_ok d p k : is_kind kind_of KMeta p = false -> (exists b, d p = Some {| closed := false; fbody := b |}) ->
  discipline kind_of d (repeat (Write p) k) = true /\ apply_all (repeat (Write p) k) d = d.
Proof.
  intros K (b & E). induction k as [|k [IH1 IH2]]; cbn [repeat discipline apply_all fold_left]; [auto|].
  cbn [step_ok apply_eff]. rewrite K, E. cbn [negb andb]. unfold apply_all in IH2. auto.
Qed.

Lemma pub_disciplined d x : pub_ok d x = true -> discipline kind_of d (compile x) = true.
Proof.
  destruct x as [p h k | t q dn k |]; cbn [pub_ok compile]; intros H; [| |reflexivity].
  - apply andb_true_iff in H as [K F]. pose proof (kind_not_meta KShard p ltac:(discriminate) K) as Km.
    cbn [discipline step_ok apply_eff]. rewrite Km. cbn [negb andb]. rewrite F. cbn [andb].
    set (d1 := upd d p (Some {| closed := false; fbody := BShard h |})).
    destruct (writes_ok d1 p k Km) as [W1 W2]; [eexists; unfold d1; apply upd_same|].
    rewrite discipline_app, W1, W2. cbn [andb discipline step_ok]. rewrite Km. unfold d1. rewrite upd_same. reflexivity.
  - repeat (apply andb_true_iff in H as [H ?]). rename H into Kt.
    match goal with H1 : is_kind kind_of KMeta q = true, H2 : match d t with _ => _ end = true, H3 : doc_ok kind_of d dn = true, H4 : match d q with _ => _ end = true |- _ =>
      rename H1 into Kq; rename H2 into Ft; rename H3 into Dk; rename H4 into Ex end.
    pose proof (kind_not_meta KTmp t ltac:(discriminate) Kt) as Km.
    assert (Hq : t <> q) by (intros ->; unfold is_kind in Kt, Kq; destruct (kind_of q); discriminate).
    cbn [discipline step_ok apply_eff]. rewrite Km. cbn [negb andb]. rewrite Ft. cbn [andb].
    set (d1 := upd d t (Some {| closed := false; fbody := BDoc dn |})).
    destruct (writes_ok d1 t k Km) as [W1 W2]; [eexists; unfold d1; apply upd_same|].
    rewrite discipline_app, W1, W2. cbn [andb discipline step_ok apply_eff]. rewrite Km. unfold d1. rewrite !upd_same. cbn [closed fbody negb andb].
    rewrite Kt, Kq. cbn [andb]. rewrite ?upd_same. cbn [closed fbody].
    rewrite (doc_ok_tmp _ _ _ _ Kt (doc_ok_tmp _ _ _ _ Kt Dk)). cbn [andb].
    rewrite !upd_other by (intros E; apply Hq; symmetry; exact E). rewrite Ex. reflexivity.
Qed.

(** every session that is a sequence of publications meeting the three conditions obeys the discipline; hence (first theorem of
    C06) every crash point inside it is consistent *)
Theorem publications_disciplined : forall xs d, pubs_ok d xs = true -> discipline kind_of d (flat_map compile xs) = true.
Proof.
  induction xs as [|x t IH]; intros d H; cbn [flat_map pubs_ok] in *; [reflexivity|].
  apply andb_true_iff in H as [H1 H2]. rewrite discipline_app, (pub_disciplined d x H1). cbn [andb]. apply IH, H2.
Qed.

Corollary publications_crash_consistent xs d n : Consistent kind_of d -> pubs_ok d xs = true -> Consistent kind_of (apply_all (firstn n (flat_map compile xs)) d).
Proof. intros Hc H. apply crash_consistent_lemma; [exact Hc | apply publications_disciplined, H]. Qed.
End Pub.
