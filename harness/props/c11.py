"""C11 — shard-level custom metadata describes exactly the examples it labels."""
import json

from harness import common, gen_filler
from harness.props import c10

PID = "C11"


def impl_oracle(case, r):
    bad = []
    if r["error"]:
        bad.append(("session-error", f"session raised {r['error']}"))
    for i, (op, ra) in enumerate(zip(case["ops"], r["raised"])):
        if op[0] == "W" and op[3] and ra:
            bad.append(("valid-write-raised", f"op {i} (a valid write) raised {ra}"))
    vals = gen_filler.at_write_values(case["ops"])
    for s in range(3):
        shards = r["shards"].get(str(s), [])
        where = {}
        for j, (n, ex, m) in enumerate(shards):
            if isinstance(ex, list):
                for e in ex:
                    where.setdefault(e, []).append((j, m))
        accepted = [(i, v) for (i, v, ok) in vals[s] if ok]
        for i, v in accepted:
            locs = where.get(i, [])
            if len(locs) != 1:
                bad.append(("lost-or-duplicated", f"split {s}: example {i} is recorded {len(locs)} times"))
            elif v and locs[0][1] != v:
                bad.append(("label-mismatch", f"split {s}: example {i} written under metadata {v} lies in shard {locs[0][0]} labelled {locs[0][1]}"))
        # a recorded label has to come from a write into that shard: some write to this split (accepted or rejected) between the last example
        # of the previous shard and the first example of the next one carried it -- a shard of unlabelled writes must not inherit a label
        firsts = [min(ex) if isinstance(ex, list) and ex else None for (_n, ex, _m) in shards]
        lasts = [max(ex) if isinstance(ex, list) and ex else None for (_n, ex, _m) in shards]
        for j, (n, ex, m) in enumerate(shards):
            if not m or firsts[j] is None:
                continue
            lo = max([x for x in lasts[:j] if x is not None], default=-1)
            hi = min([x for x in firsts[j + 1:] if x is not None], default=10 ** 9)
            if not any(lo < i < hi and v == m for (i, v, _ok) in vals[s]):
                bad.append(("label-from-nowhere", f"split {s}: shard {j} (examples {ex}) is recorded with metadata {m}, which no write into it carried"))
        extra = set(where) - {i for i, _ in accepted}
        if extra:
            bad.append(("phantom-example", f"split {s}: recorded examples {sorted(extra)} were never accepted"))
        # "selecting shards by metadata returns all and only the examples written under that metadata"
        if r.get("selected"):
            for key, got in r["selected"].items():
                si, v = (int(x) for x in key.split(":"))
                if si != s or v == 0:
                    continue
                want_all = [i for i, vv in accepted if vv == v]
                other = [i for i, vv in accepted if vv and vv != v]
                if not isinstance(got, list):
                    bad.append(("selection-error", f"split {s}: selecting metadata {v} raised {got}"))
                    continue
                if not set(want_all) <= set(got):
                    bad.append(("selection-misses", f"split {s}: selecting metadata {v} returned {got}, missing {sorted(set(want_all)-set(got))}"))
                if set(other) & set(got):
                    bad.append(("selection-foreign", f"split {s}: selecting metadata {v} returned examples written under another value: {sorted(set(other)&set(got))}"))
    return bad


def run(ctx):
    c10.run_filler_check(ctx, PID, impl_oracle, "Proofs/LabelProofs.vo Proofs/FillerExact.vo", select=True)


def replay(ctx, rp):
    c = rp["replay"].get("case")
    if not c:
        print("no concrete input in this replay file:", rp["replay"].get("unchecked"))
        return False
    r = common.run_impl("filler_run.py", {"cases": [c], "format": rp["replay"].get("format", "fb"), "select": True})["results"][0]
    bad = impl_oracle(c, r)
    print(json.dumps({"case": c, "impl": r, "oracle": bad}, indent=1))
    return not bad
