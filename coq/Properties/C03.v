(** C03 — Unshuffled iteration is deterministic and preserves write order.
    Property theorems only; each is closed by [exact] of a lemma proved in Proofs/. *)
Require Import Sedpack.Model.Base Sedpack.Generated.GenFiller Sedpack.Model.Filler.
Require Import Sedpack.Proofs.FillerProofs Sedpack.Proofs.FillerExact.

(** Within one filler context the shards recorded for a split, concatenated in the order in
    which they were closed (which is the order of the list file and hence of unshuffled
    iteration), contain exactly the accepted writes of that split in the order written — for
    every shard size, every interleaving of splits, metadata use and rejected writes. *)
Theorem c03_session_order_preserved :
  forall (eps : nat), 1 <= eps -> forall (ops : list wop) (s : split),
    recorded eps ops s = accepted s ops 0.
Proof. exact filler_exact_lemma. Qed.
Print Assumptions c03_session_order_preserved.

(** Non-vacuity: three splits interleaved, shard size 2. *)
Theorem c03_nonvacuous :
  let ops := [WWrite Train None true; WWrite Test None true; WWrite Train None true; WWrite Train None false;
              WWrite Train None true; WWrite Test None true; WWrite Holdout None true; WWrite Train None true] in
  recorded 2 ops Train = [0; 2; 4; 7] /\ recorded 2 ops Test = [1; 5] /\ recorded 2 ops Holdout = [6].
Proof. vm_compute. repeat split. Qed.
Print Assumptions c03_nonvacuous.
