"""Histories of writing sessions: generator, model evaluation (Model/Meta.v), canonicalisation,
comparison with the implementation (harness/impl/history_run.py).  Shared by C03, C04, C05, C08."""
from __future__ import annotations

import json

from harness import common, gen_filler
from harness.common import Broken


def gen_ops(rng, eps, small=False):
    """A short op list for one filler: mostly valid writes to 1-2 splits around the shard-size boundaries."""
    c = gen_filler.gen_case(rng)
    ops = c["ops"]
    if len(ops) > 14 or small:
        ops = ops[: rng.choice([0, 1, 2, 3, 5, 8])]
    return ops


def corpus():
    W = lambda s=0: ["W", s, None, True]  # noqa: E731
    return [
        # fillers obtained early (before another session completes) and entered afterwards: root after root, root after sub-directory, same sub-directory
        {"eps": 2, "sessions": [{"kind": "filler", "sub": [], "reopen": False, "ops": [W(), W(), W()]},
                                {"kind": "filler", "sub": [], "reopen": False, "ops": [W(), W()], "early": True},
                                {"kind": "filler", "sub": [3], "reopen": False, "ops": [W(), W(1)]},
                                {"kind": "filler", "sub": [], "reopen": False, "ops": [W()], "early": True},
                                {"kind": "filler", "sub": [3], "reopen": False, "ops": [W(), W()], "early": True}]},
        # datasets without checksum algorithms (nothing in the metadata changes when a list file is rewritten) written into repeatedly through one handle
        {"eps": 2, "algs": [], "sessions": [{"kind": "filler", "sub": [], "reopen": False, "ops": [W(), W(), W()]},
                                            {"kind": "filler", "sub": [], "reopen": False, "ops": [W(), W()]},
                                            {"kind": "filler", "sub": [4], "reopen": False, "ops": [W(), W(1)]},
                                            {"kind": "filler", "sub": [4], "reopen": False, "ops": [W(), W(), W()]},
                                            {"kind": "multi", "reopen": False, "writers": [[W(), W()], [W(1)]]}]},
        # F1 witnesses: reuse of a sub-directory; a session in a known child's parent chain
        {"eps": 2, "sessions": [{"kind": "filler", "sub": [7], "reopen": False, "ops": [W(), W(), W()]},
                                {"kind": "filler", "sub": [7], "reopen": False, "ops": [W()]}]},
        {"eps": 2, "sessions": [{"kind": "filler", "sub": [7, 8], "reopen": False, "ops": [W(), W(), W()]},
                                {"kind": "filler", "sub": [7], "reopen": True, "ops": [W(), W()]}]},
        {"eps": 3, "sessions": [{"kind": "filler", "sub": [7, 8], "reopen": False, "ops": [W(), W()]},
                                {"kind": "filler", "sub": [7], "reopen": False, "ops": [W()] * 3},
                                {"kind": "filler", "sub": [], "reopen": True, "ops": [W()] * 5},
                                {"kind": "filler", "sub": [7, 9], "reopen": False, "ops": [W()] * 4},
                                {"kind": "filler", "sub": [7, 8], "reopen": False, "ops": [W()]}]},
        # name-prefix siblings, root + multi-writer + root again, nested below a multi-writer history
        {"eps": 2, "sessions": [{"kind": "filler", "sub": [1], "reopen": False, "ops": [W()] * 3},
                                {"kind": "filler", "sub": [10], "reopen": False, "ops": [W()] * 2},
                                {"kind": "filler", "sub": [1, 0], "reopen": True, "ops": [W()]}]},
        {"eps": 2, "sessions": [{"kind": "filler", "sub": [], "reopen": False, "ops": [W(), W(1), W()]},
                                {"kind": "multi", "reopen": False, "writers": [[W()] * 3, [], [W(1), W()]]},
                                {"kind": "filler", "sub": [], "reopen": False, "ops": [W()]},
                                {"kind": "multi", "reopen": True, "writers": [[W()]]}]},
        # more than ten writers in one call (their directories must keep argument order), then one more call
        {"eps": 2, "sessions": [{"kind": "multi", "reopen": False, "writers": [[W()] for _ in range(12)]},
                                {"kind": "multi", "reopen": True, "writers": [[W(), W(1)], [W()], [W(1)]]}]},
        {"eps": 1, "sessions": [{"kind": "multi", "reopen": False, "writers": [[], []]},
                                {"kind": "filler", "sub": [3], "reopen": False, "ops": []},
                                {"kind": "filler", "sub": [3, 4, 5], "reopen": False, "ops": [W(2)]}]},
    ]


def gen_history(rng):
    eps = rng.choice([1, 2, 2, 3, 4])
    n = rng.choice([1, 2, 2, 3, 3, 4, 5, 6])
    used = [[]]
    sessions = []
    for _ in range(n):
        k = rng.choice(["root", "root", "sub_new", "sub_new", "sub_reuse", "sub_nested", "multi", "multi"])
        reopen = rng.random() < 0.4
        if k == "multi":
            w = rng.choice([1, 2, 2, 3])
            sessions.append({"kind": "multi", "reopen": reopen, "writers": [gen_ops(rng, eps, small=True) for _ in range(w)]})
            continue
        if k == "root":
            sub = []
        elif k == "sub_new":
            sub = [rng.choice([1, 2, 3, 10, 11])]
        elif k == "sub_reuse":
            sub = list(rng.choice(used))
        else:
            base = list(rng.choice(used))
            sub = base + [rng.choice([1, 2, 3])] if len(base) < 3 else base
        used.append(sub)
        sessions.append({"kind": "filler", "sub": sub, "reopen": reopen, "ops": gen_ops(rng, eps)})
        if sessions[:-1] and not reopen and rng.random() < 0.2:
            sessions[-1]["early"] = True       # the filler object is obtained before the previous session runs and entered only afterwards
    h = {"eps": eps, "sessions": sessions}
    r = rng.random()
    if r < 0.15:
        h["algs"] = []                      # a dataset configured without checksum algorithms
    elif r < 0.3:
        h["algs"] = rng.choice([["md5", "xxh64"], ["sha512"], ["xxh32", "sha256", "md5"]])
    return h


def coq_session(s):
    if s["kind"] == "filler":
        return f"SFiller {common.clist(s['sub'])} {gen_filler.coq_ops(s['ops'])}"
    return "SMulti [" + "; ".join(gen_filler.coq_ops(w) for w in s["writers"]) + "]"


def model_eval(pid, histories, name="hist"):
    """For each history the list of per-session observations (or the error code)."""
    files, chunks = {}, []
    for ci in range(0, len(histories), 25):
        ch = histories[ci:ci + 25]
        chunks.append(ch)
        body = ["Require Import Sedpack.Model.Base Sedpack.Model.Filler Sedpack.Model.Meta.", "Open Scope nat_scope.",
                "Definition ecode (e : err) : nat := match e with OutOfFuel => 1 | AssertNothing => 2 | PrefixMismatch => 3 | AssertSingle => 4 | AssertPartition => 5 | ErrExists => 6 | ErrNoSplit => 7 end.",
                "Definition obs (eps : nat) (h : list session) := match run_history eps h with Ok st => (0, observe_state st) | Err e => (ecode e, observe_state (fs0, [])) end.",
                "Definition prefixes (eps : nat) (h : list session) := map (fun k => obs eps (firstn k h)) (seq 1 (length h))."]
        for h in ch:
            body.append(f"Eval vm_compute in prefixes {h['eps']} [" + "; ".join(coq_session(s) for s in h["sessions"]) + "].")
        files[f"{name}{ci // 25}"] = "\n".join(body) + "\n"
    outs = common.coq_eval_many(pid, files)
    res = []
    for i, ch in enumerate(chunks):
        text = outs[f"{name}{i}"]
        ans = common.coq_answers(text)
        if len(ans) != len(ch):
            raise Broken("model history output could not be parsed", text[:400])
        res.extend(ans)
    return res


def fix_nodes(text):
    """`Node [0] 5 [...] [...] [...]` was reduced to `[0] 5 [...] [...] [...]`; insert commas between the
    five juxtaposed arguments.  Arguments are bracketed lists or integers (possibly parenthesised negatives)."""
    out, i, n = [], 0, len(text)
    # a juxtaposition is: `]` or digit or `)` followed by spaces/newlines then `[` or digit or `(`, inside a Node.
    import re
    return re.sub(r"(?<=[\]\d\)])\s+(?=[\[\d\(])", ", ", text)


def canon_model(obs):
    """Model observation -> canonical JSON-like structure."""
    if obs[0] != 0:
        return {"error": {1: "OutOfFuel", 2: "AssertNothing", 3: "PrefixMismatch", 4: "AssertSingle", 5: "AssertPartition", 6: "ErrExists", 7: "ErrNoSplit"}[obs[0]]}
    _, (info, (trees, (iters, (exact, check)))) = obs
    names = {}

    def cd(d):
        out = []
        for x in d:
            if x >= 1000:
                names.setdefault(x, f"u{len(names)}")
                out.append(names[x])
            else:
                out.append(x)
        return out

    def ct(t):
        d, (nex, (files, children)) = t
        dd = cd(d)
        fl = [[n, list(ex), m] for (n, (ex, m)) in files]
        chl = [[cd(c), cn, cs] for (c, (cn, cs)) in children]
        return {"dir": dd, "nex": nex, "files": fl, "children": chl}
    return {"info": [[s, a, b] for (s, (a, b)) in info], "trees": [ct(t) for t in trees],
            "iterate": [[s, list(e)] for (s, e) in iters], "exact": bool(exact), "check": bool(check), "error": None}


def canon_impl(d):
    if "error_open" in d:
        return {"error": "open:" + d["error_open"]}
    names = {}

    def cd(dd):
        out = []
        for x in dd:
            if isinstance(x, str):
                names.setdefault(x, f"u{len(names)}")
                out.append(names[x])
            else:
                out.append(x)
        return out

    def ct(t, acc):
        acc.append({"dir": cd(t["dir"]), "nex": t["nex"], "files": t["files"], "children": [[cd(c), a, b] for c, a, b in t["children"]]})
        for x in t["sub"]:
            ct(x, acc)
        return acc
    trees = []
    for t in d["trees"]:
        ct(t, trees)
    return {"info": d["info"], "trees": trees, "iterate": d["iterate"], "exact": not d["problems"], "check": d["check"] is True,
            "error": d["error"]}


def compare(h, impl, model):
    """Returns list of textual differences between the implementation's and the model's per-session dumps."""
    diffs = []
    for k, (di, mo) in enumerate(zip(impl, model)):
        ci, cm = canon_impl(di), canon_model(mo)
        if cm.get("error") and cm["error"] not in (None,):
            ie = ci.get("error") or ""
            ok = (cm["error"] == "AssertSingle" and ie.startswith("AssertionError")) or (cm["error"] == "PrefixMismatch" and ie.startswith("ValueError"))
            if not ok:
                diffs.append(f"session {k}: model error {cm['error']} impl error {ie!r}")
            break
        if ci.get("error"):
            diffs.append(f"session {k}: impl error {ci['error']!r} but the model completes")
            break
        for key in ("info", "trees", "iterate"):
            if ci[key] != cm[key]:
                diffs.append(f"session {k} {key}: impl {json.dumps(ci[key])[:300]} model {json.dumps(cm[key])[:300]}")
    return diffs


def expected_per_split(h, upto):
    """What the property says must be readable after sessions[0..upto]: per split the multiset of accepted
    examples, and per session/writer their order."""
    per = {0: [], 1: [], 2: []}
    blocks = []
    base = 0
    for s in h["sessions"][: upto + 1]:
        ws = [s["ops"]] if s["kind"] == "filler" else s["writers"]
        blk = {0: [], 1: [], 2: []}
        for ops in ws:
            for i, op in enumerate(ops):
                if op[0] == "W" and op[3]:
                    per[op[1]].append(base + i)
                    blk[op[1]].append(base + i)
            base += 100
        blocks.append(blk)
    return per, blocks


def features(h):
    f = set()
    subs = [tuple(s["sub"]) for s in h["sessions"] if s["kind"] == "filler"]
    if len(subs) != len(set(subs)):
        f.add("reused-directory")
    if any(len(s) >= 2 for s in subs):
        f.add("nested")
    for a in subs:
        for b in subs:
            if a != b and len(a) < len(b) and b[: len(a)] == a and a:
                f.add("below-known-child")
    if any(s["kind"] == "multi" for s in h["sessions"]):
        f.add("multi-writer")
    if any(s.get("reopen") for s in h["sessions"]):
        f.add("reopen")
    if len(h["sessions"]) >= 3:
        f.add("long")
    return sorted(f)
