"""C03 — unshuffled iteration is deterministic and preserves write order."""
import json

from harness import common, history
from harness.props import c04

PID = "C03"


def is_subsequence(small, big):
    it = iter(big)
    return all(x in it for x in small)


def oracle_c03(h, k, d):
    """Within every session (filler, or multi-writer call in argument order) the examples of a split
    appear in the order written."""
    bad = []
    if d.get("error_open") or d["error"]:
        return bad  # C04/C08 report these
    _per, blocks = history.expected_per_split(h, k)
    got = {s: e for s, e in d["iterate"]}
    for j, blk in enumerate(blocks):
        for s, want in blk.items():
            g = got.get(s, [])
            if isinstance(g, list) and want and not is_subsequence(want, g):
                inter = [x for x in g if x in set(want)]
                bad.append(("session-order-violated", f"after session {k}: split {s}: examples of session {j} come back as {inter[:12]} but were written as {want[:12]}"))
    return bad


def run(ctx):
    hs, impl = c04.run_history_check(ctx, PID, oracle_c03, "determinism across interfaces / parallelism / passes is checked on the implementation (coverage.determinism_runs)",
                                       extra_gens=("GenIter", "GenPipeline"))
    # determinism: every interface x degree of parallelism x repeated passes on one handle x fresh handles,
    # all equal to the depth-first write-order sequence decoded shard by shard
    from harness import iterlib
    rng = ctx.rng
    jobs = []
    for _ in range(ctx.scale(8, 60)):
        spec = iterlib.gen_dataset(rng, min_shards=rng.choice([1, 2, 4, 6]))
        reqs = []
        for iface in iterlib.ifaces_for(spec):
            fps = [1, 2, 3, 5, 9] if iface in ("concurrent", "rust", "async", "tf") else [1]
            for fp in (fps if not ctx.quick else rng.sample(fps, min(3, len(fps)))):
                reqs.append({"iface": iface, "split": 0, "shuffle": 0, "repeat": False, "file_parallelism": fp, "passes": 2})
        jobs.append({"dataset": spec, "requests": reqs})
    # shards far larger than any decoding chunk or prefetch buffer (650 examples in shards of 300): order inside a shard
    for fmt in (("tfrec", "fb") if ctx.quick else ("tfrec", "fb", "npz")):
        spec = {"format": fmt, "compression": "", "eps": 300, "sessions": [{"kind": "filler", "sub": [], "reopen": False, "ops": [["W", 0, None, True]] * 650}]}
        jobs.append({"dataset": spec, "requests": [{"iface": iface, "split": 0, "shuffle": 0, "repeat": False, "file_parallelism": 2, "passes": 1}
                                                   for iface in iterlib.ifaces_for(spec)]})
    # no degree of parallelism given to as_tfdataset on a TFRecord dataset; many more shards than any cap on the number of reader threads
    spec = {"format": "tfrec", "compression": "", "eps": 2, "sessions": [{"kind": "filler", "sub": [], "reopen": False, "ops": [["W", 0, None, True]] * 11}]}
    jobs.append({"dataset": spec, "requests": [{"iface": "tf", "split": 0, "shuffle": 0, "repeat": False, "file_parallelism": None, "passes": 2}]})
    spec = {"format": "fb", "compression": "", "eps": 1, "sessions": [{"kind": "filler", "sub": [], "reopen": False, "ops": [["W", 0, None, True]] * 70}]}
    jobs.append({"dataset": spec, "requests": [{"iface": iface, "split": 0, "shuffle": 0, "repeat": False, "file_parallelism": fp, "passes": 1}
                                               for iface in ("rust", "concurrent") for fp in (33, 40, 65)]})
    res = iterlib.run_jobs(jobs)
    runs = 0
    for job, r in zip(jobs, res):
        if "build_error" in r:
            ctx.report("harness", r["build_error"], {"mode": "order", "job": job}, found_input=False)
            continue
        ref = r["reference"]["0"]["seq"]
        for q, o in zip(job["requests"], r["results"]):
            runs += 1
            if o.get("hang") or o.get("error"):
                ctx.report("iteration-failed", f"{q['iface']} fp={q['file_parallelism']} on {job['dataset']['format']}: {o}", {"mode": "order", "job": {"dataset": job["dataset"], "requests": [q]}})
                continue
            if o.get("skipped"):
                continue
            for pi, seq in enumerate(o["out"]):
                if seq != ref:
                    ctx.report("unshuffled-order-differs", f"{q['iface']} file_parallelism={q['file_parallelism']} pass {pi} on {job['dataset']['format']}/{job['dataset']['compression'] or 'none'}: "
                               f"got {seq[:14]}.. expected {ref[:14]}..", {"mode": "order", "job": {"dataset": job["dataset"], "requests": [q]}, "got": seq, "expected": ref})
    ctx.coverage["determinism_runs"] = runs
    ctx.coverage["determinism_datasets"] = len(jobs)
    ctx.coverage["evaluations"] += runs


def replay(ctx, rp):
    if rp["replay"].get("mode") == "order":
        from harness import iterlib
        job = rp["replay"]["job"]
        r = iterlib.run_jobs([job])[0]
        ref = r["reference"]["0"]["seq"]
        ok = all(all(seq == ref for seq in o.get("out", [[]])) and not o.get("error") and not o.get("hang") for o in r["results"])
        print(json.dumps({"expected": ref, "results": r["results"]})[:2000])
        return ok
    h = rp["replay"].get("history")
    if not h:
        print("no concrete history in this replay file:", rp["replay"].get("unchecked") or rp["replay"].get("case"))
        return False
    dumps = common.run_impl("history_run.py", {"histories": [h]})["results"][0]
    bad = [x for k, d in enumerate(dumps) for x in oracle_c03(h, k, d)]
    print(json.dumps({"history": h, "oracle": bad}, indent=1)[:3000])
    return not bad
