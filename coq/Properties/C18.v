(** C18 — write-time validation is all-or-nothing and never poisons a shard.
    Only statements, closed by [exact], with [Print Assumptions] beneath. *)
Require Import Coq.Strings.String.
Require Import Sedpack.Model.Base Sedpack.Generated.GenWriters Sedpack.Model.Writers Sedpack.Proofs.WritersProofs.
Open Scope list_scope.

(** FlatBuffers: after any sequence of writes the shard references exactly the accepted writes, in order
    (a rejected write may leave unreferenced bytes in the builder, never an example). *)
Theorem C18_fb_all_or_nothing : forall attrs ws, fb_examples (run_fb attrs ws) = accepted_fb attrs ws.
Proof. exact fb_all_or_nothing. Qed.
Print Assumptions C18_fb_all_or_nothing.

(** npz: with the name validation the source has now, after any sequence of writes every per-attribute buffer holds exactly the
    accepted writes, so the shard stays loadable and its length is the number of accepted writes. *)
Theorem C18_npz_all_or_nothing : npz_checks_names = true -> forall attrs, attrs <> [] -> forall ws,
  npz_readable (run_npz attrs ws) = true /\ npz_ids (run_npz attrs ws) = accepted_npz attrs ws.
Proof. exact npz_all_or_nothing. Qed.
Print Assumptions C18_npz_all_or_nothing.

(** the hypothesis is what the generated model says about the current source *)
Theorem C18_npz_hypothesis_holds : npz_checks_names = true.
Proof. reflexivity. Qed.
Print Assumptions C18_npz_hypothesis_holds.

Theorem C18_tf_all_or_nothing : forall attrs ws, run_tf attrs ws = accepted_tf attrs ws.
Proof. exact tf_all_or_nothing. Qed.
Print Assumptions C18_tf_all_or_nothing.

(** TFRecord: whatever feature kind the writer stores for a declared dtype is the kind the reader parses for it, and it is one the parser has *)
Theorem C18_tf_tables_agree : forall d k, tf_lookup tf_writer_table d = Some k -> tf_lookup tf_reader_table d = Some k /\ k <> KFloat64.
Proof. exact tf_tables_agree. Qed.
Print Assumptions C18_tf_tables_agree.

(** non-vacuity: a concrete history with a rejected write in the middle of a shard, and the poisoning that the name validation prevents *)
Theorem C18_nonvacuous :
  let attrs := [{| variable := false |}; {| variable := true |}] in
  let w i v := {| w_id := i; w_vals := v; w_extra := false |} in
  accepted_npz attrs [w 0 [AGood; AGood]; w 1 [AGood; AMissing]; w 2 [AShape; AGood]; w 3 [AGood; AGood]] = [0; 3]
  /\ accepted_fb attrs [w 0 [AGood; AGood]; w 1 [AGood; ACast]; w 2 [AGood; AGood]] = [0; 2]
  /\ fb_garbage (run_fb attrs [w 0 [AGood; AGood]; w 1 [AGood; ACast]]) = 1
  /\ tf_lookup tf_writer_table "float64" <> None.
Proof. vm_compute. repeat split; discriminate. Qed.
Print Assumptions C18_nonvacuous.
