"""C16 — recorded checksums are the standard digests of the exact file bytes."""
import json
import re

from harness import common
from harness.common import Broken, COQ, REPO
from translator import pygen

PID = "C16"
ALGS = ["md5", "sha1", "sha224", "sha256", "sha384", "sha512", "sha3_224", "sha3_256", "sha3_384",
        "sha3_512", "xxh32", "xxh64", "xxh128"]
UNIT = 1024  # the model is run on 1 KiB blocks (see DESIGN: a 300 KiB Coq list literal is not evaluable)


def gen_scripted(ctx, bufsize):
    """Scripted read sequences in UNIT blocks: (n blocks, wants in blocks, algs)."""
    rng = ctx.rng
    B = bufsize // UNIT
    cases = [
        {"n": 0, "wants": [1], "algs": ["a"]},
        {"n": B, "wants": [B, B], "algs": ["a", "b", "a"]},
        {"n": B + 1, "wants": [B, B, B], "algs": ["a"]},
        {"n": 2 * B + 3, "wants": [B + 7, 1, B, B, B, B], "algs": ["x", "x"]},
        {"n": 5, "wants": [1, 1, 1, 1, 1, 1], "algs": []},
    ]
    for _ in range(ctx.scale(60, 600)):
        n = rng.choice([0, 1, B - 1, B, B + 1, 2 * B - 1, 2 * B, 2 * B + 1, rng.randint(0, 3 * B)])
        wants, left = [], n
        while left > 0:
            w = rng.choice([1, 2, B - 1, B, B + 1, 2 * B, rng.randint(1, 2 * B)])
            wants.append(w)
            left -= min(w, B)
        wants += [rng.randint(1, B)] * rng.choice([1, 2])
        algs = [rng.choice("abc") for _ in range(rng.randint(0, 4))]
        cases.append({"n": n, "wants": wants, "algs": algs})
    return cases


def gen_std(ctx, bufsize):
    rng = ctx.rng
    B = bufsize
    sizes = [0, 1, 2, B - 1, B, B + 1, 2 * B - 1, 2 * B, 2 * B + 1, 3 * B + 5, 320536]
    cases = []
    for i, n in enumerate(sizes):
        k = rng.randint(1, 4)
        algs = [rng.choice(ALGS) for _ in range(k)]
        if i % 2 == 0 and algs:
            algs.append(algs[0])  # repetition
        cases.append({"n": n, "algs": algs, "salt": i, "cli": True})
    # every algorithm alone on a multi-chunk, non-multiple size; the complete tuple; reversed order
    cases.append({"n": 2 * B + 17, "algs": list(ALGS), "salt": 3, "cli": True})
    cases.append({"n": B + 1, "algs": list(reversed(ALGS)), "salt": 4})
    for a in ALGS:
        cases.append({"n": B + 1 + ALGS.index(a), "algs": [a, a], "salt": 5})
    for _ in range(ctx.scale(10, 150)):
        n = rng.choice([rng.randint(0, 3 * B), rng.randint(B - 3, B + 3), rng.randint(2 * B - 3, 2 * B + 3)])
        cases.append({"n": n, "algs": [rng.choice(ALGS) for _ in range(rng.randint(0, 5))], "salt": rng.randint(0, 250)})
    return cases


def gen_dataset(ctx):
    rng = ctx.rng
    out = [
        {"format": "fb", "algs": ["sha256", "xxh64", "sha256"], "width": 60000, "eps": 3, "n": 7, "second_session": True},
        {"format": "npz", "algs": ["md5"], "width": 70000, "eps": 2, "n": 3},
        {"format": "fb", "algs": list(ALGS), "width": 10, "eps": 2, "n": 5, "compression": "GZIP"},
        {"format": "fb", "algs": ["sha256", "md5", "xxh64"], "width": 64, "eps": 4, "n": 6, "second_session": True, "merged_fillers": 2},
        {"format": "fb", "algs": ["sha256", "xxh64"], "width": 700000, "eps": 2, "n": 4, "threaded_fillers": 6},
        {"format": "npz", "algs": ["md5"], "width": 300000, "eps": 3, "n": 3, "threaded_fillers": 3},
        {"format": "fb", "algs": ["sha256"], "width": 64, "eps": 2, "n": 5, "late_commit": True},
        {"format": "npz", "algs": ["md5", "xxh64"], "width": 64, "eps": 3, "n": 4, "second_session": True, "late_commit": True},
        # shard files of 9 MB and more with several algorithms (large files may be hashed differently: in parallel, memory-mapped, in bigger blocks)
        {"format": "npz", "algs": ["sha256", "md5", "xxh64", "sha3_256"], "width": 3000000, "eps": 3, "n": 3},
        {"format": "fb", "algs": ["xxh128", "sha1"], "width": 4500000, "eps": 2, "n": 2},
    ]
    if not ctx.quick:
        out.append({"format": "tfrec", "algs": ["sha1", "sha1"], "width": 50000, "eps": 3, "n": 4})
        for _ in range(10):
            out.append({"format": rng.choice(["fb", "npz"]), "algs": [rng.choice(ALGS) for _ in range(rng.randint(1, 4))],
                        "width": rng.choice([10, 45000, 131072]), "eps": rng.randint(1, 3), "n": rng.randint(1, 6),
                        "second_session": rng.random() < 0.5})
    return out


def run(ctx):
    broken = []
    tr = pygen.regenerate(REPO, COQ / "Generated", only=["GenHash"])
    bufsize = 131072
    if tr["GenHash"]:
        broken.append(Broken("translator: GenHash (utils.hash_checksums no longer has the shape the model assumes)", tr["GenHash"]))
    else:
        bufsize = int(re.search(r"hash_bufsize : N := (\d+)%N", (COQ / "Generated/GenHash.v").read_text()).group(1))
    proof = None
    if not broken:
        try:
            proof = common.check_property_file(PID)
        except Broken as b:
            broken.append(b)
    unit = UNIT if bufsize % UNIT == 0 and bufsize >= UNIT else 1
    scripted = gen_scripted(ctx, bufsize) if unit == UNIT else []
    std = gen_std(ctx, bufsize)
    dsc = gen_dataset(ctx)
    thr = [{"sizes": [400000, 300001, 262144, 131073], "algs": ["sha256", "xxh64"], "rounds": ctx.scale(60, 300)}]
    payload = {"std": std, "dataset": dsc, "threads": thr,
               "scripted": [{"n": c["n"] * unit, "wants": [w * unit for w in c["wants"]], "algs": c["algs"]} for c in scripted]}
    res = common.run_impl("hash_run.py", payload, timeout=1800)
    # 1. the property on the implementation: digests equal the standard one-shot digests
    for c, r in zip(std, res["std"]):
        if r["got"] != r["want"]:
            kind = "repeated-algorithm" if len(set(c["algs"])) < len(c["algs"]) and not isinstance(r["got"], str) and \
                [g == w for g, w in zip(r["got"], r["want"])].count(False) <= len(c["algs"]) - len(set(c["algs"])) + 1 and c["n"] <= bufsize else "digest-mismatch"
            ctx.report(kind, f"hash_checksums of a {c['n']}-byte file under {c['algs']} differs from the standard digests",
                       {"mode": "std", "case": c, "impl": r})
        for a, v in r["cli"].items():
            for g, name in zip(r["got"] if isinstance(r["got"], list) else [], c["algs"]):
                if name == a and g != v:
                    ctx.report("digest-mismatch-cli", f"{a}sum disagrees for a {c['n']}-byte file", {"mode": "std", "case": c, "impl": r})
    for c, r in zip(thr, res.get("threads", [])):
        if r["wrong"]:
            ctx.report("concurrent-hashing-wrong", f"{len(c['sizes'])} threads hashing different files at the same time: {r['wrong']} of {r['calls']} results differ from the standard digests", {"mode": "threads", "case": c, "impl": r})
    for c, r in zip(dsc, res["dataset"]):
        if r["bad"]:
            ctx.report("recorded-digest-mismatch", f"dataset {c}: recorded checksum differs from the digest of the file: {r['bad'][:3]}",
                       {"mode": "dataset", "case": c, "impl": r})
    for c, r in zip(scripted, res["scripted"]):
        if r["error"] or not all(r["concat_ok"]) or r["result_ok"] is False or r["names"] != c["algs"]:
            ctx.report("chunks-not-file", f"scripted reads n={c['n']}KiB wants={c['wants']}: the bytes fed to update are not the file / wrong objects",
                       {"mode": "scripted", "case": c, "impl": r})
    # 2. correspondence: chunk boundaries of the model vs the implementation under the same script
    disagreements = 0
    if not tr["GenHash"] and scripted:
        try:
            rc, log = common.coq_make(["Model/HashStream.vo"])
            if rc:
                raise Broken("Model/HashStream.v no longer compiles against the generated kernels", log[-2000:])
            body = ["Require Import Sedpack.Model.Base Sedpack.Generated.GenHash Sedpack.Model.HashStream.",
                    "From Coq Require Import NArith.",
                    f"Definition B := N.to_nat (hash_bufsize / {unit}).",
                    "Fixpoint leqb (a b : list nat) : bool := match a, b with [], [] => true | x :: a', y :: b' => (x =? y) && leqb a' b' | _, _ => false end.",
                    "Definition run (c : nat * list nat) := let f := seq 0 (fst c) in let ch := chunks_fed B (snd c) f (repeat 0 B) in (map (@length nat) ch, leqb (concat ch) f).",
                    "Eval vm_compute in map run [" + "; ".join(f"({c['n']}, {common.clist(c['wants'])})" for c in scripted) + "]."]
            out = common.parse_coq_list(common.coq_eval(PID, "scripted", "\n".join(body) + "\n"))
            for c, r, (lens, ok) in zip(scripted, res["scripted"], out):
                want = [x * unit for x in lens]
                for got in (r["chunk_lens"] or [want]):
                    if got != want or not ok:
                        disagreements += 1
                        if disagreements <= 2:
                            broken.append(Broken("correspondence hash read loop: model vs implementation chunk boundaries",
                                                 json.dumps({"case": c, "model": want, "impl": r["chunk_lens"]})))
        except Broken as b:
            broken.append(b)
    if broken and not ctx.violations:
        b = broken[0]
        ctx.report(f"broken:{b.what}", b.what, {"unchecked": b.what, "detail": b.detail[-3000:]}, found_input=False)
    nontrivial = {json.dumps(c, sort_keys=True) for c in std if c["n"] > bufsize or len(set(c["algs"])) < len(c["algs"])} | \
                 {json.dumps(c, sort_keys=True) for c in scripted if len(c["wants"]) > 2}
    for c in (std[3], std[-1], scripted[3] if scripted else None, dsc[0]):
        if c:
            ctx.sample(c)
    ctx.coverage.update({
        "obligations": proof["obligations"] if proof else 4, "discharged": proof["discharged"] if proof else 0,
        "theorems": proof["theorems"] if proof else [],
        "checker_cmd": "make -C coq Proofs/HashProofs.vo && coqc -Q coq Sedpack coq/Properties/C16.v (Print Assumptions under each theorem)",
        "trusted_base": common.TRUSTED_BASE_COMMON + [
            "section hypotheses (instantiated, not axioms): streaming law update(update(s,a),b)=update(s,a++b) and update(s,[])=s of the hash objects",
            "modelled, not verified: hashlib/xxhash implement the named algorithms (checked differentially against one-shot digests and the *sum tools)",
            "the model-vs-implementation chunk comparison runs on 1 KiB blocks (buffer = 128 blocks); byte-exact boundaries are covered by the standard-digest runs"],
        "evaluations": len(std) + len(scripted) + len(dsc),
        "distinct_nontrivial": len(nontrivial),
        "rule": "std: files of size 0,1,B-1,B,B+1,2B+-1,3B+5,... x tuples over the 13 algorithms (order, repetition) vs one-shot digests; "
                "scripted: short-read scripts vs the model's chunk boundaries; dataset: recorded checksums of every shard/list/description file vs one-shot digests. "
                "non-trivial = multi-chunk file, repeated algorithm, or script with > 2 reads",
        "std_cases": len(std), "scripted_cases": len(scripted), "dataset_cases": len(dsc), "concurrent_hash_calls": sum(r["calls"] for r in res.get("threads", [])),
        "dataset_files_checked": sum(r["files"] for r in res["dataset"]),
        "largest_dataset_file": max([r["max_size"] for r in res["dataset"]] + [0]),
        "model_vs_impl_disagreements": disagreements,
        "traces_validated_against_impl": len(scripted) - disagreements,
    })
    ctx.assumptions += ["hash objects obey the streaming law", "readinto returns at least one byte until end of file"]


def replay(ctx, rp):
    r = rp["replay"]
    if "case" not in r:
        print("no concrete input in this replay file:", r.get("unchecked"))
        return False
    mode = r["mode"]
    res = common.run_impl("hash_run.py", {mode: [r["case"]]})[mode][0]
    print(json.dumps({"case": r["case"], "impl": res}, indent=1)[:3000])
    if mode == "std":
        return res["got"] == res["want"]
    if mode == "dataset":
        return not res["bad"]
    if mode == "threads":
        return not res["wrong"]
    return all(res["concat_ok"]) and not res["error"]
