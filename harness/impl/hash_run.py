"""C16 implementation runner.  Modes:
 scripted: utils.hash_checksums with a scripted file object (short reads) and a toy hash
 std:      utils.hash_checksums on real files against one-shot reference digests
 dataset:  checksums recorded in a written dataset against one-shot digests of the files
"""
import hashlib
import json
import shutil
import subprocess
import sys
import tempfile
from pathlib import Path

import sedpack.io.utils as U

ALGS = ["md5", "sha1", "sha224", "sha256", "sha384", "sha512", "sha3_224", "sha3_256", "sha3_384",
        "sha3_512", "xxh32", "xxh64", "xxh128"]


def content(n, salt=0):
    return bytes(((i * 7 + salt) % 251) for i in range(n))


def ref_digest(name, data):
    import xxhash
    if name.startswith("xxh"):
        return getattr(xxhash, name)(data).hexdigest()
    return hashlib.new(name, data).hexdigest()


class Toy:
    log = None

    def __init__(self, name):
        self.name = name
        self.chunks = []

    def update(self, b):
        self.chunks.append(bytes(b))

    def hexdigest(self):
        return self.name + ":" + hashlib.sha256(b"".join(self.chunks)).hexdigest()


def scripted(cases):
    out = []
    real_get = U._get_hash_function
    for c in cases:
        data = content(c["n"])
        wants = list(c["wants"])
        toys = []

        class F:
            def __init__(self):
                self.pos = 0

            def __enter__(self):
                return self

            def __exit__(self, *a):
                return False

            def readinto(self, mv):
                w = wants.pop(0) if wants else 0
                k = min(w, len(mv), len(data) - self.pos)
                mv[:k] = data[self.pos:self.pos + k]
                self.pos += k
                return k

        def fake_open(path, mode="r", buffering=-1, **kw):
            assert mode == "rb" and buffering == 0, (mode, buffering)
            return F()

        def fake_get(name):
            t = Toy(name)
            toys.append(t)
            return t

        U.open = fake_open
        U._get_hash_function = fake_get
        try:
            res = U.hash_checksums(Path("/nonexistent"), tuple(c["algs"]))
            err = None
        except Exception as ex:  # noqa: BLE001
            res, err = None, f"{type(ex).__name__}: {ex}"
        finally:
            del U.open
            U._get_hash_function = real_get
        out.append({
            "chunk_lens": [[len(x) for x in t.chunks] for t in toys],
            "concat_ok": [b"".join(t.chunks) == data for t in toys],
            "names": [t.name for t in toys],
            "result_ok": None if res is None else list(res) == [a + ":" + hashlib.sha256(data).hexdigest() for a in c["algs"]],
            "error": err})
    return out


def std(cases):
    out = []
    tmp = Path(tempfile.mkdtemp(prefix="verif_hash_"))
    try:
        for c in cases:
            data = content(c["n"], c.get("salt", 0))
            f = tmp / "f.bin"
            f.write_bytes(data)
            try:
                got = list(U.hash_checksums(f, tuple(c["algs"])))
            except Exception as ex:  # noqa: BLE001
                got = f"{type(ex).__name__}: {ex}"
            want = [ref_digest(a, data) for a in c["algs"]]
            cli = {}
            if c.get("cli"):
                for a in set(c["algs"]) & {"md5", "sha1", "sha256", "sha512"}:
                    cli[a] = subprocess.run([a + "sum", str(f)], capture_output=True, text=True).stdout.split()[0]
            out.append({"got": got, "want": want, "cli": cli})
    finally:
        shutil.rmtree(tmp, ignore_errors=True)
    return out


def threads(cases):
    """Several threads of one process hash different files at the same time (two fillers driven from two threads do that)."""
    import threading
    from sedpack.io.utils import hash_checksums
    out = []
    for c in cases:
        tmp = Path(tempfile.mkdtemp(prefix="verif_hash_thr_"))
        try:
            files = []
            for i, size in enumerate(c["sizes"]):
                p = tmp / f"f{i}.bin"
                p.write_bytes(content(size, i + 7))
                files.append(p)
            want = [[ref_digest(a, p.read_bytes()) for a in c["algs"]] for p in files]
            bad = []
            lock = threading.Lock()

            def work(k):
                for _ in range(c["rounds"]):
                    got = list(hash_checksums(files[k], tuple(c["algs"])))
                    if got != want[k]:
                        with lock:
                            bad.append(k)
            ths = [threading.Thread(target=work, args=(k,)) for k in range(len(files))]
            for t in ths:
                t.start()
            for t in ths:
                t.join()
            out.append({"wrong": len(bad), "calls": c["rounds"] * len(files)})
        finally:
            shutil.rmtree(tmp, ignore_errors=True)
    return out


def dataset(cases):
    import numpy as np
    from sedpack.io import Dataset, Metadata, DatasetStructure, Attribute
    from sedpack.io.shard_file_metadata import ShardsList
    out = []
    for c in cases:
        tmp = Path(tempfile.mkdtemp(prefix="verif_hashds_"))
        try:
            algs = tuple(c["algs"])
            ds = Dataset.create(path=tmp / "d", metadata=Metadata(description="h"), dataset_structure=DatasetStructure(
                saved_data_description=[Attribute(name="a", dtype="uint8", shape=(c["width"],))],
                shard_file_type=c["format"], compression=c.get("compression", ""), examples_per_shard=c["eps"],
                hash_checksum_algorithms=algs))
            with ds.filler() as f:
                for i in range(c["n"]):
                    f.write_example(values={"a": np.frombuffer(content(c["width"], i), np.uint8)}, split="train")
            if c.get("second_session"):
                from sedpack.io.dataset_filler import DatasetFiller
                with DatasetFiller(ds, relative_path_from_split=Path("sub")) as f:
                    for i in range(c["n"]):
                        f.write_example(values={"a": np.frombuffer(content(c["width"], i + 100), np.uint8)}, split="train")
            if c.get("merged_fillers"):
                # several fillers that do not update the dataset themselves, one after the other into the same directory,
                # merged by a single write_config (what the DatasetFiller docstring advises for several fillers)
                from sedpack.io.dataset_filler import DatasetFiller
                updates = []
                for k in range(c["merged_fillers"]):
                    df = DatasetFiller(ds, relative_path_from_split=Path("part"), auto_update_dataset=False)
                    with df as f:
                        for i in range(c["n"] + k):
                            f.write_example(values={"a": np.frombuffer(content(c["width"], i + 200 + 50 * k), np.uint8)}, split="train")
                    updates += df.get_updated_infos()
                ds.write_config(updated_infos=updates)
            if c.get("late_commit"):
                # a filler that does not update the dataset itself writes first, another session commits into the same split, and only
                # then are the first filler's updates committed: what the description records must be the digest of the file as it is NOW
                from sedpack.io.dataset_filler import DatasetFiller
                early = DatasetFiller(ds, auto_update_dataset=False)
                with early as f:
                    for i in range(c["n"]):
                        f.write_example(values={"a": np.frombuffer(content(c["width"], i + 300), np.uint8)}, split="train")
                with ds.filler() as f:
                    for i in range(c["n"]):
                        f.write_example(values={"a": np.frombuffer(content(c["width"], i + 400), np.uint8)}, split="train")
                ds.write_config(updated_infos=early.get_updated_infos())
            if c.get("threaded_fillers"):
                # one filler per thread, each into its own sub-directory, closing shards at the same time; merged by one write_config
                import threading as _th
                from sedpack.io.dataset_filler import DatasetFiller
                fillers = [DatasetFiller(ds, relative_path_from_split=Path(f"t{k}"), auto_update_dataset=False) for k in range(c["threaded_fillers"])]
                errs = []

                def work(k, df):
                    try:
                        with df as f:
                            for i in range(c["n"] * 3):
                                f.write_example(values={"a": np.frombuffer(content(c["width"], i + 1000 * (k + 1)), np.uint8)}, split="train")
                    except BaseException as ex:  # noqa: BLE001
                        errs.append(f"{type(ex).__name__}: {ex}"[:200])
                ths = [_th.Thread(target=work, args=(k, df)) for k, df in enumerate(fillers)]
                for t_ in ths:
                    t_.start()
                for t_ in ths:
                    t_.join()
                if errs:
                    raise RuntimeError("; ".join(errs))
                updates = []
                for df in fillers:
                    updates += df.get_updated_infos()
                ds.write_config(updated_infos=updates)
            bad, nfiles, sizes = [], 0, []
            root = tmp / "d"
            ds2 = Dataset(root)
            try:
                ds2.check(show_progressbar=False)
                check_outcome = "passed"
            except BaseException as ex:  # noqa: BLE001
                check_outcome = "error:" + type(ex).__name__

            def walk(info):
                nonlocal nfiles
                p = root / info.shard_list_info_file.file_path
                data = p.read_bytes()
                nfiles += 1
                sizes.append(len(data))
                want = tuple(ref_digest(a, data) for a in algs)
                if tuple(info.shard_list_info_file.hash_checksums) != want:
                    bad.append(["list", str(info.shard_list_info_file.file_path)])
                sl = ShardsList.model_validate_json(data)
                for sh in sl.shard_files:
                    d2 = (root / sh.file_infos[0].file_path).read_bytes()
                    nfiles += 1
                    sizes.append(len(d2))
                    if tuple(sh.file_infos[0].hash_checksums) != tuple(ref_digest(a, d2) for a in algs):
                        bad.append(["shard", str(sh.file_infos[0].file_path), len(d2)])
                for ch in sl.children_shard_lists:
                    walk(ch)
            for info in ds2._dataset_info.splits.values():
                walk(info)
            rootsum = tuple(ds2.current_metadata_checksums())
            if rootsum != tuple(ref_digest(a, (root / "dataset_info.json").read_bytes()) for a in algs):
                bad.append(["dataset_info"])
            out.append({"bad": bad, "files": nfiles, "max_size": max(sizes) if sizes else 0, "check": check_outcome})
        except Exception as ex:  # noqa: BLE001
            out.append({"bad": [["error", f"{type(ex).__name__}: {ex}"[:300]]], "files": 0, "max_size": 0})
        finally:
            shutil.rmtree(tmp, ignore_errors=True)
    return out


def main():
    req = json.load(sys.stdin)
    res = {}
    if "scripted" in req:
        res["scripted"] = scripted(req["scripted"])
    if "std" in req:
        res["std"] = std(req["std"])
    if "dataset" in req:
        res["dataset"] = dataset(req["dataset"])
    if "threads" in req:
        res["threads"] = threads(req["threads"])
    print("@@RESULT@@" + json.dumps(res))


main()
