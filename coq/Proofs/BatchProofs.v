(** C14: the read-ahead of the unshuffled concurrent reader — batches of [file_parallelism] paths, each batch read by
    [executor.map] (all its files are opened at once), the next batch only taken when the previous one has been handed over:

        shard_paths_iterator = iter(shard_paths_iterator)
        batch = list(itertools.islice(shard_paths_iterator, file_parallelism))
        while batch:
            yield from itertools.chain.from_iterable(executor.map(shard_iterator.process_and_list, batch))
            batch = list(itertools.islice(shard_paths_iterator, file_parallelism))

    (statements pinned by the translator, GenPipeline) over ANY stream of paths, finite or endless. *)
Require Import Sedpack.Model.Base Sedpack.Generated.GenIter Sedpack.Model.Iter Sedpack.Proofs.IterProofs Sedpack.Proofs.ChainProofs.

Section Batch.
Variables (path ex : Type).
Variable psrc : @source path.
Variable read : path -> list ex.
Variable T : nat.

(** list(itertools.islice(it, k)) *)
Fixpoint take_paths (k : nat) (s : s_state psrc) : list path * s_state psrc :=
  match k with
  | 0 => ([], s)
  | S k => match s_next psrc s with
           | None => ([], s)
           | Some (p, s') => let (ps, s'') := take_paths k s' in (p :: ps, s'')
           end
  end.
Lemma take_paths_length k : forall s, length (fst (take_paths k s)) <= k.
Proof.
  induction k as [|k IH]; intros s; cbn [take_paths]; [cbn; lia|].
  destruct (s_next psrc s) as [[p s']|]; [|cbn; lia]. specialize (IH s'). destruct (take_paths k s'). cbn in *. lia.
Qed.

Record bstate := { b_src : s_state psrc; b_cur : list ex; b_opened : nat; b_emitted : nat }.
Definition batch_next (s : bstate) : option (ex * bstate) :=
  match b_cur s with
  | x :: t => Some (x, {| b_src := b_src s; b_cur := t; b_opened := b_opened s; b_emitted := S (b_emitted s) |})
  | [] => let (ps, s') := take_paths T (b_src s) in
          match concat (map read ps) with
          | x :: t => Some (x, {| b_src := s'; b_cur := t; b_opened := b_opened s + length ps; b_emitted := S (b_emitted s) |})
          | [] => None          (* `while batch:` ends (an empty batch), shards being non-empty *)
          end
  end.
Definition batch_source : @source ex := {| s_state := bstate; s_next := batch_next |}.
Definition batch_init (s0 : s_state psrc) : bstate := {| b_src := s0; b_cur := []; b_opened := 0; b_emitted := 0 |}.

Variable m : nat.
Hypothesis shard_size : forall p, m <= length (read p).

Lemma concat_read_length ps : length ps * m <= length (concat (map read ps)).
Proof. induction ps as [|p ps IH]; cbn [map concat length]; [lia|]. rewrite app_length. pose proof (shard_size p). lia. Qed.

(** every example of every opened file is handed over or waiting in the current batch; all but the current batch is used up *)
Definition BInv (s : bstate) : Prop := b_opened s * m <= b_emitted s + length (b_cur s) /\ (b_opened s - T) * m <= b_emitted s.
Lemma binv_init s0 : BInv (batch_init s0).
Proof. unfold BInv, batch_init. cbn. lia. Qed.
Lemma binv_next s x s' : BInv s -> batch_next s = Some (x, s') -> BInv s' /\ b_emitted s' = S (b_emitted s).
Proof.
  intros [H1 H2] Hn. unfold batch_next in Hn. destruct (b_cur s) as [|y t] eqn:Ec.
  - pose proof (take_paths_length T (b_src s)) as HT. destruct (take_paths T (b_src s)) as [ps s1]. cbn [fst] in HT.
    pose proof (concat_read_length ps) as HL. destruct (concat (map read ps)) as [|y t]; [discriminate|]. injection Hn as _ <-.
    unfold BInv. cbn [b_opened b_emitted b_cur length] in *. split; [|reflexivity]. nia.
  - injection Hn as _ <-. unfold BInv. cbn [b_opened b_emitted b_cur length] in *. split; [|reflexivity]. nia.
Qed.

(** At every moment: the files opened so far exceed those fully accounted for by the examples handed over by at most T. *)
Theorem batch_readahead n : forall s0 s, after batch_source n (batch_init s0) = Some s -> (b_opened s - T) * m <= n.
Proof.
  assert (G : forall n s1 s, BInv s1 -> after batch_source n s1 = Some s -> BInv s /\ b_emitted s = b_emitted s1 + n).
  { clear n. induction n as [|n IH]; intros s1 s H Ha; cbn [after] in Ha; [injection Ha as <-; split; [exact H|lia]|].
    destruct (s_next batch_source s1) as [[y s2]|] eqn:En; [|discriminate]. cbn [s_next batch_source] in En.
    destruct (binv_next s1 y s2 H En) as [H' E']. destruct (IH s2 s H' Ha) as [H'' E'']. split; [exact H''|]. lia. }
  intros s0 s Ha. destruct (G n _ s (binv_init s0) Ha) as [[_ H2] E]. cbn [batch_init b_emitted] in E. lia.
Qed.
End Batch.

(** the unshuffled async reader is the plain chain of shards: one file beyond those used up *)
Theorem chain_readahead (path ex : Type) (psrc : @source path) (read : path -> list ex) (m : nat) :
  1 <= m -> (forall p, m <= length (read p)) ->
  forall n s0 s, after (chain_source path ex psrc read) n (chain_init path ex psrc s0) = Some s -> (c_opened path ex psrc s - 1) * m <= n.
Proof.
  intros Hm Hs n s0 s Ha. destruct (cinv_after path ex psrc read m Hm Hs n _ s (cinv_init path ex psrc m Hm s0) Ha) as [[_ H2] E].
  cbn [chain_init c_emitted] in E. lia.
Qed.

(** *** The lazy machine delivers, over a finite list of paths, exactly what the generated composition [anc] (shuffle = 0) is proved
    to deliver: every example of every shard in list order. *)
Fixpoint drain {A} (src : @source A) (n : nat) (s : s_state src) : list A :=
  match n with 0 => [] | S n => match s_next src s with None => [] | Some (x, s') => x :: drain src n s' end end.

Lemma firstn_skipn_pos {A} (t : nat) (p : A) l : 1 <= t -> firstn t (p :: l) = p :: firstn (t - 1) l /\ skipn t (p :: l) = skipn (t - 1) l.
Proof. intros H. destruct t as [|t]; [lia|]. cbn [firstn skipn Nat.sub]. rewrite Nat.sub_0_r. split; reflexivity. Qed.

Section Finite.
Variables (path ex : Type) (read : path -> list ex) (T : nat).
Hypothesis T_pos : 1 <= T.
Hypothesis shard_ne : forall p, 1 <= length (read p).
Notation bsrc := (batch_source path ex list_source read T).
Notation mk := (Build_bstate path ex list_source).

Lemma take_paths_list k : forall l : list path, take_paths path list_source k l = (firstn k l, skipn k l).
Proof.
  induction k as [|k IH]; intros l; cbn [take_paths]; [reflexivity|]. destruct l as [|p l]; cbn [s_next list_source]; [reflexivity|].
  rewrite IH. reflexivity.
Qed.

Lemma drain_cur cur : forall n src o e, length cur <= n ->
  drain bsrc n (mk src (cur) o (e)) =
  cur ++ drain bsrc (n - length cur) (mk src ([]) o (e + length cur)).
Proof.
  induction cur as [|x t IH]; intros n src o e Hn; cbn [length app].
  - rewrite Nat.sub_0_r, Nat.add_0_r. reflexivity.
  - destruct n as [|n]; [cbn in Hn; lia|]. cbn [drain s_next batch_source batch_next b_cur b_src b_opened b_emitted].
    rewrite IH by (cbn in Hn; lia). cbn [Nat.sub]. replace (S e + length t) with (e + S (length t)) by lia. reflexivity.
Qed.

Lemma drain_finite : forall k (l : list path) n o e, length l <= k -> length (concat (map read l)) < n ->
  drain bsrc n (mk l ([]) o (e)) = concat (map read l).
Proof.
  induction k as [|k IH]; intros l n o e Hk Hn.
  - destruct l; [|cbn in Hk; lia]. destruct n; [cbn in Hn; lia|].
    cbn [drain s_next batch_source batch_next b_cur b_src]. rewrite take_paths_list, firstn_nil. reflexivity.
  - destruct n as [|n]; [lia|]. cbn [drain s_next batch_source batch_next b_cur b_src]. rewrite take_paths_list.
    destruct l as [|p l]; [rewrite firstn_nil; reflexivity|].
    assert (Hsplit : concat (map read (p :: l)) = concat (map read (firstn T (p :: l))) ++ concat (map read (skipn T (p :: l)))).
    { rewrite <- concat_app, <- map_app, firstn_skipn. reflexivity. }
    destruct (firstn_skipn_pos T p l T_pos) as [Ef Es]. rewrite Ef, Es in *. cbn [map concat] in Hsplit |- *.
    pose proof (shard_ne p) as Hp. destruct (read p) as [|x t] eqn:Er; [cbn in Hp; lia|]. cbn [app].
    assert (Hs : t ++ concat (map read l) = (t ++ concat (map read (firstn (T - 1) l))) ++ concat (map read (skipn (T - 1) l))) by (cbn [app] in Hsplit; congruence).
    assert (HL : length (t ++ concat (map read (firstn (T - 1) l))) + length (concat (map read (skipn (T - 1) l))) < n).
    { cbn [map concat] in Hn. rewrite Er in Hn. cbn [app length] in Hn. rewrite Hs, app_length in Hn. lia. }
    clear Hsplit Hn. set (rest := t ++ concat (map read (firstn (T - 1) l))) in *.
    rewrite drain_cur by lia. rewrite IH.
    + rewrite Hs. reflexivity.
    + rewrite skipn_length. cbn in Hk. lia.
    + lia.
Qed.

Theorem batch_machine_is_ordered (l : list path) :
  drain bsrc (S (length (concat (map read l)))) (batch_init path ex list_source l) = concat (map read l).
Proof. apply (drain_finite (length l)); lia. Qed.
End Finite.

Require Import Sedpack.Model.PipeBase Sedpack.Generated.GenPipeline Sedpack.Proofs.PipelineProofs.
(** ... i.e. what the composition [anc] regenerated from as_numpy_iterator_concurrent yields with shuffle = 0 (no process_record here;
    process_and_list only maps over the examples of a shard) *)
Theorem batch_machine_refines_anc (path ex : Type) (read : path -> list ex) (process : ex -> ex) pickA permA pickB pool_perm (T : nat) (l : list path) :
  1 <= T -> (forall p, 1 <= length (read p)) ->
  drain (batch_source path ex list_source read T) (S (length (concat (map read l)))) (batch_init path ex list_source l)
  = anc path ex read process pickA permA pickB pool_perm 0 T false l.
Proof.
  intros HT Hne. rewrite (anc_ordered path ex read process pickA permA pickB pool_perm T false l HT). unfold spec.
  apply batch_machine_is_ordered; assumption.
Qed.
