(** C03 over histories: the shards a session wrote into a split appear, in close order and as one block, in the depth-first
    shard list of that split after the session — and after every later session. *)
Require Import Sedpack.Model.Base Sedpack.Generated.GenMerge Sedpack.Generated.GenFiller Sedpack.Model.Filler Sedpack.Model.Meta.
Require Import Sedpack.Proofs.MergeBasics Sedpack.Proofs.MergeProofs Sedpack.Proofs.FillerProofs Sedpack.Proofs.HistoryProofs Sedpack.Proofs.ReachProofs.
Local Open Scope Z_scope.

(** the document of a linked directory is a contiguous block of the depth-first list *)
Lemma dfs_block f : forall fs li d sd h, exact f fs li = true -> reach fs (li_dir li) d -> lookup d (lists fs) = Some (sd, h) ->
  exists pre post, dfs f fs (li_dir li) = pre ++ sl_files sd ++ post.
Proof.
  induction f as [|f IH]; intros fs li d sd h Hex Hr Hl; [discriminate|].
  cbn [exact] in Hex. cbn [dfs]. destruct (lookup (li_dir li) (lists fs)) as [[s hh]|] eqn:E; [|discriminate].
  destruct (reach_inv fs (li_dir li) d Hr) as [-> | (s' & h' & c & Hl' & Hc & Hr')].
  - rewrite E in Hl. injection Hl as <- _. exists [], (flat_map (fun c => dfs f fs (li_dir c)) (sl_children s)). reflexivity.
  - rewrite E in Hl'. injection Hl' as <- _.
    repeat (apply andb_true_iff in Hex as [Hex ?]). match goal with H : forallb _ (sl_children s) = true |- _ => rewrite forallb_forall in H; specialize (H c Hc); apply andb_true_iff in H as [_ Hc'] end.
    destruct (IH fs c d sd h Hc' Hr' Hl) as (pre & post & Eq).
    apply in_split in Hc as (c1 & c2 & ->). rewrite flat_map_app. cbn [flat_map]. rewrite Eq.
    exists (sl_files s ++ flat_map (fun c0 => dfs f fs (li_dir c0)) c1 ++ pre), (post ++ flat_map (fun c0 => dfs f fs (li_dir c0)) c2).
    rewrite <- !app_assoc. reflexivity.
Qed.

(** the example list of a closed shard once stored *)
Definition stored (bs : nat) (sh : Filler.shard) : list nat := map (Nat.add bs) (sh_ex sh).

Lemma examples_of_grow fs fs' sh : (forall d n v, lookup_shard d n (shards fs) = Some v -> lookup_shard d n (shards fs') = Some v) ->
  lookup_shard (sh_dir sh) (sh_name sh) (shards fs) <> None -> examples_of fs' sh = examples_of fs sh.
Proof.
  intros Hk Hn. unfold examples_of. destruct (lookup_shard (sh_dir sh) (sh_name sh) (shards fs)) as [[ex hs]|] eqn:E; [|congruence].
  rewrite (Hk _ _ _ E). reflexivity.
Qed.

Section Ord.
Variable eps : nat.
Hypothesis Heps : (1 <= eps)%nat.

Lemma split_code_inj a b : split_code a = split_code b -> a = b.
Proof. destruct a, b; cbn; congruence. Qed.

(** what the shard-writing part of a filler session appends to the list of one directory *)
Lemma fold_add_files sub hp bs : forall closes fs, WFunder fs [] -> FreshOK fs -> base fs = bs ->
  Forall (fun c => sh_n (snd c) = length (sh_ex (snd c))) closes ->
  let fs1 := fold_left (fun fs0 c => add_shard fs0 (split_code (fst c) :: sub) (snd c) hp) closes fs in
  forall s, exists ents, sl_files (load_or_create fs1 (split_code s :: sub)) = sl_files (load_or_create fs (split_code s :: sub)) ++ ents /\
    map (examples_of fs1) ents = map (stored bs) (closed_of s closes) /\
    Forall (fun e => lookup_shard (sh_dir e) (sh_name e) (shards fs1) <> None) ents.
Proof.
  induction closes as [|c t IH]; intros fs Hwf Hfr Hb Hsz; cbn [fold_left]; intros s.
  - exists []. rewrite app_nil_r. split; [reflexivity|]. split; [reflexivity | constructor].
  - apply Forall_cons_iff in Hsz as [Hc Ht].
    set (d := split_code (fst c) :: sub). set (fsa := add_shard fs d (snd c) hp).
    assert (W1 : WFunder fsa []) by (apply add_shard_WF; assumption).
    assert (F1 : FreshOK fsa) by (apply add_shard_fresh; assumption).
    assert (B1 : base fsa = bs) by (rewrite <- Hb; reflexivity).
    destruct (IH fsa W1 F1 B1 Ht s) as (ents & Ef & Ee & En). cbv zeta in *.
    set (fs1 := fold_left (fun fs0 c0 => add_shard fs0 (split_code (fst c0) :: sub) (snd c0) hp) t fsa) in *.
    (* later additions keep earlier stored shards *)
    assert (Keep : forall d0 n v, lookup_shard d0 n (shards fsa) = Some v -> lookup_shard d0 n (shards fs1) = Some v).
    { clear -W1 F1 Ht. unfold fs1. revert W1 F1. generalize fsa. induction t as [|c' t' IHt]; intros f0 W F d0 n v E; cbn [fold_left]; [exact E|].
      apply Forall_cons_iff in Ht as [Hc' Ht']. apply IHt; [exact Ht' | apply add_shard_WF; assumption | apply add_shard_fresh; assumption|].
      destruct (add_shard_extends f0 (split_code (fst c') :: sub) (snd c') hp W F) as [_ K]. apply K, E. }
    unfold closed_of. cbn [filter]. destruct (split_eqb (fst c) s) eqn:Es.
    + destruct (split_eqb_spec (fst c) s) as [Ecs|]; [|discriminate]. rewrite <- Ecs in *. fold d in Ef |- *.
      (* the entry appended by this add_shard *)
      assert (Hd : sl_dir (load_or_create fs d) = d).
      { unfold load_or_create. destruct (lookup d (lists fs)) as [[s0 hh]|] eqn:E; [|reflexivity]. apply (Hwf d s0 hh); [reflexivity | exact E]. }
      set (e := {| sh_dir := d; sh_name := fresh fs; sh_num := sh_n (snd c); sh_md := mval hp (sh_meta (snd c)); sh_hash := S (ver fs) |}).
      assert (Hfa : sl_files (load_or_create fsa d) = sl_files (load_or_create fs d) ++ [e]).
      { unfold fsa, add_shard. cbv zeta. unfold load_or_create at 1. rewrite write_list_lists. cbn [sl_dir].
        set (fsx := {| lists := lists fs; shards := _; ver := _; fresh := _; base := _ |}).
        replace (load_or_create fsx d) with (load_or_create fs d) by reflexivity. rewrite Hd, lookup_cons_eq. reflexivity. }
      assert (Hse : lookup_shard d (fresh fs) (shards fsa) = Some (stored (base fs) (snd c), S (ver fs))).
      { unfold fsa. rewrite add_shard_shards. apply lookup_shard_cons_eq. }
      exists (e :: ents). rewrite Ef, Hfa, <- app_assoc. split; [reflexivity|]. cbn [map]. split; [|constructor; [cbn [sh_dir sh_name e]; rewrite (Keep _ _ _ Hse); discriminate | exact En]].
      f_equal; [|exact Ee]. unfold examples_of. cbn [sh_dir sh_name e]. rewrite (Keep _ _ _ Hse). rewrite Hb. reflexivity.
    + (* another directory *)
      assert (Hne : split_code s :: sub <> d).
      { unfold d. intros E. injection E as E. apply split_code_inj in E. subst s. destruct (split_eqb_spec (fst c) (fst c)); [discriminate | congruence]. }
      exists ents. split; [|split; [exact Ee | exact En]]. rewrite Ef. f_equal. f_equal. apply loc_of_lookup. apply add_shard_lists_other; assumption.
Qed.
End Ord.

Section Ord2.
Variable eps : nat.
Hypothesis Heps : (1 <= eps)%nat.

Lemma rewrite_files fs dd d : WFunder fs [] -> sl_files (load_or_create (fst (write_list fs (load_or_create fs dd))) d) = sl_files (load_or_create fs d).
Proof.
  intros Hwf. destruct (dpath_eqb_spec d dd) as [->|Hne].
  - unfold load_or_create at 1. rewrite write_list_lists, (loc_dir fs dd Hwf), lookup_cons_eq. reflexivity.
  - f_equal. apply loc_of_lookup. apply rewrite_lists_other; assumption.
Qed.

Lemma filler_files fs sub ops : WFunder fs [] -> FreshOK fs ->
  let fs1 := fst (filler_session fs sub eps ops) in
  forall s, exists ents, sl_files (load_or_create fs1 (split_code s :: sub)) = sl_files (load_or_create fs (split_code s :: sub)) ++ ents /\
    map (examples_of fs1) ents = map (stored (base fs)) (closed_of s (session_closed eps ops)) /\
    Forall (fun e => lookup_shard (sh_dir e) (sh_name e) (shards fs1) <> None) ents.
Proof.
  intros Hwf Hfr. unfold filler_session. cbv zeta. unfold session_closed.
  set (st := run_ops eps ops). set (closes := f_closed st ++ exit_closes st).
  assert (Hsz : Forall (fun c => sh_n (snd c) = length (sh_ex (snd c))) closes).
  { pose proof (sizes_ok_lemma eps Heps ops) as H. unfold sizes_ok, session_closed in H. fold st in H. fold closes in H.
    rewrite forallb_forall in H. apply Forall_forall. intros c Hc. specialize (H c Hc). unfold size_ok in H.
    apply andb_true_iff in H as [_ H]. apply Nat.eqb_eq in H. exact H. }
  pose proof (fold_add_files sub (f_heap st) (base fs) closes fs Hwf Hfr eq_refl Hsz) as A. cbv zeta in A.
  destruct (fold_add_shards sub (f_heap st) closes fs Hsz Hwf Hfr) as (W1 & F1 & _). cbv zeta in *.
  set (fs1 := fold_left (fun fs0 c => add_shard fs0 (split_code (fst c) :: sub) (snd c) (f_heap st)) closes fs) in *.
  assert (B : forall tl fsa acc, WFunder fsa [] ->
     let r := fold_left (fun (a : fsT * list list_info) (c : nat) => let (fs2, li) := write_list (fst a) (load_or_create (fst a) (c :: sub)) in (fs2, snd a ++ [li])) tl (fsa, acc) in
     (forall d, sl_files (load_or_create (fst r) d) = sl_files (load_or_create fsa d)) /\ shards (fst r) = shards fsa).
  { induction tl as [|c t IH]; intros fsa acc W; cbn [fold_left fst snd]; [split; reflexivity|].
    pose proof (rewrite_WF fsa (c :: sub) W) as W2. pose proof (fun d => rewrite_files fsa (c :: sub) d W) as Fl. pose proof (rewrite_shards fsa (c :: sub)) as Sh.
    destruct (write_list fsa (load_or_create fsa (c :: sub))) as [fs2 li]. cbn [fst] in *. destruct (IH fs2 (acc ++ [li]) W2) as [I1 I2].
    split; [intros d; rewrite I1; apply Fl | rewrite I2; exact Sh]. }
  destruct (B (touched closes []) fs1 [] W1) as [Bf Bs]. cbv zeta in *.
  destruct (fold_left _ (touched closes []) (fs1, [])) as [fs3 ups]. cbn [fst] in *.
  intros s. destruct (A s) as (ents & Ef & Ee & En). exists ents.
  split; [unfold load_or_create at 1; cbn [lists]; change (match lookup (split_code s :: sub) (lists fs3) with Some (s0, _) => s0 | None => empty_list (split_code s :: sub) end) with (load_or_create fs3 (split_code s :: sub)); rewrite Bf; exact Ef|].
  split.
  - rewrite <- Ee. apply map_ext. intros e. unfold examples_of. cbn [shards]. rewrite Bs. reflexivity.
  - eapply Forall_impl; [|exact En]. cbn beta. intros e He. cbn [shards]. rewrite Bs. exact He.
Qed.

Lemma wc_fold_same_files : forall gs fs1 i1 fs' info',
  groups_ok 0 (fun u => (1 <= length (li_dir u))%nat) gs -> WFunder fs1 [] ->
  fold_left WCstep gs (Ok (fs1, i1)) = Ok (fs', info') -> (forall d, sl_files (load_or_create fs' d) = sl_files (load_or_create fs1 d)) /\ shards fs' = shards fs1.
Proof.
  induction gs as [|[k U] gs IH]; intros fs1 i1 fs' info' [Hnd Hall] Hwf Hf; cbn [fold_left] in Hf.
  - injection Hf as <- _. split; reflexivity.
  - unfold WCstep at 2 in Hf. cbn [fst snd] in Hf.
    inversion Hnd as [|x1 y1 Hni Hnd' Ex1]; clear Ex1. inversion Hall as [|x2 y2 [Hne HU] Hall' Ex2]; clear Ex2. cbn [fst snd] in *.
    destruct (merge FUEL U 1%nat fs1) as [[fs2 li]|e] eqn:Em; [|rewrite wc_err in Hf; discriminate].
    destruct U as [|u0 U']; [congruence|].
    assert (Hmem : forall u, List.In u (u0 :: U') -> gkey 0 u = k /\ (1 <= length (li_dir u))%nat) by (rewrite Forall_forall in HU; exact HU).
    destruct (Hmem u0 (or_introl eq_refl)) as [Hk0 Hl0].
    assert (Hp : firstn 1 (li_dir u0) = [k]) by (rewrite firstn1_gkey by exact Hl0; rewrite Hk0; reflexivity).
    assert (Hwf1 : WFunder fs1 (firstn 1 (li_dir u0))) by (eapply WFunder_mono; [|exact Hwf]; reflexivity).
    destruct (merge_spec FUEL (u0 :: U') 1%nat fs1 fs2 li u0 eq_refl (fun u Hu => proj2 (Hmem u Hu)) Hwf1 Em) as (Hd & Hexa & Hsh & Hfoot & Hwf2 & Hfiles).
    cbv zeta in *. rewrite Hp in *.
    assert (W2 : WFunder fs2 []).
    { intros d s0 h0 _ E. destruct (dpath_eqb (firstn 1 d) [k]) eqn:Epk.
      - apply dpath_eqb_eq in Epk. apply (Hwf2 d s0 h0 Epk E).
      - assert (Hnp : ~ prefix [k] d) by (intros HH; unfold prefix in HH; cbn [length] in HH; rewrite HH, dpath_eqb_refl in Epk; discriminate).
        rewrite (Hfoot d Hnp) in E. apply (WFdoc_shards fs1 fs2); [congruence|]. apply (Hwf d s0 h0); [reflexivity | exact E]. }
    destruct (IH fs2 (dset i1 k li) fs' info' (conj Hnd' Hall') W2 Hf) as [I1 I2].
    split; [intros d; rewrite I1; apply Hfiles | rewrite I2; exact Hsh].
Qed.

(** C03 over histories: whatever sessions came before and whatever sessions follow, the shards a filler session closed for a split
    are found, in close order and contiguously, in the depth-first shard list of that split — with exactly the examples written. *)
Theorem session_block_in_order h1 sub ops h2 st1 st2 st3 :
  run_history eps h1 = Ok st1 -> run_session eps st1 (SFiller sub ops) = Ok st2 ->
  run_history eps (h1 ++ SFiller sub ops :: h2) = Ok st3 ->
  forall s, exists pre post, map (examples_of (fst st3)) (dfs FUEL (fst st3) [split_code s]) =
                             pre ++ map (stored (base (fst st1))) (closed_of s (session_closed eps ops)) ++ post.
Proof.
  intros H1 H2 H3 s.
  destruct (history_inv3 eps Heps h1 st1 H1) as (HI1 & _). pose proof HI1 as (Hwf1 & Hfr1 & _).
  (* the session itself *)
  destruct st1 as [fs1 info1]. cbn [fst snd] in *. unfold run_session in H2.
  destruct (filler_files fs1 sub ops Hwf1 Hfr1 s) as (ents & Ef & Ee & En). cbv zeta in *.
  destruct (filler_session_spec eps Heps fs1 sub ops Hwf1 Hfr1) as (Wa & Fa & tl & Hd & _). cbv zeta in *.
  destruct (filler_session fs1 sub eps ops) as [fsa ups] eqn:Efs. cbn [fst snd] in *.
  destruct (gkeys_of_dirs sub ups tl Hd) as [_ Lu].
  assert (Hst2 : (forall d, sl_files (load_or_create (fst st2) d) = sl_files (load_or_create fsa d)) /\ shards (fst st2) = shards fsa).
  { destruct ups as [|u0 ups']; [injection H2 as <-; split; reflexivity|].
    destruct st2 as [fs2 info2]. unfold write_config, group_split in H2. fold WCstep in H2. cbn [fst].
    apply (wc_fold_same_files (group_by 0 (u0 :: ups')) fsa info1 fs2 info2); [apply group_by_ok; apply Forall_forall; exact Lu | exact Wa | exact H2]. }
  destruct Hst2 as [Hf2 Hs2].
  (* the later sessions *)
  assert (Hrun2 : run_history eps (h1 ++ [SFiller sub ops]) = Ok st2).
  { unfold run_history in *. rewrite fold_left_app, H1. cbn [fold_left]. unfold run_session. rewrite Efs. exact H2. }
  assert (H3' : run_history eps ((h1 ++ [SFiller sub ops]) ++ h2) = Ok st3) by (rewrite <- app_assoc; exact H3).
  destruct (history_appends_only eps Heps _ _ _ _ Hrun2 H3') as [X1 X2].
  destruct (X1 (split_code s :: sub)) as [ext Eext].
  destruct (history_inv3 eps Heps _ st3 H3') as ((Hwf3 & Hfr3 & Hex3) & Hlk3 & _ & Hinfo3).
  destruct st3 as [fs3 info3]. cbn [fst snd] in *.
  (* the entries still resolve to the same examples *)
  assert (Hents : map (examples_of fs3) ents = map (stored (base fs1)) (closed_of s (session_closed eps ops))).
  { rewrite <- Ee. apply map_ext_in. intros e He. rewrite Forall_forall in En. specialize (En e He).
    apply examples_of_grow; [|exact En]. intros d n v E. apply X2. rewrite Hs2. exact E. }
  destruct ents as [|e0 ents'].
  - (* nothing was closed for this split *)
    cbn [map] in Hents. rewrite <- Hents. exists (map (examples_of fs3) (dfs FUEL fs3 [split_code s])), []. rewrite app_nil_r. reflexivity.
  - assert (Hfiles3 : sl_files (load_or_create fs3 (split_code s :: sub)) = (sl_files (load_or_create fs1 (split_code s :: sub)) ++ (e0 :: ents')) ++ ext) by (rewrite Eext, Hf2, Ef; reflexivity).
    unfold load_or_create at 1 in Hfiles3. destruct (lookup (split_code s :: sub) (lists fs3)) as [[sd hh]|] eqn:El; [|cbn in Hfiles3; destruct (sl_files (load_or_create fs1 (split_code s :: sub))); discriminate].
    assert (Hne : lookup (split_code s :: sub) (lists fs3) <> None) by (rewrite El; discriminate).
    destruct (dget info3 (split_code s)) as [li|] eqn:Eg; [|exfalso; apply (Hinfo3 _ _ Hne); exact Eg].
    destruct (Hex3 _ li Eg (fun f => f)) as [Hdir Hexa].
    destruct (dfs_block FUEL fs3 li (split_code s :: sub) sd hh Hexa) as (pre & post & Eb); [rewrite Hdir; apply (Hlk3 _ _ sd hh El); intros [] | exact El|].
    rewrite Hdir in Eb. rewrite Eb, Hfiles3, !map_app, Hents.
    exists (map (examples_of fs3) pre ++ map (examples_of fs3) (sl_files (load_or_create fs1 (split_code s :: sub)))), (map (examples_of fs3) ext ++ map (examples_of fs3) post).
    rewrite <- !app_assoc. reflexivity.
Qed.
End Ord2.

(** ** the same for every writer of a multi-writer call *)
Section Ord3.
Variable eps : nat.
Hypothesis Heps : (1 <= eps)%nat.

Definition mstep := fun (acc : fsT * list list_info * nat) (ops : list wop) =>
  let '(fsx, usx, kx) := acc in let (fsy, u) := filler_session fsx [kx] eps ops in (fsy, usx ++ u, S kx).

Lemma filler_base fs sub ops : base (fst (filler_session fs sub eps ops)) = (base fs + 100)%nat.
Proof.
  unfold filler_session. cbv zeta. set (st := run_ops eps ops). set (closes := f_closed st ++ exit_closes st).
  assert (A : forall cl fsa, base (fold_left (fun fs0 c => add_shard fs0 (split_code (fst c) :: sub) (snd c) (f_heap st)) cl fsa) = base fsa).
  { induction cl as [|c t IH]; intros fsa; cbn [fold_left]; [reflexivity|]. rewrite IH. reflexivity. }
  assert (B : forall tl fsa acc, base (fst (fold_left (fun (a : fsT * list list_info) (c : nat) => let (fs2, li) := write_list (fst a) (load_or_create (fst a) (c :: sub)) in (fs2, snd a ++ [li])) tl (fsa, acc))) = base fsa).
  { induction tl as [|c t IH]; intros fsa acc; cbn [fold_left fst snd]; [reflexivity|].
    assert (E : base (fst (write_list fsa (load_or_create fsa (c :: sub)))) = base fsa) by reflexivity.
    destruct (write_list fsa (load_or_create fsa (c :: sub))) as [fs2 li]. cbn [fst] in *. rewrite IH. exact E. }
  specialize (B (touched closes []) (fold_left (fun fs0 c => add_shard fs0 (split_code (fst c) :: sub) (snd c) (f_heap st)) closes fs) []).
  destruct (fold_left _ (touched closes []) (_, [])) as [fs3 ups]. cbn [fst base] in *. rewrite B, A. reflexivity.
Qed.

(** the state of the call after its first [j] writers *)
Lemma multi_prefix : forall ws fsa us k, WFunder fsa [] -> FreshOK fsa ->
  let r := fold_left mstep ws (fsa, us, k) in
  WFunder (fst (fst r)) [] /\ FreshOK (fst (fst r)) /\ base (fst (fst r)) = (base fsa + 100 * length ws)%nat /\ snd r = (k + length ws)%nat /\ Extends fsa (fst (fst r)).
Proof.
  induction ws as [|ops t IH]; intros fsa us k W F; cbn [fold_left].
  - cbn [fst snd length]. split; [exact W|]. split; [exact F|]. split; [lia|]. split; [lia | apply Extends_refl].
  - change (mstep (fsa, us, k) ops) with (let (fsy, u) := filler_session fsa [k] eps ops in (fsy, us ++ u, S k)).
    destruct (filler_session_spec eps Heps fsa [k] ops W F) as (W1 & F1 & _). cbv zeta in *.
    pose proof (filler_base fsa [k] ops) as B1. pose proof (filler_session_extends eps Heps fsa [k] ops W F) as E1.
    destruct (filler_session fsa [k] eps ops) as [fsb u1]. cbn [fst snd] in *.
    destruct (IH fsb (us ++ u1) (S k) W1 F1) as (W2 & F2 & B2 & K2 & E2). cbv zeta in *.
    split; [exact W2|]. split; [exact F2|]. split; [rewrite B2, B1; cbn [length]; lia|]. split; [rewrite K2; cbn [length]; lia|].
    eapply Extends_trans; eassumption.
Qed.

Theorem multi_block_in_order h1 writers h2 st1 st3 :
  run_history eps h1 = Ok st1 -> run_history eps (h1 ++ SMulti writers :: h2) = Ok st3 ->
  forall j ops, nth_error writers j = Some ops ->
  forall s, exists pre post, map (examples_of (fst st3)) (dfs FUEL (fst st3) [split_code s]) =
                             pre ++ map (stored (base (fst st1) + 100 * j)) (closed_of s (session_closed eps ops)) ++ post.
Proof.
  intros H1 H3 j ops Hj s.
  destruct (history_inv3 eps Heps h1 st1 H1) as (HI1 & _). pose proof HI1 as (Hwf1 & Hfr1 & _).
  destruct st1 as [fs1 info1]. cbn [fst snd] in *.
  (* split the writers around the j-th *)
  destruct (nth_error_split writers j Hj) as (w1 & w2 & Ew & Hl1). subst writers.
  set (fsm := {| lists := lists fs1; shards := shards fs1; ver := ver fs1; fresh := (fresh fs1 + length (w1 ++ ops :: w2))%nat; base := base fs1 |}).
  assert (Wm : WFunder fsm []) by (intros d s0 h0 Hp E; apply (WFdoc_shards fs1 fsm); [reflexivity | exact (Hwf1 d s0 h0 Hp E)]).
  assert (Fm : FreshOK fsm) by (intros d n v E; cbn [fresh fsm]; pose proof (Hfr1 d n v E); lia).
  (* the session as a whole *)
  assert (Hsplit : run_history eps ((h1 ++ [SMulti (w1 ++ ops :: w2)]) ++ h2) = Ok st3) by (rewrite <- app_assoc; exact H3).
  unfold run_history in Hsplit. rewrite fold_left_app in Hsplit.
  destruct (fold_left (fun acc s0 => match acc with Err e => Err e | Ok st0 => run_session eps st0 s0 end) (h1 ++ [SMulti (w1 ++ ops :: w2)]) (Ok (fs0, []))) as [st2|e] eqn:E2.
  2:{ exfalso. clear -Hsplit. induction h2 as [|x t IHt]; cbn [fold_left] in Hsplit; [discriminate | auto]. }
  assert (Hrun2 : run_history eps (h1 ++ [SMulti (w1 ++ ops :: w2)]) = Ok st2) by exact E2.
  assert (H3' : run_history eps ((h1 ++ [SMulti (w1 ++ ops :: w2)]) ++ h2) = Ok st3) by (rewrite <- app_assoc; exact H3).
  destruct (history_appends_only eps Heps _ _ _ _ Hrun2 H3') as [X1 X2].
  (* inside the call *)
  rewrite fold_left_app in E2. unfold run_history in H1. rewrite H1 in E2. cbn [fold_left] in E2. unfold run_session in E2. fold mstep in E2. fold fsm in E2.
  rewrite fold_left_app in E2. cbn [fold_left] in E2.
  destruct (multi_prefix w1 fsm [] (fresh fs1) Wm Fm) as (Wj & Fj & Bj & Kj & _). cbv zeta in *.
  destruct (fold_left mstep w1 (fsm, [], fresh fs1)) as [[fsj usj] kj] eqn:Ej. cbn [fst snd] in *.
  change (mstep (fsj, usj, kj) ops) with (let (fsy, u) := filler_session fsj [kj] eps ops in (fsy, usj ++ u, S kj)) in E2.
  destruct (filler_files eps Heps fsj [kj] ops Wj Fj s) as (ents & Ef & Ee & En). cbv zeta in *.
  destruct (filler_session_spec eps Heps fsj [kj] ops Wj Fj) as (Wa & Fa & _). cbv zeta in *.
  destruct (filler_session fsj [kj] eps ops) as [fsa ua] eqn:Efs. cbn [fst snd] in *.
  destruct (multi_prefix w2 fsa (usj ++ ua) (S kj) Wa Fa) as (Wb & Fb & _ & _ & [Eb1 Eb2]). cbv zeta in *.
  (* all updates have directories of length two *)
  assert (Hphase := multi_phase eps Heps (w1 ++ ops :: w2) fsm (fresh fs1) Wm Fm). cbv zeta in Hphase. fold mstep in Hphase.
  rewrite fold_left_app in Hphase. cbn [fold_left] in Hphase. rewrite Ej in Hphase.
  change (mstep (fsj, usj, kj) ops) with (let (fsy, u) := filler_session fsj [kj] eps ops in (fsy, usj ++ u, S kj)) in Hphase. rewrite Efs in Hphase.
  destruct (fold_left mstep w2 (fsa, usj ++ ua, S kj)) as [[fsb ups] kb] eqn:Eb. cbn [fst snd] in *.
  destruct Hphase as (Wb' & _ & _ & _ & Lu & _).
  assert (Hst2 : (forall d, sl_files (load_or_create (fst st2) d) = sl_files (load_or_create fsb d)) /\ shards (fst st2) = shards fsb).
  { destruct ups as [|u0 ups']; [injection E2 as <-; split; reflexivity|].
    destruct st2 as [fs2 info2]. unfold write_config, group_split in E2. fold WCstep in E2. cbn [fst].
    apply (wc_fold_same_files (group_by 0 (u0 :: ups')) fsb info1 fs2 info2); [apply group_by_ok; apply Forall_forall; exact Lu | exact Wb | exact E2]. }
  destruct Hst2 as [Hf2 Hs2].
  set (d := split_code s :: [kj]) in *.
  destruct (Eb1 d) as [extb Eextb]. destruct (X1 d) as [ext Eext].
  destruct (history_inv3 eps Heps _ st3 H3') as ((Hwf3 & Hfr3 & Hex3) & Hlk3 & _ & Hinfo3).
  destruct st3 as [fs3 info3]. cbn [fst snd] in *.
  assert (Hents : map (examples_of fs3) ents = map (stored (base fs1 + 100 * j)) (closed_of s (session_closed eps ops))).
  { rewrite <- Hl1. replace (base fs1 + 100 * length w1)%nat with (base fsj) by (rewrite Bj; reflexivity).
    rewrite <- Ee. apply map_ext_in. intros e He. rewrite Forall_forall in En. specialize (En e He).
    apply examples_of_grow; [|exact En]. intros d0 n v E. apply X2. rewrite Hs2. apply Eb2. exact E. }
  destruct ents as [|e0 ents'].
  - cbn [map] in Hents. rewrite <- Hents. exists (map (examples_of fs3) (dfs FUEL fs3 [split_code s])), []. rewrite app_nil_r. reflexivity.
  - assert (Hfiles3 : sl_files (load_or_create fs3 d) = ((sl_files (load_or_create fsj d) ++ (e0 :: ents')) ++ extb) ++ ext) by (rewrite Eext, Hf2, Eextb, Ef; reflexivity).
    unfold load_or_create at 1 in Hfiles3. destruct (lookup d (lists fs3)) as [[sd hh]|] eqn:El; [|cbn in Hfiles3; destruct (sl_files (load_or_create fsj d)); discriminate].
    assert (Hne : lookup d (lists fs3) <> None) by (rewrite El; discriminate).
    destruct (dget info3 (split_code s)) as [li|] eqn:Eg; [|exfalso; apply (Hinfo3 _ _ Hne); exact Eg].
    destruct (Hex3 _ li Eg (fun f => f)) as [Hdir Hexa].
    destruct (dfs_block FUEL fs3 li d sd hh Hexa) as (pre & post & Ebk); [rewrite Hdir; apply (Hlk3 _ _ sd hh El); intros [] | exact El|].
    rewrite Hdir in Ebk. rewrite Ebk, Hfiles3, !map_app, Hents.
    exists (map (examples_of fs3) pre ++ map (examples_of fs3) (sl_files (load_or_create fsj d))), (map (examples_of fs3) extb ++ map (examples_of fs3) ext ++ map (examples_of fs3) post).
    rewrite <- !app_assoc. reflexivity.
Qed.
End Ord3.
