(** M4: [LazyPool.imap_unordered] with its [Collector] threads as a small-step transition system at
    queue-operation granularity (lazy_pool.py).

    Threads: the consumer (the generator body plus [finish_and_reset]) and [T] workers.
    A schedule is a list of thread choices; [step s t = None] means thread [t] is blocked (or
    finished) in state [s].  The prefill bound, the number of sentinels of a reset and what a
    worker does when the mapped function raises are generated from the source. *)
Require Import Sedpack.Model.Base Sedpack.Generated.GenLazyPool.

Section LP.
Variables A B : Type.
Variable f : A -> option B.          (* [None]: the mapped function raises *)
Variable T : nat.                     (* number of worker threads, [max(1, threads)] *)

Inductive item := In (a : A) | Stop.
Inductive res := Out (b : B) | Exc | StopR.
Inductive wst := Idle | Busy (a : A) | Stopping | Done | Dead.
(** Final states of the consumer. *)
Inductive fin := Finished | Raised | Abandoned.
(** Consumer program counter.  [Reset k e]: inside [finish_and_reset], [k] sentinels still to put. *)
Inductive cpc := Prefill (i : nat) | Get | Put (b : B) | Reset (k : nat) (e : fin) | Final (e : fin).

Record st := mk {
  src : list A;          (* inputs not yet taken from the iterable *)
  tp : list item;        (* queue to_process, head = oldest *)
  rs : list res;         (* queue results *)
  wk : list wst;
  pc : cpc;
  active : nat;          (* _active_threads *)
  out : list B           (* yielded so far *)
}.

Definition next_item (s : list A) : item * list A :=
  match s with a :: s' => (In a, s') | [] => (Stop, []) end.

(** The consumer continues. *)
Definition cstep (s : st) : option st :=
  match pc s with
  | Prefill i =>
      let (x, s') := next_item (src s) in
      Some (mk s' (tp s ++ [x]) (rs s) (wk s)
               (if prefill_break i T then Get else Prefill (S i)) (active s) (out s))
  | Get =>
      match rs s with
      | [] => None
      | StopR :: r' =>
          let a' := active s - 1 in
          Some (mk (src s) (tp s) r' (wk s) (if a' =? 0 then Reset (reset_sentinels T) Finished else Get) a' (out s))
      | Out b :: r' => Some (mk (src s) (tp s) r' (wk s) (Put b) (active s) (out s))
      | Exc :: r' => Some (mk (src s) (tp s) r' (wk s) (Reset (reset_sentinels T) Raised) 0 (out s))
      end
  | Put b =>
      let (x, s') := next_item (src s) in
      Some (mk s' (tp s ++ [x]) (rs s) (wk s) Get (active s) (out s ++ [b]))
  | Reset (S k) e => Some (mk (src s) (tp s ++ [Stop]) (rs s) (wk s) (Reset k e) 0 (out s))
  | Reset 0 e => Some (mk (src s) (tp s) (rs s) (wk s) (Final e) 0 (out s))
  | Final _ => None
  end.

(** The consumer stops pulling (it is suspended at the [yield], i.e. at [Get]) and leaves the
    pool's context: [__exit__] runs [finish_and_reset]. *)
Definition astep (s : st) : option st :=
  match pc s with
  | Get => Some (mk (src s) (tp s) (rs s) (wk s) (Reset (reset_sentinels T) Abandoned) 0 (out s))
  | _ => None
  end.

Fixpoint upd (l : list wst) (w : nat) (x : wst) : list wst :=
  match l, w with
  | [], _ => []
  | _ :: t, O => x :: t
  | h :: t, S w' => h :: upd t w' x
  end.

Definition wstep (s : st) (w : nat) : option st :=
  match nth_error (wk s) w with
  | None => None
  | Some Idle =>
      match tp s with
      | [] => None
      | In a :: t' => Some (mk (src s) t' (rs s) (upd (wk s) w (Busy a)) (pc s) (active s) (out s))
      | Stop :: t' => Some (mk (src s) t' (rs s) (upd (wk s) w Stopping) (pc s) (active s) (out s))
      end
  | Some (Busy a) =>
      match f a with
      | Some b => Some (mk (src s) (tp s) (rs s ++ [Out b]) (upd (wk s) w Idle) (pc s) (active s) (out s))
      | None =>
          match worker_on_exception with
          | Forward => Some (mk (src s) (tp s) (rs s ++ [Exc]) (upd (wk s) w Dead) (pc s) (active s) (out s))
          | Die => Some (mk (src s) (tp s) (rs s) (upd (wk s) w Dead) (pc s) (active s) (out s))
          end
      end
  | Some Stopping => Some (mk (src s) (tp s) (rs s ++ [StopR]) (upd (wk s) w Done) (pc s) (active s) (out s))
  | Some Done => None
  | Some Dead => None
  end.

(** Thread ids: 0 = consumer continues, 1 = consumer abandons, [S (S w)] = worker [w]. *)
Definition step (s : st) (t : nat) : option st :=
  match t with O => cstep s | 1 => astep s | S (S w) => wstep s w end.

Definition init (xs : list A) : st := mk xs [] [] (repeat Idle T) (Prefill 0) T [].

(** Run a schedule; blocked choices stutter. *)
Fixpoint run (s : st) (sched : list nat) : st :=
  match sched with
  | [] => s
  | t :: rest => match step s t with Some s' => run s' rest | None => run s rest end
  end.

Inductive reach (xs : list A) : st -> Prop :=
| r0 : reach xs (init xs)
| rS s t s' : reach xs s -> step s t = Some s' -> reach xs s'.

(** Results the mapped function produces on a list of inputs (failing inputs produce nothing). *)
Definition fs (l : list A) : list B := flat_map (fun a => match f a with Some b => [b] | None => [] end) l.

Definition is_final (s : st) : bool := match pc s with Final _ => true | _ => false end.
Definition worker_live (x : wst) : bool := match x with Done | Dead => false | _ => true end.
Definition all_workers_ended (s : st) : bool := forallb (fun x => negb (worker_live x)) (wk s).
Definition quiescent (s : st) : bool := is_final s && all_workers_ended s.

(** Some thread can move. *)
Definition enabled (s : st) : bool :=
  existsb (fun t => match step s t with Some _ => true | None => false end) (seq 0 (S (S (length (wk s))))).
End LP.

Arguments In {A}. Arguments Stop {A}. Arguments Out {B}. Arguments Exc {B}. Arguments StopR {B}.
Arguments Idle {A}. Arguments Busy {A}. Arguments Stopping {A}. Arguments Done {A}. Arguments Dead {A}.
Arguments Prefill {B}. Arguments Get {B}. Arguments Put {B}. Arguments Reset {B}. Arguments Final {B}.
Arguments src {A B}. Arguments tp {A B}. Arguments rs {A B}. Arguments wk {A B}. Arguments pc {A B}.
Arguments active {A B}. Arguments out {A B}. Arguments mk {A B}. Arguments upd {A}.
Arguments is_final {A B}. Arguments all_workers_ended {A B}. Arguments quiescent {A B}.
