"""C01: write presented values, dump what is stored, read back through every interface.
stdin: {"jobs":[{"format","compression","attrs":[{"name","dtype","shape"}],"eps":n,
                 "examples":[[{"pres":kind,"bits":[ints in logical C order] | "hex": "...", "src": dtype}...]...], "readers":[...]}]}
Fixed-width values travel as bit patterns (unsigned ints of the element width); bytes/str values as hex of the bytes / utf-8.
result per job: {"stored": [[hex per attribute] per example] (fb only), "read": {reader: [[{"dtype","shape","hex"}...]...] | {"error":..}}, "write_error":..}
"""
import asyncio
import json
import shutil
import sys
import tempfile
from pathlib import Path

import numpy as np

from sedpack.io import Dataset, Metadata, DatasetStructure, Attribute


def present(a, p):
    """Build the Python object handed to write_example and return (object, logical array in the source dtype or None)."""
    dt = a["dtype"]
    if dt == "bytes":
        return bytes.fromhex(p["hex"]), None
    if dt == "str":
        return bytes.fromhex(p["hex"]).decode("utf-8"), None
    src = np.dtype(p.get("src", dt))
    shape = tuple(a["shape"])
    base = np.array(p["bits"], dtype=f"u{src.itemsize}").view(src).reshape(shape)
    k = p["pres"]
    if not shape and k in ("F", "strided", "reversed", "transposed"):
        k = "C"       # a 0-d array has one layout (np.asfortranarray would make it 1-d)
    if k == "C":
        v = base
    elif k == "F":
        v = np.asfortranarray(base)
    elif k == "strided":
        big = np.zeros(tuple(2 * d for d in shape) if shape else (), dtype=src)
        sl = tuple(slice(None, None, 2) for _ in shape)
        big[sl] = base
        v = big[sl]
    elif k == "reversed":
        sl = tuple(slice(None, None, -1) for _ in shape)
        v = np.ascontiguousarray(base[sl])[sl]
    elif k == "transposed":
        v = np.ascontiguousarray(base.T).T
    elif k == "be":
        v = base.astype(src.newbyteorder(">"))
    elif k == "scalar":
        v = base[()]
    elif k == "list":
        v = base.tolist()
    elif k == "readonly":
        v = base.copy()
        v.setflags(write=False)
    elif k == "mutated":
        v = base.copy()
    else:
        raise ValueError(k)
    return v, base


def dump(v):
    if isinstance(v, (bytes, np.bytes_)):
        return {"dtype": "bytes", "shape": [], "hex": bytes(v).hex()}
    if isinstance(v, str):
        return {"dtype": "pystr", "shape": [], "hex": v.encode("utf-8").hex()}
    if hasattr(v, "numpy"):
        v = v.numpy()
        if isinstance(v, bytes):
            return {"dtype": "bytes", "shape": [], "hex": v.hex()}
    v = np.asarray(v)
    if v.dtype.kind == "O":
        x = v.item() if v.shape == () else None
        if isinstance(x, bytes):
            return {"dtype": "bytes", "shape": [], "hex": x.hex()}
        if isinstance(x, str):
            return {"dtype": "pystr", "shape": [], "hex": x.encode("utf-8").hex()}
        return {"dtype": "object", "shape": list(v.shape), "hex": ""}
    if v.dtype.kind == "S":
        return {"dtype": "npS", "shape": list(v.shape), "hex": v.item().hex() if v.shape == () else v.tobytes().hex(), "itemsize": v.dtype.itemsize}
    if v.dtype.kind == "U":
        return {"dtype": "npU", "shape": list(v.shape), "hex": str(v.item()).encode("utf-8").hex() if v.shape == () else ""}
    le = v.astype(v.dtype.newbyteorder("<"), copy=False)
    return {"dtype": v.dtype.name, "shape": list(v.shape), "hex": np.ascontiguousarray(le).tobytes().hex(), "byteorder": v.dtype.byteorder}


def stored_fb(ds, root):
    """Attribute bytes as they lie in the .fb files, in shard-list order."""
    from sedpack.io.compress import CompressedFile
    from sedpack.io.flatbuffer.shardfile import Shard as FbShard
    out = []
    for sh in ds.shard_info_iterator("train"):
        raw = CompressedFile(ds.dataset_structure.compression).decompress((root / sh.file_infos[0].file_path).read_bytes())
        shard = FbShard.Shard.GetRootAs(raw, 0)
        for ei in range(shard.ExamplesLength()):
            ex = shard.Examples(ei)
            out.append([bytes(ex.Attributes(ai).AttributeBytesAsNumpy()).hex() for ai in range(ex.AttributesLength())])
    return out


def read_with(ds, reader, names):
    kw = dict(split="train", repeat=False, shuffle=0)
    if reader.endswith("_shuffled"):
        kw["shuffle"] = 100
    if reader == "sync":
        it = ds.as_numpy_iterator(**kw)
    elif reader == "concurrent":
        it = ds.as_numpy_iterator_concurrent(file_parallelism=1, **kw)
    elif reader == "rust":
        it = ds.as_numpy_iterator_rust(file_parallelism=1, **kw)
    elif reader == "tf":
        it = ds.as_tfdataset(batch_size=0, file_parallelism=1, parallelism=1, prefetch=1, **kw)
    elif reader == "async":
        async def go():
            return [e async for e in ds.as_numpy_iterator_async(file_parallelism=1, **kw)]
        it = asyncio.run(go())
    elif reader == "concurrent_shuffled":
        it = ds.as_numpy_iterator_concurrent(file_parallelism=3, **kw)
    elif reader == "async_shuffled":
        async def go2():
            return [e async for e in ds.as_numpy_iterator_async(file_parallelism=3, **kw)]
        it = asyncio.run(go2())
    elif reader == "sync_shuffled":
        it = ds.as_numpy_iterator(**kw)
    else:
        raise ValueError(reader)
    # a consumer may keep every example it was handed (list(it), look-ahead, manual batching): all examples are collected first
    # and only then looked at, so a reader that hands out one reused object or buffer is seen
    held = list(it)
    return [[dump(e[n]) for n in names] for e in held]


def run_job(job):
    tmp = Path(tempfile.mkdtemp(prefix="verif_rt_"))
    try:
        attrs = job["attrs"]
        names = [a["name"] for a in attrs]
        ds = Dataset.create(path=tmp / "d", metadata=Metadata(description="rt"), dataset_structure=DatasetStructure(
            saved_data_description=[Attribute(name=a["name"], dtype=a.get("declared", a["dtype"]), shape=tuple(a["shape"])) for a in attrs],
            shard_file_type=job["format"], compression=job["compression"], examples_per_shard=job.get("eps", 3)))
        res = {"write_error": None, "stored": None, "read": {}, "presented": []}
        try:
            with ds.filler() as f:
                for ex in job["examples"]:
                    vals, mut = {}, []
                    for a, p in zip(attrs, ex):
                        v, base = present(a, p)
                        vals[a["name"]] = v
                        if p["pres"] == "mutated":
                            mut.append(v)
                    res["presented"].append([None if isinstance(vals[n], (bytes, str)) else
                                             {"dtype": np.asarray(vals[n]).dtype.str, "strides": list(np.asarray(vals[n]).strides), "c_contiguous": bool(np.asarray(vals[n]).flags.c_contiguous)}
                                             for n in names])
                    f.write_example(values=vals, split="train")
                    for v in mut:       # the caller reuses its buffer after the write
                        v[...] = np.zeros((), v.dtype) if v.dtype.kind != "f" else np.array(1.5, v.dtype)
        except Exception as ex_:  # noqa: BLE001
            res["write_error"] = f"{type(ex_).__name__}: {str(ex_)[:200]}"
            return res
        fresh = Dataset(tmp / "d")
        if job["format"] == "fb":
            try:
                res["stored"] = stored_fb(fresh, tmp / "d")
            except Exception as ex_:  # noqa: BLE001
                res["stored"] = {"error": f"{type(ex_).__name__}: {str(ex_)[:200]}"}
        if job.get("companion"):
            # a second dataset with an equally named attribute of another dtype, read through the Rust interface at the same time:
            # the main dataset's iterator is created first, the companion's second, and they are pulled alternately
            c = job["companion"]
            cds = Dataset.create(path=tmp / "c", metadata=Metadata(description="rt2"), dataset_structure=DatasetStructure(
                saved_data_description=[Attribute(name=a["name"], dtype=a["dtype"], shape=tuple(a["shape"])) for a in c["attrs"]],
                shard_file_type="fb", compression=job["compression"], examples_per_shard=2))
            with cds.filler() as f:
                for ex in c["examples"]:
                    f.write_example(values={a["name"]: present(a, p)[0] for a, p in zip(c["attrs"], ex)}, split="train")
            try:
                it1 = iter(Dataset(tmp / "d").as_numpy_iterator_rust(split="train", repeat=False, shuffle=0, file_parallelism=1))
                it2 = iter(Dataset(tmp / "c").as_numpy_iterator_rust(split="train", repeat=False, shuffle=0, file_parallelism=1))
                held, other = [], []
                done1 = done2 = False
                while not (done1 and done2):
                    if not done1:
                        try:
                            held.append(next(it1))
                        except StopIteration:
                            done1 = True
                    if not done2:
                        try:
                            other.append(next(it2))
                        except StopIteration:
                            done2 = True
                res["read"]["rust_interleaved"] = [[dump(e[n]) for n in names] for e in held]
            except BaseException as ex_:  # noqa: BLE001
                res["read"]["rust_interleaved"] = {"error": f"{type(ex_).__name__}: {str(ex_)[:200]}"}
        for r in job["readers"]:
            if r == "rust_interleaved":
                continue
            if r == "rust":
                from sedpack import _sedpack_rs
                if job["compression"] not in _sedpack_rs.RustIter.supported_compressions():
                    res["read"][r] = {"unsupported": "compression not offered by the Rust reader"}
                    continue
            try:
                res["read"][r] = read_with(Dataset(tmp / "d"), r, names)
            except BaseException as ex_:  # noqa: BLE001  (a Rust panic surfaces as pyo3's PanicException, a BaseException)
                res["read"][r] = {"error": f"{type(ex_).__name__}: {str(ex_)[:200]}"}
        return res
    finally:
        shutil.rmtree(tmp, ignore_errors=True)


def cast_table():
    ints = ["uint8", "int8", "uint16", "int16", "uint32", "int32", "uint64", "int64"]
    return {"ints": ints, "safe": [[bool(np.can_cast(np.dtype(a), np.dtype(b), casting="safe")) for b in ints] for a in ints]}


def main():
    req = json.load(sys.stdin)
    out = {"jobs": [run_job(j) for j in req.get("jobs", [])]}
    if req.get("cast_table"):
        out["cast_table"] = cast_table()
    print("@@RESULT@@" + json.dumps(out))


if __name__ == "__main__":
    main()
