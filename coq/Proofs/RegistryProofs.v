Require Import Sedpack.Model.Base Sedpack.Generated.GenRegistry Sedpack.Model.Registry.

Lemma upd_same {A} (f : nat -> A) i v : upd f i v i = v.
Proof. unfold upd. rewrite Nat.eqb_refl. reflexivity. Qed.
Lemma upd_other {A} (f : nat -> A) i j v : j <> i -> upd f i v j = f j.
Proof. intros H. unfold upd. destruct (Nat.eqb_spec j i); [contradiction|reflexivity]. Qed.

Lemma skipn_cons_nth {A} (l : list A) k e r : skipn k l = e :: r -> skipn (S k) l = r /\ firstn (S k) l = firstn k l ++ [e] /\ S k <= length l.
Proof.
  revert k; induction l as [|a l IH]; intros k H.
  - destruct k; discriminate.
  - destruct k as [|k].
    + cbn in H. injection H as -> ->. cbn. repeat split; lia.
    + cbn [skipn] in H. destruct (IH k H) as (H1 & H2 & H3). repeat split.
      * exact H1.
      * rewrite !firstn_cons, H2. reflexivity.
      * cbn. lia.
Qed.
Lemma skipn_nil_all {A} (l : list A) k : skipn k l = [] -> firstn k l = l.
Proof. intros H. pose proof (firstn_skipn k l) as E. rewrite H, app_nil_r in E. exact E. Qed.

Lemma cycles_nth {A} (l : list A) (ns : list nat) : forall k m e,
  nth_error (concat (map (fun _ => l) ns) ++ firstn k l) m = Some e -> nth_error l (m mod length l) = Some e.
Proof.
  induction ns as [|a ns IH]; intros k m e H; cbn [map concat] in H.
  - cbn [app] in H. assert (Hm : m < length (firstn k l)) by (apply nth_error_Some; congruence).
    rewrite firstn_length in Hm. rewrite Nat.mod_small by lia.
    rewrite <- (firstn_skipn k l) at 1. rewrite nth_error_app1 by (rewrite firstn_length; lia). exact H.
  - rewrite <- app_assoc in H. destruct (Nat.lt_ge_cases m (length l)) as [Hlt|Hge].
    + rewrite nth_error_app1 in H by exact Hlt. rewrite Nat.mod_small by exact Hlt. exact H.
    + rewrite nth_error_app2 in H by exact Hge. specialize (IH k _ e H).
      assert (Hl : length l <> 0) by (destruct l; [destruct ((m - length (@nil A)) mod length (@nil A)); discriminate IH|discriminate]).
      replace m with ((m - length l) + 1 * length l) by lia. rewrite Nat.mod_add by exact Hl. exact IH.
Qed.

Lemma another_pass_id r : another_pass r = r.
Proof. reflexivity. Qed.

Section P.
Context {ex : Type}.
Variable idgen : nat -> nat.
Hypothesis idgen_inj : forall a b, idgen a = idgen b -> a = b.

Notation world := (@world ex). Notation gen := (@gen ex).

Definition played (g : gen) (n : nat) : list ex := concat (map (g_pass g) (seq 0 n)).
Lemma played_S (g : gen) n : played g (S n) = played g n ++ g_pass g n.
Proof. unfold played. rewrite seq_S, map_app, concat_app. cbn. rewrite app_nil_r. reflexivity. Qed.

(** What generator i has been handed so far is: its first passes completely, then a prefix of its current pass; the entry of
    its key holds exactly the rest of that pass; keys of different live generators differ and were all drawn already. *)
Definition GenOK (w : world) (i : nat) : Prop :=
  let g := gens w i in
  match g_st g with
  | Draining id =>
      exists j k, j < nids w /\ id = idgen j /\ 0 < g_ep g /\
                  reg w id = Some (skipn k (g_pass g (g_ep g - 1))) /\
                  g_out g = played g (g_ep g - 1) ++ firstn k (g_pass g (g_ep g - 1)) /\
                  (g_repeat g = false -> g_ep g = 1)
  | Idle => g_out g = played g (g_ep g) /\ (g_ep g = 0 \/ g_repeat g = true)
  | Finished => exists n k, g_out g = played g n ++ firstn k (g_pass g n)
  end.
Definition Distinct (w : world) : Prop :=
  forall i i' id, i <> i' -> g_st (gens w i) = Draining id -> g_st (gens w i') = Draining id -> False.
Definition Inv (w : world) : Prop := (forall i, GenOK w i) /\ Distinct w.

Lemma init_inv passes rep : Inv (init passes rep).
Proof. split; [intros i; unfold GenOK; cbn; split; [reflexivity|left; reflexivity] | intros i i' id _ H; cbn in H; discriminate]. Qed.

Lemma genok_frame w w' i : GenOK w i -> gens w' i = gens w i -> nids w <= nids w' ->
  (forall id, g_st (gens w i) = Draining id -> reg w' id = reg w id) -> GenOK w' i.
Proof.
  unfold GenOK. intros H Hg Hn Hr. rewrite Hg. destruct (g_st (gens w i)) as [|id|]; try exact H.
  destruct H as (j & k & Hj & Hid & Hep & Hreg & Hout & Hrep). exists j, k. rewrite (Hr id eq_refl). repeat split; try assumption. lia.
Qed.

(** acting on generator i: the others keep their state; i's new state is not Draining, or Draining under a key no other uses *)
Lemma distinct_frame w w' i : Distinct w -> (forall i2, i2 <> i -> g_st (gens w' i2) = g_st (gens w i2)) ->
  (forall id, g_st (gens w' i) = Draining id -> forall i2, i2 <> i -> g_st (gens w i2) <> Draining id) -> Distinct w'.
Proof.
  intros HD Ho Hi i1 i2 id Hne H1 H2.
  destruct (Nat.eq_dec i1 i) as [->|N1]; destruct (Nat.eq_dec i2 i) as [->|N2]; try contradiction.
  - rewrite (Ho i2 N2) in H2. exact (Hi id H1 i2 N2 H2).
  - rewrite (Ho i1 N1) in H1. exact (Hi id H2 i1 N1 H1).
  - rewrite (Ho i1 N1) in H1. rewrite (Ho i2 N2) in H2. exact (HD i1 i2 id Hne H1 H2).
Qed.

Lemma live_key_drawn w i id : GenOK w i -> g_st (gens w i) = Draining id -> exists j, j < nids w /\ id = idgen j.
Proof. unfold GenOK. intros H E. rewrite E in H. destruct H as (j & k & Hj & Hid & _). exists j. split; assumption. Qed.

Lemma start_inv w i : Inv w -> g_st (gens w i) = Idle -> Inv (start idgen w i).
Proof.
  intros [HG HD] Hi. split.
  - intros i2. destruct (Nat.eq_dec i2 i) as [->|Hne].
    + unfold GenOK. cbn. rewrite upd_same. cbn. exists (nids w), 0. rewrite upd_same. cbn [skipn firstn]. rewrite Nat.sub_0_r, app_nil_r.
      specialize (HG i). unfold GenOK in HG. rewrite Hi in HG. destruct HG as [Hout Hrep].
      repeat split; try lia; try assumption. intros Hf. destruct Hrep as [->|Ht]; [reflexivity|congruence].
    + apply (genok_frame w); [apply HG | cbn; rewrite upd_other by exact Hne; reflexivity | cbn; lia |].
      intros id Hd. cbn. rewrite upd_other; [reflexivity|]. destruct (live_key_drawn w i2 id (HG i2) Hd) as (j & Hj & ->).
      intros Heq. apply idgen_inj in Heq. lia.
  - apply (distinct_frame w _ i HD).
    + intros i2 Hne. cbn. rewrite upd_other by exact Hne. reflexivity.
    + intros id Hd i2 Hne H2. cbn in Hd. rewrite upd_same in Hd. cbn in Hd. injection Hd as <-.
      destruct (live_key_drawn w i2 _ (HG i2) H2) as (j & Hj & Heq). apply idgen_inj in Heq. lia.
Qed.

Lemma end_pass_inv' w i id : Inv w -> g_st (gens w i) = Draining id -> reg w id = Some [] -> Inv (end_pass w i id).
Proof.
  intros [HG HD] Est Hr. pose proof (HG i) as Hi. unfold GenOK in Hi. rewrite Est in Hi.
  destruct Hi as (j & k & Hj & Hid & Hep & Hreg & Hout & Hrep). rewrite Hr in Hreg. injection Hreg as Esk. symmetry in Esk. split.
  - intros i2. destruct (Nat.eq_dec i2 i) as [->|Hne].
    + unfold GenOK. cbn. rewrite upd_same. unfold set_st. cbn. rewrite ?another_pass_id.
      assert (Hall : g_out (gens w i) = played (gens w i) (g_ep (gens w i))).
      { rewrite Hout, (skipn_nil_all _ _ Esk). replace (g_ep (gens w i)) with (S (g_ep (gens w i) - 1)) at 3 by lia.
        rewrite played_S. reflexivity. }
      destruct (g_repeat (gens w i)) eqn:Er.
      * split; [exact Hall | right; reflexivity].
      * exists (g_ep (gens w i)), 0. cbn [firstn]. rewrite app_nil_r. exact Hall.
    + apply (genok_frame w); [apply HG | cbn; rewrite upd_other by exact Hne; reflexivity | cbn; lia |].
      intros id2 Hd. cbn. rewrite upd_other; [reflexivity|]. intros ->. exact (HD i2 i id Hne Hd Est).
  - apply (distinct_frame w _ i HD).
    + intros i2 Hne. cbn. rewrite upd_other by exact Hne. reflexivity.
    + intros id2 Hd. cbn in Hd. rewrite upd_same in Hd. unfold set_st in Hd. cbn in Hd. rewrite another_pass_id in Hd. destruct (g_repeat (gens w i)); discriminate.
Qed.

Lemma deliver_inv w i id e r : Inv w -> g_st (gens w i) = Draining id -> reg w id = Some (e :: r) -> Inv (deliver w i id e r).
Proof.
  intros [HG HD] Est Hr. pose proof (HG i) as Hi. unfold GenOK in Hi. rewrite Est in Hi.
  destruct Hi as (j & k & Hj & Hid & Hep & Hreg & Hout & Hrep). rewrite Hr in Hreg. injection Hreg as Esk. symmetry in Esk.
  destruct (skipn_cons_nth _ _ _ _ Esk) as (Hs1 & Hs2 & Hs3). split.
  - intros i2. destruct (Nat.eq_dec i2 i) as [->|Hne].
    + unfold GenOK. cbn. rewrite upd_same. cbn. exists j, (S k). rewrite upd_same. repeat split; try assumption.
      * rewrite Hs1. reflexivity.
      * rewrite Hout, Hs2, app_assoc. reflexivity.
    + apply (genok_frame w); [apply HG | cbn; rewrite upd_other by exact Hne; reflexivity | cbn; lia |].
      intros id2 Hd. cbn. rewrite upd_other; [reflexivity|]. intros ->. exact (HD i2 i id Hne Hd Est).
  - apply (distinct_frame w _ i HD).
    + intros i2 Hne. cbn. rewrite upd_other by exact Hne. reflexivity.
    + intros id2 Hd i2 Hne H2. cbn in Hd. rewrite upd_same in Hd. cbn in Hd. injection Hd as <-. exact (HD i2 i id Hne H2 Est).
Qed.

Lemma live_key_present w i id : Inv w -> g_st (gens w i) = Draining id -> exists l, reg w id = Some l.
Proof.
  intros [HG _] Est. pose proof (HG i) as Hi. unfold GenOK in Hi. rewrite Est in Hi.
  destruct Hi as (j & k & _ & _ & _ & Hreg & _). eexists. exact Hreg.
Qed.

Lemma pull_inv fuel : forall w i, Inv w -> Inv (fst (pull idgen fuel w i)).
Proof.
  induction fuel as [|fuel IH]; intros w i HI; [exact HI|].
  cbn [pull]. destruct (g_st (gens w i)) as [|id|] eqn:Est.
  - apply IH. apply start_inv; assumption.
  - destruct (live_key_present w i id HI Est) as (l & Hl). rewrite Hl. destruct l as [|e r].
    + apply IH. apply end_pass_inv'; assumption.
    + cbn [fst]. apply deliver_inv; assumption.
  - exact HI.
Qed.

Lemma abandon_inv w i : Inv w -> Inv (abandon w i).
Proof.
  intros [HG HD]. unfold abandon. destruct (g_st (gens w i)) as [|id|] eqn:Est.
  - split.
    + intros i2. destruct (Nat.eq_dec i2 i) as [->|Hne].
      * unfold GenOK. cbn. rewrite upd_same. cbn. specialize (HG i). unfold GenOK in HG. rewrite Est in HG. destruct HG as [Hout _].
        exists (g_ep (gens w i)), 0. cbn [firstn]. rewrite app_nil_r. exact Hout.
      * apply (genok_frame w); [apply HG | cbn; rewrite upd_other by exact Hne; reflexivity | cbn; lia | reflexivity].
    + apply (distinct_frame w _ i HD).
      * intros i2 Hne. cbn. rewrite upd_other by exact Hne. reflexivity.
      * intros id2 Hd. cbn in Hd. rewrite upd_same in Hd. discriminate.
  - split.
    + intros i2. destruct (Nat.eq_dec i2 i) as [->|Hne].
      * unfold GenOK. cbn. rewrite upd_same. cbn. specialize (HG i). unfold GenOK in HG. rewrite Est in HG.
        destruct HG as (j & k & _ & _ & _ & _ & Hout & _). exists (g_ep (gens w i) - 1), k. exact Hout.
      * apply (genok_frame w); [apply HG | cbn; rewrite upd_other by exact Hne; reflexivity | cbn; lia |].
        intros id2 Hd. cbn. rewrite upd_other; [reflexivity|]. intros ->. exact (HD i2 i id Hne Hd Est).
    + apply (distinct_frame w _ i HD).
      * intros i2 Hne. cbn. rewrite upd_other by exact Hne. reflexivity.
      * intros id2 Hd. cbn in Hd. rewrite upd_same in Hd. discriminate.
  - split.
    + intros i2. destruct (Nat.eq_dec i2 i) as [->|Hne].
      * unfold GenOK. cbn. rewrite upd_same. cbn. specialize (HG i). unfold GenOK in HG. rewrite Est in HG. exact HG.
      * apply (genok_frame w); [apply HG | cbn; rewrite upd_other by exact Hne; reflexivity | cbn; lia | reflexivity].
    + apply (distinct_frame w _ i HD).
      * intros i2 Hne. cbn. rewrite upd_other by exact Hne. reflexivity.
      * intros id2 Hd. cbn in Hd. rewrite upd_same in Hd. discriminate.
Qed.

Lemma step_inv w o : Inv w -> Inv (fst (step idgen w o)).
Proof.
  intros HI. destruct o as [i|i]; cbn [step].
  - pose proof (pull_inv FUEL w i HI) as H. destruct (pull idgen FUEL w i). exact H.
  - apply abandon_inv. exact HI.
Qed.

Lemma run_inv ops : forall w, Inv w -> Inv (fst (run idgen w ops)).
Proof.
  induction ops as [|o ops IH]; intros w HI; [exact HI|]. cbn [run].
  pose proof (step_inv w o HI) as H1. destruct (step idgen w o) as [w1 r]. specialize (IH w1 H1). destruct (run idgen w1 ops). exact IH.
Qed.

(** *** No panic: a live generator always finds its key. *)
Lemma pull_no_panic fuel : forall w i, Inv w -> snd (pull idgen fuel w i) <> Panic.
Proof.
  induction fuel as [|fuel IH]; intros w i HI; [discriminate|].
  cbn [pull]. destruct (g_st (gens w i)) as [|id|] eqn:Est.
  - apply IH. apply start_inv; assumption.
  - destruct (live_key_present w i id HI Est) as (l & Hl). rewrite Hl. destruct l as [|e r]; [|discriminate].
    apply IH. apply end_pass_inv'; assumption.
  - discriminate.
Qed.

(** *** What a pull hands over is appended to that generator's record; nobody else's record moves. *)
Definition same_cfg (w w' : world) : Prop :=
  forall i2, g_pass (gens w' i2) = g_pass (gens w i2) /\ g_repeat (gens w' i2) = g_repeat (gens w i2).
Definition yielded (r : @res ex) : list ex := match r with Yield e => [e] | _ => [] end.
Definition Moves (w w' : world) (i : nat) (l : list ex) : Prop :=
  (forall i2, i2 <> i -> g_out (gens w' i2) = g_out (gens w i2)) /\ g_out (gens w' i) = g_out (gens w i) ++ l /\ same_cfg w w'.

Lemma moves_via w1 w w' i l : (forall i2, i2 <> i -> gens w1 i2 = gens w i2) -> g_out (gens w1 i) = g_out (gens w i) ->
  g_pass (gens w1 i) = g_pass (gens w i) -> g_repeat (gens w1 i) = g_repeat (gens w i) -> Moves w1 w' i l -> Moves w w' i l.
Proof.
  intros Ho Hout Hp Hr (H1 & H2 & H3). repeat split.
  - intros i2 Hne. rewrite (H1 i2 Hne), (Ho i2 Hne). reflexivity.
  - rewrite H2, Hout. reflexivity.
  - rewrite (proj1 (H3 i2)). destruct (Nat.eq_dec i2 i) as [->|Hne]; [exact Hp|rewrite (Ho i2 Hne); reflexivity].
  - rewrite (proj2 (H3 i2)). destruct (Nat.eq_dec i2 i) as [->|Hne]; [exact Hr|rewrite (Ho i2 Hne); reflexivity].
Qed.

Lemma moves_refl w i : Moves w w i [].
Proof. repeat split; try reflexivity. rewrite app_nil_r. reflexivity. Qed.

Lemma pull_out fuel : forall w i, Moves w (fst (pull idgen fuel w i)) i (yielded (snd (pull idgen fuel w i))).
Proof.
  induction fuel as [|fuel IH]; intros w i; cbn [pull]; [apply moves_refl|].
  destruct (g_st (gens w i)) as [|id|] eqn:Est.
  - apply (moves_via (start idgen w i)); [| | | |apply IH]; cbn; try (rewrite upd_same; reflexivity).
    intros i2 Hne. rewrite upd_other by exact Hne. reflexivity.
  - destruct (reg w id) as [[|e r]|].
    + apply (moves_via (end_pass w i id)); [| | | |apply IH]; cbn; try (rewrite upd_same; reflexivity).
      intros i2 Hne. rewrite upd_other by exact Hne. reflexivity.
    + cbn [fst snd yielded]. repeat split; cbn.
      * intros i2 Hne. rewrite upd_other by exact Hne. reflexivity.
      * rewrite upd_same. reflexivity.
      * unfold upd. destruct (i2 =? i) eqn:E; [apply Nat.eqb_eq in E; subst|]; reflexivity.
      * unfold upd. destruct (i2 =? i) eqn:E; [apply Nat.eqb_eq in E; subst|]; reflexivity.
    + apply moves_refl.
  - apply moves_refl.
Qed.

Lemma abandon_out w i : Moves w (abandon w i) i [].
Proof.
  unfold abandon. destruct (g_st (gens w i)); repeat split; cbn; try (rewrite upd_same, app_nil_r; reflexivity);
    try (intros i2 Hne; rewrite upd_other by exact Hne; reflexivity);
    unfold upd; destruct (i2 =? i) eqn:E; try (apply Nat.eqb_eq in E; subst); reflexivity.
Qed.

(** the stream the consumer received from generator i: the answers [Yield e] to its [Pull i] requests, in order *)
Fixpoint stream (i : nat) (ops : list op) (rs : list (option (@res ex))) : list ex :=
  match ops, rs with
  | Pull i2 :: ops, Some r :: rs => (if i2 =? i then yielded r else []) ++ stream i ops rs
  | _ :: ops, _ :: rs => stream i ops rs
  | _, _ => []
  end.

Lemma run_stream ops : forall w i, g_out (gens (fst (run idgen w ops)) i) = g_out (gens w i) ++ stream i ops (snd (run idgen w ops))
  /\ same_cfg w (fst (run idgen w ops)).
Proof.
  induction ops as [|o ops IH]; intros w i; cbn [run].
  - cbn. rewrite app_nil_r. split; [reflexivity|intros i2; split; reflexivity].
  - destruct o as [i1|i1]; cbn [step].
    + pose proof (pull_out FUEL w i1) as HM. destruct (pull idgen FUEL w i1) as [w1 r]. cbn [fst snd] in HM.
      specialize (IH w1 i). destruct (run idgen w1 ops) as [w2 rs]. cbn [fst snd] in *. destruct IH as [IH1 IH2].
      destruct HM as (H1 & H2 & H3). split.
      * rewrite IH1. cbn [stream]. destruct (Nat.eqb_spec i1 i) as [->|Hne].
        -- rewrite H2, app_assoc. reflexivity.
        -- rewrite (H1 i) by congruence. reflexivity.
      * intros i2. destruct (IH2 i2) as [A B]. destruct (H3 i2) as [C D]. split; congruence.
    + pose proof (abandon_out w i1) as HM. specialize (IH (abandon w i1) i). destruct (run idgen (abandon w i1) ops) as [w2 rs].
      cbn [fst snd] in *. destruct IH as [IH1 IH2]. destruct HM as (H1 & H2 & H3). split.
      * rewrite IH1. cbn [stream]. destruct (Nat.eq_dec i1 i) as [->|Hne].
        -- rewrite H2, app_nil_r. reflexivity.
        -- rewrite (H1 i) by congruence. reflexivity.
      * intros i2. destruct (IH2 i2) as [A B]. destruct (H3 i2) as [C D]. split; congruence.
Qed.

(** **** Isolation: whatever the interleaving of pulls and drops over any number of generators, what generator i received is a
    prefix of the concatenation of ITS OWN passes — complete passes, then a prefix of the current one. *)
Theorem streams_isolated passes rep ops i :
  let rs := snd (run idgen (init passes rep) ops) in
  (exists n k, stream i ops rs = concat (map (passes i) (seq 0 n)) ++ firstn k (passes i n)) /\
  ~ In (Some Panic) rs.
Proof.
  cbv zeta. split.
  - pose proof (run_inv ops _ (init_inv passes rep)) as [HG _]. specialize (HG i).
    destruct (run_stream ops (init passes rep) i) as [Hs Hc]. cbn [init gens g_out app] in Hs. rewrite <- Hs.
    destruct (Hc i) as [Hp _]. cbn [init gens g_pass] in Hp.
    set (w := fst (run idgen (init passes rep) ops)) in *. unfold GenOK in HG. unfold played in HG. rewrite Hp in HG.
    destruct (g_st (gens w i)).
    + destruct HG as [Ho _]. exists (g_ep (gens w i)), 0. cbn [firstn]. rewrite app_nil_r. exact Ho.
    + destruct HG as (j & k & _ & _ & _ & _ & Ho & _). exists (g_ep (gens w i) - 1), k. exact Ho.
    + exact HG.
  - generalize (init_inv passes rep). generalize (init passes rep). induction ops as [|o ops IH]; intros w HI; cbn [run]; [intros []|].
    pose proof (step_inv w o HI) as H1. destruct o as [i1|i1]; cbn [step] in *.
    + pose proof (pull_no_panic FUEL w i1 HI) as Hnp. destruct (pull idgen FUEL w i1) as [w1 r]. cbn [fst snd] in *.
      specialize (IH w1 H1). destruct (run idgen w1 ops) as [w2 rs]. cbn [snd] in *. intros [Hin|Hin]; [congruence|exact (IH Hin)].
    + cbn [fst] in H1. specialize (IH _ H1). destruct (run idgen (abandon w i1) ops) as [w2 rs]. cbn [snd] in *. intros [Hin|Hin]; [discriminate|exact (IH Hin)].
Qed.

(** *** Liveness: with non-empty passes, four steps always reach the next yield or the end. *)
Lemma pull_S fuel (w : world) i : pull idgen (S fuel) w i =
    match g_st (gens w i) with
    | Finished => (w, Stop)
    | Idle => pull idgen fuel (start idgen w i) i
    | Draining id =>
      match reg w id with
      | None => (w, Panic)
      | Some (e :: r) => (deliver w i id e r, Yield e)
      | Some [] => pull idgen fuel (end_pass w i id) i
      end
    end.
Proof. reflexivity. Qed.

Lemma pull_start fuel (w : world) i : g_pass (gens w i) (g_ep (gens w i)) <> [] -> exists e, snd (pull idgen (S fuel) (start idgen w i) i) = Yield e.
Proof.
  intros Hne. rewrite pull_S. cbn [start gens]. rewrite upd_same. cbn [g_st start reg]. rewrite upd_same.
  destruct (g_pass (gens w i) (g_ep (gens w i))) as [|e r]; [contradiction|]. exists e. reflexivity.
Qed.

Lemma pull_answers (w : world) i : Inv w -> (forall n, g_pass (gens w i) n <> []) ->
  match snd (pull idgen FUEL w i) with
  | Yield _ => True
  | Stop => g_st (gens w i) = Finished \/
            (g_repeat (gens w i) = false /\ g_out (gens (fst (pull idgen FUEL w i)) i) = g_pass (gens w i) 0)
  | _ => False
  end.
Proof.
  intros HI Hne. unfold FUEL. rewrite pull_S. destruct (g_st (gens w i)) as [|id|] eqn:Est.
  - destruct (pull_start 2 w i (Hne _)) as (e & ->). exact I.
  - destruct HI as [HG HD]. pose proof (HG i) as Hi. unfold GenOK in Hi. rewrite Est in Hi.
    destruct Hi as (j & k & Hj & Hid & Hep & Hreg & Hout & Hrep). rewrite Hreg.
    destruct (skipn k (g_pass (gens w i) (g_ep (gens w i) - 1))) as [|e r] eqn:Esk; [|exact I].
    rewrite pull_S. cbn [end_pass gens]. rewrite upd_same. unfold set_st at 1. cbn [g_st]. rewrite another_pass_id.
    destruct (g_repeat (gens w i)) eqn:Er.
    + set (w1 := end_pass w i id).
      assert (E1 : g_pass (gens w1 i) = g_pass (gens w i)) by (unfold w1; cbn; rewrite upd_same; reflexivity).
      assert (Hn1 : g_pass (gens w1 i) (g_ep (gens w1 i)) <> []) by (rewrite E1; apply Hne).
      destruct (pull_start 1 w1 i Hn1) as (e & He). rewrite He. exact I.
    + unfold set_st. cbn [g_st fst snd]. right. split; [reflexivity|]. cbn [end_pass gens]. rewrite upd_same. unfold set_st. cbn [g_out]. rewrite ?another_pass_id.
      rewrite Hout. specialize (Hrep eq_refl). rewrite Hrep. cbn [Nat.sub played seq map concat app]. rewrite Hrep in Esk. cbn [Nat.sub] in Esk.
      exact (skipn_nil_all _ _ Esk).
  - left. reflexivity.
Qed.

(** *** Completeness: a generator that was not dropped ends only after its whole (single) pass. *)
Definition Complete (w : world) (i : nat) : Prop := g_repeat (gens w i) = false /\ g_out (gens w i) = g_pass (gens w i) 0.
Definition J (w : world) (i : nat) : Prop := g_st (gens w i) = Finished -> Complete w i.

Lemma pull_frame fuel : forall (w : world) i i2, i2 <> i -> gens (fst (pull idgen fuel w i)) i2 = gens w i2.
Proof.
  induction fuel as [|fuel IH]; intros w i i2 Hne; [reflexivity|]. rewrite pull_S.
  destruct (g_st (gens w i)) as [|id|].
  - rewrite IH by exact Hne. cbn. rewrite upd_other by exact Hne. reflexivity.
  - destruct (reg w id) as [[|e r]|]; [| |reflexivity].
    + rewrite IH by exact Hne. cbn. rewrite upd_other by exact Hne. reflexivity.
    + cbn. rewrite upd_other by exact Hne. reflexivity.
  - reflexivity.
Qed.

Lemma pull_J fuel : forall (w : world) i, Inv w -> J w i -> J (fst (pull idgen fuel w i)) i.
Proof.
  induction fuel as [|fuel IH]; intros w i HI HJ; [exact HJ|]. rewrite pull_S.
  destruct (g_st (gens w i)) as [|id|] eqn:Est.
  - apply IH; [apply start_inv; assumption|]. unfold J. cbn. rewrite upd_same. cbn. discriminate.
  - destruct (live_key_present w i id HI Est) as (l & Hl). rewrite Hl. destruct l as [|e r].
    + apply IH; [apply end_pass_inv'; assumption|]. unfold J, Complete. cbn. rewrite upd_same. unfold set_st. cbn. rewrite ?another_pass_id.
      destruct HI as [HG HD]. pose proof (HG i) as Hi. unfold GenOK in Hi. rewrite Est in Hi.
      destruct Hi as (j & k & Hj & Hid & Hep & Hreg & Hout & Hrep). rewrite Hl in Hreg. injection Hreg as Esk. symmetry in Esk.
      destruct (g_repeat (gens w i)) eqn:Er; [discriminate|]. intros _. split; [reflexivity|].
      rewrite Hout. specialize (Hrep eq_refl). rewrite Hrep in *. cbn [Nat.sub played seq map concat app] in *. exact (skipn_nil_all _ _ Esk).
    + unfold J. cbn. rewrite upd_same. cbn. discriminate.
  - exact HJ.
Qed.

Fixpoint dropped (i : nat) (ops : list op) : bool :=
  match ops with [] => false | Abandon i2 :: ops => (i2 =? i) || dropped i ops | _ :: ops => dropped i ops end.

Lemma run_J ops : forall (w : world) i, Inv w -> J w i -> dropped i ops = false -> J (fst (run idgen w ops)) i.
Proof.
  induction ops as [|o ops IH]; intros w i HI HJ Hd; [exact HJ|]. cbn [run].
  pose proof (step_inv w o HI) as H1. destruct o as [i1|i1]; cbn [step dropped] in *.
  - pose proof (pull_J FUEL w i1 HI) as HJ1. pose proof (pull_frame FUEL w i1 i) as Hf.
    destruct (pull idgen FUEL w i1) as [w1 r]. cbn [fst] in *.
    assert (HJ' : J w1 i).
    { destruct (Nat.eq_dec i i1) as [->|Hne]; [exact (HJ1 HJ)|]. unfold J, Complete. rewrite (Hf Hne). exact HJ. }
    specialize (IH w1 i H1 HJ' Hd). destruct (run idgen w1 ops). exact IH.
  - apply Bool.orb_false_iff in Hd. destruct Hd as [Hne Hd]. apply Nat.eqb_neq in Hne.
    assert (HJ' : J (abandon w i1) i).
    { unfold J, Complete, abandon. destruct (g_st (gens w i1)); cbn; rewrite upd_other by congruence; exact HJ. }
    cbn [fst] in H1. specialize (IH _ i H1 HJ' Hd). destruct (run idgen (abandon w i1) ops). exact IH.
Qed.

(** **** Liveness and completeness, for every interleaving: with non-empty passes, a further request to generator i is answered
    by an example, or by the end of the stream — and the latter only if i was dropped by the consumer, or is not repeating and
    has received exactly its one pass. *)
Theorem streams_live passes rep ops i : (forall i n, passes i n <> []) ->
  let w := fst (run idgen (init passes rep) ops) in
  let rs := snd (run idgen (init passes rep) ops) in
  match snd (pull idgen FUEL w i) with
  | Yield _ => True
  | Stop => dropped i ops = true \/ (rep i = false /\ stream i ops rs = passes i 0)
  | _ => False
  end.
Proof.
  intros Hne. cbv zeta.
  pose proof (run_inv ops _ (init_inv passes rep)) as HI.
  destruct (run_stream ops (init passes rep) i) as [Hs Hc]. cbn [init gens g_out app] in Hs.
  destruct (Hc i) as [Hp Hr]. cbn [init gens g_pass g_repeat] in Hp, Hr.
  set (w := fst (run idgen (init passes rep) ops)) in *.
  pose proof (pull_answers w i HI) as HA. rewrite Hp in HA. specialize (HA (Hne i)).
  pose proof (pull_out FUEL w i) as (_ & Hout & _).
  destruct (snd (pull idgen FUEL w i)); try exact HA.
  destruct (dropped i ops) eqn:Hd; [left; reflexivity|right].
  destruct HA as [Hfin|[Hrep Ho]].
  - assert (HJ0 : J (init passes rep) i) by (unfold J; cbn; discriminate).
    destruct (run_J ops _ i (init_inv passes rep) HJ0 Hd Hfin) as [A B]. fold w in A, B. rewrite Hr in A. rewrite Hp, Hs in B. split; assumption.
  - rewrite Hr in Hrep. split; [exact Hrep|]. cbn [yielded] in Hout. rewrite app_nil_r in Hout. rewrite Hout, Hs in Ho. exact Ho.
Qed.

(** **** Corollary (C19): a repeating generator whose passes are all the same sequence [l] hands over, at position m of its
    stream, element m mod |l| of [l] — whatever the other generators do in between. *)
Corollary stream_periodic passes rep ops i l : (forall n, passes i n = l) ->
  forall m e, nth_error (stream i ops (snd (run idgen (init passes rep) ops))) m = Some e -> nth_error l (m mod length l) = Some e.
Proof.
  intros Hl m e H. destruct (streams_isolated passes rep ops i) as [(n & k & Hs) _]. cbv zeta in Hs. rewrite Hs in H.
  rewrite Hl in H. rewrite (map_ext _ (fun _ => l)) in H by (intros a; apply Hl). exact (cycles_nth l _ k m e H).
Qed.

(** **** Corollary (C02/C19): whatever generator i receives was produced by one of its own passes. *)
Corollary stream_stays_in_split passes rep ops i (P : ex -> Prop) : (forall n, Forall P (passes i n)) ->
  Forall P (stream i ops (snd (run idgen (init passes rep) ops))).
Proof.
  intros HP. destruct (streams_isolated passes rep ops i) as [(n & k & Hs) _]. cbv zeta in Hs. rewrite Hs.
  apply Forall_app. split.
  - apply Forall_concat. apply Forall_map. apply Forall_forall. intros a _. apply HP.
  - pose proof (HP n) as Hn. rewrite <- (firstn_skipn k (passes i n)) in Hn. apply Forall_app in Hn. exact (proj1 Hn).
Qed.
End P.
