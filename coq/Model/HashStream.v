(** Model of [utils.hash_checksums]: a 128 KiB [readinto] loop feeding every configured hash.
    The hash objects are a section oracle (init/update/hexdigest with the streaming law); the
    loop shape, buffer size, sentinel and slice are generated from utils.py. *)
Require Import Sedpack.Model.Base Sedpack.Generated.GenHash.
From Coq Require Import NArith.

Definition byte := nat.   (* a byte value; the model never looks inside *)

Section Hash.
  Variables (alg state digest : Type).
  Variable h_init : alg -> state.
  Variable h_update : state -> list byte -> state.
  Variable h_hex : state -> digest.

  (** The standard digest of a byte string under an algorithm. *)
  Definition std_digest (a : alg) (bytes : list byte) : digest := h_hex (h_update (h_init a) bytes).

  (** [readinto(memory_view)] with a request of [bufsize] bytes returns some number [i] of bytes,
      0 only at end of file; [want] is what the OS is willing to hand out this time (a short
      read when smaller than the buffer).  The buffer keeps stale bytes behind the first [i]. *)
  Definition readinto (bufsize want : nat) (file buf : list byte) : nat * list byte * list byte :=
    let i := Nat.min (Nat.min want bufsize) (length file) in
    (i, firstn i file ++ skipn i buf, skipn i file).

  (** The loop: [for i in iter(lambda: f.readinto(mv), 0): for h in hs: h.update(mv[:i])].
      [wants] scripts the OS; running out of script is treated as end of file. *)
  Fixpoint read_loop (bufsize : nat) (wants : list nat) (file buf : list byte) (hs : list state) : list state :=
    match wants with
    | [] => hs
    | w :: rest =>
        let '(i, buf', file') := readinto bufsize w file buf in
        if i =? hash_sentinel then hs
        else read_loop bufsize rest file' buf' (map (fun h => h_update h (hash_slice i buf')) hs)
    end.

  (** One hash object per *listed* name, in order; hex digests in the same order. *)
  Definition hash_checksums (bufsize : nat) (wants : list nat) (file : list byte) (algs : list alg) : list digest :=
    map h_hex (read_loop bufsize wants file (repeat 0 bufsize) (map h_init algs)).

  (** The chunks handed to [update], for the correspondence check. *)
  Fixpoint chunks_fed (bufsize : nat) (wants : list nat) (file buf : list byte) : list (list byte) :=
    match wants with
    | [] => []
    | w :: rest =>
        let '(i, buf', file') := readinto bufsize w file buf in
        if i =? hash_sentinel then [] else hash_slice i buf' :: chunks_fed bufsize rest file' buf'
    end.
End Hash.

(** A script is adequate when the OS always hands out at least one byte per call and the script
    is long enough to reach the end of the file. *)
Definition adequate (wants : list nat) (file : list byte) : Prop :=
  Forall (fun w => 1 <= w) wants /\ length file < length wants.
