(** C08 — Continued writing is append-only.
    Property theorems only; each is closed by [exact] of a lemma proved in Proofs/. *)
Require Import Sedpack.Model.Base Sedpack.Generated.GenMerge Sedpack.Model.Filler Sedpack.Model.Meta.
Require Import Sedpack.Proofs.MergeBasics Sedpack.Proofs.MergeProofs Sedpack.Proofs.HistoryProofs.
Require Sedpack.Proofs.IterateProofs.
From Coq Require Import Permutation.

(** The merge that ends every session never removes, adds or alters a shard entry of any list,
    never touches a shard file, and leaves every list outside the merged split as it was: what
    earlier sessions committed is still there afterwards (with [c04_merge_rebuilds_exact_subtree]:
    and it is counted correctly). *)
Theorem c08_merge_keeps_every_shard_entry :
  forall (fuel : nat) (U : list list_info) (c : nat) (fs fs' : fsT) (li u0 : list_info),
    hd_error U = Some u0 ->
    (forall u, List.In u U -> (c <= length (li_dir u))%nat) ->
    WFunder fs (firstn c (li_dir u0)) ->
    merge fuel U c fs = Ok (fs', li) ->
    shards fs' = shards fs /\
    (forall d, sl_files (load_or_create fs' d) = sl_files (load_or_create fs d)) /\
    (forall d, ~ prefix (firstn c (li_dir u0)) d -> lookup d (lists fs') = lookup d (lists fs)).
Proof.
  intros fuel U c fs fs' li u0 H1 H2 H3 H4.
  destruct (merge_spec fuel U c fs fs' li u0 H1 H2 H3 H4) as (_ & _ & Hs & Hf & _ & Hfiles).
  exact (conj Hs (conj Hfiles Hf)).
Qed.
Print Assumptions c08_merge_keeps_every_shard_entry.

(** Append-only over whole histories: whatever sessions follow (any kind, any directory, any writes), every shard file stored
    and every shard entry of every list file present after a prefix of the history is still there — same list, same position,
    same order, only possibly followed by new entries — after the whole history. *)
Theorem c08_history_appends_only :
  forall eps : nat, 1 <= eps -> forall (h1 h2 : list session) (st1 st2 : fsT * dinfo),
    run_history eps h1 = Ok st1 -> run_history eps (h1 ++ h2) = Ok st2 ->
    (forall d, exists ext, sl_files (load_or_create (fst st2) d) = sl_files (load_or_create (fst st1) d) ++ ext) /\
    (forall d n v, lookup_shard d n (shards (fst st1)) = Some v -> lookup_shard d n (shards (fst st2)) = Some v).
Proof. exact history_appends_only. Qed.
Print Assumptions c08_history_appends_only.

(** With [c08_history_appends_only] (stored shard files persist): for whole histories of the session model of C04 (fillers into any
    directory, multi-writer calls, the recursive merge): after every history that completes, unshuffled iteration of a split — the
    depth-first shard list, each shard's stored examples — is a permutation of the contents of ALL shard files stored below that
    split: every stored shard exactly once, nothing else. *)
Theorem c08_iteration_returns_everything_stored :
  forall eps : nat, 1 <= eps -> forall (h : list Meta.session) (fs : Meta.fsT) (info : Meta.dinfo), Meta.run_history eps h = Meta.Ok (fs, info) ->
  forall (s : nat) (li : Meta.list_info), Meta.dget info s = Some li ->
  Permutation (Meta.iterate fs info s) (flat_map (fun e => fst (snd e)) (filter (IterateProofs.under s) (Meta.shards fs))).
Proof. exact IterateProofs.history_iterate_is_stored. Qed.
Print Assumptions c08_iteration_returns_everything_stored.

(** Everything together for whole histories of the session model: unshuffled iteration of a split yields exactly what the sessions
    stored for it — every shard every filler (alone or as a writer of a multi-writer call) closed for that split, each once; and
    what one filler stores for a split is its accepted writes to that split in caller order, shifted by the session's payload offset. *)
Theorem c08_every_split_returns_everything_written_so_far :
  forall eps : nat, 1 <= eps -> forall (h : list Meta.session) (fs : Meta.fsT) (info : Meta.dinfo), Meta.run_history eps h = Meta.Ok (fs, info) ->
  forall s : split, Permutation (Meta.iterate fs info (split_code s)) (IterateProofs.wrote_history eps 0 h s).
Proof. exact IterateProofs.history_iterate_is_written. Qed.
Print Assumptions c08_every_split_returns_everything_written_so_far.

(** With the assertion on the number of same-level updates removed (generated switch), the
    histories that used to fail — a second session in the same sub-directory, a session in the
    parent of a known child — complete, and iteration returns the old examples followed/preceded
    by the new ones, each exactly once. *)
Theorem c08_reused_directory_appends :
  merge_asserts_single_update = false /\
  let W := WWrite Train None true in
  match run_history 2 [SFiller [7] [W; W; W]; SFiller [7] [W]; SFiller [7; 8] [W; W]; SFiller [7] [W]] with
  | Ok (fs, info) => iterate fs info 0 = [0; 1; 2; 100; 300; 200; 201] /\ exact_all fs info = true
  | Err _ => False
  end.
Proof. split; [reflexivity|]. vm_compute. split; reflexivity. Qed.
Print Assumptions c08_reused_directory_appends.
