"""C18 — write-time validation is all-or-nothing and never poisons a shard."""
import json

from harness import common
from harness.common import Broken, COQ, REPO
from translator import pygen

PID = "C18"
SUPPORTED = {
    "fb": ["uint8", "int8", "int16", "int32", "int64", "float16", "float32", "float64"],
    "npz": ["uint8", "int8", "int32", "int64", "float16", "float32", "float64", "bytes", "str"],
    "tfrec": ["uint8", "int8", "int32", "int64", "float16", "float32", "float64", "bytes", "str"],
}
# declarations the format does not support (fb stores fixed-width numbers only; TFRecord has no int16 feature)
UNSUPPORTED = {"fb": ["bytes", "str"], "npz": [], "tfrec": ["int16", "uint16"]}
SHAPES = [[], [3], [2, 3], [1], [2, 1, 2]]
KINDS = ["shape", "rank", "unsafe", "foreign", "missing", "extra", "container", "scalarlist"]


def variable(a):
    return a["dtype"] in ("bytes", "str") and not a["shape"]


def gen_attrs(rng, fmt, unsupported=False):
    n = rng.choice([1, 2, 2, 3, 4])
    attrs = []
    for i in range(n):
        dt = rng.choice(SUPPORTED[fmt])
        shape = [] if dt in ("bytes", "str") else rng.choice(SHAPES)
        attrs.append({"name": f"a{i}", "dtype": dt, "shape": shape})
    if unsupported and UNSUPPORTED[fmt]:
        i = rng.randrange(n)
        dt = rng.choice(UNSUPPORTED[fmt])
        attrs[i] = {"name": f"a{i}", "dtype": dt, "shape": [] if dt in ("bytes", "str") else rng.choice(SHAPES)}
    return attrs


def applicable(kind, a):
    """Does this kind of violation exist for the attribute?  (A variable-size attribute has no shape and takes a bytes/str object.)"""
    if variable(a):
        return kind in ("missing", "extra")
    return True


def gen_jobs(ctx):
    rng = ctx.rng
    jobs = []
    # systematic part: every format x kind x which attribute (first, middle, last) x position in the shard (first, middle, last)
    for fmt in ("fb", "npz", "tfrec"):
        for kind in KINDS:
            for which in (0, 1, 2):
                attrs = [{"name": "a0", "dtype": "int32", "shape": [2]}, {"name": "a1", "dtype": "float32", "shape": [2, 2]},
                         {"name": "a2", "dtype": "uint8" if fmt == "fb" else "bytes", "shape": [3] if fmt == "fb" else []}]
                if not applicable(kind, attrs[which]):
                    continue
                for pos in (0, 1, 2):      # first / middle / last write of the first shard; good writes follow in the same and the next shard
                    writes = [{"kind": "good", "attr": 0} for _ in range(5)]
                    writes[pos] = {"kind": kind, "attr": which}
                    jobs.append({"format": fmt, "attrs": attrs, "eps": 3, "writes": writes})
    # every dtype a format supports or not, alone, with one shape violation and one dtype violation
    for fmt in ("fb", "npz", "tfrec"):
        for dt in SUPPORTED[fmt] + UNSUPPORTED[fmt]:
            a = {"name": "a0", "dtype": dt, "shape": [] if dt in ("bytes", "str") else [2]}
            ks = [k for k in ("shape", "unsafe", "foreign") if applicable(k, a)]
            writes = [{"kind": "good", "attr": 0}] + [{"kind": k, "attr": 0} for k in ks] + [{"kind": "good", "attr": 0}]
            jobs.append({"format": fmt, "attrs": [a], "eps": 2, "writes": writes})
    for _ in range(ctx.scale(40, 700)):
        fmt = rng.choice(["fb", "npz", "tfrec"])
        attrs = gen_attrs(rng, fmt, unsupported=rng.random() < 0.12)
        n = rng.choice([2, 4, 6, 9])
        writes = []
        for _ in range(n):
            if rng.random() < 0.6:
                writes.append({"kind": "good", "attr": 0})
            else:
                which = rng.randrange(len(attrs))
                ks = [k for k in KINDS if applicable(k, attrs[which])]
                writes.append({"kind": rng.choice(ks), "attr": which})
        jobs.append({"format": fmt, "attrs": attrs, "eps": rng.choice([1, 2, 3, 4]), "compression": "", "writes": writes})
    return jobs


# --- abstraction to the model -----------------------------------------------------------------------

def av_of(job, w):
    """What the model sees of a write: per attribute AGood/AShape/ACast/AMissing and the extra-key flag."""
    attrs = job["attrs"]
    vals = ["AGood"] * len(attrs)
    extra = False
    k = w["kind"]
    i = w["attr"] % len(attrs)
    if k in ("shape", "rank", "scalarlist"):
        vals[i] = "AShape"
    elif k in ("unsafe", "foreign"):
        vals[i] = "ACast"
    elif k == "container" and job["format"] == "fb" and attrs[i]["dtype"] not in ("int64", "float64"):
        vals[i] = "ACast"      # np.array(list) is int64/float64, which is not safely castable to a narrower dtype
    elif k == "missing":
        vals[i] = "AMissing"
    elif k == "extra":
        extra = True
    return vals, extra


def model_jobs(jobs):
    """Predicted accepted ids and readability for the fb and npz jobs (evaluated by coqc)."""
    lines = ["Require Import Sedpack.Model.Base Sedpack.Generated.GenWriters Sedpack.Model.Writers.", "Open Scope nat_scope."]
    idx = []
    for ji, j in enumerate(jobs):
        if j.get("unsupported"):
            continue
        attrs = "[" + "; ".join("{| variable := %s |}" % ("true" if variable(a) else "false") for a in j["attrs"]) + "]"
        ws = []
        for wi, w in enumerate(j["writes"]):
            vals, extra = av_of(j, w)
            ws.append("{| w_id := %d; w_vals := [%s]; w_extra := %s |}" % (wi, "; ".join(vals), "true" if extra else "false"))
        wl = "[" + "; ".join(ws) + "]"
        if j["format"] == "fb":
            lines.append(f"Eval vm_compute in (accepted_fb {attrs} {wl}, fb_examples (run_fb {attrs} {wl}), true).")
        elif j["format"] == "tfrec":
            lines.append(f"Eval vm_compute in (accepted_tf {attrs} {wl}, run_tf {attrs} {wl}, true).")
        else:
            lines.append(f"Eval vm_compute in (accepted_npz {attrs} {wl}, npz_ids (run_npz {attrs} {wl}), npz_readable (run_npz {attrs} {wl})).")
        idx.append(ji)
    if not idx:
        return {}
    ans = common.coq_answers(common.coq_eval(PID, "writers", "\n".join(lines) + "\n"))
    return dict(zip(idx, ans))


def model_applies(job):
    """The abstraction ACast = 'rejected by the safe-cast test' is meaningful for the FlatBuffers writer only when the dtype is numeric;
    npz does not look at the dtype at all (ACast behaves as AGood there)."""
    return all(a["dtype"] not in ("bytes", "str") for a in job["attrs"]) if job["format"] == "fb" else True


def judge(ctx, job, r):
    """The property on one job of the implementation."""
    fmt = job["format"]
    where = f"{fmt} attrs={[(a['dtype'], a['shape']) for a in job['attrs']]} eps={job['eps']} writes={[(w['kind'], w['attr'] % len(job['attrs'])) for w in job['writes']]}"
    if "declaration_rejected" in r:
        return
    outcomes = r["outcomes"]
    bad_accepted = [(i, w["kind"]) for i, (w, o) in enumerate(zip(job["writes"], outcomes)) if o == "accepted" and w["kind"] != "good"]
    # 1. violations of the declared shape are rejected; fb also rejects unsafe/foreign dtypes
    for i, (w, o) in enumerate(zip(job["writes"], outcomes)):
        a = job["attrs"][w["attr"] % len(job["attrs"])]
        must = w["kind"] in ("shape", "rank", "scalarlist", "missing") or (fmt == "fb" and w["kind"] in ("unsafe", "foreign"))
        if must and o == "accepted" and not variable(a):
            ctx.report(f"bad-write-accepted:{fmt}:{w['kind']}", f"a write violating the declaration ({w['kind']} of {a['dtype']}{a['shape']}) was accepted: {where}", {"job": job, "write": i})
    culprit = (f"accepted bad writes {bad_accepted}" if bad_accepted else "only good writes were accepted") + f", rejected writes {[(i, o) for i, o in enumerate(outcomes) if o != 'accepted']}"
    dts = sorted({a["dtype"] for a in job["attrs"]})
    kinds_acc = sorted({k for _, k in bad_accepted})
    tag = f"{fmt}:{'+'.join(kinds_acc) if kinds_acc else 'rejected-trace' if len(outcomes) != r['accepted'] else 'good-only'}"
    if r["session_error"]:
        ctx.report(f"session-fails:{tag}:{'+'.join(dts)}", f"closing the session raised {r['session_error']}; {culprit}: {where}", {"job": job})
        return
    if r["read"]["error"] and fmt == "fb" and "itemsize cannot be zero" in r["read"]["error"] and any(a["dtype"] in ("bytes", "str") for a in job["attrs"]):
        ctx.report("fb-bytes-str-declaration-unreadable", f"the FlatBuffers writer accepts values for a bytes/str attribute but no reader can decode them ({r['read']['error']}): {where}", {"job": job})
        return
    if r["read"]["error"]:
        ctx.report(f"unreadable:{tag}:{'+'.join(dts)}", f"the dataset cannot be read back ({r['read']['error']}); {culprit}: {where}", {"job": job})
        return
    if r["read"]["count"] != r["accepted"]:
        ctx.report(f"count:{tag}", f"{r['accepted']} writes were accepted but {r['read']['count']} examples are read back; {culprit}: {where}", {"job": job})
    if sum(r["recorded"]) != r["accepted"]:
        ctx.report(f"recorded-count:{tag}", f"{r['accepted']} writes were accepted but the metadata records {r['recorded']}; {culprit}: {where}", {"job": job})
    if r["read"]["mismatch"]:
        ctx.report(f"changed:{tag}", f"examples read back differ from what was written for (write, attribute) {r['read']['mismatch'][:4]}; {culprit}: {where}", {"job": job})


def run(ctx):
    broken = []
    tr = pygen.regenerate(REPO, COQ / "Generated", only=["GenWriters"])
    if tr["GenWriters"]:
        broken.append(Broken("translator: GenWriters (a shard writer's write path lost its check-everything-then-record shape)", tr["GenWriters"]))
    proof = None
    if not broken:
        try:
            proof = common.check_property_file(PID)
        except Broken as b:
            broken.append(b)
    jobs = gen_jobs(ctx)
    res = []
    for ci in range(0, len(jobs), 40):
        res += common.run_impl("writers_run.py", {"jobs": jobs[ci:ci + 40]}, timeout=1800)["jobs"]
    stats = {"accepted": 0, "rejected": 0, "by_format": {}, "by_kind": {}, "unsupported_declarations": 0}
    for job, r in zip(jobs, res):
        if any(a["dtype"] in UNSUPPORTED[job["format"]] for a in job["attrs"]):
            job["unsupported"] = True
            stats["unsupported_declarations"] += 1
        judge(ctx, {k: v for k, v in job.items() if k != "unsupported"}, r)
        stats["by_format"][job["format"]] = stats["by_format"].get(job["format"], 0) + 1
        for w, o in zip(job["writes"], r.get("outcomes", [])):
            key = w["kind"] + ("+" if o == "accepted" else "-")
            stats["by_kind"][key] = stats["by_kind"].get(key, 0) + 1
            stats["accepted" if o == "accepted" else "rejected"] += 1
    # tie: model prediction vs implementation (which writes are accepted, what the shard then holds)
    agree, ncmp = 0, 0
    if not broken:
        try:
            pred = model_jobs(jobs)
            for ji, (acc, ids, readable) in pred.items():
                job, r = jobs[ji], res[ji]
                if "outcomes" not in r or not model_applies(job):
                    continue
                ncmp += 1
                impl_acc = [i for i, o in enumerate(r["outcomes"]) if o == "accepted"]
                if job["format"] == "npz":
                    # npz takes any dtype: the model treats ACast like AGood
                    pass
                impl_read = r["read"]["error"] is None and r["session_error"] is None
                if impl_acc != list(acc) or bool(readable) != impl_read or (impl_read and r["read"]["count"] != len(ids)):
                    broken.append(Broken("correspondence: the writer model and the implementation disagree on which writes are accepted / what the shard holds",
                                         json.dumps({"job": {k: v for k, v in job.items() if k != "unsupported"}, "model_accepts": list(acc), "impl_accepts": impl_acc,
                                                     "model_examples": list(ids), "model_readable": bool(readable), "impl_read": r["read"], "impl_session_error": r["session_error"]})))
                else:
                    agree += 1
        except Broken as b:
            broken.append(b)
    if broken and not ctx.violations:
        b = broken[0]
        ctx.report(f"broken:{b.what}", b.what, {"unchecked": b.what, "detail": b.detail[-3000:]}, found_input=False)
    ctx.sample({k: v for k, v in jobs[0].items() if k != "unsupported"})
    ctx.sample({k: v for k, v in jobs[-1].items() if k != "unsupported"})
    ctx.coverage.update({
        "obligations": proof["obligations"] if proof else 5, "discharged": proof["discharged"] if proof else 0,
        "theorems": proof["theorems"] if proof else [],
        "checker_cmd": "make -C coq Proofs/WritersProofs.vo && coqc -Q coq Sedpack coq/Properties/C18.v (Print Assumptions under each theorem)",
        "trusted_base": common.TRUSTED_BASE_COMMON + [
            "translator/pygen.py gen_writers: the statement order of ShardWriterBase.write, ShardWriterFlatBuffer._write, ShardWriterNP._write, ShardWriterTFRec._write, Shard.write and the TFRecord "
            "writer/reader dtype tables are read from the source; a shape it does not recognise breaks the tie",
            "a write is abstracted to, per attribute, good / wrong shape / not safely castable / missing, plus an extra-key flag; what numpy and TensorFlow do with a concrete value "
            "(np.can_cast, tf.constant, Int64List) is observed through the correspondence runs, not modelled",
            "the FlatBuffers builder's unreferenced bytes (vectors built before a later attribute of the same write was rejected) are modelled as garbage and shown not to be reachable from the shard's examples"],
        "evaluations": len(jobs) + ncmp, "distinct_nontrivial": len({json.dumps([j["format"], j["attrs"], j["writes"]]) for j in jobs}),
        "rule": "sessions of good and bad writes through Dataset.filler on fb/npz/tfrec: every violation kind (shape, rank, unsafe dtype, foreign dtype, missing, extra, nested list, list of arrays) "
                "x which attribute x position in the shard, every supported and unsupported dtype declaration, plus random mixes; afterwards the dataset is reopened, iterated and compared with the accepted writes; "
                "the model's accepted set and shard contents are compared with the implementation's",
        "input_distribution": stats, "model_vs_impl_compared": ncmp, "model_vs_impl_agree": agree,
    })
    ctx.assumptions += ["single writer session per job; the reader is as_numpy_iterator"]


def replay(ctx, rp):
    job = rp["replay"].get("job")
    if not job:
        print("no concrete input in this replay file:", rp["replay"].get("unchecked"))
        return False
    r = common.run_impl("writers_run.py", {"jobs": [job]}, timeout=600)["jobs"][0]
    print(json.dumps(r, indent=1)[:3000])
    before = len(ctx.violations)
    judge(ctx, job, r)
    return len(ctx.violations) == before
