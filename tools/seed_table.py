#!/usr/bin/env python3
"""Print the markdown table of DESIGN.md section 13.6 from seeded/RESULTS.json and the seeds' notes."""
import json
import re
from pathlib import Path
V = Path("/verif")
r = json.loads((V / "seeded/RESULTS.json").read_text())
print("| seed | what the change is (first line of the sub-agent's notes) | own check | other checks run |")
print("|------|------------------------------------------------------------|-----------|------------------|")
for s in sorted(r):
    notes = (V / "seeded" / s / "notes.md").read_text().splitlines()
    title = next((l for l in notes if l.strip()), "").lstrip("# ").strip()
    title = re.sub(r"^(C\d\d\s*/?\s*)?(change\s+)?[ab]\s*[—:-]+\s*", "", title, flags=re.I)[:110]
    def cell(x):
        k = "concrete failing input" if x["with_failing_input"] else "broken tie, no-failing-input-found" if x["violations"] else "MISSED"
        return f"{x['check'].split()[1]}{' (thorough)' if 'thorough' in x['check'] else ''}: {k}"
    runs = r[s]["runs"]
    print(f"| {s} | {title} | {cell(runs[0]) if runs else 'patch did not apply'} | {'; '.join(cell(x) for x in runs[1:]) or '—'} |")
