(** Basic facts about the file-system model of Model/Meta.v. *)
Require Import Sedpack.Model.Base Sedpack.Generated.GenMerge Sedpack.Model.Filler Sedpack.Model.Meta.
Local Open Scope Z_scope.

Lemma dpath_eqb_spec a b : reflect (a = b) (dpath_eqb a b).
Proof.
  revert b; induction a as [|x a IH]; intros [|y b]; simpl; try (constructor; congruence).
  destruct (Nat.eqb_spec x y) as [->|Hne]; simpl; [|constructor; congruence].
  destruct (IH b) as [->|Hne]; constructor; congruence.
Qed.
Lemma dpath_eqb_refl a : dpath_eqb a a = true.
Proof. destruct (dpath_eqb_spec a a); congruence. Qed.
Lemma dpath_eqb_eq a b : dpath_eqb a b = true -> a = b.
Proof. destruct (dpath_eqb_spec a b); congruence. Qed.
Lemma dpath_eqb_neq a b : a <> b -> dpath_eqb a b = false.
Proof. destruct (dpath_eqb_spec a b); congruence. Qed.

(** [p] is a prefix of [d]. *)
Definition prefix (p d : dpath) : Prop := firstn (length p) d = p.
Lemma prefix_refl p : prefix p p.
Proof. unfold prefix. apply firstn_all. Qed.
Lemma prefix_app p q : prefix p (p ++ q).
Proof. unfold prefix. rewrite firstn_app, firstn_all, Nat.sub_diag. simpl. apply app_nil_r. Qed.
Lemma prefix_length p d : prefix p d -> (length p <= length d)%nat.
Proof. unfold prefix. intros H. rewrite <- H. rewrite firstn_length. lia. Qed.
Lemma prefix_trans p q d : prefix p q -> prefix q d -> prefix p d.
Proof.
  intros H1 H2. pose proof (prefix_length _ _ H1) as Hl. unfold prefix in *.
  transitivity (firstn (length p) (firstn (length q) d)).
  - rewrite firstn_firstn, Nat.min_l by lia. reflexivity.
  - rewrite H2. exact H1.
Qed.
Lemma prefix_snoc_neq p k k' d : k <> k' -> prefix (p ++ [k]) d -> ~ prefix (p ++ [k']) d.
Proof.
  unfold prefix. rewrite !app_length. simpl. intros Hne H1 H2. rewrite H1 in H2.
  apply app_inv_head in H2. congruence.
Qed.
Lemma prefix_longer p k : ~ prefix (p ++ [k]) p.
Proof. intros H. apply prefix_length in H. rewrite app_length in H. simpl in H. lia. Qed.
Lemma firstn_S_nth (d : dpath) c : (c < length d)%nat -> firstn (S c) d = firstn c d ++ [nth c d 0%nat].
Proof.
  revert c; induction d as [|x d IH]; intros c Hc; simpl in *; [lia|].
  destruct c; simpl; [reflexivity|]. rewrite <- IH by lia. reflexivity.
Qed.

Lemma lookup_cons_eq {V} d (v : V) l : lookup d ((d, v) :: l) = Some v.
Proof. simpl. rewrite dpath_eqb_refl. reflexivity. Qed.
Lemma lookup_cons_neq {V} d d' (v : V) l : d' <> d -> lookup d ((d', v) :: l) = lookup d l.
Proof. intros H. simpl. rewrite dpath_eqb_neq by exact H. reflexivity. Qed.

(** sums *)
Lemma fold_add_shift {X} (g : X -> Z) l z : fold_left (fun a x => a + g x) l z = z + fold_left (fun a x => a + g x) l 0.
Proof.
  revert z; induction l as [|x l IH]; intros z; simpl; [lia|]. rewrite (IH (z + g x)), (IH (g x)). lia.
Qed.
Lemma fold_sub_shift {X} (g : X -> Z) l z : fold_left (fun a x => a - g x) l z = z - fold_left (fun a x => a + g x) l 0.
Proof.
  revert z; induction l as [|x l IH]; intros z; simpl; [lia|]. rewrite IH, (fold_add_shift g l (g x)). lia.
Qed.
Lemma sumZ_app {X} (g : X -> Z) l1 l2 : sumZ g (l1 ++ l2) = sumZ g l1 + sumZ g l2.
Proof. unfold sumZ. rewrite fold_left_app, fold_add_shift. reflexivity. Qed.
Lemma sumZ_cons {X} (g : X -> Z) x l : sumZ g (x :: l) = g x + sumZ g l.
Proof. unfold sumZ. simpl. rewrite fold_add_shift. lia. Qed.

(** [write_list] *)
Lemma write_list_lists fs s : lists (fst (write_list fs s)) = (sl_dir s, (s, S (ver fs))) :: lists fs.
Proof. reflexivity. Qed.
Lemma write_list_info fs s : snd (write_list fs s) = {| li_dir := sl_dir s; li_hash := S (ver fs); li_nex := sl_nex s; li_nsh := nsh_of s |}.
Proof. reflexivity. Qed.
Lemma write_list_shards fs s : shards (fst (write_list fs s)) = shards fs.
Proof. reflexivity. Qed.

Lemma forallb_ext {X} (f g : X -> bool) l : (forall x, f x = g x) -> forallb f l = forallb g l.
Proof. intros H. induction l as [|x l IH]; simpl; [reflexivity|]. rewrite H, IH. reflexivity. Qed.
