"""C15 — the Rust reader equals the Python reader for every thread count and timing."""
import json

from harness import common, iterlib
from harness.common import Broken, COQ, REPO, VERIF, BUILD
from translator import pygen

PID = "C15"


def build_harness():
    with common.Lock("native"):
        rc, out, err = common.sh(["cargo", "build", "--release", "--offline", "--manifest-path", str(VERIF / "rust_harness" / "Cargo.toml"),
                                  "--target-dir", str(BUILD / "cargo_harness")], timeout=1500, env={"CARGO_NET_OFFLINE": "true"})
    if rc:
        raise Broken("rust_harness (path dependency on /repo/rust) no longer builds", (out + err)[-2500:])
    return BUILD / "cargo_harness" / "release" / "parmap_harness"


def gen_trials(ctx):
    rng = ctx.rng
    t = [(5, 2, 1, -1, -1), (0, 3, 1, -1, -1), (7, 3, 2, 3, -1), (6, 2, 3, -1, 4), (1, 5, 4, -1, -1), (4, 4, 5, 0, -1), (9, 1, 6, -1, -1), (3, 8, 7, 2, -1),
         (6, 3, 8, -1, 0), (6, 3, 9, -1, 5), (12, 4, 10, 11, -1),
         # one task much slower than the others (300 ms), fewer threads than tasks
         (6, 2, 11, -1, -1, 0), (7, 3, 12, -1, -1, 2), (9, 2, 13, -1, -1, 5), (5, 4, 14, 3, -1, 1)]
    for _ in range(ctx.scale(60, 800)):
        T = rng.choice([1, 2, 3, 4, 8])
        n = rng.choice([0, 1, T - 1, T, T + 1, 2 * T, 2 * T + 1, rng.randint(0, 20)])
        n = max(0, n)
        kind = rng.choice(["full", "full", "drop", "fail"])
        t.append((n, T, rng.randrange(1, 10 ** 6), rng.randint(0, max(0, n)) if kind == "drop" else -1, rng.randrange(n) if kind == "fail" and n else -1))
    return t


def model_eval(trials):
    body = ["Require Import Sedpack.Model.Base Sedpack.Model.ParMap.",
            "(* a fair schedule; the sequence of `sent` values at each delivery is schedule independent *)",
            "Fixpoint tr (n : nat) (bad : nat -> bool) (s : pstate) (sched : list nat) (acc : list nat) : list nat * (list nat * nat) :=",
            "  match sched with [] => (returned s, (rev acc, match cons s with CRun => 0 | CDone => 1 | CPanic => 2 end))",
            "  | t :: rest => match pstep n bad s t with Some s' => tr n bad s' rest (if kdone s <? kdone s' then sent s' :: acc else acc) | None => tr n bad s rest acc end end.",
            "Definition fair (T k : nat) : list nat := concat (repeat (seq 1 T ++ [0]) k)."]
    body.append("Eval vm_compute in [" + "; ".join(
        f"tr {n} (fun i => {('Nat.eqb i ' + str(f)) if f >= 0 else 'false'}) (pinit {n} {T}) (fair {T} {3 * n + 6}) []" for (n, T, _s, _d, f, *_x) in trials) + "].")
    return common.parse_coq_list(common.coq_eval(PID, "parmap", "\n".join(body) + "\n"))


def run(ctx):
    broken = []
    tr = pygen.regenerate(REPO, COQ / "Generated", only=["GenParMap"])
    if tr["GenParMap"]:
        broken.append(Broken("translator: GenParMap (rust/src/parallel_map.rs differs from the pinned text the model transcribes)", tr["GenParMap"]))
    proof = None
    if not broken:
        try:
            proof = common.check_property_file(PID)
        except Broken as b:
            broken.append(b)
    # 1. the real parallel_map under scrambled completion orders, early drops and panics
    trials = gen_trials(ctx)
    outs = []
    try:
        exe = build_harness()
        for i in range(0, len(trials), 40):
            rc, out, err = common.sh(["timeout", "45", str(exe)] + [",".join(map(str, t)) for t in trials[i:i + 40]], timeout=60)
            lines = [json.loads(l) for l in out.splitlines() if l.startswith("{")]
            outs += lines
            if rc == 124 or len(lines) < len(trials[i:i + 40]):
                t = trials[i + len(lines)] if i + len(lines) < len(trials) else trials[-1]
                ctx.report("parallel-map-hangs", f"parallel_map n={t[0]} threads={t[1]} drop_at={t[3]} fail_at={t[4]} did not finish (deadlock in next() or drop)", {"mode": "harness", "trial": list(t)})
                break
    except Broken as b:
        broken.append(b)
    for t, o in zip(trials, outs):
        n, T, seed, drop_at, fail_at = t[:5]
        W = min(T, n)
        exp_n = n if drop_at < 0 else min(n, drop_at)
        if fail_at >= 0 and (drop_at < 0 or fail_at < drop_at):
            if o["outcome"] != "panicked":
                ctx.report("rust-failure-swallowed", f"parallel_map n={n} threads={T}: task {fail_at} panics but the iterator ended with outcome {o['outcome']} after {len(o['results'])} results",
                           {"mode": "harness", "trial": list(t), "out": o})
            continue
        if o["outcome"] == "panicked":
            ctx.report("rust-unexpected-panic", f"parallel_map n={n} threads={T} drop_at={drop_at} panicked", {"mode": "harness", "trial": list(t), "out": o})
            continue
        want = [10 * i + 1 for i in range(exp_n)]
        if o["results"] != want:
            ctx.report("rust-results-differ", f"parallel_map n={n} threads={T} seed={seed} drop_at={drop_at}: results {o['results'][:12]} expected {want[:12]}", {"mode": "harness", "trial": list(t), "out": o})
        for k, p in enumerate(o["pulls"], 1):
            if p > W + k:
                ctx.report("rust-read-ahead", f"parallel_map n={n} threads={T}: {p} tasks taken from the source when result {k} was returned (bound {W}+{k})", {"mode": "harness", "trial": list(t), "out": o})
                break
    # 2. model vs real: same results and the same number of source pulls at every result
    dis = 0
    if not tr["GenParMap"] and outs:
        try:
            rc, log = common.coq_make(["Model/ParMap.vo"])
            if rc:
                raise Broken("Model/ParMap.v no longer compiles", log[-2000:])
            full = [(t, o) for t, o in zip(trials, outs) if t[3] < 0]
            ms = model_eval([t for t, _o in full])
            for (t, o), (ret, (sents, fin)) in zip(full, ms):
                want_fin = 2 if t[4] >= 0 else 1
                real = [(x - 1) // 10 for x in o["results"]]
                if list(ret) != real or fin != want_fin or list(sents)[: len(o["pulls"])] != o["pulls"] or (want_fin == 2) != (o["outcome"] == "panicked"):
                    dis += 1
                    if dis <= 2:
                        broken.append(Broken("correspondence parallel_map model vs the real Rust function", json.dumps({"trial": t, "model": [list(ret), list(sents), fin], "real": o})))
        except Broken as b:
            broken.append(b)
    # 3. whole reader: Rust vs Python on datasets
    rng = ctx.rng
    jobs = []
    for comp in iterlib.RUST_COMPRESSIONS:
        for _ in range(ctx.scale(1, 6)):
            spec = iterlib.gen_dataset(rng, fmt="fb", min_shards=rng.choice([1, 2, 5]), max_sessions=2)
            spec["compression"] = comp
            reqs = [{"iface": "sync", "split": 0, "shuffle": 0, "repeat": False}]
            for fp in rng.sample([1, 2, 3, 4, 7, 16], 3):
                reqs.append({"iface": "rust", "split": 0, "shuffle": 0, "repeat": False, "file_parallelism": fp})
            reqs.append({"iface": "rust", "split": 0, "shuffle": rng.choice([1, 4, 100]), "repeat": False, "file_parallelism": rng.choice([1, 2, 5])})
            reqs.append({"iface": "rust", "split": 0, "shuffle": 0, "repeat": False, "file_parallelism": rng.choice([2, 3]), "take": rng.choice([1, 2, 3])})
            jobs.append({"dataset": spec, "requests": reqs})
    # many shards per thread (11 and 5 shards, 1..5 threads): a reader that splits the shard list among its threads must not lose the remainder
    Wr = ["W", 0, None, True]
    for nsh in (11, 5):
        spec = {"format": "fb", "compression": "", "eps": 1, "sessions": [{"kind": "filler", "sub": [], "reopen": False, "ops": [Wr] * nsh}]}
        jobs.append({"dataset": spec, "requests": [{"iface": "sync", "split": 0, "shuffle": 0, "repeat": False}] +
                     [{"iface": "rust", "split": 0, "shuffle": 0, "repeat": False, "file_parallelism": fp} for fp in (1, 2, 3, 4, 5)]})
    # several Rust readers alive at once in one process (A created, B created, A runs to its end, C created, B and C run to their ends):
    # each pass must still be the python pass
    spec = {"format": "fb", "compression": "LZ4", "eps": 2, "sessions": [{"kind": "filler", "sub": [], "reopen": False, "ops": [Wr] * 7}]}
    st3 = [{"split": 0, "repeat": False, "shuffle": 0, "file_parallelism": fp} for fp in (2, 1, 3)]
    jobs.append({"dataset": spec, "requests": [{"iface": "sync", "split": 0, "shuffle": 0, "repeat": False},
                                               {"iface": "rust", "split": 0, "shuffle": 0, "repeat": False, "file_parallelism": 2,
                                                "multi": {"streams": st3, "ops": [["P", 0], ["P", 1]] + [["P", 0]] * 9 + [["P", 2], ["P", 1]] * 9}}]})
    # many shards per thread under compression: a worker decodes several compressed shards one after the other
    for comp in ("LZ4", "GZIP"):
        spec = {"format": "fb", "compression": comp, "eps": 1, "sessions": [{"kind": "filler", "sub": [], "reopen": False, "ops": [Wr] * 7}]}
        jobs.append({"dataset": spec, "requests": [{"iface": "sync", "split": 0, "shuffle": 0, "repeat": False}] +
                     [{"iface": "rust", "split": 0, "shuffle": 0, "repeat": False, "file_parallelism": fp} for fp in (1, 2, 3)]})
    if not ctx.quick:
        # a consumer that pauses longer than any plausible idle timeout of the reader threads
        spec = iterlib.gen_dataset(rng, fmt="fb", min_shards=6, max_sessions=1)
        spec["compression"] = ""
        jobs.append({"dataset": spec, "requests": [{"iface": "sync", "split": 0, "shuffle": 0, "repeat": False},
                                                   {"iface": "rust", "split": 0, "shuffle": 0, "repeat": False, "file_parallelism": 2, "pause_after": 1, "pause": 13}]})
    res = iterlib.run_jobs(jobs, timeout=30)
    pruns = 0
    for job, r in zip(jobs, res):
        if "build_error" in r:
            ctx.report("harness", r["build_error"], {"job": job}, found_input=False)
            continue
        py = r["results"][0].get("out")
        for q, o in zip(job["requests"][1:], r["results"][1:]):
            pruns += 1
            one = {"dataset": job["dataset"], "requests": [job["requests"][0], q]}
            if o.get("hang"):
                ctx.report("rust-reader-hangs", f"rust {q}: no end within the watchdog (early drop or iteration)", {"mode": "dataset", "job": one})
            elif o.get("error"):
                ctx.report("rust-reader-error", f"rust {q}: {o['error']}", {"mode": "dataset", "job": one})
            elif q.get("multi"):
                for si in range(len(q["multi"]["streams"])):
                    got = [a for (k, i), a in zip(q["multi"]["ops"], o["out"]) if i == si and k == "P"]
                    vals = [a for a in got if not isinstance(a, str)]
                    errs = [a for a in got if isinstance(a, str) and a.startswith("error")]
                    if vals != py or errs:
                        ctx.report("rust-readers-interfere", f"three Rust readers alive at once: pass {si} returned {vals[:12]}{' then ' + errs[0] if errs else ''} vs python {py[:12]}", {"mode": "dataset", "job": one})
                        break
            elif q.get("take"):
                if o["out"] != py[: q["take"]]:
                    ctx.report("rust-differs-from-python", f"rust first {q['take']} examples {o['out']} vs python {py[:q['take']]}", {"mode": "dataset", "job": one})
            elif q["shuffle"] == 0 and o["out"] != py:
                ctx.report("rust-differs-from-python", f"rust fp={q['file_parallelism']} on fb/{job['dataset']['compression'] or 'none'}: {o['out'][:12]} vs python {py[:12]}", {"mode": "dataset", "job": one})
            elif q["shuffle"] and sorted(o["out"]) != sorted(py):
                ctx.report("rust-differs-from-python", f"rust shuffled multiset differs: {sorted(o['out'])[:12]} vs {sorted(py)[:12]}", {"mode": "dataset", "job": one})
    if broken and not ctx.violations:
        b = broken[0]
        ctx.report(f"broken:{b.what}", b.what, {"unchecked": b.what, "detail": b.detail[-3000:]}, found_input=False)
    ctx.sample({"trial(n,T,seed,drop_at,fail_at)": list(trials[2]), "out": outs[2] if len(outs) > 2 else None})
    ctx.coverage.update({
        "obligations": proof["obligations"] if proof else 4, "discharged": proof["discharged"] if proof else 0,
        "theorems": proof["theorems"] if proof else [],
        "checker_cmd": "make -C coq Proofs/ParMapProofs.vo && coqc -Q coq Sedpack coq/Properties/C15.v (Print Assumptions under each theorem)",
        "trusted_base": common.TRUSTED_BASE_COMMON + [
            "Model/ParMap.v is a hand transcription of rust/src/parallel_map.rs; the source text is pinned (translator/rust_pins.json) and the model is compared with the real function (results and number of source pulls at every result) "
            "through rust_harness, a crate with a path dependency on /repo/rust built offline on every run",
            "std::sync::mpsc channels are FIFO, unbounded, deliver queued messages after the sender is gone; thread spawn/join; pyo3 marshalling, flate2/lz4_flex decoders, yoke: not verified",
            "early drop is exercised on the real code only (watchdog); the model has no drop transition"],
        "evaluations": len(outs) + pruns, "distinct_nontrivial": len({tuple(t[:2]) + (t[3] >= 0, t[4] >= 0) for t in trials}) + pruns,
        "rule": "rust_harness: n in 0..20 around T, T in {1,2,3,4,8}, item-dependent pseudo-random delays (completion orders), early drop at every position, panicking task at every position; "
                "datasets: fb x {none,GZIP,LZ4,ZLIB} x thread counts <,=,> shards x shuffled/ordered/early exit vs the Python reader",
        "harness_trials": len(outs), "dataset_runs": pruns, "model_vs_impl_disagreements": dis, "traces_validated_against_impl": len([t for t in trials if t[3] < 0]) - dis,
    })
    ctx.assumptions += ["threads >= 1 (asserted by the code)", "mpsc FIFO semantics"]


def replay(ctx, rp):
    r = rp["replay"]
    if r.get("mode") == "harness":
        exe = build_harness()
        rc, out, err = common.sh(["timeout", "60", str(exe), ",".join(map(str, r["trial"]))], timeout=90)
        print(out[-1500:], "rc", rc)
        if rc:
            return False
        o = json.loads([l for l in out.splitlines() if l.startswith("{")][-1])
        n, T, seed, d, f = r["trial"]
        if f >= 0 and (d < 0 or f < d):
            return o["outcome"] == "panicked"
        return o["results"] == [10 * i + 1 for i in range(n if d < 0 else min(n, d))]
    if r.get("mode") == "dataset":
        res = iterlib.run_jobs([r["job"]], timeout=30)[0]
        print(json.dumps(res["results"])[:1500])
        a, b = res["results"][0], res["results"][1]
        q = r["job"]["requests"][1]
        if b.get("hang") or b.get("error"):
            return False
        if q.get("multi"):
            ok = True
            for si in range(len(q["multi"]["streams"])):
                got = [x for (k, i), x in zip(q["multi"]["ops"], b["out"]) if i == si and k == "P"]
                ok = ok and [x for x in got if not isinstance(x, str)] == a["out"] and not any(isinstance(x, str) and x.startswith("error") for x in got)
            return ok
        return b["out"] == a["out"][: q["take"]] if q.get("take") else (b["out"] == a["out"] if not q["shuffle"] else sorted(b["out"]) == sorted(a["out"]))
    print("no concrete input in this replay file:", r.get("unchecked"))
    return False
