(** M1 (C01): the FlatBuffers attribute codec on bit patterns.
    An element of a fixed-width dtype is its bit pattern, an integer in [0, 2^(8w)); floats are never
    interpreted, so -0.0, NaN payloads and subnormals are covered by construction.  An array is a function
    from multi-indices to elements: every memory layout (C, F, strided, reversed views) is such a function. *)
Require Import Sedpack.Model.Base Sedpack.Generated.GenCodec.
Open Scope list_scope.
Open Scope Z_scope.

Fixpoint le_encode (w : nat) (x : Z) : list Z :=
  match w with O => [] | S w' => (x mod 256) :: le_encode w' (x / 256) end.
Fixpoint le_decode (l : list Z) : Z := match l with [] => 0 | b :: t => b + 256 * le_decode t end.

(** how an element lies in memory for an array whose dtype.byteorder is [f] on a machine whose sys.byteorder is [s] *)
Definition big_endian (f : border) (s : sysorder) : bool :=
  match f with BBig => true | BNative => match s with SysBig => true | _ => false end | _ => false end.
Definition mem_bytes (f : border) (s : sysorder) (w : nat) (x : Z) : list Z :=
  if big_endian f s then rev (le_encode w x) else le_encode w x.
Definition mem_decode (f : border) (s : sysorder) (l : list Z) : Z :=
  if big_endian f s then le_decode (rev l) else le_decode l.
(** [byteswap] reverses each element; [tobytes] dumps memory *)
Definition stored_bytes (f : border) (s : sysorder) (w : nat) (x : Z) : option (list Z) :=
  match byteorder_action f s with Keep => Some (mem_bytes f s w x) | Swap => Some (rev (mem_bytes f s w x)) | Raise => None end.

(** shapes *)
Definition prod (l : list nat) : nat := fold_right Nat.mul 1%nat l.
Fixpoint indices (shape : list nat) : list (list nat) :=
  match shape with [] => [[]] | d :: ds => flat_map (fun i => map (cons i) (indices ds)) (seq 0 d) end.
Fixpoint ravel (shape idx : list nat) : nat :=
  match shape, idx with _ :: ds, i :: is => (i * prod ds + ravel ds is)%nat | _, _ => 0%nat end.
Fixpoint in_range (shape idx : list nat) : Prop :=
  match shape, idx with [], [] => True | d :: ds, i :: is => (i < d)%nat /\ in_range ds is | _, _ => False end.
(** Fortran order: the first index varies fastest *)
Definition indices_F (shape : list nat) : list (list nat) := map (@rev nat) (indices (rev shape)).
Definition enumerate (o : dump_order) (shape : list nat) : list (list nat) :=
  match o with OrderF => indices_F shape | _ => indices shape end.

Fixpoint sequence {A} (l : list (option A)) : option (list A) :=
  match l with [] => Some [] | None :: _ => None | Some a :: t => match sequence t with Some r => Some (a :: r) | None => None end end.

(** [save_numpy_vector_as_bytearray]: flatten, (cast), fix the byte order, dump *)
Definition fb_write_attr (f : border) (s : sysorder) (w : nat) (shape : list nat) (arr : list nat -> Z) : option (list Z) :=
  option_map (@concat Z) (sequence (map (fun i => stored_bytes f s w (arr i)) (enumerate flatten_order shape))).

Fixpoint chunks (w n : nat) (l : list Z) : list (list Z) :=
  match n with O => [] | S n' => firstn w l :: chunks w n' (skipn w l) end.
(** [decode_array]: frombuffer with the declared dtype in [decode_byteorder], reshape to the declared shape *)
Definition fb_decode_flat (s : sysorder) (w n : nat) (bytes : list Z) : list Z := map (mem_decode decode_byteorder s) (chunks w n bytes).
Definition fb_read_attr (s : sysorder) (w : nat) (shape : list nat) (bytes : list Z) (idx : list nat) : Z :=
  nth (ravel shape idx) (fb_decode_flat s w (prod shape) bytes) 0.

(** integer dtypes: signedness and width in bytes *)
Record idt := { sgn : bool; wd : nat }.
Definition interp (d : idt) (x : Z) : Z := if sgn d && (2 ^ (8 * Z.of_nat (wd d) - 1) <=? x) then x - 2 ^ (8 * Z.of_nat (wd d)) else x.
Definition encode (d : idt) (v : Z) : Z := v mod 2 ^ (8 * Z.of_nat (wd d)).
(** NumPy's casting="safe" between integer dtypes *)
Definition can_cast_safe (a b : idt) : bool :=
  match sgn a, sgn b with
  | false, false | true, true => (wd a <=? wd b)%nat
  | false, true => (wd a <? wd b)%nat
  | true, false => false
  end.
Definition cast (a b : idt) (x : Z) : Z := encode b (interp a x).

(** a whole shard: examples -> attributes -> bytes, through a container and a compressor *)
Definition decl := (nat * list nat)%type.
Definition write_example (f : border) (s : sysorder) (decls : list decl) (ex : list (list nat -> Z)) : option (list (list Z)) :=
  sequence (map (fun da => fb_write_attr f s (fst (fst da)) (snd (fst da)) (snd da)) (combine decls ex)).
