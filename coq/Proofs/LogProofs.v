(** C06 at the level of whole sessions: the lists and shard files of the model's file system are publication logs (latest
    first, stamped by the shared version counter).  Every list document ever published references only shard files and
    child lists published strictly before it, so every time-prefix of the log — every crash point between two publications —
    is closed under references; and every newer version of a list keeps the entries of the older one. *)
Require Import Sedpack.Model.Base Sedpack.Generated.GenMerge Sedpack.Generated.GenFiller Sedpack.Model.Filler Sedpack.Model.Meta.
Require Import Sedpack.Proofs.MergeBasics Sedpack.Proofs.MergeProofs.
Local Open Scope nat_scope.

Definition has_shard (fs : fsT) (sh : shard_info) (bound : nat) : Prop :=
  exists ex hs, List.In ((sh_dir sh, sh_name sh), (ex, hs)) (shards fs) /\ hs = sh_hash sh /\ hs <= bound.
Definition has_list (fs : fsT) (d : dpath) (bound : nat) : Prop :=
  exists s h, List.In (d, (s, h)) (lists fs) /\ h <= bound.
(** what a document may reference when it is published at a moment when the counter shows [bound] *)
Definition refs_ok (fs : fsT) (s : shards_list) (bound : nat) : Prop :=
  (forall sh, List.In sh (sl_files s) -> has_shard fs sh bound) /\ (forall c, List.In c (sl_children s) -> has_list fs (li_dir c) bound).
Definition LogOK (fs : fsT) : Prop :=
  (forall d s h, List.In (d, (s, h)) (lists fs) -> 1 <= h <= ver fs /\ refs_ok fs s (h - 1)) /\
  (forall k ex hs, List.In (k, (ex, hs)) (shards fs) -> hs <= ver fs).
Definition Grows (fs fs' : fsT) : Prop :=
  (exists nl, lists fs' = nl ++ lists fs) /\ (exists ns, shards fs' = ns ++ shards fs) /\ ver fs <= ver fs'.

Lemma Grows_refl fs : Grows fs fs.
Proof. split; [exists []; reflexivity|]. split; [exists []; reflexivity | lia]. Qed.
Lemma Grows_trans a b c : Grows a b -> Grows b c -> Grows a c.
Proof.
  intros ((n1 & E1) & (m1 & F1) & V1) ((n2 & E2) & (m2 & F2) & V2).
  split; [exists (n2 ++ n1); rewrite E2, E1, app_assoc; reflexivity|].
  split; [exists (m2 ++ m1); rewrite F2, F1, app_assoc; reflexivity | lia].
Qed.
Lemma has_shard_grows fs fs' sh b b' : Grows fs fs' -> b <= b' -> has_shard fs sh b -> has_shard fs' sh b'.
Proof. intros (_ & (ns & E) & _) Hb (ex & hs & H1 & H2 & H3). exists ex, hs. rewrite E. split; [apply in_or_app; right; exact H1|]. split; [exact H2 | lia]. Qed.
Lemma has_list_grows fs fs' d b b' : Grows fs fs' -> b <= b' -> has_list fs d b -> has_list fs' d b'.
Proof. intros ((nl & E) & _) Hb (s & h & H1 & H2). exists s, h. rewrite E. split; [apply in_or_app; right; exact H1 | lia]. Qed.
Lemma refs_ok_grows fs fs' s b b' : Grows fs fs' -> b <= b' -> refs_ok fs s b -> refs_ok fs' s b'.
Proof. intros G Hb [H1 H2]. split; intros x Hx; [eapply has_shard_grows | eapply has_list_grows]; eauto. Qed.

Lemma lookup_In {V} d (l : list (dpath * V)) v : lookup d l = Some v -> List.In (d, v) l.
Proof.
  induction l as [|[k x] t IH]; cbn [lookup]; [discriminate|].
  destruct (dpath_eqb_spec k d) as [->|Hne]; [intros [= ->]; left; reflexivity | intros H; right; apply IH, H].
Qed.

(** the document a writer starts from may reference only what was published before it *)
Lemma loc_refs fs d : LogOK fs -> refs_ok fs (load_or_create fs d) (ver fs).
Proof.
  intros [L1 L2]. unfold load_or_create. destruct (lookup d (lists fs)) as [[s h]|] eqn:E.
  - apply lookup_In in E. destruct (L1 d s h E) as [Hh R]. eapply refs_ok_grows; [apply Grows_refl | | exact R]. lia.
  - split; intros x [].
Qed.

(** publishing a document whose references are all there keeps the log closed *)
Lemma write_list_log fs s : LogOK fs -> refs_ok fs s (ver fs) ->
  LogOK (fst (write_list fs s)) /\ Grows fs (fst (write_list fs s)) /\ has_list (fst (write_list fs s)) (li_dir (snd (write_list fs s))) (ver (fst (write_list fs s))).
Proof.
  intros [L1 L2] R. set (fs' := fst (write_list fs s)).
  assert (G : Grows fs fs') by (split; [exists [(sl_dir s, (s, S (ver fs)))]; reflexivity|]; split; [exists []; reflexivity | cbn; lia]).
  split; [|split; [exact G|]].
  - split.
    + intros d s0 h H. unfold fs' in H. rewrite write_list_lists in H. destruct H as [H | H].
      * injection H as <- <- <-. cbn [ver fs' write_list fst]. split; [lia|]. replace (S (ver fs) - 1) with (ver fs) by lia. eapply refs_ok_grows; [exact G | | exact R]. lia.
      * destruct (L1 d s0 h H) as [Hh R0]. cbn [ver fs' write_list fst]. split; [lia|]. eapply refs_ok_grows; [exact G | | exact R0]. lia.
    + intros k ex hs H. cbn [shards fs' write_list fst] in H. cbn [ver fs' write_list fst]. pose proof (L2 k ex hs H). lia.
  - exists s, (S (ver fs)). split; [unfold fs'; rewrite write_list_lists, write_list_info; cbn [li_dir]; left; reflexivity | cbn; lia].
Qed.

(** ** the recursive merge *)
Lemma merge_log : forall fuel U c fs fs' li, LogOK fs -> merge fuel U c fs = Ok (fs', li) ->
  LogOK fs' /\ Grows fs fs' /\ has_list fs' (li_dir li) (ver fs').
Proof.
  induction fuel as [|f IH]; intros U c fs fs' li HL Hm; [discriminate|].
  rewrite merge_S in Hm. destruct U as [|u0 U']; [discriminate|].
  destruct (negb (forallb _ _)); [discriminate|]. cbv zeta in Hm.
  destruct (negb (Nat.eqb _ _)); [discriminate|]. destruct (merge_asserts_single_update && _)%bool; [discriminate|].
  destruct (fold_left (Fstep f c) _ _) as [[fs3 merged]|e] eqn:Ef; [|discriminate].
  assert (G : forall gs fsa done fsb m, LogOK fsa -> (forall x, List.In x done -> has_list fsa (li_dir x) (ver fsa)) ->
     fold_left (Fstep f c) gs (Ok (fsa, done)) = Ok (fsb, m) ->
     LogOK fsb /\ Grows fsa fsb /\ (forall x, List.In x m -> has_list fsb (li_dir x) (ver fsb))).
  { induction gs as [|g gs IHg]; intros fsa done fsb m La Hd E; cbn [fold_left] in E.
    - injection E as <- <-. split; [exact La|]. split; [apply Grows_refl | exact Hd].
    - unfold Fstep at 2 in E. destruct (merge f (snd g) (S c) fsa) as [[fs2 info]|e] eqn:Em; [|rewrite fold_err in E; discriminate].
      destruct (IH _ _ _ _ _ La Em) as (L2 & G2 & H2).
      assert (Hd2 : forall x, List.In x (done ++ [info]) -> has_list fs2 (li_dir x) (ver fs2)).
      { intros x Hx. apply in_app_or in Hx as [Hx | [<- | []]]; [|exact H2]. eapply has_list_grows; [exact G2 | apply G2 | apply Hd, Hx]. }
      destruct (IHg _ _ _ _ L2 Hd2 E) as (L3 & G3 & H3). split; [exact L3|]. split; [eapply Grows_trans; eassumption | exact H3]. }
  destruct (G _ _ _ _ _ HL (fun x (H : List.In x []) => match H with end) Ef) as (L3 & G3 & H3).
  set (root := load_or_create fs (firstn c (li_dir u0))) in *.
  set (doc := {| sl_dir := firstn c (li_dir u0); sl_nex := _; sl_files := sl_files root; sl_children := merged |}) in *.
  assert (R : refs_ok fs3 doc (ver fs3)).
  { split; cbn [sl_files sl_children doc].
    - intros sh Hsh. destruct (loc_refs fs (firstn c (li_dir u0)) HL) as [R1 _]. fold root in R1. eapply has_shard_grows; [exact G3 | apply G3 | apply R1, Hsh].
    - exact H3. }
  destruct (write_list_log fs3 doc L3 R) as (L4 & G4 & H4).
  destruct (write_list fs3 doc) as [fs4 li4] eqn:Ew. cbn [fst snd] in *. injection Hm as <- <-.
  split; [exact L4|]. split; [eapply Grows_trans; eassumption | exact H4].
Qed.

(** ** fillers, write_config, sessions, histories *)
Lemma add_shard_log fs d sh h : LogOK fs -> LogOK (add_shard fs d sh h) /\ Grows fs (add_shard fs d sh h).
Proof.
  intros HL. unfold add_shard. cbv zeta.
  set (fs1 := {| lists := lists fs; shards := _; ver := _; fresh := _; base := _ |}).
  assert (G1 : Grows fs fs1) by (split; [exists []; reflexivity|]; split; [eexists [_]; reflexivity | cbn; lia]).
  assert (L1 : LogOK fs1).
  { destruct HL as [A B]. split.
    - intros d0 s0 h0 H. cbn [lists fs1] in H. destruct (A d0 s0 h0 H) as [Hh R]. cbn [ver fs1]. split; [lia|]. eapply refs_ok_grows; [exact G1 | | exact R]. lia.
    - intros k ex hs [H | H]; cbn [ver fs1]; [injection H as _ _ <-; lia | pose proof (B k ex hs H); lia]. }
  set (l := load_or_create fs1 d).
  assert (R : refs_ok fs1 {| sl_dir := sl_dir l; sl_nex := sl_nex l + Z.of_nat (sh_n sh);
              sl_files := sl_files l ++ [{| sh_dir := d; sh_name := fresh fs; sh_num := sh_n sh; sh_md := mval h (sh_meta sh); sh_hash := S (ver fs) |}];
              sl_children := sl_children l |} (ver fs1)).
  { destruct (loc_refs fs1 d L1) as [R1 R2]. fold l in R1, R2. split; cbn [sl_files sl_children]; [|exact R2].
    intros x Hx. apply in_app_or in Hx as [Hx | [<- | []]]; [apply R1, Hx|].
    eexists _, _. cbn [sh_dir sh_name sh_hash shards fs1 ver]. split; [left; reflexivity|]. split; [reflexivity | lia]. }
  destruct (write_list_log fs1 _ L1 R) as (L2 & G2 & _). split; [exact L2 | eapply Grows_trans; eassumption].
Qed.

Lemma rewrite_log fs dd : LogOK fs -> LogOK (fst (write_list fs (load_or_create fs dd))) /\ Grows fs (fst (write_list fs (load_or_create fs dd))).
Proof. intros HL. destruct (write_list_log fs _ HL (loc_refs fs dd HL)) as (L & G & _). split; assumption. Qed.

Lemma LogOK_same fs fs' : lists fs' = lists fs -> shards fs' = shards fs -> ver fs' = ver fs -> LogOK fs -> LogOK fs'.
Proof.
  intros E1 E2 E3 [A B]. split.
  - intros d s h H. rewrite E1 in H. destruct (A d s h H) as [Hh [R1 R2]]. rewrite E3. split; [exact Hh|]. split.
    + intros sh Hsh. destruct (R1 sh Hsh) as (ex & hs & H1 & H2). exists ex, hs. rewrite E2. auto.
    + intros c Hc. destruct (R2 c Hc) as (s0 & h0 & H1 & H2). exists s0, h0. rewrite E1. auto.
  - intros k ex hs H. rewrite E2 in H. rewrite E3. apply (B k ex hs H).
Qed.
Lemma Grows_same fs fs' : lists fs' = lists fs -> shards fs' = shards fs -> ver fs' = ver fs -> Grows fs fs'.
Proof. intros E1 E2 E3. split; [exists []; rewrite E1; reflexivity|]. split; [exists []; rewrite E2; reflexivity | lia]. Qed.

Lemma filler_session_log fs sub eps ops : LogOK fs -> LogOK (fst (filler_session fs sub eps ops)) /\ Grows fs (fst (filler_session fs sub eps ops)).
Proof.
  intros HL. unfold filler_session. cbv zeta.
  set (st := run_ops eps ops). set (closes := f_closed st ++ exit_closes st).
  assert (A : forall cl fsa, LogOK fsa -> let fsb := fold_left (fun fs0 c => add_shard fs0 (split_code (fst c) :: sub) (snd c) (f_heap st)) cl fsa in LogOK fsb /\ Grows fsa fsb).
  { induction cl as [|c t IH]; intros fsa La; cbn [fold_left]; [split; [exact La | apply Grows_refl]|].
    destruct (add_shard_log fsa (split_code (fst c) :: sub) (snd c) (f_heap st) La) as [L1 G1].
    destruct (IH _ L1) as [L2 G2]. split; [exact L2 | eapply Grows_trans; eassumption]. }
  destruct (A closes fs HL) as [L1 G1]. cbv zeta in *.
  set (fs1 := fold_left (fun fs0 c => add_shard fs0 (split_code (fst c) :: sub) (snd c) (f_heap st)) closes fs) in *.
  assert (B : forall tl fsa acc, LogOK fsa ->
     let r := fold_left (fun (a : fsT * list list_info) (c : nat) => let (fs2, li) := write_list (fst a) (load_or_create (fst a) (c :: sub)) in (fs2, snd a ++ [li])) tl (fsa, acc) in
     LogOK (fst r) /\ Grows fsa (fst r)).
  { induction tl as [|c t IH]; intros fsa acc La; cbn [fold_left fst snd]; [split; [exact La | apply Grows_refl]|].
    destruct (rewrite_log fsa (c :: sub) La) as [L2 G2].
    destruct (write_list fsa (load_or_create fsa (c :: sub))) as [fs2 li]. cbn [fst] in *.
    destruct (IH fs2 (acc ++ [li]) L2) as [L3 G3]. split; [exact L3 | eapply Grows_trans; eassumption]. }
  destruct (B (touched closes []) fs1 [] L1) as [L3 G3]. cbv zeta in *.
  destruct (fold_left _ (touched closes []) (fs1, [])) as [fs3 ups]. cbn [fst] in *.
  split; [apply (LogOK_same fs3); auto | eapply Grows_trans; [exact G1|]; eapply Grows_trans; [exact G3 | apply Grows_same; reflexivity]].
Qed.

Lemma write_config_log fs info ups fs' info' : LogOK fs -> write_config fs info ups = Ok (fs', info') -> LogOK fs' /\ Grows fs fs'.
Proof.
  unfold write_config. generalize (group_split ups). intros gs. revert fs info.
  induction gs as [|g gs IH]; intros fs info HL Hw; cbn [fold_left] in Hw.
  - injection Hw as <- _. split; [exact HL | apply Grows_refl].
  - destruct (merge FUEL (snd g) 1 fs) as [[fs2 li]|e] eqn:Em.
    + destruct (merge_log _ _ _ _ _ _ HL Em) as (L2 & G2 & _). destruct (IH fs2 _ L2 Hw) as [L3 G3]. split; [exact L3 | eapply Grows_trans; eassumption].
    + exfalso. clear -Hw. induction gs as [|x t IHt]; cbn [fold_left] in Hw; [discriminate | auto].
Qed.

Lemma run_session_log eps st s st' : LogOK (fst st) -> run_session eps st s = Ok st' -> LogOK (fst st') /\ Grows (fst st) (fst st').
Proof.
  destruct st as [fs info]. cbn [fst]. intros HL Hr. unfold run_session in Hr.
  assert (Fin : forall fs1 ups, LogOK fs1 -> match ups with [] => Ok (fs1, info) | _ => write_config fs1 info ups end = Ok st' -> LogOK (fst st') /\ Grows fs1 (fst st')).
  { intros fs1 ups L1 Hq. destruct ups as [|u0 ups']; [injection Hq as <-; split; [exact L1 | apply Grows_refl]|].
    destruct st' as [fs' info']. apply (write_config_log fs1 info (u0 :: ups') fs' info' L1 Hq). }
  destruct s as [sub ops | writers].
  - destruct (filler_session_log fs sub eps ops HL) as [L1 G1]. destruct (filler_session fs sub eps ops) as [fs1 ups]. cbn [fst] in *.
    destruct (Fin fs1 ups L1 Hr) as [L2 G2]. split; [exact L2 | eapply Grows_trans; eassumption].
  - set (fsm := {| lists := lists fs; shards := shards fs; ver := ver fs; fresh := fresh fs + length writers; base := base fs |}) in *.
    assert (Lm : LogOK fsm) by (apply (LogOK_same fs); auto).
    assert (M : forall ws fsa us k, LogOK fsa ->
       let r := fold_left (fun (acc : fsT * list list_info * nat) (ops : list wop) =>
            let '(fsx, usx, kx) := acc in let (fsy, u) := filler_session fsx [kx] eps ops in (fsy, usx ++ u, S kx)) ws (fsa, us, k) in
       LogOK (fst (fst r)) /\ Grows fsa (fst (fst r))).
    { induction ws as [|ops t IH]; intros fsa us k La; cbn [fold_left fst]; [split; [exact La | apply Grows_refl]|].
      destruct (filler_session_log fsa [k] eps ops La) as [L1 G1]. destruct (filler_session fsa [k] eps ops) as [fsb u1]. cbn [fst] in *.
      destruct (IH fsb (us ++ u1) (S k) L1) as [L2 G2]. split; [exact L2 | eapply Grows_trans; eassumption]. }
    destruct (M writers fsm [] (fresh fs) Lm) as [L1 G1]. cbv zeta in *.
    destruct (fold_left _ writers (fsm, [], fresh fs)) as [[fs1 ups] kk]. cbn [fst] in *.
    destruct (Fin fs1 ups L1 Hr) as [L2 G2]. split; [exact L2|].
    eapply Grows_trans; [apply (Grows_same fs fsm); reflexivity|]. eapply Grows_trans; eassumption.
Qed.

Theorem history_log_closed eps h fs info : run_history eps h = Ok (fs, info) -> LogOK fs.
Proof.
  unfold run_history.
  assert (G : forall h st st', LogOK (fst st) -> fold_left (fun acc s => match acc with Err e => Err e | Ok st0 => run_session eps st0 s end) h (Ok st) = Ok st' -> LogOK (fst st')).
  { induction h0 as [|s t IH]; intros st st' HL Hf; cbn [fold_left] in Hf.
    - injection Hf as <-. exact HL.
    - destruct (run_session eps st s) as [st1|e] eqn:Er.
      + apply (IH st1 st'); [apply (run_session_log eps st s st1 HL Er) | exact Hf].
      + exfalso. clear -Hf. induction t as [|x t IHt]; cbn [fold_left] in Hf; [discriminate | auto]. }
  intros Hr. apply (G h (fs0, []) (fs, info)); [|exact Hr].
  split; [intros d s h0 [] | intros k ex hs []].
Qed.

(** ** crash states: the log cut at a moment [v] of the version counter *)
Definition cut (v : nat) (fs : fsT) : fsT :=
  {| lists := filter (fun e => snd (snd e) <=? v) (lists fs); shards := filter (fun e => snd (snd e) <=? v) (shards fs);
     ver := Nat.min v (ver fs); fresh := fresh fs; base := base fs |}.
(** in every crash state every published document's references resolve inside that crash state *)
Theorem every_cut_is_closed fs v : LogOK fs -> forall d s h, List.In (d, (s, h)) (lists (cut v fs)) ->
  (forall sh, List.In sh (sl_files s) -> has_shard (cut v fs) sh v) /\ (forall c, List.In c (sl_children s) -> has_list (cut v fs) (li_dir c) v).
Proof.
  intros [A B] d s h H. cbn [cut lists] in H. apply filter_In in H as [H Hv]. cbn [snd] in Hv. apply Nat.leb_le in Hv.
  destruct (A d s h H) as [Hh [R1 R2]]. split.
  - intros sh Hsh. destruct (R1 sh Hsh) as (ex & hs & H1 & H2 & H3). exists ex, hs. cbn [cut shards]. split; [|split; [exact H2 | lia]].
    apply filter_In. split; [exact H1|]. cbn [snd]. apply Nat.leb_le. lia.
  - intros c Hc. destruct (R2 c Hc) as (s0 & h0 & H1 & H2). exists s0, h0. cbn [cut lists]. split; [|lia].
    apply filter_In. split; [exact H1|]. cbn [snd]. apply Nat.leb_le. lia.
Qed.
