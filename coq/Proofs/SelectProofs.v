(** C12: the generated selection stages implement the specification. *)
Require Import Sedpack.Model.Base Sedpack.Generated.GenSelect Sedpack.Model.Select.

Lemma stages_are : select_stages = [SFilter; SNonEmpty; STruncate; SLimit].
Proof. reflexivity. Qed.
Lemma limit_keeps_spec c n : limit_keeps c n = true <-> c <= n.
Proof. unfold limit_keeps. apply Nat.leb_le. Qed.

Lemma select_spec_lemma filt k n l : select filt k n l = spec filt k n l.
Proof.
  unfold select, spec. rewrite stages_are. simpl.
  destruct (match filt with Some p => filter p l | None => l end) as [|x t]; reflexivity.
Qed.

Lemma sublist_refl l : sublist l l.
Proof. induction l; simpl; auto. Qed.
Lemma sublist_skip a x b : sublist a b -> sublist a (x :: b).
Proof. destruct a; simpl; auto. Qed.
Lemma sublist_trans a b c : sublist a b -> sublist b c -> sublist a c.
Proof.
  revert a b; induction c as [|z c IH]; intros a b Hab Hbc.
  - destruct b; [destruct a; simpl in *; tauto|destruct Hbc].
  - destruct b as [|y b].
    + destruct a; [exact I|destruct Hab].
    + destruct a as [|x a]; [exact I|]. simpl in Hab, Hbc |- *.
      destruct Hbc as [[-> Hbc]|Hbc].
      * destruct Hab as [[-> Hab]|Hab]; [left; split; [reflexivity|eapply IH; eauto] | right; eapply IH; eauto].
      * right. apply (IH (x :: a) (y :: b)); [exact Hab | exact Hbc].
Qed.
Lemma sublist_filter p l : sublist (filter p l) l.
Proof. induction l as [|x l IH]; simpl; auto. destruct (p x); [left; auto | apply sublist_skip, IH]. Qed.
Lemma sublist_firstn k l : sublist (firstn k l) l.
Proof. revert k; induction l as [|x l IH]; intros [|k]; simpl; auto. Qed.
Lemma sublist_limit n l seen : sublist (limit_loop n l seen) l.
Proof.
  revert seen; induction l as [|x l IH]; intros seen; [exact I|]. cbn [limit_loop].
  destruct (limit_keeps (S (count_meta (s_meta x) seen)) n).
  - change (sublist (x :: limit_loop n l (x :: seen)) (x :: l)). simpl. left. split; [reflexivity|apply IH].
  - change (sublist (limit_loop n l (x :: seen)) (x :: l)). apply sublist_skip, IH.
Qed.

Lemma select_sublist_lemma filt k n l r : select filt k n l = Some r -> sublist r l /\ r <> [].
Proof.
  rewrite select_spec_lemma. unfold spec.
  set (l1 := match filt with Some p => filter p l | None => l end).
  assert (H1 : sublist l1 l) by (unfold l1; destruct filt; [apply sublist_filter | apply sublist_refl]).
  destruct l1 as [|x t] eqn:E1; [discriminate|]. rewrite <- E1 in *. intros H. injection H as <-.
  set (l2 := if k =? 0 then l1 else firstn k l1).
  assert (H2 : sublist l2 l) by (unfold l2; destruct (k =? 0); [exact H1 | eapply sublist_trans; [apply sublist_firstn | exact H1]]).
  assert (H2n : l2 <> []).
  { unfold l2. destruct (k =? 0) eqn:Ek; [congruence|]. rewrite E1. apply Nat.eqb_neq in Ek. destruct k; [congruence|]. simpl. discriminate. }
  destruct (n =? 0) eqn:En; [split; assumption|].
  apply Nat.eqb_neq in En. split; [eapply sublist_trans; [apply sublist_limit | exact H2]|].
  destruct l2 as [|x2 t2]; [congruence|]. cbn [limit_loop count_meta].
  assert (Hk : limit_keeps 1 n = true) by (apply limit_keeps_spec; lia). rewrite Hk. discriminate.
Qed.

(** per-metadata limit: no value occurs more than [n] times in the result *)
Lemma count_meta_app m a b : count_meta m (a ++ b) = count_meta m a + count_meta m b.
Proof. induction a as [|x a IH]; simpl; [reflexivity|]. rewrite IH. lia. Qed.

Lemma count_limit_le n : 1 <= n -> forall l seen m, count_meta m (limit_loop n l seen) + count_meta m seen <= Nat.max n (count_meta m seen).
Proof.
  intros Hn. induction l as [|x l IH]; intros seen m; [simpl; lia|].
  cbn [limit_loop]. rewrite count_meta_app. specialize (IH (x :: seen) m). cbn [count_meta] in IH.
  destruct (limit_keeps (S (count_meta (s_meta x) seen)) n) eqn:Ek.
  - apply limit_keeps_spec in Ek. cbn [count_meta]. destruct (Nat.eqb_spec (s_meta x) m) as [Hm|Hne]; [rewrite Hm in *|]; lia.
  - assert (Hk : ~ S (count_meta (s_meta x) seen) <= n) by (intros HH; apply limit_keeps_spec in HH; congruence).
    cbn [count_meta]. destruct (Nat.eqb_spec (s_meta x) m) as [Hm|Hne]; [rewrite Hm in *|]; lia.
Qed.

Lemma limit_bounded_lemma n l m : 1 <= n -> count_meta m (limit_loop n l []) <= n.
Proof. intros Hn. pose proof (count_limit_le n Hn l [] m). simpl in H. lia. Qed.

Lemma empty_selection_errors_lemma p k n l : filter p l = [] -> select (Some p) k n l = None.
Proof. intros H. rewrite select_spec_lemma. unfold spec. rewrite H. reflexivity. Qed.
