#!/usr/bin/env python3
"""tools/seed_matrix.py [seed ...]: apply every seeded change of /verif/seeded to /repo in turn, run the quick check of its
property (and of the other properties listed in EXTRA), undo it, and record what was reported in seeded/<id>/meta.json and
seeded/RESULTS.json.  /repo is left clean (verified after every seed)."""
import json
import re
import subprocess
import sys
import time
from pathlib import Path

V = Path("/verif")
EXTRA = {"C08-l": ["C09"], "C11-l": ["C08"], "C03-l": ["C19"], "C17-j": ["C20"], "C02-k": ["C08"], "C06-j": ["C01"], "C09-j": ["C11"], "C02-a": ["C13"], "C14-a": ["C13"], "C04-b": ["C08"], "C13-a": ["C02"], "C11-a": ["C10"], "C03-b": ["C04"], "C08-a": ["C04"]}
TIER = {"C15-b": "thorough", "C15-k": "thorough"}
RUST = {"C15-a", "C15-b", "C19-b", "C07-d", "C15-c", "C15-d", "C19-d", "C15-e", "C15-f", "C07-e", "C19-f", "C02-h", "C07-g", "C19-g", "C15-g", "C15-h", "C07-j", "C15-i", "C15-j", "C15-k", "C15-l", "C07-o", "C07-p", "C03-n"}


def sh(cmd, timeout=3600):
    return subprocess.run(cmd, shell=True, capture_output=True, text=True, timeout=timeout)


def needs_of(notes):
    out = []
    take = False
    for line in notes.splitlines():
        if re.search(r"need|manifest", line, re.I) and not re.search(r"rebuild|git apply", line, re.I):
            take = True
        elif take and (not line.strip() or line.lstrip().startswith(("-", "*", "#"))):
            take = False
        if take:
            out.append(line.strip(" -*"))
        if len(" ".join(out)) > 700:
            break
    return " ".join(out)[:900]


def main():
    seeds = sys.argv[1:] or sorted(p.name for p in (V / "seeded").iterdir() if (p / "patch.diff").exists())
    results = json.loads((V / "seeded/RESULTS.json").read_text()) if (V / "seeded/RESULTS.json").exists() else {}
    for s in seeds:
        d = V / "seeded" / s
        pid = s.split("-")[0]
        if sh("git -C /repo status --porcelain --untracked-files=no").stdout.strip():
            print("/repo is dirty, stopping")
            return 2
        ap = sh(f"git -C /repo apply {d}/patch.diff")
        if ap.returncode:
            ap = sh(f"git -C /repo apply --3way {d}/patch.diff; git -C /repo reset -q")
        applied = not sh("git -C /repo diff --quiet").returncode == 0
        runs = []
        if applied:
            for p in [pid] + EXTRA.get(s, []):
                tier = TIER.get(s, "quick")
                t0 = time.time()
                r = sh(f"cd /verif && ./check {p} --tier {tier}", timeout=5400)
                lines = [x for x in r.stdout.splitlines() if x.startswith(("VIOLATION", "OK", "# "))]
                viol = [x for x in lines if x.startswith("VIOLATION")]
                concrete = [x for x in viol if not x.rstrip().endswith("no-failing-input-found")]
                first = next((x for x in lines if x.startswith("# ")), "")
                runs.append({"check": f"./check {p} --tier {tier}", "exit": r.returncode, "violations": len(viol), "with_failing_input": len(concrete),
                             "first_report": first[:400], "wall_s": round(time.time() - t0)})
                print(s, p, "exit", r.returncode, "violations", len(viol), "concrete", len(concrete), first[:150], flush=True)
        sh("git -C /repo checkout -- . ; git -C /repo reset -q")
        if s in RUST:
            sh("cd /verif && tools/build_native.sh", timeout=1800)     # the overlay extension is rebuilt from the restored Rust sources
        sh("rm -f /verif/replays/*")
        results[s] = {"applied": applied, "runs": runs}
        notes = (d / "notes.md").read_text() if (d / "notes.md").exists() else ""
        own = runs[0] if runs else {}
        meta = {
            "id": s, "property": pid,
            "origin": "produced by a fresh sub-agent that saw only the property text and a scratch worktree of /repo; confirmed by me: the demo fails with the patch and passes without it (tools/confirm_seed.sh), "
                      "the 205 tests pass with the patch (sub-agent's run, spot-checked)",
            "needs_to_manifest": needs_of(notes),
            "rust_rebuild_needed": s in RUST,
            "ran": [f"git -C /repo apply seeded/{s}/patch.diff"] + [r["check"] for r in runs] + ["git -C /repo checkout -- ."],
            "outcome": [{k: r[k] for k in ("check", "exit", "violations", "with_failing_input", "first_report")} for r in runs],
            "caught": bool(own and own.get("violations")), "caught_with_failing_input": bool(own and own.get("with_failing_input")),
        }
        (d / "meta.json").write_text(json.dumps(meta, indent=1))
        (V / "seeded/RESULTS.json").write_text(json.dumps(results, indent=1))
    return 0


if __name__ == "__main__":
    sys.exit(main())
