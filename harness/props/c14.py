"""C14 — iteration is lazy: read-ahead is bounded by the configured buffers."""
import json

from harness import common, combinators, iterlib
from harness.common import Broken, COQ, REPO
from translator import pygen

PID = "C14"
GENS = ["GenIter", "GenLazyPool", "GenPipeline"]   # GenPipeline: the structure of the interfaces the composed bounds are about


def bound(q, k, min_ex):
    """Shard files that may have been opened when the k-th example is handed over (every shard holds >= min_ex >= 1 examples)."""
    T, b, iface = q["file_parallelism"], q["shuffle"], q["iface"]
    if iface == "sync":
        # example-level shuffle buffer: at most k+b examples pulled from the chain, plus the shard being read
        return (k + b) // min_ex + 1 if b else k // min_ex + 1
    if iface == "concurrent":
        if b:
            return 3 * T + 2 + k          # pool in flight 2T+2, round-robin slots T, one per exhausted shard
        return T * (k // (T * min_ex) + 1) if min_ex else k + T
    if iface == "async":
        return T + k if b else k // min_ex + 1
    if iface == "tf" and T is None and not b:
        # as_tfdataset(file_parallelism=None) on fb/npz reads with one thread; tf.data itself may run a few elements ahead
        return k // min_ex + 1 + 4
    return None


def jobs_for(ctx, n):
    rng = ctx.rng
    jobs = []
    for _ in range(n):
        fmt = rng.choice(["fb", "npz"])
        spec = iterlib.gen_dataset(rng, fmt=fmt, min_shards=rng.choice([6, 9, 14]), max_sessions=2)
        reqs = []
        for iface in ("sync", "concurrent", "async"):
            for repeat in (True, False):
                sh = rng.choice([0, 0, 1, 3, 8])
                fp = rng.choice([1, 2, 3, 5])
                reqs.append({"iface": iface, "split": 0, "shuffle": sh, "repeat": repeat, "file_parallelism": fp,
                             "take": rng.choice([1, 2, 5, 12, 25]), "spy": True, "delay": 0.004})
        # no degree of parallelism given (None) to the tf.data interface of an fb/npz dataset: one reading thread
        reqs.append({"iface": "tf", "split": 0, "shuffle": 0, "repeat": False, "file_parallelism": None, "take": rng.choice([1, 2]), "spy": True, "delay": 0.004})
        # one slow shard at the head of the ordered readers: the other workers must not keep reading ahead meanwhile
        for iface in ("concurrent", "async"):
            reqs.append({"iface": iface, "split": 0, "shuffle": 0, "repeat": True, "file_parallelism": rng.choice([2, 3, 5]),
                         "take": rng.choice([1, 2, 5]), "spy": True, "delay": 0.004, "slow_first": 0.8})
        jobs.append({"dataset": spec, "requests": reqs})
    return jobs


def machine_opened(mcases):
    """For every ordered request: files opened by the batch machine (concurrent, T = file_parallelism) resp. the chain (sync, async) after k = 1..len pulls."""
    head = ["Require Import Sedpack.Model.Base Sedpack.Generated.GenIter Sedpack.Model.Iter Sedpack.Proofs.IterProofs Sedpack.Proofs.ChainProofs Sedpack.Proofs.BatchProofs.",
            "Definition rd (sizes : list nat) (p : nat) : list nat := repeat 0 (nth p sizes 0).",
            "Definition bo (src : @source nat) (s0 : s_state src) (sizes : list nat) (T n : nat) : list nat :=",
            "  map (fun k => match after (batch_source nat nat src (rd sizes) T) k (batch_init nat nat src s0) with Some s => b_opened nat nat src s | None => 0 end) (seq 1 n).",
            "Definition co (src : @source nat) (s0 : s_state src) (sizes : list nat) (n : nat) : list nat :=",
            "  map (fun k => match after (chain_source nat nat src (rd sizes)) k (chain_init nat nat src s0) with Some s => c_opened nat nat src s | None => 0 end) (seq 1 n)."]
    lines = []
    for _one, q, seen, sizes in mcases:
        n = len(sizes)
        src, s0 = (f"(cycle_source (seq 0 {n}) 0)", "0") if q["repeat"] else ("list_source", f"(seq 0 {n})")
        if q["iface"] == "concurrent":
            lines.append(f"Eval vm_compute in bo {src} {s0} {common.clist(sizes)} {q['file_parallelism']} {len(seen)}.")
        else:
            lines.append(f"Eval vm_compute in co {src} {s0} {common.clist(sizes)} {len(seen)}.")
    return common.coq_answers(common.coq_eval(PID, "machines", "\n".join(head + lines) + "\n"))


def run(ctx):
    broken = []
    tr = pygen.regenerate(REPO, COQ / "Generated", only=GENS)
    for g in GENS:
        if tr[g]:
            broken.append(Broken(f"translator: {g}", tr[g]))
    proof = None
    if not broken:
        try:
            proof = common.check_property_file(PID)
        except Broken as b:
            broken.append(b)
    jobs = jobs_for(ctx, ctx.scale(6, 60))
    res = iterlib.run_jobs(jobs, timeout=40)
    runs, nontrivial, worst, mcases = 0, set(), {}, []
    for job, r in zip(jobs, res):
        if "build_error" in r:
            ctx.report("harness", r["build_error"], {"job": job}, found_input=False)
            continue
        ref = r["reference"]["0"]
        min_ex = min([len(s[0]) for s in ref["shards"]] or [1]) or 1
        nshards = len(ref["shards"])
        for q, o in zip(job["requests"], r["results"]):
            if o.get("skipped"):
                continue
            runs += 1
            one = {"dataset": job["dataset"], "requests": [q]}
            if o.get("hang"):
                ctx.report("take-does-not-terminate", f"taking {q['take']} examples ({q}) did not return within the watchdog", {"job": one})
                continue
            if o.get("error"):
                ctx.report("iteration-error", f"{q}: {o['error']}", {"job": one})
                continue
            want_n = q["take"] if q["repeat"] else min(q["take"], len(ref["seq"]))
            if len(o["out"]) != want_n:
                ctx.report("take-short", f"{q}: asked for {q['take']} examples, got {len(o['out'])}", {"job": one})
            nontrivial.add(json.dumps([q["iface"], q["shuffle"], q["file_parallelism"], q["take"], q["repeat"], nshards]))
            if q["shuffle"] == 0 and q["iface"] in ("sync", "concurrent", "async") and o.get("opened_at_yield") and q.get("file_parallelism"):
                mcases.append((one, q, o["opened_at_yield"], [len(sh[0]) for sh in ref["shards"]]))
            for k, opened in enumerate(o.get("opened_at_yield", []), 1):
                bd = bound(q, k, min_ex)
                key = f"{q['iface']}:{'shuffled' if q['shuffle'] else 'ordered'}"
                worst[key] = max(worst.get(key, 0), opened - k)
                if bd is not None and opened > bd:
                    ctx.report(f"read-ahead-exceeds-bound:{q['iface']}:{'shuffled' if q['shuffle'] else 'ordered'}",
                               f"{q['iface']} shuffle={q['shuffle']} T={q['file_parallelism']} repeat={q['repeat']}: {opened} shard files opened when example {k} was handed over; "
                               f"bound from buffers alone is {bd} ({nshards} shards in the split)", {"job": one, "opened_at_yield": o["opened_at_yield"]})
                    break
    # the ordered readers as machines (Proofs/BatchProofs.v, ChainProofs.v): the exact number of files the machine has opened when the
    # k-th example is handed over, on the real shard sizes, is an upper envelope for what the spy saw
    mdis = 0
    if not any(tr.values()) and mcases:
        try:
            rc, log = common.coq_make(["Proofs/BatchProofs.vo"])
            if rc:
                raise Broken("Proofs/BatchProofs.v no longer compiles", log[-2000:])
            for (one, q, seen, _sz), mo in zip(mcases, machine_opened(mcases)):
                for k, (op, m) in enumerate(zip(seen, mo), 1):
                    if op > m:
                        mdis += 1
                        ctx.report(f"read-ahead-exceeds-model:{q['iface']}:ordered",
                                   f"{q['iface']} shuffle=0 T={q['file_parallelism']} repeat={q['repeat']}: {op} shard files opened when example {k} was handed over; "
                                   f"the reader as specified has opened {m} by then", {"job": one, "opened_at_yield": seen, "machine": list(mo)})
                        break
        except Broken as b:
            broken.append(b)
    dis, ncomb = 0, 0
    if not any(tr.values()):
        try:
            rc, log = common.coq_make(["Model/Iter.vo"])
            if rc:
                raise Broken("Model/Iter.v no longer compiles", log[-2000:])
            sb, rr, _r, br, dis = combinators.check(ctx, PID)
            ncomb = len(sb) + len(rr)
            broken += br
        except Broken as b:
            broken.append(b)
    if broken and not ctx.violations:
        b = broken[0]
        ctx.report(f"broken:{b.what}", b.what, {"unchecked": b.what, "detail": b.detail[-3000:]}, found_input=False)
    ctx.sample(jobs[0]["requests"][1])
    ctx.coverage.update({
        "obligations": proof["obligations"] if proof else 13, "discharged": proof["discharged"] if proof else 0,
        "theorems": proof["theorems"] if proof else [],
        "checker_cmd": "make -C coq Proofs/IterProofs.vo Proofs/LazyPoolBound.vo && coqc -Q coq Sedpack coq/Properties/C14.v (Print Assumptions under each theorem)",
        "trusted_base": common.TRUSTED_BASE_COMMON + [
            "theorems bound each combinator over arbitrary (also endless) sources and every interface as a composition (sync, ordered/shuffled concurrent, ordered/shuffled async); the shuffled concurrent composition assumes the coupling "
            "'round robin has pulled exactly what the pool has yielded' (generator semantics); the bounds used by the implementation oracle (e.g. 3T+2+k) are instances with m >= 1, checked on runs with a shard-open spy (audit hook); the ordered readers are machines with proved bounds (batch machine = the generated composition on finite lists) "
            "whose exact open counts on the real shard sizes are compared with the spy at every yield",
            "pull counts of the shuffle-buffer / round-robin machines are compared with the real generators at every yield",
            "Rust and tf.data read-ahead are not observed by the spy (native opens): oracle only"],
        "evaluations": runs + ncomb, "distinct_nontrivial": len(nontrivial) + ncomb,
        "rule": "take k in {1,2,5,12,25} examples from finite and repeating streams over splits of 6..20 shards, interface x shuffle x file_parallelism, slow consumer (4 ms per example), "
                "counting shard files opened at every yield; distinct by (interface, shuffle, T, k, repeat, shards)",
        "worst_opened_minus_yielded": worst, "ordered_requests_against_machine": len(mcases), "ordered_requests_exceeding_machine": mdis, "pipeline_runs": runs, "combinator_cases": ncomb, "model_vs_impl_disagreements": dis,
        "traces_validated_against_impl": ncomb - dis,
    })
    ctx.assumptions += ["every shard holds at least one example (C10)"]


def replay(ctx, rp):
    job = rp["replay"].get("job")
    if not job:
        print("no concrete input in this replay file:", rp["replay"].get("unchecked"))
        return False
    r = iterlib.run_jobs([job], timeout=40)[0]
    q, o = job["requests"][0], r["results"][0]
    ref = r["reference"]["0"]
    min_ex = min([len(s[0]) for s in ref["shards"]] or [1]) or 1
    print(json.dumps({"opened_at_yield": o.get("opened_at_yield"), "hang": o.get("hang"), "error": o.get("error")}))
    if o.get("hang") or o.get("error"):
        return False
    return all(bound(q, k, min_ex) is None or op <= bound(q, k, min_ex) for k, op in enumerate(o.get("opened_at_yield", []), 1))
