(** C16: the read loop feeds every hash exactly the file's bytes, whatever the read sizes. *)
Require Import Sedpack.Model.Base Sedpack.Generated.GenHash Sedpack.Model.HashStream.
From Coq Require Import NArith.

Section P.
  Variables (alg state digest : Type).
  Variable h_init : alg -> state.
  Variable h_update : state -> list byte -> state.
  Variable h_hex : state -> digest.
  Hypothesis update_app : forall s a b, h_update (h_update s a) b = h_update s (a ++ b).
  Hypothesis update_nil : forall s, h_update s [] = s.

  Lemma slice_fresh (i : nat) (file buf : list byte) :
    i <= length file -> hash_slice i (firstn i file ++ skipn i buf) = firstn i file.
  Proof.
    intros Hi. unfold hash_slice. rewrite firstn_app, firstn_length, Nat.min_l by exact Hi.
    rewrite Nat.sub_diag. simpl. rewrite app_nil_r. rewrite firstn_firstn, Nat.min_id. reflexivity.
  Qed.

  Lemma read_loop_all bufsize : 1 <= bufsize -> forall wants file buf hs,
    adequate wants file -> length buf = bufsize ->
    read_loop state h_update bufsize wants file buf hs = map (fun h => h_update h file) hs.
  Proof.
    intros Hb. induction wants as [|w rest IH]; intros file buf hs [Hw Hlen] Hbuf.
    - simpl in Hlen. lia.
    - inversion Hw as [|x y Hw1 Hwr]; subst. cbn [read_loop readinto].
      set (i := Nat.min (Nat.min w (length buf)) (length file)).
      destruct (Nat.eq_dec (length file) 0) as [Hz|Hnz].
      + (* end of file: readinto returns 0 *)
        assert (i = 0) by (unfold i; lia). rewrite H. unfold hash_sentinel. simpl.
        apply length_zero_iff_nil in Hz. subst file.
        rewrite <- (map_id hs) at 1. apply map_ext. intros h. symmetry. apply update_nil.
      + assert (Hfl : 1 <= length file) by lia.
        assert (Hi1 : 1 <= i) by (unfold i; lia). assert (Hi2 : i <= length file) by (unfold i; lia).
        assert (Hi3 : i <= length buf) by (unfold i; lia).
        unfold hash_sentinel. destruct (Nat.eqb_spec i 0) as [H0|_]; [lia|].
        rewrite slice_fresh by exact Hi2.
        rewrite IH.
        * rewrite map_map. apply map_ext. intros h. rewrite update_app, firstn_skipn. reflexivity.
        * split; [exact Hwr|]. rewrite skipn_length. simpl in Hlen. lia.
        * rewrite app_length, firstn_length, skipn_length. lia.
  Qed.

  Lemma hash_checksums_std_lemma bufsize : 1 <= bufsize -> forall wants file algs,
    adequate wants file ->
    hash_checksums alg state digest h_init h_update h_hex bufsize wants file algs
    = map (fun a => std_digest alg state digest h_init h_update h_hex a file) algs.
  Proof.
    intros Hb wants file algs Ha. unfold hash_checksums, std_digest.
    rewrite (read_loop_all bufsize Hb) by (auto; apply repeat_length).
    rewrite !map_map. reflexivity.
  Qed.

  (** The chunks handed to [update] concatenate to exactly the file. *)
  Lemma chunks_concat_lemma bufsize : 1 <= bufsize -> forall wants file buf,
    adequate wants file -> length buf = bufsize ->
    concat (chunks_fed bufsize wants file buf) = file.
  Proof.
    intros Hb. induction wants as [|w rest IH]; intros file buf [Hw Hlen] Hbuf.
    - simpl in Hlen. lia.
    - inversion Hw as [|x y Hw1 Hwr]; subst. cbn [chunks_fed readinto].
      set (i := Nat.min (Nat.min w (length buf)) (length file)).
      destruct (Nat.eq_dec (length file) 0) as [Hz|Hnz].
      + assert (i = 0) by (unfold i; lia). rewrite H. apply length_zero_iff_nil in Hz. subst file. reflexivity.
      + assert (Hfl : 1 <= length file) by lia.
        assert (Hi1 : 1 <= i) by (unfold i; lia). assert (Hi2 : i <= length file) by (unfold i; lia).
        assert (Hi3 : i <= length buf) by (unfold i; lia).
        unfold hash_sentinel. destruct (Nat.eqb_spec i 0) as [H0|_]; [lia|].
        simpl. rewrite slice_fresh by exact Hi2. rewrite IH.
        * apply firstn_skipn.
        * split; [exact Hwr|]. rewrite skipn_length. simpl in Hlen. lia.
        * rewrite app_length, firstn_length, skipn_length. lia.
  Qed.
End P.

(** The generated buffer size is positive. *)
Lemma bufsize_pos : 1 <= N.to_nat hash_bufsize.
Proof.
  assert (H : (1 <= hash_bufsize)%N) by (apply N.leb_le; reflexivity). lia.
Qed.
