"""C20 — reopening or relocating restores the full dataset; newer formats are refused."""
import json
import re

from harness import common, iterlib
from harness.common import Broken, COQ, REPO
from translator import pygen

PID = "C20"


def gen_triples(ctx, run):
    rng = ctx.rng
    a, b, c = run
    t = {(a, b, c), (a, b, c + 1), (a, b, max(0, c - 1)), (a, b + 1, 0), (a + 1, 0, 0), (a, max(0, b - 1), 99), (max(0, a - 1), 99, 99),
         (a, b, 10), (a, b, 69), (a, b, 100), (a, b, 699), (a, 10, 0), (10, 0, 0), (a, b, 9), (a, b, 8), (0, 0, 0), (a, b, 70), (a, b, 700), (a, 9, 9), (9, 9, 9)}
    for _ in range(ctx.scale(60, 600)):
        t.add((rng.choice([0, 0, 0, 1, 2, 10]), rng.choice([0, 0, 1, 5, 10, 12]), rng.choice([0, 1, 6, 7, 8, 9, 10, 11, 19, 65, 70, 100, 123, 699, 700])))
    return sorted(t)


def gen_tagged(run):
    """Recorded versions carrying a pre-release or build tag, with what SemVer precedence says about them: the core triple decides
    unless it equals the running one, where a pre-release is older and build metadata is ignored (so both load)."""
    a, b, c = run
    out = []
    for core in [(a, b, c), (a, b, c + 1), (a, b, max(0, c - 1)), (a, b + 1, 0), (a + 1, 0, 0), (a, b, 10 * c + 1)]:
        for tag in ["-rc.1", "-alpha", "-0.3.7", "-rc.1+build.5", "+build.5", "+20260101", "-x.7.z.92"]:
            out.append((".".join(map(str, core)) + tag, "refused" if core > (a, b, c) else "loads"))
    return out


def run(ctx):
    broken = []
    tr = pygen.regenerate(REPO, COQ / "Generated", only=["GenVersion"])
    running = (0, 0, 7)
    if tr["GenVersion"]:
        broken.append(Broken("translator: GenVersion (the version gate of _load no longer has the shape semver.Version.parse(recorded).compare(running) > 0)", tr["GenVersion"]))
    else:
        m = re.search(r"running_version : nat \* \(nat \* nat\) := \((\d+), \((\d+), (\d+)\)\)", (COQ / "Generated/GenVersion.v").read_text())
        running = tuple(int(x) for x in m.groups())
    proof = None
    if not broken:
        try:
            proof = common.check_property_file(PID)
        except Broken as b:
            broken.append(b)
    triples = gen_triples(ctx, running)
    rng = ctx.rng
    rjobs = [{"dataset": iterlib.gen_dataset(rng, fmt=rng.choice(["fb", "npz"]), min_shards=2, max_sessions=3)} for _ in range(ctx.scale(3, 25))]
    rjobs[0]["dataset"]["algs"] = []          # a dataset that records no checksums at all
    if len(rjobs) > 3:
        rjobs[3]["dataset"]["algs"] = ["md5", "sha512"]
    tagged = gen_tagged(running)
    res = common.run_impl("relocate_run.py", {"describe": {"seed": ctx.seed * 7919 + 1, "n": ctx.scale(40, 400)}, "relocate": rjobs, "versions": triples + [v for v, _ in tagged]}, timeout=2400)
    tagged_out = res["versions"]["outcomes"][len(triples):]
    res["versions"]["outcomes"] = res["versions"]["outcomes"][:len(triples)]
    for (v, want), o in zip(tagged, tagged_out):
        if o != want:
            ctx.report("version-gate-wrong-tagged", f"dataset recorded by {v}, running {res['versions']['running']}: {o}, expected {want} (SemVer precedence)", {"mode": "tagged", "version": v, "want": want})
    # 1. oracles on the implementation
    for i, d in enumerate(res["describe"]):
        for p in d["problems"]:
            ctx.report("description-not-restored", f"description #{i} ({d['format']}): {p}", {"mode": "describe", "seed": ctx.seed * 7919 + 1, "index": i})
    for job, r in zip(rjobs, res["relocate"]):
        if "build_error" in r:
            ctx.report("harness", r["build_error"], {"job": job}, found_input=False)
            continue
        for c in r["cases"]:
            if c["error"] or not c["same_before"] or not c["same_after"] or c["problems"]:
                ctx.report(f"relocated-dataset-differs:{c['target']}",
                           f"dataset copied/moved to a {c['target']} location: error={c['error']} same_before={c['same_before']} same_after_continued_writing={c['same_after']} problems={c['problems'][:2]}",
                           {"mode": "relocate", "job": job, "case": c})
    rv = tuple(int(x) for x in res["versions"]["running"].split("."))
    for t, o in zip(triples, res["versions"]["outcomes"]):
        want = "refused" if t > rv else "loads"
        if o != want:
            ctx.report("version-gate-wrong", f"dataset recorded by {'.'.join(map(str, t))}, running {res['versions']['running']}: {o}, expected {want}", {"mode": "versions", "triple": list(t)})
    # 2. correspondence of the gate model
    dis = 0
    if not tr["GenVersion"]:
        try:
            rc, log = common.coq_make(["Model/Version.vo"])
            if rc:
                raise Broken("Model/Version.v no longer compiles", log[-2000:])
            body = ["Require Import Sedpack.Model.Base Sedpack.Generated.GenVersion Sedpack.Model.Version.",
                    "Eval vm_compute in map (fun t => load_refused t running_version) [" + "; ".join(f"({a}, ({b}, {c}))" for a, b, c in triples) + "]."]
            ms = common.parse_coq_list(common.coq_eval(PID, "versions", "\n".join(body) + "\n"))
            for t, o, m in zip(triples, res["versions"]["outcomes"], ms):
                if (o == "refused") != bool(m):
                    dis += 1
                    if dis <= 2:
                        broken.append(Broken("correspondence version gate model vs Dataset(path)", json.dumps({"recorded": t, "impl": o, "model_refuses": m})))
        except Broken as b:
            broken.append(b)
    if broken and not ctx.violations:
        b = broken[0]
        ctx.report(f"broken:{b.what}", b.what, {"unchecked": b.what, "detail": b.detail[-3000:]}, found_input=False)
    ctx.sample({"triples": triples[:6]})
    ctx.sample({"relocation_targets": ["nested", "unicode", "blank", "non_nfc", "odd_names", "relative", "relative_then_chdir", "dotdot", "moved"]})
    ctx.coverage.update({
        "obligations": proof["obligations"] if proof else 4, "discharged": proof["discharged"] if proof else 0,
        "theorems": proof["theorems"] if proof else [],
        "checker_cmd": "make -C coq Proofs/VersionProofs.vo && coqc -Q coq Sedpack coq/Properties/C20.v (Print Assumptions under each theorem)",
        "trusted_base": common.TRUSTED_BASE_COMMON + [
            "modelled, not verified: pydantic/JSON serialisation is injective and parses back to an equal object (validated on generated descriptions), semver.Version.compare on plain triples (compared with the model on every generated triple)",
            "relocation invariance: the metadata model (Model/Meta.v) contains no root at all and C17 shows stored paths are relative; that every access is root/<relative path> is validated by relocating real datasets, not by theorem"],
        "evaluations": len(res["describe"]) + sum(len(r.get("cases", [])) for r in res["relocate"]) + len(triples),
        "distinct_nontrivial": len(triples) + len(res["describe"]),
        "rule": "descriptions: unicode/control/long text, nested JSON custom metadata at dataset, attribute and shard level (big ints, extreme floats, null, lists, maps), all formats x compressions x 0..4 algorithms; "
                "relocation: copy/move to nested, unicode (also not NFC-normalised), blank-containing, oddly named, relative, '..'-relative locations, then open/check/iterate/continue writing, compared with the original; "
                "versions: triples around the running version incl. multi-digit components",
        "descriptions": len(res["describe"]), "relocations": sum(len(r.get("cases", [])) for r in res["relocate"]), "version_triples": len(triples), "tagged_versions": len(tagged),
        "model_vs_impl_disagreements": dis, "traces_validated_against_impl": len(triples) - dis,
    })


def replay(ctx, rp):
    r = rp["replay"]
    if r.get("mode") == "versions":
        res = common.run_impl("relocate_run.py", {"versions": [r["triple"]]})["versions"]
        rv = tuple(int(x) for x in res["running"].split("."))
        print(res)
        return res["outcomes"][0] == ("refused" if tuple(r["triple"]) > rv else "loads")
    if r.get("mode") == "tagged":
        res = common.run_impl("relocate_run.py", {"versions": [r["version"]]})["versions"]
        print(res)
        return res["outcomes"][0] == r["want"]
    if r.get("mode") == "relocate":
        res = common.run_impl("relocate_run.py", {"relocate": [r["job"]]})["relocate"][0]
        print(json.dumps(res)[:2000])
        return all(not c["error"] and c["same_before"] and c["same_after"] and not c["problems"] for c in res.get("cases", []))
    if r.get("mode") == "describe":
        res = common.run_impl("relocate_run.py", {"describe": {"seed": r["seed"], "n": r["index"] + 1}})["describe"][r["index"]]
        print(res)
        return not res["problems"]
    print("no concrete input in this replay file:", r.get("unchecked"))
    return False
