(** C20 — Reopening or relocating restores the full dataset; newer formats are refused.
    Property theorems only; each is closed by [exact] of a lemma proved in Proofs/. *)
Require Import Sedpack.Model.Base Sedpack.Generated.GenVersion Sedpack.Model.Version Sedpack.Proofs.VersionProofs.

(** The gate found in [_load] (comparison regenerated from the source) refuses a dataset exactly
    when the recorded MAJOR.MINOR.PATCH is strictly newer than the running one — for all triples. *)
Theorem c20_version_gate :
  forall rec run : version, load_refused rec run = true <-> newer rec run.
Proof. exact version_gate_lemma. Qed.
Print Assumptions c20_version_gate.

Theorem c20_same_version_loads : forall v : version, load_refused v v = false.
Proof. exact same_version_loads_lemma. Qed.
Print Assumptions c20_same_version_loads.

(** Omitting fields that equal their default when dumping and restoring the default when a field
    is missing is the identity on every field value. *)
Theorem c20_defaults_roundtrip :
  forall (V : Type) (veqb : V -> V -> bool), (forall a b, veqb a b = true -> a = b) ->
  forall d v : V, restore V d (omit V veqb d v) = v.
Proof. exact defaults_roundtrip_lemma. Qed.
Print Assumptions c20_defaults_roundtrip.

Theorem c20_nonvacuous :
  load_refused (0, (0, 10)) (0, (0, 7)) = true /\ load_refused (0, (0, 8)) running_version = true /\
  load_refused (0, (0, 6)) running_version = false /\ load_refused (1, (0, 0)) (0, (9, 9)) = true /\
  load_refused (0, (9, 9)) (1, (0, 0)) = false.
Proof. vm_compute. repeat split. Qed.
Print Assumptions c20_nonvacuous.
