(** C15: the Rust parallel map returns the results in source order, never ends early, never
    deadlocks, keeps at most one task per thread outstanding — under every schedule. *)
Require Import Sedpack.Model.Base Sedpack.Model.ParMap.

Section P.
Variable n : nat.
Variable bad : nat -> bool.
Variable T : nat.
Hypothesis Tpos : 1 <= T.

Notation cnext := (cnext n).
Notation wnext := (wnext bad).
Notation pstep := (pstep n bad).
Notation pinit := (pinit n).
Notation preach := (preach n bad T).

(** The shape of the worker responsible for task [i]; [live = false]: there is no task [i]. *)
Definition shape (i : nat) (live : bool) (w : worker) : Prop :=
  if live then
    owes w = true /\
    ((inq w = [Some i] /\ wst w = WRecv /\ outq w = []) \/
     (inq w = [] /\ wst w = WBusy i /\ outq w = []) \/
     (inq w = [] /\ wst w = WRecv /\ outq w = [i]) \/
     (inq w = [] /\ wst w = WPanic /\ outq w = [] /\ bad i = true))
  else
    owes w = false /\ outq w = [] /\ ((wst w = WRecv /\ inq w = [None]) \/ (wst w = WExit /\ inq w = [])).

Fixpoint ringinv (i snt : nat) (r : list worker) : Prop :=
  match r with [] => True | w :: t => shape i (i <? snt) w /\ ringinv (S i) snt t end.

Record PInv (s : pstate) : Prop := {
  p_ring : ringinv (kdone s) (sent s) (ring s);
  p_sent : sent s = Nat.min n (kdone s + length (ring s));
  p_ret : returned s = seq 0 (kdone s);
  p_le : kdone s <= sent s;
  p_len : length (ring s) = Nat.min T n;
  p_done : cons s = CDone -> kdone s = n
}.

Lemma seq_snoc k : seq 0 k ++ [k] = seq 0 (S k).
Proof. rewrite seq_S. reflexivity. Qed.

Lemma ringinv_ext i snt snt' r : (forall j, i <= j < i + length r -> (j <? snt) = (j <? snt')) -> ringinv i snt r -> ringinv i snt' r.
Proof.
  revert i; induction r as [|w t IH]; intros i H Hr; simpl in *; [exact I|]. destruct Hr as [H1 H2]. split.
  - rewrite <- (H i) by lia. exact H1.
  - apply IH; [intros j Hj; apply H; lia | exact H2].
Qed.

Lemma ringinv_app i snt r w : ringinv i snt r -> shape (i + length r) (i + length r <? snt) w -> ringinv i snt (r ++ [w]).
Proof.
  revert i; induction r as [|x t IH]; intros i Hr Hw; simpl in *.
  - rewrite Nat.add_0_r in Hw. split; [exact Hw|exact I].
  - destruct Hr as [H1 H2]. split; [exact H1|]. apply IH; [exact H2|]. replace (S i + length t) with (i + S (length t)) by lia. exact Hw.
Qed.

Lemma ringinv_nth i snt r j w : ringinv i snt r -> nth_error r j = Some w -> shape (i + j) (i + j <? snt) w.
Proof.
  revert i j; induction r as [|x t IH]; intros i [|j] Hr Hn; simpl in *; try discriminate.
  - injection Hn as ->. rewrite Nat.add_0_r. exact (proj1 Hr).
  - replace (i + S j) with (S i + j) by lia. apply IH; [exact (proj2 Hr)|exact Hn].
Qed.

Lemma ringinv_upd i snt r j w' : ringinv i snt r -> j < length r -> shape (i + j) (i + j <? snt) w' -> ringinv i snt (upd_nth r j w').
Proof.
  revert i j; induction r as [|x t IH]; intros i [|j] Hr Hj Hw; simpl in *; try lia.
  - rewrite Nat.add_0_r in Hw. split; [exact Hw|exact (proj2 Hr)].
  - split; [exact (proj1 Hr)|]. apply IH; [exact (proj2 Hr) | lia |]. replace (S i + j) with (i + S j) by lia. exact Hw.
Qed.

Lemma upd_nth_length r j w : length (upd_nth r j w) = length r.
Proof. revert j; induction r; intros [|j]; simpl; auto. Qed.

Lemma ringinv_init i W snt : i + W <= snt -> ringinv i snt (map (fun j => {| inq := [Some j]; wst := WRecv; outq := []; owes := true |}) (seq i W)).
Proof.
  revert i; induction W as [|W IH]; intros i H; simpl; [exact I|]. split.
  - assert (E : (i <? snt) = true) by (apply Nat.ltb_lt; lia). rewrite E. simpl. split; [reflexivity|]. left. auto.
  - apply IH. lia.
Qed.

Lemma pinv_init : PInv (pinit T).
Proof.
  unfold ParMap.pinit. constructor; simpl.
  - apply ringinv_init. lia.
  - rewrite map_length, seq_length. lia.
  - reflexivity.
  - lia.
  - rewrite map_length, seq_length. reflexivity.
  - discriminate.
Qed.

(** a worker step keeps the worker's shape *)
Lemma wnext_shape i live w w' : shape i live w -> wnext w = Some w' -> shape i live w'.
Proof.
  unfold shape, ParMap.wnext. destruct live.
  - intros (Ho & [(H1 & H2 & H3)|[(H1 & H2 & H3)|[(H1 & H2 & H3)|(H1 & H2 & H3 & H4)]]]); rewrite H2.
    + rewrite H1. intros E. injection E as <-. simpl. split; [exact Ho|]. right. left. auto.
    + destruct (bad i) eqn:Eb; intros E; injection E as <-; simpl; (split; [exact Ho|]).
      * right. right. right. auto.
      * right. right. left. rewrite H3. auto.
    + rewrite H1. discriminate.
    + discriminate.
  - intros (Ho & Hq & [(H1 & H2)|(H1 & H2)]); rewrite H1.
    + rewrite H2. intros E. injection E as <-. simpl. repeat split; auto.
    + discriminate.
Qed.

Lemma pinv_step s t s' : PInv s -> pstep s t = Some s' -> PInv s'.
Proof.
  intros [Hr Hs Hret Hle Hlen Hd] Hst. destruct t as [|j]; simpl in Hst.
  - unfold ParMap.cnext in Hst. destruct (cons s) eqn:Ec; try discriminate.
    destruct (ring s) as [|w r] eqn:Er.
    + injection Hst as <-. constructor; simpl; rewrite ?Er; auto. intros _. simpl in *. lia.
    + simpl in Hr. destruct Hr as [Hw Hrest]. simpl in Hs, Hlen.
      destruct (outq w) as [|i' o'] eqn:Eo.
      * destruct (gone w) eqn:Eg; [|discriminate]. injection Hst as <-. constructor; simpl; rewrite ?Er; simpl; auto.
        unfold shape in Hw. destruct (kdone s <? sent s) eqn:El.
        -- destruct Hw as (Ho & _). rewrite Ho. discriminate.
        -- destruct Hw as (Ho & _). rewrite Ho. intros _. apply Nat.ltb_ge in El. lia.
      * (* deliver the result of task kdone *)
        unfold shape in Hw. destruct (kdone s <? sent s) eqn:El.
        2:{ destruct Hw as (_ & Hq & _). congruence. }
        destruct Hw as (Ho & [(H1 & H2 & H3)|[(H1 & H2 & H3)|[(H1 & H2 & H3)|(H1 & H2 & H3 & H4)]]]); try congruence.
        rewrite H3 in Eo. injection Eo as <- <-. apply Nat.ltb_lt in El.
        injection Hst as <-.
        destruct (sent s <? n) eqn:Em; [apply Nat.ltb_lt in Em | apply Nat.ltb_ge in Em].
        -- (* one more task is handed out *)
           assert (Hsent : sent s = kdone s + S (length r)) by lia.
           constructor; simpl.
           ++ apply ringinv_app.
              ** apply (ringinv_ext (S (kdone s)) (sent s)); [|exact Hrest].
                 intros j Hj. destruct (Nat.ltb_spec j (sent s)), (Nat.ltb_spec j (S (sent s))); try reflexivity; lia.
              ** assert (E : (S (kdone s) + length r <? S (sent s)) = true) by (apply Nat.ltb_lt; lia). rewrite E.
                 unfold shape. simpl. split; [reflexivity|]. left. rewrite H1. simpl.
                 replace (S (kdone s + length r)) with (sent s) by lia. auto.
           ++ rewrite app_length. simpl. lia.
           ++ rewrite Hret. exact (seq_snoc (kdone s)).
           ++ lia.
           ++ rewrite app_length. simpl. lia.
           ++ discriminate.
        -- (* the source is exhausted: tell the thread to finish *)
           constructor; simpl.
           ++ apply ringinv_app; [exact Hrest|].
              assert (E : (S (kdone s) + length r <? sent s) = false) by (apply Nat.ltb_ge; lia). rewrite E.
              unfold shape. simpl. rewrite H1. simpl. repeat split; auto.
           ++ rewrite app_length. simpl. lia.
           ++ rewrite Hret. exact (seq_snoc (kdone s)).
           ++ lia.
           ++ rewrite app_length. simpl. lia.
           ++ discriminate.
  - destruct (nth_error (ring s) j) as [w|] eqn:En; [|discriminate].
    destruct (wnext w) as [w'|] eqn:Ew; [|discriminate]. injection Hst as <-.
    assert (Hj : j < length (ring s)) by (apply nth_error_Some; congruence).
    constructor; simpl; rewrite ?upd_nth_length; auto.
    apply ringinv_upd; [exact Hr | exact Hj |]. eapply wnext_shape; [|exact Ew]. eapply ringinv_nth; eauto.
Qed.

Lemma preach_inv s : preach s -> PInv s.
Proof. induction 1; [apply pinv_init | eapply pinv_step; eauto]. Qed.

(** results come back in source order; a pass that ends has delivered every task; at most one task
    per thread is outstanding *)
Theorem parmap_exact_lemma s : preach s ->
  returned s = seq 0 (kdone s) /\ (cons s = CDone -> kdone s = n) /\ sent s <= kdone s + Nat.min T n /\ kdone s <= sent s <= n.
Proof.
  intros Hr. destruct (preach_inv s Hr) as [H1 H2 H3 H4 H5 H6]. repeat split; auto; lia.
Qed.

(** the consumer or some worker can always move while the pass is running *)
Theorem parmap_progress_lemma s : preach s -> cons s = CRun -> exists t s', pstep s t = Some s'.
Proof.
  intros Hr Hc. destruct (preach_inv s Hr) as [H1 H2 H3 H4 H5 H6].
  destruct (ring s) as [|w r] eqn:Er.
  - exists 0. simpl. unfold ParMap.cnext. rewrite Hc, Er. eauto.
  - simpl in H1. destruct H1 as [Hw _]. unfold shape in Hw.
    destruct (kdone s <? sent s).
    + destruct Hw as (Ho & [(A & B & C)|[(A & B & C)|[(A & B & C)|(A & B & C & D)]]]).
      * exists 1. simpl. rewrite Er. simpl. unfold ParMap.wnext. rewrite B, A. eauto.
      * exists 1. simpl. rewrite Er. simpl. unfold ParMap.wnext. rewrite B. destruct (bad (kdone s)); eauto.
      * exists 0. simpl. unfold ParMap.cnext. rewrite Hc, Er, C. eauto.
      * exists 0. simpl. unfold ParMap.cnext. rewrite Hc, Er, C. unfold gone. rewrite B. eauto.
    + destruct Hw as (Ho & Hq & [(A & B)|(A & B)]).
      * exists 1. simpl. rewrite Er. simpl. unfold ParMap.wnext. rewrite A, B. eauto.
      * exists 0. simpl. unfold ParMap.cnext. rewrite Hc, Er, Hq. unfold gone. rewrite A. eauto.
Qed.

Lemma in_upd_nth (r : list worker) j w' w0 : List.In w0 (upd_nth r j w') -> w0 = w' \/ List.In w0 r.
Proof.
  revert j; induction r as [|h tl IH]; intros [|j] H; simpl in *; auto.
  - destruct H as [<-|H]; auto.
  - destruct H as [<-|H]; auto. destruct (IH j H); auto.
Qed.

(** no result of a panicking task is ever in a result channel *)
Lemma outq_good s : preach s -> forall w0 x, List.In w0 (ring s) -> List.In x (outq w0) -> bad x = false.
Proof.
  induction 1 as [|sa ta sb Ha IHa Hsa]; intros w0 x Hw0 Hx.
  - unfold ParMap.pinit in Hw0. simpl in Hw0. apply in_map_iff in Hw0. destruct Hw0 as (j & <- & _). destruct Hx.
  - destruct ta as [|ja]; simpl in Hsa.
    + unfold ParMap.cnext in Hsa. destruct (cons sa); try discriminate.
      destruct (ring sa) as [|wa ra] eqn:Era.
      * injection Hsa as <-. destruct Hw0.
      * destruct (outq wa) as [|ia oa] eqn:Eoa.
        -- destruct (gone wa); [|discriminate]. injection Hsa as <-. simpl in Hw0. apply (IHa w0 x Hw0 Hx).
        -- injection Hsa as <-. simpl in Hw0. apply in_app_or in Hw0. destruct Hw0 as [Hw0|[<-|[]]].
           ++ apply (IHa w0 x); [right; exact Hw0|exact Hx].
           ++ simpl in Hx. apply (IHa wa x); [left; reflexivity | rewrite Eoa; right; exact Hx].
    + destruct (nth_error (ring sa) ja) as [wa|] eqn:En; [|discriminate].
      destruct (ParMap.wnext bad wa) as [wa'|] eqn:Ewa; [|discriminate]. injection Hsa as <-. simpl in Hw0.
      destruct (in_upd_nth _ _ _ _ Hw0) as [->|Hin]; [|apply (IHa w0 x Hin Hx)].
      unfold ParMap.wnext in Ewa. apply nth_error_In in En.
      destruct (wst wa) eqn:Est; try discriminate.
      * destruct (inq wa) as [|[a|] q]; try discriminate; injection Ewa as <-; simpl in Hx; apply (IHa wa x En Hx).
      * destruct (bad i) eqn:Ebi; injection Ewa as <-; simpl in Hx; [apply (IHa wa x En Hx)|].
        apply in_app_or in Hx. destruct Hx as [Hx|[<-|[]]]; [apply (IHa wa x En Hx) | exact Ebi].
Qed.

(** a panicking task is never swallowed: the pass cannot end normally *)
Theorem parmap_failure_lemma s i : preach s -> i < n -> bad i = true -> cons s = CDone -> False.
Proof.
  intros Hr Hi Hb Hc.
  assert (Hk : forall s0, preach s0 -> kdone s0 <= i).
  { intros s0 H0. induction H0 as [|s1 t s2 H1 IH Hst]; [simpl; lia|].
    destruct t as [|j]; simpl in Hst.
    - unfold ParMap.cnext in Hst. destruct (cons s1); try discriminate.
      destruct (ring s1) as [|w r] eqn:Er; [injection Hst as <-; exact IH|].
      destruct (outq w) as [|i' o'] eqn:Eo; [destruct (gone w); [injection Hst as <-; exact IH|discriminate]|].
      injection Hst as <-. simpl.
      destruct (preach_inv s1 H1) as [Hr1 _ _ _ _ _]. rewrite Er in Hr1. simpl in Hr1. destruct Hr1 as [Hw _]. unfold shape in Hw.
      destruct (kdone s1 <? sent s1); [|destruct Hw as (_ & Hq & _); congruence].
      destruct Hw as (_ & [(A & B & C)|[(A & B & C)|[(A & B & C)|(A & B & C & D)]]]); try congruence.
      destruct (Nat.eq_dec (kdone s1) i) as [E|E]; [|lia]. exfalso.
      assert (Hg : bad (kdone s1) = false).
      { apply (outq_good s1 H1 w (kdone s1)); [rewrite Er; left; reflexivity | rewrite C; left; reflexivity]. }
      congruence.
    - destruct (nth_error (ring s1) j); [|discriminate]. destruct (ParMap.wnext bad w); [|discriminate]. injection Hst as <-. exact IH. }
  destruct (preach_inv s Hr) as [_ _ _ _ _ Hd]. specialize (Hd Hc). specialize (Hk s Hr). lia.
Qed.
End P.
