(** C16 — Recorded checksums are the standard digests of the exact file bytes.
    Property theorems only; each is closed by [exact] of a lemma proved in Proofs/. *)
Require Import Sedpack.Model.Base Sedpack.Generated.GenHash Sedpack.Model.HashStream Sedpack.Proofs.HashProofs.
From Coq Require Import NArith.

(** For every family of streaming hash objects obeying the streaming law, every file content,
    every tuple of algorithms (any order, repetitions included) and every adequate sequence of
    read sizes (short reads allowed), [hash_checksums] with the buffer size found in the source
    returns, position by position, the standard digest of the complete file content. *)
Theorem c16_hash_checksums_std :
  forall (alg state digest : Type) (h_init : alg -> state) (h_update : state -> list byte -> state)
         (h_hex : state -> digest),
    (forall s a b, h_update (h_update s a) b = h_update s (a ++ b)) ->
    (forall s, h_update s [] = s) ->
    forall (wants : list nat) (file : list byte) (algs : list alg),
      adequate wants file ->
      hash_checksums alg state digest h_init h_update h_hex (N.to_nat hash_bufsize) wants file algs
      = map (fun a => std_digest alg state digest h_init h_update h_hex a file) algs.
Proof.
  intros alg state digest h_init h_update h_hex Happ Hnil.
  exact (hash_checksums_std_lemma alg state digest h_init h_update h_hex Happ Hnil _ bufsize_pos).
Qed.
Print Assumptions c16_hash_checksums_std.

(** The same for every positive buffer size (the constant in the source is not special). *)
Theorem c16_any_buffer_size :
  forall (alg state digest : Type) (h_init : alg -> state) (h_update : state -> list byte -> state)
         (h_hex : state -> digest),
    (forall s a b, h_update (h_update s a) b = h_update s (a ++ b)) ->
    (forall s, h_update s [] = s) ->
    forall (bufsize : nat), 1 <= bufsize ->
    forall (wants : list nat) (file : list byte) (algs : list alg),
      adequate wants file ->
      hash_checksums alg state digest h_init h_update h_hex bufsize wants file algs
      = map (fun a => std_digest alg state digest h_init h_update h_hex a file) algs.
Proof. exact hash_checksums_std_lemma. Qed.
Print Assumptions c16_any_buffer_size.

(** What is handed to [update], chunk after chunk, concatenates to exactly the file. *)
Theorem c16_chunks_concat :
  forall (bufsize : nat), 1 <= bufsize ->
  forall (wants : list nat) (file buf : list byte),
    adequate wants file -> length buf = bufsize -> concat (chunks_fed bufsize wants file buf) = file.
Proof. exact chunks_concat_lemma. Qed.
Print Assumptions c16_chunks_concat.

(** Non-vacuity: a toy hash (state = the bytes seen) satisfies the hypotheses; a 10-byte file read
    through a 4-byte buffer with short reads and a repeated algorithm gives the expected tuple. *)
Theorem c16_nonvacuous :
  let file := [1; 2; 3; 4; 5; 6; 7; 8; 9; 10] in
  let wants := [3; 9; 1; 4; 4; 4; 4; 4; 4; 4; 4] in
  adequate wants file /\
  chunks_fed 4 wants file (repeat 0 4) = [[1; 2; 3]; [4; 5; 6; 7]; [8]; [9; 10]] /\
  hash_checksums nat (list byte) (list byte) (fun a => [a]) (@app byte) (fun s => s) 4 wants file [7; 8; 7]
  = [7 :: file; 8 :: file; 7 :: file].
Proof.
  cbv zeta. split; [split; [repeat constructor | simpl; lia]|]. split; vm_compute; reflexivity.
Qed.
Print Assumptions c16_nonvacuous.
