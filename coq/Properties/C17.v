(** C17 — Paths taken from metadata cannot escape the dataset directory.
    Property theorems only; each is closed by [exact] of a lemma proved in Proofs/. *)
Require Import Sedpack.Model.Paths Sedpack.Generated.GenPaths Sedpack.Proofs.PathProofs.

(** For every root directory (absolute, normalised) and every path string whatsoever: if the
    [FileInfo] validator (generated from file_info.py) accepts the string, the location
    [root / path] that opening, checking or iterating reads lies inside the root.  This covers
    shard files and, because a [ShardListInfo] holds a [FileInfo], child shard lists. *)
Theorem c17_fileinfo_path_inside :
  forall (root : ppath) (s : string),
    root_ok root = true -> fileinfo_rejects (parse s) = false -> inside root (join root (parse s)) = true.
Proof. exact fileinfo_inside_lemma. Qed.
Print Assumptions c17_fileinfo_path_inside.

(** The same for [ShardsList.relative_path_self]. *)
Theorem c17_shardslist_path_inside :
  forall (root : ppath) (s : string),
    root_ok root = true -> shardslist_rejects (parse s) = false -> inside root (join root (parse s)) = true.
Proof. exact shardslist_inside_lemma. Qed.
Print Assumptions c17_shardslist_path_inside.

(** The writer's sub-directory option: for every accepted argument, the shard file
    [root / split / sub / name] and the list file next to it are inside the root. *)
Theorem c17_filler_subdirectory_inside :
  forall (root : ppath) (split sub fname : string),
    root_ok root = true -> String.eqb ".." split = false -> String.eqb ".." fname = false ->
    filler_rejects (parse sub) = false ->
    inside root (join (join (join root (plain split)) (parse sub)) (plain fname)) = true.
Proof. exact filler_inside_lemma. Qed.
Print Assumptions c17_filler_subdirectory_inside.

(** Non-vacuity: the hypotheses are satisfiable, and without them the escape is real. *)
Theorem c17_nonvacuous :
  let root := parse "/data/set" in
  root_ok root = true /\ fileinfo_rejects (parse "train/./a//b.fb") = false /\
  fileinfo_rejects (parse "/etc/passwd") = true /\ fileinfo_rejects (parse "a/../../b") = true /\
  inside root (join root (parse "/etc/passwd")) = false /\
  inside root (join root (parse "train/../../other/x")) = false.
Proof. vm_compute. repeat split. Qed.
Print Assumptions c17_nonvacuous.
