(** The filler neither loses, duplicates nor reorders: per split, the concatenation of the
    recorded shards is exactly the list of accepted writes, in caller order. *)
Require Import Sedpack.Model.Base Sedpack.Generated.GenFiller Sedpack.Model.Filler Sedpack.Proofs.FillerProofs.

Definition open_ex (st : fstate) (s : split) : list nat :=
  match f_open st s with Some p => sh_ex (p_shard p) | None => [] end.
Definition written_of (st : fstate) (s : split) : list nat :=
  flat_map sh_ex (closed_of s (f_closed st)) ++ open_ex st s.

Lemma flat_map_app' {A B} (f : A -> list B) l1 l2 : flat_map f (l1 ++ l2) = flat_map f l1 ++ flat_map f l2.
Proof. induction l1; simpl; [reflexivity|]. rewrite IHl1, app_assoc. reflexivity. Qed.

Section X.
Variable eps : nat.

Lemma write_example_written st s cm ok s' :
  written_of (fst (write_example eps st s cm ok)) s' =
  written_of st s' ++ (if split_eqb s s' && ok then [f_clock st] else []).
Proof.
  unfold write_example, written_of, open_ex. rewrite order_is.
  destruct (f_open st s) as [p|] eqn:Eop;
    cbn [run_tags exec_tag w_prog w_closed w_next p_shard p_written];
    match goal with |- context [rollover ?a ?b ?c] => destruct (rollover a b c) end;
    (destruct cm as [o|]; [destruct (meta_truthy (hget (f_heap st) o))|]);
    cbn [w_prog w_closed w_next p_shard p_written sh_id sh_ex sh_n sh_meta sh_vals fresh_shard];
    destruct ok; cbn [fst f_open f_closed w_prog w_closed w_next p_shard p_written sh_id sh_ex sh_n sh_meta sh_vals fresh_shard];
    unfold upd_open; rewrite ?closed_of_app, ?flat_map_app';
    (destruct (split_eqb_spec s s') as [<-|Hne];
     [ destruct (split_eqb_spec s s) as [_|Hc]; [|congruence];
       rewrite ?closed_of_single_eq, ?Eop; simpl; rewrite ?app_nil_r, <- ?app_assoc; reflexivity
     | destruct (split_eqb_spec s' s) as [Hc|_]; [congruence|];
       rewrite ?closed_of_single_neq by congruence; simpl; rewrite ?app_nil_r; reflexivity ]).
Qed.

Lemma step_written st o s' :
  written_of (step eps st o) s' =
  written_of st s' ++ match o with WWrite s _ ok => if split_eqb s s' && ok then [f_clock st] else [] | _ => [] end.
Proof.
  destruct o as [s cm ok|ob v]; [apply write_example_written|]. unfold written_of, open_ex; simpl. rewrite app_nil_r. reflexivity.
Qed.

Lemma step_clock st o : f_clock (step eps st o) = S (f_clock st).
Proof.
  destruct o as [s cm ok|ob v]; [|reflexivity]. unfold step, write_example.
  destruct (f_open st s); destruct (run_tags _ _ _ _ _ _ _ _ _); reflexivity.
Qed.

Lemma fold_written ops st s' :
  written_of (fold_left (step eps) ops st) s' = written_of st s' ++ accepted s' ops (f_clock st).
Proof.
  revert st; induction ops as [|o ops IH]; intros st; simpl; [rewrite app_nil_r; reflexivity|].
  rewrite IH, step_written, step_clock, <- app_assoc. destruct o; reflexivity.
Qed.

Hypothesis eps_pos : 1 <= eps.

(** At exit every open shard with examples is closed; shards without examples hold none. *)
Lemma exit_flat st s : Inv eps st -> (forall s p, f_open st s = Some p -> In s (f_order st)) ->
  flat_map sh_ex (closed_of s (exit_closes st)) = open_ex st s.
Proof.
  intros HI Hin. rewrite exit_closes_eq. unfold open_ex.
  destruct (f_open st s) as [p|] eqn:Eop.
  - specialize (Hin s p Eop). pose proof (i_nodup _ _ HI) as Hnd.
    induction (f_order st) as [|s' l IH]; [destruct Hin|].
    simpl. rewrite closed_of_app, flat_map_app'. inversion Hnd as [|x y Hni Hl]; subst.
    destruct (split_eqb_spec s' s) as [->|Hne].
    + rewrite (closed_of_exit_notin st s l Hni). simpl. rewrite app_nil_r.
      unfold exit_one. rewrite Eop.
      destruct (close_on_exit (p_written p)) eqn:Ec.
      * rewrite closed_of_single_eq. simpl. apply app_nil_r.
      * simpl. destruct (i_open _ _ HI s p Eop) as (H1 & _ & _).
        destruct (p_written p) as [|w]; [destruct (sh_ex (p_shard p)); [reflexivity|discriminate]|].
        unfold close_on_exit in Ec. (* the generated exit test is [0 < written] *)
        exfalso. apply Nat.ltb_ge in Ec. lia.
    + rewrite closed_of_exit_one_neq by exact Hne. simpl. apply IH; [|exact Hl].
      destruct Hin as [Hc|Hin]; [congruence|exact Hin].
  - rewrite closed_of_exit_notin; [reflexivity|]. apply (i_order _ _ HI), Eop.
Qed.

Definition InOrder (st : fstate) : Prop := forall s p, f_open st s = Some p -> In s (f_order st).

Lemma step_in_order st o : InOrder st -> InOrder (step eps st o).
Proof.
  intros H. destruct o as [s cm ok|ob v]; [|exact H].
  unfold step, write_example.
  destruct (f_open st s) as [p|] eqn:Eop;
    destruct (run_tags _ _ _ _ _ _ _ _ _) as [c raised]; cbn [fst];
    intros s' p'; cbn [f_open f_order]; unfold upd_open;
    (destruct (split_eqb_spec s' s) as [->|Hne]; [intros _ | intros E; specialize (H s' p' E)]).
  - apply (H s p Eop).
  - exact H.
  - apply in_or_app. right. left. reflexivity.
  - apply in_or_app. left. exact H.
Qed.

Lemma run_in_order ops : InOrder (run_ops eps ops).
Proof.
  unfold run_ops. assert (H0 : InOrder init_fstate) by (intros s p; discriminate).
  revert H0. generalize init_fstate. induction ops as [|o ops IH]; simpl; intros st H; [exact H|].
  apply IH, step_in_order, H.
Qed.

Lemma filler_exact_lemma ops s : recorded eps ops s = accepted s ops 0.
Proof.
  unfold recorded, session_closed. rewrite closed_of_app, flat_map_app'.
  rewrite (exit_flat _ s (run_inv eps eps_pos ops) (run_in_order ops)).
  change (written_of (run_ops eps ops) s = accepted s ops 0).
  unfold run_ops. rewrite fold_written. reflexivity.
Qed.
End X.
