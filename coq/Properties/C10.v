(** C10 — Shards respect the configured size.
    Property theorems only; each is closed by [exact] of a lemma proved in Proofs/. *)
Require Import Sedpack.Model.Base Sedpack.Generated.GenFiller Sedpack.Model.Filler Sedpack.Proofs.FillerProofs.

(** For every shard size >= 1 and every sequence of caller operations inside a filler context
    (writes to any interleaving of splits, with or without metadata, accepted or rejected by the
    shard writer, and caller-side mutations of metadata objects), every shard that the session
    records (closed by a roll-over or by leaving the context) holds between 1 and
    [examples_per_shard] examples and records exactly that number. *)
Theorem c10_closed_sizes_ok :
  forall (eps : nat), 1 <= eps -> forall (ops : list wop), sizes_ok eps ops = true.
Proof. exact sizes_ok_lemma. Qed.
Print Assumptions c10_closed_sizes_ok.

(** Within one session and split, if [metadata_changed] never fired for that split, every shard
    except the last one recorded for the split is full. *)
Theorem c10_all_but_last_full :
  forall (eps : nat), 1 <= eps -> forall (ops : list wop) (s : split),
    changed_in eps ops s = false -> all_but_last_full eps ops s = true.
Proof. exact all_but_last_full_lemma. Qed.
Print Assumptions c10_all_but_last_full.

(** Non-vacuity: a concrete session with roll-overs, a metadata change, a rejected write and two
    splits produces five shards, satisfies the hypotheses, and one split has a short last shard. *)
Theorem c10_nonvacuous :
  let ops := [WMutate 1 7; WWrite Train (Some 1) true; WWrite Train None true; WWrite Test None true;
              WMutate 2 9; WWrite Train (Some 2) true; WWrite Train None true; WWrite Train None false;
              WWrite Train None true; WWrite Train None true; WWrite Test None true; WWrite Test None true] in
  length (session_closed 3 ops) = 4 /\ changed_in 3 ops Test = false /\ changed_in 3 ops Train = true
  /\ map (fun sh => length (sh_ex sh)) (closed_of Test (session_closed 3 ops)) = [3]
  /\ map (fun sh => length (sh_ex sh)) (closed_of Train (session_closed 3 ops)) = [2; 3; 1].
Proof. vm_compute. repeat split; reflexivity. Qed.
Print Assumptions c10_nonvacuous.
