#!/bin/sh
# Re-check every compiled property library (and all it depends on) with the independent checker; print the context summary.
cd "$(dirname "$(readlink -f "$0")")/../coq" || exit 2
timeout 3600 coqchk -silent -o -Q . Sedpack $(ls Properties/*.v | sed 's|Properties/\(.*\)\.v|Sedpack.Properties.\1|') 2>&1 | grep -v "^$" | tail -12
