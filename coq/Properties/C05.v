(** C05 — Integrity check accepts every committed dataset and detects every modification.
    Property theorems only; each is closed by [exact] of a lemma proved in Proofs/.
    Model/Integrity.v is an abstract model of [Dataset.check] whose shape (digest of the list file,
    then the children named by the file on disk, then every shard the iterator finds) is pinned
    against the source by the translator (Generated/GenCheck.v). *)
Require Import Sedpack.Model.Base Sedpack.Model.Integrity Sedpack.Proofs.IntegrityProofs Sedpack.Generated.GenCheck.
Require Sedpack.Model.Meta Sedpack.Proofs.CheckProofs.
Import Sedpack.Proofs.CheckProofs.

(** Accepting: a committed tree (recorded digests are the digests of the stored documents and
    shard files, recursively) passes the check. *)
Theorem c05_check_accepts_committed :
  forall (digest : Type) (deqb : digest -> digest -> bool), (forall a b, deqb a b = true <-> a = b) ->
  forall (Hl : ldoc digest -> digest) (fuel : nat) (fs0 : fsys digest) (p : path) (d : digest),
    committed digest Hl fuel fs0 p d ->
    check_lists digest deqb Hl fuel fs0 p d = true /\ check_shards digest deqb fuel fs0 p = true.
Proof. exact committed_passes. Qed.
Print Assumptions c05_check_accepts_committed.

(** Detecting: let [fs0] be the committed file system and [fs'] ANY file system (files altered,
    removed, truncated, extended, swapped, rolled back — anything).  If the check passes on [fs']
    against the committed description, then at every directory reachable from the description
    [fs'] holds exactly the committed list document, and every shard it lists has in [fs'] the
    committed digest.  Contrapositive: changing any reachable list file or shard file (so that its
    digest changes) makes the check fail.  Hypothesis: digests are injective on list documents. *)
Theorem c05_check_detects_every_modification :
  forall (digest : Type) (deqb : digest -> digest -> bool), (forall a b, deqb a b = true <-> a = b) ->
  forall (Hl : ldoc digest -> digest), (forall a b, Hl a = Hl b -> a = b) ->
  forall (fuel : nat) (fs0 fs' : fsys digest) (p : path) (d : digest) (q : path),
    committed digest Hl fuel fs0 p d ->
    check_lists digest deqb Hl fuel fs' p d = true -> check_shards digest deqb fuel fs' p = true ->
    reach_list digest fuel fs0 p q ->
    exists doc, f_list digest fs0 q = Some doc /\ f_list digest fs' q = Some doc /\
      forall s, List.In s (ld_shards digest doc) -> f_shard digest fs' q (fst s) = Some (snd s).
Proof. exact check_detects. Qed.
Print Assumptions c05_check_detects_every_modification.

(** Non-vacuity: a two-level committed tree over digests = documents themselves (identity hash on
    a concrete encoding) passes; altering a nested shard's digest or a nested list makes it fail. *)
Definition enc (d : ldoc nat) : nat :=
  fold_left (fun a x => a * 7 + fst x * 3 + snd x + 1) (ld_shards nat d) 5 + 1000 * fold_left (fun a x => a * 11 + fst x * 5 + snd x + 2) (ld_children nat d) 3.
Definition child : ldoc nat := {| ld_shards := [(1, 41); (2, 42)]; ld_children := [] |}.
Definition top : ldoc nat := {| ld_shards := [(3, 43)]; ld_children := [(9, enc child)] |}.
Definition good : fsys nat :=
  {| f_list := fun p => match p with [] => Some top | [9] => Some child | _ => None end;
     f_shard := fun p n => match p, n with [], 3 => Some 43 | [9], 1 => Some 41 | [9], 2 => Some 42 | _, _ => None end |}.
Definition bad_shard : fsys nat :=
  {| f_list := f_list nat good; f_shard := fun p n => match p, n with [9], 2 => Some 99 | _, _ => f_shard nat good p n end |}.
Definition bad_list : fsys nat :=
  {| f_list := fun p => match p with [9] => Some {| ld_shards := [(1, 41)]; ld_children := [] |} | _ => f_list nat good p end;
     f_shard := f_shard nat good |}.
(** "After any successful writing history the integrity check passes" — over the session model of C04 (fillers into any directory,
    multi-writer calls, the recursive merge): for every shard size and every history that completes, the model's [check] (digest of
    every reachable list file against its parent's record, digest of every shard the depth-first traversal finds) returns true. *)
Theorem c05_check_passes_after_every_history :
  forall eps : nat, 1 <= eps -> forall (h : list Meta.session) (fs : Meta.fsT) (info : Meta.dinfo),
    Meta.run_history eps h = Meta.Ok (fs, info) -> Meta.check fs info = true.
Proof. exact history_check_passes. Qed.
Print Assumptions c05_check_passes_after_every_history.

Theorem c05_nonvacuous :
  check_shape_pinned = true /\
  check nat Nat.eqb enc 5 good [] (enc top) = true /\
  check nat Nat.eqb enc 5 bad_shard [] (enc top) = false /\
  check nat Nat.eqb enc 5 bad_list [] (enc top) = false.
Proof. vm_compute. repeat split. Qed.
Print Assumptions c05_nonvacuous.
