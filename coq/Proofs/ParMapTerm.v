(** C15: termination of [parallel_map] under every schedule, and liveness of an early drop. *)
Require Import Sedpack.Model.Base Sedpack.Model.ParMap.

Section T.
Variable n : nat.
Variable bad : nat -> bool.

Definition msg_w (m : option nat) : nat := match m with Some _ => 4 | None => 1 end.
Definition inq_w (q : list (option nat)) : nat := fold_right (fun m a => msg_w m + a) 0 q.
Definition wst_w (w : wstate) : nat := match w with WBusy _ => 3 | _ => 0 end.
Definition worker_w (w : worker) : nat := inq_w (inq w) + wst_w (wst w) + 2 * length (outq w).
Definition ring_w (r : list worker) : nat := fold_right (fun w a => worker_w w + a) 0 r.
(** every step of every thread decreases this *)
Definition mu (s : pstate) : nat := 3 * (n - sent s) + ring_w (ring s) + match cons s with CRun => 1 | _ => 0 end.

Lemma inq_w_app q m : inq_w (q ++ [m]) = inq_w q + msg_w m.
Proof. induction q as [|x q IH]; cbn [app inq_w fold_right]; [lia|]. fold (inq_w (q ++ [m])). fold (inq_w q). lia. Qed.
Lemma ring_w_app r w : ring_w (r ++ [w]) = ring_w r + worker_w w.
Proof. induction r as [|x r IH]; cbn [app ring_w fold_right]; [lia|]. fold (ring_w (r ++ [w])). fold (ring_w r). lia. Qed.
Lemma ring_w_upd : forall r j w w', nth_error r j = Some w -> ring_w (upd_nth r j w') + worker_w w = ring_w r + worker_w w'.
Proof.
  induction r as [|x r IH]; intros [|j] w w' H; cbn [nth_error] in H; try discriminate.
  - injection H as ->. cbn [upd_nth ring_w fold_right]. lia.
  - cbn [upd_nth ring_w fold_right]. fold (ring_w (upd_nth r j w')). fold (ring_w r). specialize (IH j w w' H). lia.
Qed.

Lemma wnext_decreases w w' : wnext bad w = Some w' -> worker_w w' < worker_w w.
Proof.
  unfold wnext, worker_w. destruct (wst w) as [|i| |] eqn:E; try discriminate.
  - destruct (inq w) as [|[i|] q]; try discriminate; intros [= <-]; cbn [inq wst outq inq_w fold_right msg_w wst_w]; fold (inq_w q); lia.
  - destruct (bad i); intros [= <-]; cbn [inq wst outq wst_w]; [lia|]. rewrite app_length. cbn [length]. lia.
Qed.

Theorem step_decreases s t s' : pstep n bad s t = Some s' -> mu s' < mu s.
Proof.
  destruct t as [|j]; cbn [pstep].
  - unfold cnext. destruct (cons s) eqn:Ec; try discriminate.
    destruct (ring s) as [|w r] eqn:Er.
    + intros [= <-]. unfold mu. cbn [ring sent cons]. rewrite Ec, Er. cbn. lia.
    + destruct (outq w) as [|i o'] eqn:Eo.
      * destruct (gone w); [|discriminate]. intros [= <-]. unfold mu. cbn [ring sent cons]. rewrite Ec, Er. destruct (owes w); lia.
      * intros [= <-]. unfold mu. cbn [ring sent cons]. rewrite Ec, Er, ring_w_app. cbn [ring_w fold_right]. fold (ring_w r).
        unfold worker_w at 1 2. cbn [inq wst outq]. rewrite inq_w_app, Eo. cbn [length].
        destruct (sent s <? n) eqn:El; cbn [msg_w]; [apply Nat.ltb_lt in El | apply Nat.ltb_ge in El]; lia.
  - destruct (nth_error (ring s) j) as [w|] eqn:En; [|discriminate].
    destruct (wnext bad w) as [w'|] eqn:Ew; [|discriminate]. intros [= <-].
    unfold mu. cbn [ring sent cons]. pose proof (ring_w_upd (ring s) j w w' En). pose proof (wnext_decreases w w' Ew). lia.
Qed.

(** a sequence of steps that all fire *)
Inductive steps : pstate -> nat -> pstate -> Prop :=
| steps0 s : steps s 0 s
| stepsS s t s1 k s2 : pstep n bad s t = Some s1 -> steps s1 k s2 -> steps s (S k) s2.
Theorem steps_bounded s k s' : steps s k s' -> k + mu s' <= mu s.
Proof. induction 1 as [|s t s1 k s2 Hs _ IH]; [lia|]. pose proof (step_decreases s t s1 Hs). lia. Qed.

Lemma inq_w_init W : forall i, ring_w (map (fun j => {| inq := [Some j]; wst := WRecv; outq := []; owes := true |}) (seq i W)) = 4 * W.
Proof. induction W as [|W IH]; intros i; cbn [seq map ring_w fold_right]; [reflexivity|]. fold (ring_w (map (fun j => {| inq := [Some j]; wst := WRecv; outq := []; owes := true |}) (seq (S i) W))). rewrite IH. unfold worker_w. cbn. lia. Qed.
Lemma mu_init T : mu (pinit n T) = 3 * (n - Nat.min T n) + 4 * Nat.min T n + 1.
Proof. unfold mu, pinit. cbn [ring sent cons]. rewrite inq_w_init. reflexivity. Qed.

(** whatever the schedule, at most 3n + min(T,n) + 1 thread steps happen in a whole pass *)
Theorem pass_terminates T k s' : steps (pinit n T) k s' -> k <= 3 * n + Nat.min T n + 1.
Proof. intros H. apply steps_bounded in H. rewrite mu_init in H. lia. Qed.

(** ** early drop: [Drop] tells every thread to finish, then joins them *)
Definition pdrop (s : pstate) : pstate :=
  {| ring := map (fun w => {| inq := inq w ++ [None]; wst := wst w; outq := outq w; owes := owes w |}) (ring s);
     kdone := kdone s; sent := sent s; cons := CDone; returned := returned s |}.
(** a worker ends its thread body iff it reads [None] (or panics); it can never run out of messages before that *)
Definition has_stop (w : worker) : Prop := gone w = true \/ List.In None (inq w).
Lemma wnext_keeps_stop w w' : has_stop w -> wnext bad w = Some w' -> has_stop w'.
Proof.
  unfold has_stop, wnext, gone. intros H. destruct (wst w) as [|i| |] eqn:E; try discriminate.
  - destruct H as [H | H]; [discriminate|]. destruct (inq w) as [|[i|] q]; try discriminate; intros [= <-]; cbn [wst inq].
    + right. destruct H as [H | H]; [discriminate | exact H].
    + left. reflexivity.
  - destruct H as [H | H]; [discriminate|]. destruct (bad i); intros [= <-]; cbn [wst inq]; [left; reflexivity | right; exact H].
Qed.
Lemma stop_can_move w : has_stop w -> gone w = false -> exists w', wnext bad w = Some w'.
Proof.
  unfold has_stop, gone, wnext. intros H G. destruct (wst w) as [|i| |] eqn:E; try discriminate.
  - destruct H as [H | H]; [discriminate|]. destruct (inq w) as [|[i|] q]; [destruct H | eexists; reflexivity | eexists; reflexivity].
  - destruct (bad i); eexists; reflexivity.
Qed.
Lemma drop_has_stop s w : List.In w (ring (pdrop s)) -> has_stop w.
Proof. unfold pdrop. cbn [ring]. intros H. apply in_map_iff in H as (w0 & <- & _). right. cbn [inq]. apply in_or_app. right. left. reflexivity. Qed.

(** run one worker alone until it stops: it needs at most [worker_w w] steps, and then it is gone (joined) *)
Fixpoint wrun (fuel : nat) (w : worker) : worker :=
  match fuel with O => w | S f => match wnext bad w with Some w' => wrun f w' | None => w end end.
Theorem dropped_worker_ends w : has_stop w -> gone (wrun (worker_w w) w) = true.
Proof.
  remember (worker_w w) as m eqn:Em. assert (Hm : worker_w w <= m) by lia. clear Em.
  revert w Hm. induction m as [|m IH]; intros w Hm Hs.
  - cbn [wrun]. destruct (gone w) eqn:G; [reflexivity|]. destruct (stop_can_move w Hs G) as [w' Hw]. pose proof (wnext_decreases w w' Hw). lia.
  - cbn [wrun]. destruct (wnext bad w) as [w'|] eqn:Hw.
    + apply IH; [pose proof (wnext_decreases w w' Hw); lia | apply (wnext_keeps_stop w w' Hs Hw)].
    + destruct (gone w) eqn:G; [reflexivity|]. destruct (stop_can_move w Hs G) as [w' Hw']. congruence.
Qed.
(** after a drop at any moment every thread ends (so [join] returns) *)
Theorem drop_is_live s w : List.In w (ring (pdrop s)) -> gone (wrun (worker_w w) w) = true.
Proof. intros H. apply dropped_worker_ends, (drop_has_stop s w H). Qed.
End T.
