"""C05 — integrity check accepts every committed dataset and detects every modification."""
import json

from harness import common, history, iterlib
from harness.common import Broken, COQ, REPO
from translator import pygen

PID = "C05"
ALGS = ["md5", "sha1", "sha224", "sha256", "sha384", "sha512", "sha3_224", "sha3_256", "sha3_384", "sha3_512", "xxh32", "xxh64", "xxh128"]


def gen_jobs(ctx):
    rng = ctx.rng
    jobs = []
    # a fixed nested two-split dataset with several versions of every list file
    W = lambda s=0: ["W", s, None, True]  # noqa: E731
    jobs.append({"dataset": {"format": "fb", "compression": "", "eps": 2, "sessions": [
        {"kind": "filler", "sub": [], "reopen": False, "ops": [W(), W(), W(), W(1), W(1), W(1)]},
        {"kind": "multi", "reopen": False, "writers": [[W(), W(), W()], [W(1), W()]]},
        {"kind": "filler", "sub": [7, 8], "reopen": False, "ops": [W(), W(), W(2)]},
        {"kind": "filler", "sub": [7], "reopen": False, "ops": [W()]},
        # continued writing into directories that are already known children (same nested and same first-level directory again)
        {"kind": "filler", "sub": [7, 8], "reopen": True, "ops": [W(), W(1)]},
        {"kind": "filler", "sub": [7], "reopen": False, "ops": [W(), W(), W()]}]}, "algs": ["sha256"], "with_root": False})
    for i in range(ctx.scale(4, 40)):
        fmt = rng.choice(["fb", "npz", "fb", "tfrec"]) if not ctx.quick else rng.choice(["fb", "npz"])
        spec = iterlib.gen_dataset(rng, fmt=fmt, min_shards=rng.choice([1, 2, 3]))
        k = rng.choice([1, 1, 2, 3, 13])
        algs = list(ALGS) if k == 13 else [rng.choice(ALGS) for _ in range(k)]
        jobs.append({"dataset": spec, "algs": algs, "with_root": rng.random() < 0.5})
    return jobs


def run(ctx):
    broken = []
    tr = pygen.regenerate(REPO, COQ / "Generated", only=["GenCheck"])
    if tr["GenCheck"]:
        broken.append(Broken("translator: GenCheck (Dataset.check / _check_shard_list_info no longer have the pinned shape)", tr["GenCheck"]))
    proof = None
    if not broken:
        try:
            proof = common.check_property_file(PID)
        except Broken as b:
            broken.append(b)
    jobs = gen_jobs(ctx)
    res = []
    for i in range(0, len(jobs), 4):
        res += common.run_impl("tamper_run.py", {"jobs": jobs[i:i + 4]}, timeout=2400)["jobs"]
    n_cases, n_nontrivial, kinds = 0, set(), {}
    for ji, (job, r) in enumerate(zip(jobs, res)):
        if "build_error" in r:
            ctx.report("harness", r["build_error"], {"job": job}, found_input=False)
            continue
        if r["base"]["clean"] != "passed" or r["base"]["clean_with_root"] != "passed":
            ctx.report("committed-dataset-rejected", f"check() fails on an untouched committed dataset: {r['base']}", {"job": job, "base": r["base"]})
        for c in r["cases"]:
            n_cases += 1
            kinds[c["tamper"].split(":")[0].split("-")[0]] = kinds.get(c["tamper"].split(":")[0].split("-")[0], 0) + 1
            if c["changed"]:
                n_nontrivial.add((ji, c["kind"], c["file"], c["tamper"]))
            if c["changed"] and c["outcome"] == "passed":
                nested = "nested" if c["file"].count("/") >= 2 else "top"
                ctx.report(f"modification-undetected:{c['kind']}",
                           f"{c['tamper']} of {c['kind']} file {c['file']} ({c['size']} bytes, {nested}) is not detected by check()",
                           {"job": job, "case": c})
            if not c["changed"] and c["outcome"] != "passed":
                ctx.report("unmodified-rejected", f"{c['tamper']} left {c['file']} byte-identical but check() failed: {c['outcome']}", {"job": job, "case": c})
    # datasets committed by several fillers working in threads (one sub-directory each, merged by one write_config) must pass too
    tjobs = [{"format": "fb", "algs": ["sha256", "xxh64"], "width": 700000, "eps": 2, "n": 4, "threaded_fillers": 6},
             {"format": "npz", "algs": ["md5"], "width": 300000, "eps": 3, "n": 3, "threaded_fillers": 3}]
    for c, r in zip(tjobs, common.run_impl("hash_run.py", {"dataset": tjobs}, timeout=900)["dataset"]):
        n_cases += 1
        if r.get("check") != "passed":
            ctx.report("committed-dataset-rejected", f"check() fails on an untouched dataset committed by {c['threaded_fillers']} fillers working in threads: "
                                                     f"{r.get('check')}; {len(r.get('bad', []))} recorded checksums differ from the files' digests", {"hash_job": c})
    if broken and not ctx.violations:
        b = broken[0]
        ctx.report(f"broken:{b.what}", b.what, {"unchecked": b.what, "detail": b.detail[-3000:]}, found_input=False)
    ctx.sample(jobs[0]["dataset"]["sessions"][1])
    if res and "cases" in res[0]:
        ctx.sample(res[0]["cases"][3])
        ctx.sample(res[0]["cases"][-1])
    ctx.coverage.update({
        "obligations": proof["obligations"] if proof else 3, "discharged": proof["discharged"] if proof else 0,
        "theorems": proof["theorems"] if proof else [],
        "checker_cmd": "make -C coq Proofs/IntegrityProofs.vo && coqc -Q coq Sedpack coq/Properties/C05.v (Print Assumptions under each theorem)",
        "trusted_base": common.TRUSTED_BASE_COMMON + [
            "section hypothesis (instantiated, not an axiom): the digest is injective on list documents (collision freedom, idealised); serialisation of a list document is injective",
            "Model/Integrity.v is an abstract model of Dataset.check; its shape is pinned statement by statement against the source (Generated/GenCheck.v) and its verdicts are compared with the real check() "
            "on every tamper of every reachable file of generated committed datasets",
            "C16 (the recorded digests are digests of the complete file content) and C04 (committed trees are exact) are used as given"],
        "evaluations": n_cases, "distinct_nontrivial": len(n_nontrivial),
        "rule": "committed datasets (flat/nested/multi-writer, 1..13 algorithms, fb/npz[/tfrec]) x every reachable list file, shard file and the description x "
                "{bit flip first/middle/last byte and at 7 interior offsets, LF->CRLF / LF->CR / extra JSON whitespace / BOM (changes a text reader would normalise), a bit flip in place that keeps path, size and modification time in a process that has already hashed the file, truncate to 0/half/len-1, extend, delete, swap with a sibling, roll back to an earlier version}; each case distinct by (dataset, file, tamper)",
        "tamper_kinds": kinds, "datasets": len(jobs),
        "traces_validated_against_impl": n_cases,
    })
    ctx.assumptions += ["collision-free digests", "at least one checksum algorithm configured"]


def replay(ctx, rp):
    if rp["replay"].get("hash_job"):
        r = common.run_impl("hash_run.py", {"dataset": [rp["replay"]["hash_job"]]}, timeout=900)["dataset"][0]
        print(json.dumps(r)[:1500])
        return r.get("check") == "passed"
    job = rp["replay"].get("job")
    if not job:
        print("no concrete input in this replay file:", rp["replay"].get("unchecked"))
        return False
    r = common.run_impl("tamper_run.py", {"jobs": [job]})["jobs"][0]
    bad = [c for c in r.get("cases", []) if c["changed"] and c["outcome"] == "passed"]
    print(json.dumps({"base": r.get("base"), "undetected": bad[:5]}, indent=1))
    return not bad and r.get("base", {}).get("clean") == "passed"
