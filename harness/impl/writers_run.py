"""C18: sequences of good and bad writes through a filler, then read everything back.
stdin: {"jobs":[{"format":..,"compression":..,"attrs":[{"name","dtype","shape"}],"eps":n,"writes":[{"kind":..,"attr":i}]}]}
write kinds: good | shape | rank | unsafe (float value for an integer attribute / wider int) | foreign (text for a numeric attribute)
             | missing (attribute absent) | extra (additional key) | container (nested python list instead of an array) | scalarlist
result: per write accepted/raised(exception); read-back outcome; recorded counts.
"""
import json
import shutil
import sys
import tempfile
from pathlib import Path

import numpy as np

from sedpack.io import Dataset, Metadata, DatasetStructure, Attribute


def good_value(a, seed):
    dt, shape = a["dtype"], tuple(a["shape"])
    if dt == "bytes":
        return bytes([(seed * 7 + i) % 251 + 1 for i in range(5 + seed % 3)])
    if dt == "str":
        return f"text-{seed}-žš"
    n = int(np.prod(shape)) if shape else 1
    if dt.startswith("float"):
        v = (np.arange(n, dtype=np.float64) + seed) / 4.0
    else:
        info = np.iinfo(dt)
        v = (np.arange(n, dtype=np.int64) + seed) % min(100, info.max)
    return v.reshape(shape).astype(dt)


def make_values(attrs, w, seed):
    vals = {a["name"]: good_value(a, seed) for a in attrs}
    k = w["kind"]
    if k == "good":
        return vals
    a = attrs[w["attr"] % len(attrs)]
    name = a["name"]
    shape = tuple(a["shape"])
    if k == "shape":
        bad = tuple(d + 1 for d in shape) if shape else (2,)
        vals[name] = np.zeros(bad, a["dtype"] if a["dtype"] not in ("bytes", "str") else "int32")
    elif k == "rank":
        vals[name] = np.zeros(shape + (1,), a["dtype"] if a["dtype"] not in ("bytes", "str") else "int32")
    elif k == "unsafe":
        vals[name] = (np.zeros(shape) + 0.5).astype(np.float64) if not a["dtype"].startswith("float") else (np.zeros(shape) + 1j)
    elif k == "foreign":
        vals[name] = np.full(shape, "text")
    elif k == "missing":
        del vals[name]
    elif k == "extra":
        vals["__extra__"] = np.zeros((1,), np.int32)
    elif k == "container":
        vals[name] = np.asarray(vals[name]).tolist() if a["dtype"] not in ("bytes", "str") else vals[name]
    elif k == "scalarlist":
        vals[name] = [np.asarray(vals[name])]
    return vals


def same(a, b, attr, fmt):
    """Is the value read back the value written (tfrec widens integers and encodes text)?"""
    try:
        if attr["dtype"] in ("bytes", "str") and isinstance(a, (bytes, str)):
            x = b.item() if isinstance(b, np.ndarray) and b.shape == () else b
            if isinstance(x, np.ndarray):
                x = x.tobytes()
            if isinstance(a, str) and isinstance(x, bytes):
                x = x.decode("utf-8")
            return x == a
        return np.asarray(b).shape == np.asarray(a).shape and np.array_equal(np.asarray(b).astype(np.float64), np.asarray(a).astype(np.float64))
    except Exception:  # noqa: BLE001
        return False


def run_job(job):
    tmp = Path(tempfile.mkdtemp(prefix="verif_wr_"))
    try:
        attrs = job["attrs"]
        try:
            ds = Dataset.create(path=tmp / "d", metadata=Metadata(description="w"), dataset_structure=DatasetStructure(
                saved_data_description=[Attribute(name=a["name"], dtype=a["dtype"], shape=tuple(a["shape"])) for a in attrs],
                shard_file_type=job["format"], compression=job.get("compression", ""), examples_per_shard=job["eps"]))
        except Exception as ex:  # noqa: BLE001
            return {"declaration_rejected": f"{type(ex).__name__}"}
        outcomes, written = [], []
        session_error = None
        try:
            with ds.filler() as f:
                for i, w in enumerate(job["writes"]):
                    vals = make_values(attrs, w, i)
                    try:
                        f.write_example(values=vals, split="train")
                        outcomes.append("accepted")
                        written.append((i, vals, w["kind"]))
                    except Exception as ex:  # noqa: BLE001
                        outcomes.append("raised:" + type(ex).__name__)
        except Exception as ex:  # noqa: BLE001
            session_error = f"{type(ex).__name__}: {str(ex)[:150]}"
        read = {"error": None, "count": None, "mismatch": []}
        recorded = None
        try:
            fresh = Dataset(tmp / "d")
            if "train" in fresh._dataset_info.splits:
                recorded = [s.number_of_examples for s in fresh.shard_info_iterator("train")]
                got = list(fresh.as_numpy_iterator(split="train", repeat=False, shuffle=0))
                read["count"] = len(got)
                for (i, vals, kind), e in zip(written, got):
                    for a in attrs:
                        if kind in ("good", "container", "extra") and a["name"] in vals and not same(vals[a["name"]], e.get(a["name"]), a, job["format"]):
                            read["mismatch"].append([i, a["name"]])
            else:
                read["count"] = 0
                recorded = []
        except Exception as ex:  # noqa: BLE001
            read["error"] = f"{type(ex).__name__}: {str(ex)[:150]}"
        return {"outcomes": outcomes, "accepted": len(written), "session_error": session_error, "read": read, "recorded": recorded}
    finally:
        shutil.rmtree(tmp, ignore_errors=True)


def main():
    req = json.load(sys.stdin)
    print("@@RESULT@@" + json.dumps({"jobs": [run_job(j) for j in req["jobs"]]}))


if __name__ == "__main__":
    main()
