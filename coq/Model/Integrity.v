(** Abstract model of [Dataset.check]: a tree of list documents, each naming its shards and its
    child lists together with their recorded digests; the digest of a document is an injective
    function of its content (collision freedom, idealised). *)
Require Import Sedpack.Model.Base.

Section Integrity.
Variable digest : Type.
Variable deqb : digest -> digest -> bool.
Hypothesis deqb_spec : forall a b, deqb a b = true <-> a = b.

Definition path := list nat.
(** A list document: its shard entries (file name, recorded digest) and child entries
    (directory name, recorded digest of the child's list file). *)
Record ldoc := { ld_shards : list (nat * digest); ld_children : list (nat * digest) }.
(** A file system: the list file found in a directory and the digest of the bytes of a shard file. *)
Record fsys := { f_list : path -> option ldoc; f_shard : path -> nat -> option digest }.

Variable Hl : ldoc -> digest.           (* digest of the serialised list document *)
Hypothesis Hl_inj : forall a b, Hl a = Hl b -> a = b.

(** [_check_shard_list_info]: the file's digest equals the recorded one, then the children that
    the file *on disk* names are checked recursively. *)
Fixpoint check_lists (fuel : nat) (fs : fsys) (p : path) (d : digest) : bool :=
  match fuel with
  | O => false
  | S f => match f_list fs p with
           | None => false
           | Some doc => deqb (Hl doc) d && forallb (fun c => check_lists f fs (p ++ [fst c]) (snd c)) (ld_children doc)
           end
  end.

(** The shard loop of [check]: every shard the iterator finds (again reading the lists on disk)
    has the recorded digest. *)
Fixpoint check_shards (fuel : nat) (fs : fsys) (p : path) : bool :=
  match fuel with
  | O => false
  | S f => match f_list fs p with
           | None => false
           | Some doc =>
               forallb (fun s => match f_shard fs p (fst s) with Some h => deqb h (snd s) | None => false end) (ld_shards doc)
               && forallb (fun c => check_shards f fs (p ++ [fst c])) (ld_children doc)
           end
  end.

Definition check (fuel : nat) (fs : fsys) (root : path) (d : digest) : bool :=
  check_lists fuel fs root d && check_shards fuel fs root.

(** [p] with recorded digest [d] is committed in [fs0]: the tree below it is internally
    consistent (what [exact] establishes). *)
Fixpoint committed (fuel : nat) (fs0 : fsys) (p : path) (d : digest) : Prop :=
  match fuel with
  | O => False
  | S f => exists doc, f_list fs0 p = Some doc /\ Hl doc = d /\
             (forall s, List.In s (ld_shards doc) -> f_shard fs0 p (fst s) = Some (snd s)) /\
             (forall c, List.In c (ld_children doc) -> committed f fs0 (p ++ [fst c]) (snd c))
  end.

(** Files reachable from the root in the committed file system. *)
Fixpoint reach_list (fuel : nat) (fs0 : fsys) (p q : path) : Prop :=
  match fuel with
  | O => False
  | S f => p = q \/ exists doc c, f_list fs0 p = Some doc /\ List.In c (ld_children doc) /\ reach_list f fs0 (p ++ [fst c]) q
  end.
End Integrity.
