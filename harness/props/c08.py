"""C08 — continued writing is append-only."""
import json
import shutil
import tempfile
from pathlib import Path

from harness import common, history
from harness.props import c04

PID = "C08"


def oracle_c08(h, k, d):
    """After session k every split returns exactly the examples accepted by sessions 0..k, once each."""
    bad = []
    if d.get("error_open"):
        return [("cannot-reopen", d["error_open"])]
    if d["error"]:
        kind = "assertion-in-merge" if d["error"].startswith("AssertionError") else "session-error"
        bad.append((kind, f"session {k} ({json.dumps(h['sessions'][k])[:80]}) raised {d['error']}"))
        return bad
    for pr in d.get("problems") or []:
        if "handle kept open" in pr:
            bad.append(("kept-handle-misses-examples", f"after session {k} (dataset not reopened in between): {pr}"))
    per, _ = history.expected_per_split(h, k)
    got = {s: e for s, e in d["iterate"]}
    for s, want in per.items():
        g = got.get(s, [])
        if not isinstance(g, list):
            if want:
                bad.append(("iteration-error", f"after session {k}: split {s} iteration raised {g}"))
            continue
        if sorted(g) != sorted(want):
            missing = sorted(set(want) - set(g))
            dup = sorted({x for x in g if g.count(x) > 1})
            extra = sorted(set(g) - set(want))
            sig = "examples-lost" if missing else "examples-duplicated" if dup else "examples-foreign"
            bad.append((sig, f"after session {k}: split {s} returns {len(g)} examples, expected {len(want)}; missing {missing[:6]} duplicated {dup[:6]} foreign {extra[:6]}"))
    return bad


def run(ctx):
    hs, impl = c04.run_history_check(ctx, PID, oracle_c08, "create-refuses is checked on the implementation (see coverage.create_refused)")
    # Dataset.create where one already exists must be refused and change nothing
    r = common.run_impl("create_run.py", {"n": ctx.scale(6, 40), "seed": ctx.seed})
    for c in r["cases"]:
        if not c["refused"] or c["changed"]:
            ctx.report("create-overwrites", f"Dataset.create on an existing dataset (directory spelled as {c.get('spelling')}): refused={c['refused']} changed files={c['changed']}", {"mode": "create", "case": c, "seed": ctx.seed, "n": ctx.scale(6, 40)})
    ctx.coverage["create_refused"] = len(r["cases"])


def replay(ctx, rp):
    if rp["replay"].get("mode") == "create":
        r = common.run_impl("create_run.py", {"n": rp["replay"].get("n", 6), "seed": rp["replay"].get("seed", 0)})
        bad = [c for c in r["cases"] if not c["refused"] or c["changed"]]
        print(json.dumps(bad)[:1500])
        return not bad
    h = rp["replay"].get("history")
    if not h:
        print("no concrete input in this replay file:", rp["replay"].get("unchecked") or rp["replay"].get("case"))
        return False
    dumps = common.run_impl("history_run.py", {"histories": [h]})["results"][0]
    bad = [x for k, d in enumerate(dumps) for x in oracle_c08(h, k, d)]
    print(json.dumps({"history": h, "oracle": bad}, indent=1)[:3000])
    return not bad
