(** C01, second on-disk format: the npz shard (shard_writer_np.py / npz/iterate_npz.py).
    The writer keeps one Python list per attribute name and appends [np.copy(value)] to it; [close] hands the lists to
    [np.savez], which turns each list into ONE array ([np.asanyarray(list)]: a new leading axis, a common dtype).  The reader loads
    the arrays and yields, for i = 0 .. n-1, [{name: array[i]}].
    Fixed-width attributes: elements are bit patterns as in Model/Codec.v; a value is a function from multi-indices to elements
    (so every memory layout is covered) and [np.copy] / stacking act on the logical array.
    bytes / str attributes: NumPy's fixed-width string dtypes S<k> / U<k>: a value of length l gets width max(l,1), the stacked array
    the maximum width, shorter values are padded with NULs, and reading an element strips ALL trailing NULs. *)
Require Import Sedpack.Model.Base Sedpack.Generated.GenCodec Sedpack.Generated.GenNpz Sedpack.Model.Codec.
Open Scope list_scope.

(** *** fixed-width attributes *)
(** np.copy(value) then np.asanyarray([v0; v1; ...]) for arrays of one shape and dtype: C-order flattenings one after another *)
Definition npz_stack (shape : list nat) (vals : list (list nat -> Z)) : list Z := concat (map (fun arr => map arr (indices shape)) vals).
(** array[i][idx] *)
Definition npz_read (shape : list nat) (stacked : list Z) (i : nat) (idx : list nat) : Z :=
  nth (i * prod shape + ravel shape idx) stacked 0%Z.
(** the number of examples the reader finds: len(array) *)
Definition npz_len (shape : list nat) (vals : list (list nat -> Z)) : nat := length vals.

(** *** bytes / str attributes: code units (bytes, resp. code points) are numbers, 0 is NUL *)
Fixpoint strip_nul (l : list Z) : list Z :=
  match l with
  | [] => []
  | x :: t => match strip_nul t with [] => if (x =? 0)%Z then [] else [x] | r => x :: r end
  end.
Definition pad (k : nat) (l : list Z) : list Z := l ++ repeat 0%Z (k - length l).
Definition width (vals : list (list Z)) : nat := fold_right Nat.max 1%nat (map (@length Z) vals).
(** np.asanyarray of the list of S/U scalars: every value padded to the common width *)
Definition npz_stack_str (vals : list (list Z)) : list (list Z) := map (pad (width vals)) vals.
(** array[i] of an S/U array: the item without its trailing NULs *)
Definition npz_read_str (stacked : list (list Z)) (i : nat) : list Z := strip_nul (nth i stacked []).
