"""C10 — shards respect the configured size."""
import json

from harness import common, gen_filler
from harness.common import Broken, COQ, REPO
from translator import pygen

PID = "C10"


def model_eval(pid, cases, name="cases"):
    """Evaluate the Gallina filler model on the cases; returns [(observe, raised)] per case."""
    out = {}
    chunks = [cases[i:i + 250] for i in range(0, len(cases), 250)]
    files = {}
    for ci, ch in enumerate(chunks):
        body = ["Require Import Sedpack.Model.Base Sedpack.Model.Filler.",
                "Definition cases : list (nat * list wop) := ["]
        body.append(";\n".join(f"({c['eps']}, {gen_filler.coq_ops(c['ops'])})" for c in ch))
        body.append("].")
        body.append("Eval vm_compute in map (fun c => (observe (fst c) (snd c), raised_ops (fst c) init_fstate (snd c), "
                    "(sizes_ok (fst c) (snd c), map (fun s => orb (changed_in (fst c) (snd c) s) (all_but_last_full (fst c) (snd c) s)) [Train; Test; Holdout]))) cases.")
        files[f"{name}{ci}"] = "\n".join(body) + "\n"
    res = common.coq_eval_many(pid, files)
    allr = []
    for ci in range(len(chunks)):
        allr.extend(common.parse_coq_list(res[f"{name}{ci}"]))
    return allr


def impl_oracle(case, r):
    """The property evaluated on the implementation's observable result.  Returns [(signature, text)]."""
    eps = case["eps"]
    bad = []
    if r["error"]:
        bad.append(("session-error", f"session raised {r['error']}"))
    for i, (op, ra) in enumerate(zip(case["ops"], r["raised"])):
        if op[0] == "W" and op[3] and ra:
            bad.append(("valid-write-raised", f"op {i} (a valid write) raised {ra}"))
        if op[0] == "W" and not op[3] and not ra:
            bad.append(("invalid-write-accepted", f"op {i} (wrong shape) was accepted"))
    vals = gen_filler.at_write_values(case["ops"])
    for s, shards in r["shards"].items():
        for j, (n, ex, _m) in enumerate(shards):
            if not isinstance(ex, list):
                bad.append(("undecodable-shard", f"split {s} shard {j}: {ex}"))
                continue
            if len(ex) < 1:
                bad.append(("empty-shard", f"split {s} shard {j} is recorded with 0 examples"))
            if len(ex) > eps:
                bad.append(("oversize-shard", f"split {s} shard {j} holds {len(ex)} > {eps}"))
            if n != len(ex):
                bad.append(("count-mismatch", f"split {s} shard {j} records {n} but holds {len(ex)}"))
        # "as long as the metadata does not change, every shard except the last one written is full": a shard that is not the
        # last of its split may be short only if the shard-level metadata changed right there, i.e. the shard's recorded metadata and the
        # value the first example of the next shard was written under are two different non-empty values
        vof = {i: v for (i, v, ok) in vals[int(s)] if ok}
        if all(isinstance(x[1], list) and x[1] for x in shards):
            for j, (n, ex, _m) in enumerate(shards[:-1]):
                if len(ex) == eps:
                    continue
                # the shard-level metadata of shard j is what the shard records (a rejected write can set it too: the label is attached
                # before the writer validates the values)
                v_last = _m
                # the write that made the filler leave shard j lies between the shard's last example and the next shard's first one
                # (both ends included on the right); it may itself have been rejected by the shard writer, because the roll-over and
                # the new label happen before the values are validated
                nxt = shards[j + 1][1][0]
                trig = [v for (i, v, ok) in vals[int(s)] if ex[-1] < i <= nxt and v and v != v_last]
                if not (v_last and trig):
                    bad.append(("nonfull-before-last", f"split {s} shard {j} holds {len(ex)} != {eps} with unchanged metadata"))
    return bad


def compare(case, r, m):
    """Model result m = (observe, raised, (sizes_ok, [flags])) against implementation result r."""
    obs, raised, _ = m
    diffs = []
    for s in range(3):
        mod = [[n, list(ex), mv] for (sc, (n, (ex, mv))) in obs if sc == s]
        imp = r["shards"].get(str(s), [])
        if mod != imp:
            diffs.append(f"split {s}: model {mod} impl {imp}")
    if [bool(x) for x in r["raised"]] != list(raised):
        diffs.append(f"raised: model {list(raised)} impl {r['raised']}")
    return diffs


def run(ctx):
    run_filler_check(ctx, PID, impl_oracle, "Proofs/FillerProofs.vo")


def run_filler_check(ctx, PID, impl_oracle, proof_target, select=False):
    broken = []
    tr = pygen.regenerate(REPO, COQ / "Generated", only=["GenFiller"])
    if tr["GenFiller"]:
        broken.append(Broken("translator: GenFiller (dataset_filler.py no longer has the shape the model assumes)", tr["GenFiller"]))
    proof = None
    if not broken:
        try:
            proof = common.check_property_file(PID)
        except Broken as b:
            broken.append(b)
    # cases
    cases = gen_filler.corpus() + [gen_filler.gen_case(ctx.rng) for _ in range(ctx.scale(250, 3000))]
    res = []
    fmts = ["fb", "npz", "tfrec"]
    per_fmt = {}
    for fmt in fmts:
        sub = cases if fmt == "fb" else cases[:(40 if ctx.quick else 400)]
        per_fmt[fmt] = (sub, common.run_impl("filler_run.py", {"cases": sub, "format": fmt, "select": select}, timeout=3000)["results"])
    # the same histories with the value one level down in the metadata object, updated in place by the caller
    sub = [c for c in cases if any(op[0] == "M" for op in c["ops"])][:ctx.scale(120, 1200)]
    per_fmt["fb+nested"] = (sub, common.run_impl("filler_run.py", {"cases": sub, "format": "fb+nested", "select": select}, timeout=3000)["results"])
    # ... and with the value accompanied by entries whose own values are falsy (0, False, "", None, [], 0.0): all of it is the metadata
    sub2 = sub[:ctx.scale(60, 400)]
    per_fmt["fb+falsy"] = (sub2, common.run_impl("filler_run.py", {"cases": sub2, "format": "fb+falsy", "select": select}, timeout=3000)["results"])
    # ... and with an equal dict whose keys come in the opposite order on every other write (no change of the value, so no roll-over)
    per_fmt["fb+reorder"] = (sub2, common.run_impl("filler_run.py", {"cases": sub2, "format": "fb+reorder", "select": select}, timeout=3000)["results"])
    # ... and with a key set that depends on the value (a label that keeps entries of the metadata of an earlier, rejected write is wrong)
    per_fmt["fb+keys"] = (sub, common.run_impl("filler_run.py", {"cases": sub, "format": "fb+keys", "select": select}, timeout=3000)["results"])
    # 1. property oracle on the implementation
    found = 0
    for fmt, (sub, rs) in per_fmt.items():
        for c, r in zip(sub, rs):
            for sig, text in impl_oracle(c, r):
                found += 1
                ctx.report(f"{sig}", f"{fmt}: {text}", {"format": fmt, "case": c, "impl": r, "oracle": text})
    # 2. correspondence with the model (model evaluated inside Coq on the same cases)
    disagreements = 0
    model_fail = 0
    try:
        if not tr["GenFiller"]:
            rc, log = common.coq_make(["Model/Filler.vo"])
            if rc:
                raise Broken("Model/Filler.v no longer compiles against the generated kernels", log[-2000:])
            ms = model_eval(PID, cases)
            for fmt, (sub, rs) in per_fmt.items():
                mof = {id(c): m for c, m in zip(cases, ms)}
                for c, r in zip(sub, rs):
                    m = mof[id(c)]
                    d = compare(c, r, m)
                    if d:
                        disagreements += 1
                        if disagreements <= 3:
                            broken.append(Broken("correspondence filler model vs implementation", json.dumps({"format": fmt, "case": c, "diffs": d})))
                    ok_sizes, flags = m[2]
                    if not (ok_sizes and all(flags)):
                        model_fail += 1
    except Broken as b:
        broken.append(b)
    if broken and not ctx.violations:
        b = broken[0]
        ctx.report(f"broken:{b.what}", b.what, {"unchecked": b.what, "detail": b.detail[-3000:]}, found_input=False)
    feats = {}
    for c in cases:
        for f in gen_filler.features(c):
            feats[f] = feats.get(f, 0) + 1
    distinct = {json.dumps(c, sort_keys=True) for c in cases if gen_filler.features(c)}
    for c in cases[11:15]:
        ctx.sample(c)
    ctx.coverage.update({
        "obligations": proof["obligations"] if proof else 3,
        "proof_target": proof_target, "discharged": proof["discharged"] if proof else 0,
        "theorems": proof["theorems"] if proof else [],
        "checker_cmd": f"make -C coq {proof_target} && coqc -Q coq Sedpack coq/Properties/{PID}.v (Print Assumptions under each theorem)",
        "trusted_base": common.TRUSTED_BASE_COMMON + [
            "modelled, not verified: Shard/ShardWriter (accept/reject of a write is an input of the model), pydantic, uuid4 freshness"],
        "evaluations": sum(len(s) for s, _ in per_fmt.values()),
        "distinct_nontrivial": len(distinct),
        "rule": "filler sessions (eps 1..5, counts around k*eps, k*eps+-1, 1..3 splits interleaved, metadata none/const/alternating/mutated object, rejected writes); "
                "non-trivial = exercises a roll-over, a short last shard, a metadata object, a rejected write or several splits; distinct by JSON text",
        "feature_counts": feats, "formats": fmts,
        "model_vs_impl_disagreements": disagreements, "impl_oracle_failures": found,
        "model_oracle_failures": model_fail,
        "traces_validated_against_impl": sum(len(s) for s, _ in per_fmt.values()) - disagreements,
    })
    ctx.assumptions += ["uuid4 shard names never repeat", "one filler context per session; the caller catches write errors and continues"]


def replay(ctx, rp):
    c = rp["replay"].get("case")
    if not c:
        print("no concrete input in this replay file:", rp["replay"].get("unchecked"))
        return False
    fmt = rp["replay"].get("format", "fb")
    r = common.run_impl("filler_run.py", {"cases": [c], "format": fmt})["results"][0]
    bad = impl_oracle(c, r)
    print(json.dumps({"case": c, "impl": r, "oracle": bad}, indent=1))
    return not bad
