(** FIFO invariant of the lazy pool, the drained final state, and the multiset of results. *)
Require Import Sedpack.Model.Base Sedpack.Generated.GenLazyPool Sedpack.Model.LazyPool Sedpack.Proofs.LazyPoolInv.
From Coq Require Import Permutation.

Section R.
Variables A B : Type.
Variable f : A -> option B.
Variable T : nat.
Hypothesis Tpos : 1 <= T.

Notation st := (st A B).
Notation step := (step A B f T).
Notation reach := (reach A B f T).
Notation init := (init A B T).
Notation Inv := (Inv A B T).

(** ** FIFO facts *)
Definition isPay (x : res B) : bool := match x with StopR => false | _ => true end.
Definition hasPay (l : list (res B)) := existsb isPay l.
Fixpoint sbl (l : list (res B)) : nat :=   (* sentinels located before the last payload *)
  match l with
  | [] => 0
  | x :: t => if hasPay t then (if isPay x then 0 else 1) + sbl t else 0
  end.
Definition isStop (x : item A) := negb (isIn x).
Fixpoint wf_tp (l : list (item A)) : bool :=
  match l with [] => true | In _ :: t => wf_tp t | Stop :: t => forallb isStop t end.
Definition fin_kind (c : cpc B) : bool :=
  match c with Reset _ Finished | Final Finished => true | _ => false end.

Record Inv2 (n : nat) (s : st) : Prop := {
  k_fifo : normal (pc s) = true -> hasPay (rs s) = true -> sbl (rs s) < active s;
  k_s1 : normal (pc s) = true -> nStop (tp s) + cnt isStopping (wk s) + cnt isDone (wk s) > 0 -> src s = [];
  k_wf : normal (pc s) = true -> wf_tp (tp s) = true;
  k_s3 : normal (pc s) = true -> cnt isStopping (wk s) + cnt isDone (wk s) > 0 -> nIn (tp s) = 0;
  k_fin : fin_kind (pc s) = true ->
          src s = [] /\ nIn (tp s) = 0 /\ cnt isDone (wk s) = T /\ nOut (rs s) = 0 /\ nExc (rs s) = 0 /\ length (out s) = n
}.

Lemma hasPay_app l x : hasPay (l ++ [x]) = hasPay l || isPay x.
Proof. unfold hasPay. rewrite existsb_app. simpl. now rewrite orb_false_r. Qed.
Lemma sbl_app_pay l x : isPay x = true -> sbl (l ++ [x]) = nStopR l.
Proof.
  intros Hx. induction l as [|y t IH]; simpl; auto. rewrite hasPay_app, Hx, orb_true_r, IH.
  unfold LazyPoolInv.nStopR; simpl. destruct y; simpl; auto.
Qed.
Lemma sbl_app_stop l : sbl (l ++ [StopR]) = sbl l.
Proof. induction l as [|x t IH]; simpl; auto. rewrite hasPay_app; simpl. rewrite orb_false_r, IH. auto. Qed.
Lemma wf_tp_allstop l : forallb isStop l = true -> wf_tp l = true.
Proof. induction l as [|[a|] t IH]; simpl; auto; try discriminate. Qed.
Lemma allstop_nIn l : forallb isStop l = true -> nIn l = 0.
Proof. unfold LazyPoolInv.nIn. induction l as [|[a|] t IH]; simpl; auto; try discriminate. Qed.
Lemma nStop0_wf_app_in l a : nStop l = 0 -> wf_tp (l ++ [In a]) = true.
Proof. unfold LazyPoolInv.nStop. induction l as [|[a'|] t IH]; simpl; auto; try discriminate. Qed.
Lemma wf_app_stop l : wf_tp l = true -> wf_tp (l ++ [Stop]) = true.
Proof. induction l as [|[a'|] t IH]; simpl; auto. intros H. rewrite forallb_app, H. reflexivity. Qed.
Lemma hasPay_counts l : hasPay l = false -> nOut l = 0 /\ nExc l = 0.
Proof.
  unfold hasPay, LazyPoolInv.nOut, LazyPoolInv.nExc. induction l as [|x t IH]; simpl; auto.
  destruct x; simpl; try discriminate; auto.
Qed.
Lemma all_done (l : list (wst A)) w x : cnt isDone l = length l -> nth_error l w = Some x -> x = Done.
Proof.
  revert w; induction l as [|h t IH]; intros [|w] Hc Hn; simpl in *; try discriminate.
  - injection Hn as ->. unfold LazyPoolInv.cnt in Hc. simpl in Hc. destruct x; simpl in Hc; auto;
      pose proof (cnt_le isDone t); unfold LazyPoolInv.cnt in *; lia.
  - apply (IH w); auto. unfold LazyPoolInv.cnt in *. simpl in Hc. destruct (isDone h); simpl in Hc; [lia|].
    pose proof (cnt_le isDone t); unfold LazyPoolInv.cnt in *; lia.
Qed.

Lemma inv2_init xs : Inv2 (length xs) (init xs).
Proof.
  constructor; simpl; auto; try discriminate; unfold LazyPoolInv.nStop; simpl; rewrite !cnt_repeat; simpl; intros; lia.
Qed.

Ltac cu2 Ew x :=
  pose proof (cnt_upd isIdle _ _ x _ Ew); pose proof (cnt_upd isBusy _ _ x _ Ew);
  pose proof (cnt_upd isStopping _ _ x _ Ew); pose proof (cnt_upd isDone _ _ x _ Ew);
  pose proof (cnt_upd isDead _ _ x _ Ew).

Lemma inv2_step n s t s' : Inv n s -> Inv2 n s -> step s t = Some s' -> Inv2 n s'.
Proof.
  intros [Hl Hc Hd Hp Hn He] [Kf K1 Kw K3 Kfin] Hst.
  pose proof (cnt_partition (wk s)) as Hpart.
  destruct t as [|[|w]]; simpl in Hst.
  - unfold cstep in Hst. destruct (pc s) eqn:Epc.
    + (* prefill: put *)
      specialize (Kf eq_refl). specialize (K1 eq_refl). specialize (Kw eq_refl). specialize (K3 eq_refl).
      assert (Hnorm : forall c, (if prefill_break i T then Get else Prefill (S i)) = c -> normal c = true /\ fin_kind c = false)
        by (intros c <-; destruct (prefill_break i T); split; reflexivity).
      destruct (Hnorm _ eq_refl) as (Hn1 & Hn2).
      destruct (src s) as [|a s0] eqn:Es; simpl in Hst; injection Hst as <-; constructor; simpl; auto; rewrite ?Hn2; try discriminate.
      * intros _. apply wf_app_stop; auto.
      * intros _ H. specialize (K3 H). unfold LazyPoolInv.nIn in *. rewrite filter_app_len; simpl; lia.
      * assert (Hk : nStop (tp s) + cnt isStopping (wk s) + cnt isDone (wk s) > 0 -> False)
          by (intros H'; specialize (K1 H'); discriminate).
        intros _ H. exfalso. apply Hk. unfold LazyPoolInv.nStop in *. rewrite filter_app_len in H; simpl in H. lia.
      * assert (Hk : nStop (tp s) + cnt isStopping (wk s) + cnt isDone (wk s) > 0 -> False)
          by (intros H'; specialize (K1 H'); discriminate).
        intros _. apply nStop0_wf_app_in. destruct (Nat.eq_dec (nStop (tp s)) 0); auto. exfalso. apply Hk. lia.
      * assert (Hk : nStop (tp s) + cnt isStopping (wk s) + cnt isDone (wk s) > 0 -> False)
          by (intros H'; specialize (K1 H'); discriminate).
        intros _ H. exfalso. apply Hk. lia.
    + (* get *)
      specialize (Kf eq_refl). specialize (K1 eq_refl). specialize (Kw eq_refl). specialize (K3 eq_refl).
      specialize (Hn eq_refl). destruct Hn as (Hs & Ha & Hsr & Hact).
      destruct (rs s) as [|[b| |] r'] eqn:Er; try discriminate; injection Hst as <-.
      * constructor; simpl; auto; try discriminate.
        intros _ H. simpl in Kf. rewrite H in Kf. simpl in Kf. apply Kf. reflexivity.
      * constructor; simpl; auto; try discriminate.
      * destruct (active s - 1 =? 0) eqn:E0; [apply Nat.eqb_eq in E0 | apply Nat.eqb_neq in E0].
        -- (* last sentinel: everything is drained *)
           constructor; simpl; try discriminate. intros _.
           assert (Hnp : hasPay r' = false).
           { destruct (hasPay r') eqn:E; auto. simpl in Kf. rewrite E in Kf. simpl in Kf. specialize (Kf eq_refl). lia. }
           destruct (hasPay_counts _ Hnp) as (Ho & Hx).
           unfold LazyPoolInv.nStopR, LazyPoolInv.nOut, LazyPoolInv.nExc in *. simpl in *.
           pose proof (cnt_le isDone (wk s)).
           assert (HD : cnt isDone (wk s) = T) by lia.
           assert (Hsrc : src s = []) by (apply K1; lia).
           assert (Hin : nIn (tp s) = 0) by (apply K3; lia).
           rewrite Hsrc in *. simpl in *. unfold puts_of in Hs. rewrite Epc in Hs. simpl in *.
           repeat split; auto; lia.
        -- constructor; simpl; auto; try discriminate.
           intros _ H. simpl in Kf. rewrite H in Kf. simpl in Kf. specialize (Kf eq_refl). lia.
    + (* put *)
      specialize (Kf eq_refl). specialize (K1 eq_refl). specialize (Kw eq_refl). specialize (K3 eq_refl).
      destruct (src s) as [|a s0] eqn:Es; simpl in Hst; injection Hst as <-; constructor; simpl; auto; try discriminate.
      * intros _. apply wf_app_stop; auto.
      * intros _ H. specialize (K3 H). unfold LazyPoolInv.nIn in *. rewrite filter_app_len; simpl; lia.
      * assert (Hk : nStop (tp s) + cnt isStopping (wk s) + cnt isDone (wk s) > 0 -> False)
          by (intros H'; specialize (K1 H'); discriminate).
        intros _ H. exfalso. apply Hk. unfold LazyPoolInv.nStop in *. rewrite filter_app_len in H; simpl in H. lia.
      * assert (Hk : nStop (tp s) + cnt isStopping (wk s) + cnt isDone (wk s) > 0 -> False)
          by (intros H'; specialize (K1 H'); discriminate).
        intros _. apply nStop0_wf_app_in. destruct (Nat.eq_dec (nStop (tp s)) 0); auto. exfalso. apply Hk. lia.
      * assert (Hk : nStop (tp s) + cnt isStopping (wk s) + cnt isDone (wk s) > 0 -> False)
          by (intros H'; specialize (K1 H'); discriminate).
        intros _ H. exfalso. apply Hk. lia.
    + (* reset *)
      destruct k as [|k]; injection Hst as <-; constructor; simpl; try discriminate;
        destruct e; try discriminate; intros _; specialize (Kfin eq_refl);
        destruct Kfin as (F1 & F2 & F3 & F4 & F5 & F6); repeat split; auto.
      unfold LazyPoolInv.nIn in *. rewrite filter_app_len. simpl. lia.
    + discriminate.
  - unfold astep in Hst. destruct (pc s) eqn:Epc; try discriminate. injection Hst as <-.
    constructor; simpl; try discriminate.
  - unfold wstep in Hst. destruct (nth_error (wk s) w) as [x|] eqn:Ew; try discriminate.
    (* in the Finished ending every worker is Done and cannot move *)
    destruct (fin_kind (pc s)) eqn:Efk.
    { destruct (Kfin eq_refl) as (_ & _ & F3 & _). rewrite <- Hl in F3.
      rewrite (all_done _ _ _ F3 Ew) in Hst. discriminate. }
    destruct (normal (pc s)) eqn:Enorm.
    2:{ (* other endings: nothing to maintain *)
        assert (Hpc : pc s' = pc s).
        { destruct x; try discriminate.
          - destruct (tp s) as [|[a|] t']; try discriminate; injection Hst as <-; reflexivity.
          - destruct (f a); [|rewrite worker_forwards in Hst]; injection Hst as <-; reflexivity.
          - injection Hst as <-; reflexivity. }
        constructor; rewrite Hpc, ?Enorm, ?Efk; try discriminate. }
    specialize (Kf eq_refl). specialize (K1 eq_refl). specialize (Kw eq_refl). specialize (K3 eq_refl).
    specialize (Hn eq_refl). destruct Hn as (Hs & Ha & Hsr & Hact).
    destruct x as [|a| | |]; try discriminate.
    + (* idle takes from tp *)
      destruct (tp s) as [|[a|] t'] eqn:Et; try discriminate; injection Hst as <-.
      * cu2 Ew (Busy a). simpl in *.
        constructor; simpl; rewrite ?Enorm, ?Efk; try discriminate; intros _; try assumption.
        -- intros HH1. apply K1. unfold LazyPoolInv.nStop in *; simpl in *. lia.
        -- intros HH1. exfalso. assert (nIn (In a :: t') = 0) by (apply K3; lia). unfold LazyPoolInv.nIn in *; simpl in *; lia.
      * cu2 Ew (@Stopping A). simpl in *.
        constructor; simpl; rewrite ?Enorm, ?Efk; try discriminate; intros _; try assumption.
        -- intros _. apply K1. unfold LazyPoolInv.nStop; simpl. lia.
        -- apply wf_tp_allstop; exact Kw.
        -- intros _. apply allstop_nIn. exact Kw.
    + (* busy *)
      destruct (f a) as [b|] eqn:Ef; [|rewrite worker_forwards in Hst]; injection Hst as <-.
      * cu2 Ew (@Idle A). simpl in *.
        constructor; simpl; rewrite ?Enorm, ?Efk; try discriminate; intros _; try assumption.
        -- intros _. rewrite sbl_app_pay by reflexivity. pose proof (cnt_le isDone (wk s)). lia.
        -- intros HH2. apply K1. lia.
        -- intros HH2. apply K3. lia.
      * cu2 Ew (@Dead A). simpl in *.
        constructor; simpl; rewrite ?Enorm, ?Efk; try discriminate; intros _; try assumption.
        -- intros _. rewrite sbl_app_pay by reflexivity. pose proof (cnt_le isDone (wk s)). lia.
        -- intros HH2. apply K1. lia.
        -- intros HH2. apply K3. lia.
    + (* stopping puts StopR *)
      injection Hst as <-. cu2 Ew (@Done A). simpl in *.
      constructor; simpl; rewrite ?Enorm, ?Efk; try discriminate; intros _; try assumption.
      * rewrite hasPay_app, sbl_app_stop; simpl. rewrite orb_false_r. exact Kf.
      * intros HH2. apply K1. lia.
      * intros HH2. apply K3. lia.
Qed.

Lemma reach_inv2 xs s : reach xs s -> Inv2 (length xs) s.
Proof. induction 1; [apply inv2_init | eapply inv2_step; eauto; eapply reach_inv; eauto]. Qed.

(** ** The multiset of results, stated through counting: for every predicate [p] on results the
    number of results satisfying [p] is conserved across source, queues, workers and output. *)
Definition cntB (p : B -> bool) (l : list B) : nat := length (filter p l).
Definition fa (p : B -> bool) (a : A) : nat := match f a with Some b => if p b then 1 else 0 | None => 0 end.
Definition itw (p : B -> bool) (x : item A) : nat := match x with In a => fa p a | Stop => 0 end.
Definition resw (p : B -> bool) (x : res B) : nat := match x with Out b => if p b then 1 else 0 | _ => 0 end.
Definition wkw (p : B -> bool) (x : wst A) : nat := match x with Busy a => fa p a | _ => 0 end.
Definition pendw (p : B -> bool) (c : cpc B) : nat := match c with Put b => if p b then 1 else 0 | _ => 0 end.
Definition sum {X} (w : X -> nat) (l : list X) : nat := list_sum (map w l).

Definition MInv (p : B -> bool) (n0 : nat) (s : st) : Prop :=
  n0 = sum (fa p) (src s) + sum (itw p) (tp s) + sum (wkw p) (wk s) + sum (resw p) (rs s) + pendw p (pc s) + cntB p (out s).

Lemma sum_snoc {X} (w : X -> nat) l x : sum w (l ++ [x]) = sum w l + w x.
Proof. unfold sum. rewrite map_app, list_sum_app. simpl. lia. Qed.
Lemma sum_upd (w0 : wst A -> nat) (l : list (wst A)) w x y :
  nth_error l w = Some y -> sum w0 (upd l w x) + w0 y = sum w0 l + w0 x.
Proof.
  unfold sum. revert w; induction l as [|h t IH]; intros [|w] Hn; simpl in *; try discriminate.
  - injection Hn as ->. lia.
  - specialize (IH w Hn). lia.
Qed.
Lemma cntB_snoc p l b : cntB p (l ++ [b]) = cntB p l + (if p b then 1 else 0).
Proof. unfold cntB. apply filter_app_len. Qed.
Lemma cntB_fs p l : cntB p (fs A B f l) = sum (fa p) l.
Proof.
  unfold cntB, sum, fs. induction l as [|a t IH]; simpl; auto.
  rewrite filter_app, app_length, IH. unfold fa. destruct (f a) as [b|]; simpl; [destruct (p b)|]; simpl; lia.
Qed.

Lemma minv_init p xs : MInv p (sum (fa p) xs) (init xs).
Proof.
  unfold MInv, init, sum, cntB. simpl. assert (H0 : forall k, list_sum (map (wkw p) (repeat Idle k)) = 0)
    by (induction k; simpl; auto). rewrite H0. lia.
Qed.

Lemma minv_step p n0 s t s' : MInv p n0 s -> step s t = Some s' -> MInv p n0 s'.
Proof.
  unfold MInv. intros Hm Hst.
  destruct t as [|[|w]]; simpl in Hst.
  - unfold cstep in Hst. destruct (pc s) eqn:Epc.
    + assert (Hpw : forall c, (if prefill_break i T then Get else Prefill (S i)) = c -> pendw p c = 0)
        by (intros c <-; destruct (prefill_break i T); reflexivity).
      destruct (src s) as [|a s0] eqn:Es; simpl in Hst; injection Hst as <-; simpl;
        rewrite sum_snoc, (Hpw _ eq_refl); unfold sum in *; simpl in *; lia.
    + destruct (rs s) as [|[b| |] r'] eqn:Er; try discriminate; injection Hst as <-; simpl; unfold sum in *; simpl in *; try lia.
      destruct (active s - 1 =? 0); simpl; lia.
    + destruct (src s) as [|a s0] eqn:Es; simpl in Hst; injection Hst as <-; simpl;
        rewrite sum_snoc, cntB_snoc; unfold sum in *; simpl in *; lia.
    + destruct k as [|k]; injection Hst as <-; simpl; rewrite ?sum_snoc; simpl in *; lia.
    + discriminate.
  - unfold astep in Hst. destruct (pc s) eqn:Epc; try discriminate. injection Hst as <-. simpl in *. lia.
  - unfold wstep in Hst. destruct (nth_error (wk s) w) as [[|a| | |]|] eqn:Ew; try discriminate.
    + destruct (tp s) as [|[a|] t'] eqn:Et; try discriminate; injection Hst as <-; simpl.
      * pose proof (sum_upd (wkw p) _ _ (Busy a) _ Ew). unfold sum in *. simpl in *. lia.
      * pose proof (sum_upd (wkw p) _ _ (@Stopping A) _ Ew). unfold sum in *. simpl in *. lia.
    + destruct (f a) as [b|] eqn:Ef; [|rewrite worker_forwards in Hst]; injection Hst as <-; simpl.
      * pose proof (sum_upd (wkw p) _ _ (@Idle A) _ Ew) as HU. rewrite sum_snoc. unfold sum in *. simpl in *. unfold fa in HU. rewrite Ef in HU. lia.
      * pose proof (sum_upd (wkw p) _ _ (@Dead A) _ Ew) as HU. rewrite sum_snoc. unfold sum in *. simpl in *. unfold fa in HU. rewrite Ef in HU. lia.
    + injection Hst as <-; simpl. pose proof (sum_upd (wkw p) _ _ (@Done A) _ Ew). rewrite sum_snoc. unfold sum in *. simpl in *. lia.
Qed.

Lemma reach_minv p xs s : reach xs s -> MInv p (sum (fa p) xs) s.
Proof. induction 1; [apply minv_init | eapply minv_step; eauto]. Qed.

Lemma nIn0_itw p l : nIn l = 0 -> sum (itw p) l = 0.
Proof.
  unfold LazyPoolInv.nIn, sum. induction l as [|[a|] t IH]; simpl; auto; try discriminate.
Qed.
Lemma nOut0_resw p l : nOut l = 0 -> sum (resw p) l = 0.
Proof.
  unfold LazyPoolInv.nOut, sum. induction l as [|[b| |] t IH]; simpl; auto; try discriminate.
Qed.
Lemma alldone_wkw p (l : list (wst A)) : cnt isDone l = length l -> sum (wkw p) l = 0.
Proof.
  unfold sum. induction l as [|h t IH]; simpl; auto. intros Hc.
  pose proof (cnt_le isDone t). unfold LazyPoolInv.cnt in *. simpl in Hc.
  destruct h; simpl in *; lia.
Qed.

Lemma ending_active0 xs s : reach xs s -> normal (pc s) = false -> active s = 0.
Proof.
  intros Hr.
  induction Hr as [|s0 t s1 Hr0 IH Hst]; [discriminate|].
      destruct t as [|[|w]]; simpl in Hst.
      - unfold cstep in Hst. destruct (pc s0) eqn:E0.
        + destruct (next_item A (src s0)). injection Hst as <-. simpl. destruct (prefill_break i T); discriminate.
        + destruct (rs s0) as [|[b| |] r']; try discriminate; injection Hst as <-; simpl; try discriminate; auto.
          destruct (active s0 - 1 =? 0) eqn:Ez; [intros _; apply Nat.eqb_eq, Ez | discriminate].
        + destruct (next_item A (src s0)). injection Hst as <-. discriminate.
        + destruct k; injection Hst as <-; auto.
        + discriminate.
      - unfold astep in Hst. destruct (pc s0); try discriminate. injection Hst as <-. auto.
      - unfold wstep in Hst. destruct (nth_error (wk s0) w) as [[|a| | |]|]; try discriminate.
        + destruct (tp s0) as [|[a|] t']; try discriminate; injection Hst as <-; exact IH.
        + destruct (f a); [|rewrite worker_forwards in Hst]; injection Hst as <-; exact IH.
        + injection Hst as <-; exact IH.
Qed.

(** The final state of a normally finished pass. *)
Lemma finished_exact_lemma xs s : reach xs s -> pc s = Final Finished ->
  length (out s) = length xs /\ (forall p, cntB p (out s) = cntB p (fs A B f xs)) /\
  all_workers_ended s = true /\ src s = [] /\ active s = 0.
Proof.
  intros Hr Hpc. pose proof (reach_inv2 _ _ Hr) as [_ _ _ _ Kfin]. pose proof (reach_inv A B f T Tpos _ _ Hr) as [Hl _ _ _ _ _].
  rewrite Hpc in Kfin. destruct (Kfin eq_refl) as (F1 & F2 & F3 & F4 & F5 & F6).
  repeat split; auto.
  - intros p. pose proof (reach_minv p _ _ Hr) as Hm. unfold MInv in Hm.
    rewrite F1, (nIn0_itw p _ F2), (nOut0_resw p _ F4), Hpc in Hm. rewrite alldone_wkw in Hm by lia.
    rewrite cntB_fs. unfold sum in *. simpl in *. lia.
  - unfold all_workers_ended. apply forallb_forall. intros x Hx.
    destruct (In_nth_error _ _ Hx) as (w & Hw). rewrite (all_done _ _ _ (eq_trans F3 (eq_sym Hl)) Hw). reflexivity.
  - apply (ending_active0 xs); [exact Hr | rewrite Hpc; reflexivity].
Qed.

(** If the mapped function fails on some input, the pass never ends normally. *)
Lemma fs_full l : length (fs A B f l) = length l -> forall a, List.In a l -> f a <> None.
Proof.
  unfold fs. induction l as [|x t IH]; simpl; [tauto|]. rewrite app_length. intros Hlen a [<-|Hin].
  - intros Hf. rewrite Hf in Hlen. simpl in Hlen.
    assert (length (flat_map (fun a => match f a with Some b => [b] | None => [] end) t) <= length t).
    { clear. induction t as [|y t IH]; simpl; auto. rewrite app_length. destruct (f y); simpl; lia. }
    lia.
  - apply IH; auto.
    assert (length (flat_map (fun a => match f a with Some b => [b] | None => [] end) t) <= length t).
    { clear. induction t as [|y t IH]; simpl; auto. rewrite app_length. destruct (f y); simpl; lia. }
    destruct (f x); simpl in Hlen; lia.
Qed.

Lemma failure_not_finished_lemma xs s a : reach xs s -> List.In a xs -> f a = None -> pc s <> Final Finished.
Proof.
  intros Hr Hin Hf Hpc. destruct (finished_exact_lemma _ _ Hr Hpc) as (Hlen & Hcnt & _).
  specialize (Hcnt (fun _ => true)). unfold cntB in Hcnt.
  assert (Hall : forall l : list B, filter (fun _ => true) l = l) by (induction l; simpl; congruence).
  rewrite !Hall in Hcnt. apply (fs_full xs) with (a := a); auto. congruence.
Qed.
End R.

(** Permutation form of the result for result types with decidable equality. *)
Section Perm.
Variables A B : Type.
Variable f : A -> option B.
Variable T : nat.
Hypothesis Tpos : 1 <= T.
Hypothesis eq_dec : forall x y : B, {x = y} + {x <> y}.

Lemma count_occ_cntB (l : list B) x : count_occ eq_dec l x = cntB B (fun y => if eq_dec y x then true else false) l.
Proof.
  unfold cntB. induction l as [|y t IH]; simpl; auto. destruct (eq_dec y x); simpl; rewrite IH; reflexivity.
Qed.

Lemma finished_permutation_lemma xs s : reach A B f T xs s -> pc s = Final Finished -> Permutation (out s) (fs A B f xs).
Proof.
  intros Hr Hpc. destruct (finished_exact_lemma A B f T Tpos xs s Hr Hpc) as (_ & Hcnt & _).
  apply (Permutation_count_occ eq_dec). intros x. rewrite !count_occ_cntB. apply Hcnt.
Qed.
End Perm.

(** A state in which no thread can move is quiescent (consumer final, all workers ended). *)
Lemma stuck_is_quiescent A B f T : 1 <= T -> forall xs s, reach A B f T xs s ->
  (forall t, step A B f T s t = None) -> quiescent s = true.
Proof.
  intros Tpos xs s Hr Hst. destruct (quiescent s) eqn:Eq; auto.
  destruct (no_deadlock_lemma A B f T Tpos xs s Hr Eq) as (t & s' & Hs). rewrite Hst in Hs. discriminate.
Qed.
