(** C04: no shard is listed twice, and the executable exactness oracle [exact_all] holds after every history. *)
Require Import Sedpack.Model.Base Sedpack.Generated.GenMerge Sedpack.Generated.GenFiller Sedpack.Model.Filler Sedpack.Model.Meta.
Require Import Sedpack.Proofs.MergeBasics Sedpack.Proofs.MergeProofs Sedpack.Proofs.FillerProofs Sedpack.Proofs.HistoryProofs Sedpack.Proofs.ReachProofs.
Local Open Scope Z_scope.

(** every document lists distinct shard names and distinct child directories *)
Definition DocOK (fs : fsT) : Prop :=
  forall d s h, lookup d (lists fs) = Some (s, h) -> NoDup (map sh_name (sl_files s)) /\ NoDup (map li_dir (sl_children s)).

Lemma loc_docok fs d : DocOK fs -> NoDup (map sh_name (sl_files (load_or_create fs d))) /\ NoDup (map li_dir (sl_children (load_or_create fs d))).
Proof. intros H. unfold load_or_create. destruct (lookup d (lists fs)) as [[s h]|] eqn:E; [apply (H d s h E) | split; constructor]. Qed.

Lemma write_list_docok fs s : DocOK fs -> NoDup (map sh_name (sl_files s)) -> NoDup (map li_dir (sl_children s)) -> DocOK (fst (write_list fs s)).
Proof.
  intros H N1 N2 d s0 h0 E. rewrite write_list_lists in E. cbn [lookup] in E. destruct (dpath_eqb (sl_dir s) d); [injection E as <- _; auto | apply (H d s0 h0 E)].
Qed.

Lemma Forall2_dirs_nodup p (groups : list (nat * list list_info)) (news : list list_info) (P : nat * list list_info -> list_info -> Prop) :
  (forall g li, P g li -> li_dir li = p ++ [fst g]) -> Forall2 P groups news -> NoDup (map fst groups) -> NoDup (map li_dir news).
Proof.
  intros HP H. induction H as [|g li gs ns Hgl Hrest IH]; intros Hnd; cbn [map]; [constructor|].
  inversion Hnd as [|x y Hni Hnd']; subst. constructor; [|apply IH; exact Hnd'].
  intros Hin. apply Hni. clear -Hin HP Hgl Hrest. rewrite (HP g li Hgl) in Hin.
  induction Hrest as [|g' li' gs ns Hgl' _ IH']; cbn [map] in *; [destruct Hin|].
  destruct Hin as [E | Hin]; [left; rewrite (HP g' li' Hgl') in E; apply app_inv_head in E; congruence | right; apply IH'; exact Hin].
Qed.

Lemma merge_docok : forall fuel U c fs fs' li u0, hd_error U = Some u0 ->
  (forall u, List.In u U -> (c <= length (li_dir u))%nat) -> WFunder fs (firstn c (li_dir u0)) ->
  DocOK fs -> merge fuel U c fs = Ok (fs', li) -> DocOK fs'.
Proof.
  induction fuel as [|fuel' IH]; intros U c fs fs' li u0 Hhd Hlens Hwf Hdk Hm; [discriminate|].
  rewrite merge_S in Hm. destruct U as [|u U']; [discriminate|]. injection Hhd as ->.
  destruct (negb (forallb (fun u => dpath_eqb (firstn c (li_dir u)) (firstn c (li_dir u0))) (u0 :: U'))) eqn:Epre; [discriminate|].
  apply negb_false_iff in Epre. rewrite forallb_forall in Epre.
  cbv zeta in Hm. set (p := firstn c (li_dir u0)) in *. set (root := load_or_create fs p) in *.
  destruct (negb (Nat.eqb _ _)); [discriminate|]. destruct (merge_asserts_single_update && _)%bool; [discriminate|].
  set (deeper := filter (fun u => is_deeper_level (length (li_dir u)) c) (u0 :: U')) in *.
  destruct (fold_left (Fstep fuel' c) (group_by c (deeper ++ sl_children root)) (Ok (fs, []))) as [[fs3 merged]|e] eqn:Ef; [|discriminate].
  assert (Hplen : length p = c) by (unfold p; rewrite firstn_length; specialize (Hlens u0 (or_introl eq_refl)); lia).
  pose proof (load_or_create_WF fs p Hwf) as (Hr1 & Hr2 & Hr3 & Hr4). fold root in Hr1, Hr2, Hr3, Hr4.
  assert (Hmem : Forall (fun u => prefix p (li_dir u) /\ (c < length (li_dir u))%nat) (deeper ++ sl_children root)).
  { apply Forall_app. split.
    - apply Forall_forall. intros u Hu. unfold deeper in Hu. apply filter_In in Hu. destruct Hu as (Hin & Hdp).
      apply is_deeper_spec in Hdp. split; [|exact Hdp]. unfold prefix. rewrite Hplen. apply dpath_eqb_eq. apply (Epre u Hin).
    - eapply Forall_impl; [|exact Hr4]. cbn beta. intros ch (x & Hx). rewrite Hx. split; [apply prefix_app|]. rewrite app_length. cbn [length]. lia. }
  pose proof (group_by_ok c _ _ Hmem) as Hgok. rewrite <- Hplen in Hgok, Ef.
  destruct (fold_groups fuel' (merge_spec fuel') p _ fs [] fs3 merged Hgok Hwf Ef) as (news & Hmg & Hf2 & _).
  cbn [app] in Hmg. subst merged.
  (* the recursive merges keep DocOK *)
  assert (G : forall gs fsa done fsb m, groups_ok (length p) (fun u => prefix p (li_dir u) /\ (length p < length (li_dir u))%nat) gs -> WFunder fsa p -> DocOK fsa ->
     fold_left (Fstep fuel' (length p)) gs (Ok (fsa, done)) = Ok (fsb, m) -> DocOK fsb).
  { induction gs as [|[k Ug] gs IHg]; intros fsa done fsb m [Hnd Hall] Wa Da E; cbn [fold_left] in E; [injection E as <- _; exact Da|].
    inversion Hnd as [|x1 y1 Hni Hnd' Ex1]; clear Ex1. inversion Hall as [|x2 y2 [Hne HU] Hall' Ex2]; clear Ex2. cbn [fst snd] in *.
    unfold Fstep at 2 in E. cbn [snd] in E. destruct (merge fuel' Ug (S (length p)) fsa) as [[fs2 info]|e] eqn:Em; [|rewrite fold_err in E; discriminate].
    destruct Ug as [|ug Ug']; [congruence|].
    assert (Hm' : forall u, List.In u (ug :: Ug') -> gkey (length p) u = k /\ prefix p (li_dir u) /\ (length p < length (li_dir u))%nat) by (rewrite Forall_forall in HU; exact HU).
    destruct (Hm' ug (or_introl eq_refl)) as (Hk0 & Hp0 & Hl0).
    assert (Hp' : firstn (S (length p)) (li_dir ug) = p ++ [k]) by (rewrite firstn_S_nth by exact Hl0; unfold gkey in Hk0; rewrite Hk0; f_equal; exact Hp0).
    assert (Hwf' : WFunder fsa (firstn (S (length p)) (li_dir ug))) by (rewrite Hp'; eapply WFunder_mono; [apply prefix_app | exact Wa]).
    assert (Hl' : forall u, List.In u (ug :: Ug') -> (S (length p) <= length (li_dir u))%nat) by (intros u Hu; destruct (Hm' u Hu) as (_ & _ & H3); lia).
    pose proof (IH (ug :: Ug') (S (length p)) fsa fs2 info ug eq_refl Hl' Hwf' Da Em) as D2.
    destruct (merge_spec fuel' (ug :: Ug') (S (length p)) fsa fs2 info ug eq_refl Hl' Hwf' Em) as (_ & _ & Hsh & Hfoot & Hwf2 & _).
    cbv zeta in *. rewrite Hp' in *.
    assert (W2 : WFunder fs2 p).
    { intros d s h Hpd Hlk. destruct (dpath_eqb (firstn (length (p ++ [k])) d) (p ++ [k])) eqn:Epk.
      - apply dpath_eqb_eq in Epk. apply (Hwf2 d s h Epk Hlk).
      - assert (Hnp : ~ prefix (p ++ [k]) d) by (intros HH; unfold prefix in HH; rewrite HH, dpath_eqb_refl in Epk; discriminate).
        rewrite (Hfoot d Hnp) in Hlk. apply (WFdoc_shards fsa fs2); [congruence|]. apply (Wa d s h Hpd Hlk). }
    apply (IHg fs2 (done ++ [info]) fsb m (conj Hnd' Hall') W2 D2 E). }
  pose proof (G _ _ _ _ _ Hgok Hwf Hdk Ef) as D3.
  destruct (loc_docok fs p Hdk) as [N1 _]. fold root in N1.
  destruct (write_list fs3 _) as [fs4 li4] eqn:Ew. injection Hm as <- <-.
  replace fs4 with (fst (write_list fs3 {| sl_dir := p; sl_nex := fold_left (fun z ch => z + li_nex ch) news (fold_left (fun z ch => z - li_nex ch) (sl_children root) (sl_nex root)); sl_files := sl_files root; sl_children := news |})) by (rewrite Ew; reflexivity).
  apply write_list_docok; [exact D3 | exact N1|]. cbn [sl_children].
  destruct Hgok as [Hnd _].
  apply (Forall2_dirs_nodup p _ news _ (fun g li H => proj1 H) Hf2 Hnd).
Qed.

Lemma add_shard_docok fs d sh h : WFunder fs [] -> FreshOK fs -> DocOK fs -> DocOK (add_shard fs d sh h).
Proof.
  intros Hwf Hfr Hdk. unfold add_shard. cbv zeta. set (fs1 := {| lists := lists fs; shards := _; ver := _; fresh := _; base := _ |}).
  assert (D1 : DocOK fs1) by (intros d0 s0 h0 E; apply (Hdk d0 s0 h0 E)).
  destruct (loc_docok fs1 d D1) as [N1 N2]. apply write_list_docok; [exact D1 | | exact N2]. cbn [sl_files].
  rewrite map_app. cbn [map sh_name]. apply NoDup_app_single; [exact N1|].
  intros Hin. apply in_map_iff in Hin as (sh0 & Hn & Hin).
  assert (Hold : WFdoc fs d (load_or_create fs1 d)).
  { unfold load_or_create. cbn [lists fs1]. destruct (lookup d (lists fs)) as [[s hh]|] eqn:E; [apply (Hwf d s hh); [reflexivity | exact E] | apply WFdoc_empty]. }
  destruct Hold as (_ & _ & H3 & _). rewrite forallb_forall in H3. specialize (H3 sh0 Hin). unfold shard_exact in H3.
  apply andb_true_iff in H3 as [_ H3]. destruct (lookup_shard d (sh_name sh0) (shards fs)) as [v|] eqn:E; [|discriminate].
  apply Hfr in E. lia.
Qed.

Section S4.
Variable eps : nat.
Hypothesis Heps : (1 <= eps)%nat.

Lemma filler_docok fs sub ops : WFunder fs [] -> FreshOK fs -> DocOK fs -> DocOK (fst (filler_session fs sub eps ops)).
Proof.
  intros Hwf Hfr Hdk. unfold filler_session. cbv zeta.
  set (st := run_ops eps ops). set (closes := f_closed st ++ exit_closes st).
  assert (Hsz : Forall (fun c => sh_n (snd c) = length (sh_ex (snd c))) closes).
  { pose proof (sizes_ok_lemma eps Heps ops) as H. unfold sizes_ok, session_closed in H. fold st in H. fold closes in H.
    rewrite forallb_forall in H. apply Forall_forall. intros c Hc. specialize (H c Hc). unfold size_ok in H.
    apply andb_true_iff in H as [_ H]. apply Nat.eqb_eq in H. exact H. }
  assert (A : forall cl fsa, Forall (fun c => sh_n (snd c) = length (sh_ex (snd c))) cl -> WFunder fsa [] -> FreshOK fsa -> DocOK fsa ->
     let fsb := fold_left (fun fs0 c => add_shard fs0 (split_code (fst c) :: sub) (snd c) (f_heap st)) cl fsa in WFunder fsb [] /\ FreshOK fsb /\ DocOK fsb).
  { induction cl as [|c t IH]; intros fsa Hs W F D; cbn [fold_left]; [auto|].
    inversion Hs as [|x y Hc Ht]; subst.
    apply IH; [exact Ht | apply add_shard_WF; assumption | apply add_shard_fresh; assumption | apply add_shard_docok; assumption]. }
  destruct (A closes fs Hsz Hwf Hfr Hdk) as (W1 & F1 & D1). cbv zeta in *.
  set (fs1 := fold_left (fun fs0 c => add_shard fs0 (split_code (fst c) :: sub) (snd c) (f_heap st)) closes fs) in *.
  assert (B : forall tl fsa acc, WFunder fsa [] -> DocOK fsa ->
     DocOK (fst (fold_left (fun (a : fsT * list list_info) (c : nat) => let (fs2, li) := write_list (fst a) (load_or_create (fst a) (c :: sub)) in (fs2, snd a ++ [li])) tl (fsa, acc)))).
  { induction tl as [|c t IH]; intros fsa acc W D; cbn [fold_left fst snd]; [exact D|].
    pose proof (rewrite_WF fsa (c :: sub) W) as W2. destruct (loc_docok fsa (c :: sub) D) as [N1 N2].
    pose proof (write_list_docok fsa _ D N1 N2) as D2.
    destruct (write_list fsa (load_or_create fsa (c :: sub))) as [fs2 li]. cbn [fst] in *. apply IH; assumption. }
  specialize (B (touched closes []) fs1 [] W1 D1).
  destruct (fold_left _ (touched closes []) (fs1, [])) as [fs3 ups]. cbn [fst] in *.
  intros d s0 h0 E. apply (B d s0 h0 E).
Qed.

Lemma wc_fold_docok : forall gs fs1 i1 fs' info',
  groups_ok 0 (fun u => (1 <= length (li_dir u))%nat) gs -> WFunder fs1 [] -> DocOK fs1 -> NoDup (map fst i1) ->
  fold_left WCstep gs (Ok (fs1, i1)) = Ok (fs', info') -> DocOK fs' /\ NoDup (map fst info').
Proof.
  induction gs as [|[k U] gs IH]; intros fs1 i1 fs' info' [Hnd Hall] Hwf Hdk Hni1 Hf; cbn [fold_left] in Hf.
  - injection Hf as <- <-. auto.
  - unfold WCstep at 2 in Hf. cbn [fst snd] in Hf.
    inversion Hnd as [|x1 y1 Hni Hnd' Ex1]; clear Ex1. inversion Hall as [|x2 y2 [Hne HU] Hall' Ex2]; clear Ex2. cbn [fst snd] in *.
    destruct (merge FUEL U 1%nat fs1) as [[fs2 li]|e] eqn:Em; [|rewrite wc_err in Hf; discriminate].
    destruct U as [|u0 U']; [congruence|].
    assert (Hmem : forall u, List.In u (u0 :: U') -> gkey 0 u = k /\ (1 <= length (li_dir u))%nat) by (rewrite Forall_forall in HU; exact HU).
    destruct (Hmem u0 (or_introl eq_refl)) as [Hk0 Hl0].
    assert (Hp : firstn 1 (li_dir u0) = [k]) by (rewrite firstn1_gkey by exact Hl0; rewrite Hk0; reflexivity).
    assert (Hwf1 : WFunder fs1 (firstn 1 (li_dir u0))) by (eapply WFunder_mono; [|exact Hwf]; reflexivity).
    pose proof (merge_docok FUEL (u0 :: U') 1%nat fs1 fs2 li u0 eq_refl (fun u Hu => proj2 (Hmem u Hu)) Hwf1 Hdk Em) as D2.
    destruct (merge_spec FUEL (u0 :: U') 1%nat fs1 fs2 li u0 eq_refl (fun u Hu => proj2 (Hmem u Hu)) Hwf1 Em) as (_ & _ & Hsh & Hfoot & Hwf2 & _).
    cbv zeta in *. rewrite Hp in *.
    assert (W2 : WFunder fs2 []).
    { intros d s0 h0 _ E. destruct (dpath_eqb (firstn 1 d) [k]) eqn:Epk.
      - apply dpath_eqb_eq in Epk. apply (Hwf2 d s0 h0 Epk E).
      - assert (Hnp : ~ prefix [k] d) by (intros HH; unfold prefix in HH; cbn [length] in HH; rewrite HH, dpath_eqb_refl in Epk; discriminate).
        rewrite (Hfoot d Hnp) in E. apply (WFdoc_shards fs1 fs2); [congruence|]. apply (Hwf d s0 h0); [reflexivity | exact E]. }
    apply (IH fs2 (dset i1 k li) fs' info' (conj Hnd' Hall') W2 D2); [|exact Hf].
    clear -Hni1. induction i1 as [|[s v] t IHt]; cbn [dset map]; [constructor; [intros []|constructor]|].
    inversion Hni1 as [|x y Hx Hy]; subst. destruct (Nat.eqb_spec k s) as [->|Hne]; cbn [map fst]; [constructor; assumption|].
    constructor; [|apply IHt; exact Hy]. intros Hin. apply Hx.
    clear -Hin Hne. induction t as [|[s' v'] t IHt]; cbn [dset map fst] in *; [destruct Hin as [E | []]; congruence|].
    destruct (Nat.eqb_spec k s') as [->|Hne']; cbn [map fst] in Hin; [destruct Hin as [E | Hin]; [congruence | right; exact Hin]|].
    destruct Hin as [E | Hin]; [left; exact E | right; apply IHt; exact Hin].
Qed.

Definition ShardDirs (fs : fsT) : Prop := forall k v, List.In (k, v) (shards fs) -> exists s t, fst k = s :: t.

Definition Inv4 (st : fsT * dinfo) : Prop := Inv3 st /\ DocOK (fst st) /\ NoDup (map fst (snd st)) /\ ShardDirs (fst st).

Lemma filler_sharddirs fs sub ops : ShardDirs fs -> ShardDirs (fst (filler_session fs sub eps ops)).
Proof.
  intros Hs. unfold filler_session. cbv zeta.
  set (st := run_ops eps ops). set (closes := f_closed st ++ exit_closes st).
  assert (A : forall cl fsa, ShardDirs fsa -> ShardDirs (fold_left (fun fs0 c => add_shard fs0 (split_code (fst c) :: sub) (snd c) (f_heap st)) cl fsa)).
  { induction cl as [|c t IH]; intros fsa Ha; cbn [fold_left]; [exact Ha|]. apply IH.
    intros k v H. rewrite add_shard_shards in H. destruct H as [E | H]; [injection E as <- _; eexists _, _; reflexivity | apply (Ha k v H)]. }
  specialize (A closes fs Hs). set (fs1 := fold_left _ closes fs) in *.
  assert (B : forall tl fsa acc, shards (fst (fold_left (fun (a : fsT * list list_info) (c : nat) => let (fs2, li) := write_list (fst a) (load_or_create (fst a) (c :: sub)) in (fs2, snd a ++ [li])) tl (fsa, acc))) = shards fsa).
  { induction tl as [|c t IH]; intros fsa acc; cbn [fold_left fst snd]; [reflexivity|].
    pose proof (rewrite_shards fsa (c :: sub)) as E. destruct (write_list fsa (load_or_create fsa (c :: sub))) as [fs2 li]. cbn [fst] in *. rewrite IH. exact E. }
  specialize (B (touched closes []) fs1 []). destruct (fold_left _ (touched closes []) (fs1, [])) as [fs3 ups]. cbn [fst shards] in *.
  intros k v H. rewrite B in H. apply (A k v H).
Qed.

Lemma finish4 info fs1 ups st' : WFunder fs1 [] -> DocOK fs1 -> NoDup (map fst info) -> ShardDirs fs1 ->
  (forall u, List.In u ups -> (1 <= length (li_dir u))%nat) ->
  match ups with [] => Ok (fs1, info) | _ => write_config fs1 info ups end = Ok st' ->
  DocOK (fst st') /\ NoDup (map fst (snd st')) /\ ShardDirs (fst st').
Proof.
  intros W D N S L Hr. destruct ups as [|u0 ups']; [injection Hr as <-; auto|].
  destruct st' as [fs' info']. unfold write_config, group_split in Hr. fold WCstep in Hr. cbn [fst snd].
  assert (Gk : groups_ok 0 (fun u => (1 <= length (li_dir u))%nat) (group_by 0 (u0 :: ups'))) by (apply group_by_ok; apply Forall_forall; exact L).
  destruct (wc_fold_docok _ fs1 info fs' info' Gk W D N Hr) as [D' N']. split; [exact D'|]. split; [exact N'|].
  destruct (wc_fold_extends _ fs1 info fs' info' Gk W Hr) as [_ E2].
  (* merges do not touch the shard store *)
  assert (Sh : forall gs fsa ia fsb ib, groups_ok 0 (fun u => (1 <= length (li_dir u))%nat) gs -> WFunder fsa [] -> fold_left WCstep gs (Ok (fsa, ia)) = Ok (fsb, ib) -> shards fsb = shards fsa).
  { clear. induction gs as [|[k U] gs IH]; intros fsa ia fsb ib [Hnd Hall] Hwf Hf; cbn [fold_left] in Hf; [injection Hf as <- _; reflexivity|].
    unfold WCstep at 2 in Hf. cbn [fst snd] in Hf.
    inversion Hnd as [|x1 y1 Hni Hnd' Ex1]; clear Ex1. inversion Hall as [|x2 y2 [Hne HU] Hall' Ex2]; clear Ex2. cbn [fst snd] in *.
    destruct (merge FUEL U 1%nat fsa) as [[fs2 li]|e] eqn:Em; [|rewrite wc_err in Hf; discriminate].
    destruct U as [|u0 U']; [congruence|].
    assert (Hmem : forall u, List.In u (u0 :: U') -> gkey 0 u = k /\ (1 <= length (li_dir u))%nat) by (rewrite Forall_forall in HU; exact HU).
    destruct (Hmem u0 (or_introl eq_refl)) as [Hk0 Hl0].
    assert (Hp : firstn 1 (li_dir u0) = [k]) by (rewrite firstn1_gkey by exact Hl0; rewrite Hk0; reflexivity).
    assert (Hwf1 : WFunder fsa (firstn 1 (li_dir u0))) by (eapply WFunder_mono; [|exact Hwf]; reflexivity).
    destruct (merge_spec FUEL (u0 :: U') 1%nat fsa fs2 li u0 eq_refl (fun u Hu => proj2 (Hmem u Hu)) Hwf1 Em) as (_ & _ & Hsh & Hfoot & Hwf2 & _).
    cbv zeta in *. rewrite Hp in *.
    assert (W2 : WFunder fs2 []).
    { intros d s0 h0 _ E. destruct (dpath_eqb (firstn 1 d) [k]) eqn:Epk.
      - apply dpath_eqb_eq in Epk. apply (Hwf2 d s0 h0 Epk E).
      - assert (Hnp : ~ prefix [k] d) by (intros HH; unfold prefix in HH; cbn [length] in HH; rewrite HH, dpath_eqb_refl in Epk; discriminate).
        rewrite (Hfoot d Hnp) in E. apply (WFdoc_shards fsa fs2); [congruence|]. apply (Hwf d s0 h0); [reflexivity | exact E]. }
    rewrite (IH fs2 _ fsb ib (conj Hnd' Hall') W2 Hf). exact Hsh. }
  intros k v H. rewrite (Sh _ fs1 info fs' info' Gk W Hr) in H. apply (S k v H).
Qed.

Lemma run_session_inv4 st s st' : Inv4 st -> run_session eps st s = Ok st' -> Inv4 st'.
Proof.
  intros (H3 & Hdk & Hnd & Hsd) Hr. split; [apply (run_session_inv3 eps Heps st s st' H3 Hr)|].
  destruct st as [fs info]. pose proof H3 as ((Hwf & Hfr & _) & _). cbn [fst snd] in *. unfold run_session in Hr. destruct s as [sub ops | writers].
  - pose proof (filler_docok fs sub ops Hwf Hfr Hdk) as D1. pose proof (filler_sharddirs fs sub ops Hsd) as S1.
    destruct (filler_phase eps Heps fs sub ops Hwf Hfr) as (W1 & _ & _ & _ & L1 & _).
    destruct (filler_session fs sub eps ops) as [fs1 ups]. cbn [fst snd] in *.
    exact (finish4 info fs1 ups st' W1 D1 Hnd S1 L1 Hr).
  - set (fsm := {| lists := lists fs; shards := shards fs; ver := ver fs; fresh := (fresh fs + length writers)%nat; base := base fs |}) in *.
    assert (Wm : WFunder fsm []) by (intros d s0 h0 Hp E; apply (WFdoc_shards fs fsm); [reflexivity | exact (Hwf d s0 h0 Hp E)]).
    assert (Fm : FreshOK fsm) by (intros d n v E; cbn [fresh fsm]; pose proof (Hfr d n v E); lia).
    assert (Dm : DocOK fsm) by (intros d s0 h0 E; apply (Hdk d s0 h0 E)).
    assert (Sm : ShardDirs fsm) by (intros k v H; apply (Hsd k v H)).
    assert (M : forall ws fsa us k, WFunder fsa [] -> FreshOK fsa -> DocOK fsa -> ShardDirs fsa ->
      let r := fold_left (fun (acc : fsT * list list_info * nat) (ops : list wop) =>
            let '(fsx, usx, kx) := acc in let (fsy, u) := filler_session fsx [kx] eps ops in (fsy, usx ++ u, S kx)) ws (fsa, us, k) in
      DocOK (fst (fst r)) /\ ShardDirs (fst (fst r))).
    { induction ws as [|ops t IH]; intros fsa us k W F D S; cbn [fold_left fst]; [auto|].
      pose proof (filler_docok fsa [k] ops W F D) as D1. pose proof (filler_sharddirs fsa [k] ops S) as S1.
      destruct (filler_phase eps Heps fsa [k] ops W F) as (W1 & F1 & _).
      destruct (filler_session fsa [k] eps ops) as [fsb u1]. cbn [fst] in *. apply IH; assumption. }
    destruct (M writers fsm [] (fresh fs) Wm Fm Dm Sm) as [D1 S1]. cbv zeta in *.
    destruct (multi_phase eps Heps writers fsm (fresh fs) Wm Fm) as (W1 & _ & _ & _ & L1 & _). cbv zeta in *.
    destruct (fold_left _ writers (fsm, [], fresh fs)) as [[fs1 ups] kk]. cbn [fst snd] in *.
    exact (finish4 info fs1 ups st' W1 D1 Hnd S1 L1 Hr).
Qed.

Theorem history_inv4 h st : run_history eps h = Ok st -> Inv4 st.
Proof.
  unfold run_history.
  assert (G : forall h st0 st1, Inv4 st0 -> fold_left (fun acc s => match acc with Err e => Err e | Ok stx => run_session eps stx s end) h (Ok st0) = Ok st1 -> Inv4 st1).
  { induction h0 as [|s t IH]; intros st0 st1 HI Hf; cbn [fold_left] in Hf.
    - injection Hf as <-. exact HI.
    - destruct (run_session eps st0 s) as [stx|e] eqn:Er.
      + apply (IH stx st1); [apply (run_session_inv4 st0 s stx HI Er) | exact Hf].
      + exfalso. clear -Hf. induction t as [|x t IHt]; cbn [fold_left] in Hf; [discriminate | auto]. }
  intros Hr. apply (G h (fs0, []) st); [|exact Hr].
  split; [apply inv3_init|]. split; [intros d s h0 E; discriminate|]. split; [constructor | intros k v []].
Qed.
End S4.

(** ** the depth-first list has no repetition *)
Definition pair_of (sh : shard_info) : dpath * nat := (sh_dir sh, sh_name sh).

Lemma NoDup_app_intro {A} (l1 l2 : list A) : NoDup l1 -> NoDup l2 -> (forall x, List.In x l1 -> ~ List.In x l2) -> NoDup (l1 ++ l2).
Proof.
  induction l1 as [|a l1 IH]; intros N1 N2 D; cbn [app]; [exact N2|]. inversion N1 as [|x y Hx Hy]; subst.
  constructor; [intros Hin; apply in_app_or in Hin as [Hin | Hin]; [contradiction | apply (D a (or_introl eq_refl) Hin)] | apply IH; [exact Hy | exact N2 | intros x Hx'; apply D; right; exact Hx']].
Qed.
Lemma NoDup_flat_map_keys {A B K} (key : A -> K) (g : A -> list B) (l : list A) :
  NoDup (map key l) -> (forall a, List.In a l -> NoDup (g a)) ->
  (forall a b x, List.In a l -> List.In b l -> key a <> key b -> List.In x (g a) -> ~ List.In x (g b)) -> NoDup (flat_map g l).
Proof.
  induction l as [|a l IH]; intros Nk Ng D; cbn [flat_map]; [constructor|]. cbn [map] in Nk. inversion Nk as [|x y Hx Hy]; subst.
  apply NoDup_app_intro; [apply Ng; left; reflexivity | apply IH; [exact Hy | intros b Hb; apply Ng; right; exact Hb | intros b c x Hb Hc; apply D; right; assumption]|].
  intros x Hxa Hin. apply in_flat_map in Hin as (b & Hb & Hxb). apply (D a b x (or_introl eq_refl) (or_intror Hb)); [|exact Hxa | exact Hxb].
  intros E. apply Hx. rewrite E. apply in_map. exact Hb.
Qed.

Lemma dfs_dirs f : forall fs q sh, WFunder fs q -> List.In sh (dfs f fs q) -> prefix q (sh_dir sh).
Proof.
  induction f as [|f IH]; intros fs q sh Hwf Hin; [destruct Hin|]. cbn [dfs] in Hin.
  destruct (lookup q (lists fs)) as [[s h]|] eqn:E; [|destruct Hin].
  destruct (Hwf q s h (prefix_refl q) E) as (_ & _ & H3 & H4). apply in_app_or in Hin as [Hin | Hin].
  - rewrite forallb_forall in H3. specialize (H3 sh Hin). unfold shard_exact in H3. apply andb_true_iff in H3 as [H3 _]. apply dpath_eqb_eq in H3. rewrite H3. apply prefix_refl.
  - apply in_flat_map in Hin as (c & Hc & Hin). rewrite Forall_forall in H4. destruct (H4 c Hc) as [x Hx]. rewrite Hx in Hin.
    eapply prefix_trans; [apply prefix_app|]. apply (IH fs (q ++ [x]) sh); [eapply WFunder_mono; [apply prefix_app | exact Hwf] | exact Hin].
Qed.

Lemma dfs_nodup f : forall fs q, WFunder fs q -> DocOK fs -> NoDup (map pair_of (dfs f fs q)).
Proof.
  induction f as [|f IH]; intros fs q Hwf Hdk; [constructor|]. cbn [dfs].
  destruct (lookup q (lists fs)) as [[s h]|] eqn:E; [|constructor].
  destruct (Hwf q s h (prefix_refl q) E) as (_ & _ & H3 & H4). destruct (Hdk q s h E) as [N1 N2].
  rewrite forallb_forall in H3. rewrite Forall_forall in H4.
  assert (Hown : forall sh, List.In sh (sl_files s) -> sh_dir sh = q).
  { intros sh Hin. specialize (H3 sh Hin). unfold shard_exact in H3. apply andb_true_iff in H3 as [H3 _]. apply dpath_eqb_eq in H3. exact H3. }
  rewrite map_app. apply NoDup_app_intro.
  - (* own entries: same directory, distinct names *)
    clear -N1 Hown. induction (sl_files s) as [|sh t IHt]; cbn [map]; [constructor|]. cbn [map] in N1. inversion N1 as [|x y Hx Hy]; subst.
    constructor; [|apply IHt; [exact Hy | intros sh' H'; apply Hown; right; exact H']].
    intros Hin. apply Hx. apply in_map_iff in Hin as (sh' & Ep & Hin'). apply in_map_iff. exists sh'. split; [|exact Hin']. unfold pair_of in Ep. congruence.
  - rewrite flat_map_concat_map, concat_map, map_map, <- flat_map_concat_map.
    apply (NoDup_flat_map_keys li_dir); [exact N2 | |].
    + intros c Hc. destruct (H4 c Hc) as [x Hx]. rewrite Hx. apply IH; [eapply WFunder_mono; [apply prefix_app | exact Hwf] | exact Hdk].
    + intros a b x Ha Hb Hne Hxa Hxb. apply in_map_iff in Hxa as (sa & <- & Hsa). apply in_map_iff in Hxb as (sb & Eb & Hsb).
      destruct (H4 a Ha) as [xa Ea]. destruct (H4 b Hb) as [xb Eb'].
      assert (Pa : prefix (q ++ [xa]) (sh_dir sa)) by (rewrite <- Ea; apply (dfs_dirs f fs (li_dir a) sa); [rewrite Ea; eapply WFunder_mono; [apply prefix_app | exact Hwf] | exact Hsa]).
      assert (Pb : prefix (q ++ [xb]) (sh_dir sb)) by (rewrite <- Eb'; apply (dfs_dirs f fs (li_dir b) sb); [rewrite Eb'; eapply WFunder_mono; [apply prefix_app | exact Hwf] | exact Hsb]).
      unfold pair_of in Eb. injection Eb as Ed _. rewrite Ed in Pb.
      apply (prefix_snoc_neq q xa xb (sh_dir sa)); [intros Exx; apply Hne; rewrite Ea, Eb', Exx; reflexivity | exact Pa | exact Pb].
  - (* own entries lie in q, the children's strictly below *)
    intros x Hx Hin. apply in_map_iff in Hx as (sh & <- & Hsh).
    rewrite flat_map_concat_map, concat_map, map_map, <- flat_map_concat_map in Hin. apply in_flat_map in Hin as (c & Hc & Hin).
    apply in_map_iff in Hin as (sb & Eb & Hsb). destruct (H4 c Hc) as [xc Ec].
    assert (Pb : prefix (q ++ [xc]) (sh_dir sb)) by (rewrite <- Ec; apply (dfs_dirs f fs (li_dir c) sb); [rewrite Ec; eapply WFunder_mono; [apply prefix_app | exact Hwf] | exact Hsb]).
    unfold pair_of in Eb. injection Eb as Ed _. rewrite Ed, (Hown sh Hsh) in Pb. exact (prefix_longer q xc Pb).
Qed.

Lemma nodup_names_spec l : NoDup l -> nodup_names l = true.
Proof.
  induction l as [|[d n] t IH]; intros N; [reflexivity|]. inversion N as [|x y Hx Hy]; subst. cbn [nodup_names]. rewrite (IH Hy), andb_true_r.
  apply negb_true_iff. destruct (existsb _ t) eqn:E; [|reflexivity]. exfalso. apply Hx.
  apply existsb_exists in E as ([d' n'] & Hin & Hq). cbn [fst snd] in Hq. apply andb_true_iff in Hq as [H1 H2]. apply dpath_eqb_eq in H1. apply Nat.eqb_eq in H2. subst. exact Hin.
Qed.

Lemma dget_of_in info s li : NoDup (map fst info) -> List.In (s, li) info -> dget info s = Some li.
Proof.
  induction info as [|[s' v] t IH]; intros N Hin; [destruct Hin|]. cbn [map] in N. inversion N as [|x y Hx Hy]; subst. cbn [dget].
  destruct Hin as [E | Hin]; [injection E as -> ->; rewrite Nat.eqb_refl; reflexivity|].
  destruct (Nat.eqb_spec s s') as [->|Hne]; [exfalso; apply Hx; apply in_map_iff; exists (s', li); split; [reflexivity | exact Hin] | apply IH; assumption].
Qed.
Lemma in_of_dget info s li : dget info s = Some li -> List.In (s, li) info.
Proof.
  induction info as [|[s' v] t IH]; cbn [dget]; [discriminate|]. destruct (Nat.eqb_spec s s') as [->|Hne]; [intros [= ->]; left; reflexivity | intros H; right; apply IH, H].
Qed.
Lemma In_lookup_shard d n v l : List.In ((d, n), v) l -> exists v', lookup_shard d n l = Some v'.
Proof.
  induction l as [|[[d' n'] v'] t IH]; intros Hin; [destruct Hin|]. cbn [lookup_shard].
  destruct (dpath_eqb d' d && Nat.eqb n' n) eqn:E; [eexists; reflexivity|]. destruct Hin as [Eq | Hin]; [|apply IH, Hin].
  injection Eq as -> -> _. rewrite dpath_eqb_refl, Nat.eqb_refl in E. discriminate.
Qed.

(** The executable oracle that the harness evaluates on the model and audits on the real directory after every session of every
    generated history holds after EVERY history that completes: every summary exact, no shard listed twice, none unlisted. *)
Theorem history_exact_all eps : (1 <= eps)%nat -> forall h fs info, run_history eps h = Ok (fs, info) -> exact_all fs info = true.
Proof.
  intros Heps h fs info Hr.
  destruct (history_inv4 eps Heps h (fs, info) Hr) as (H3 & Hdk & Hnd & Hsd). pose proof H3 as ((Hwf & Hfr & Hex) & Hlk & Hlo & Hinfo). cbn [fst snd] in *.
  assert (Hent : forall e, List.In e info -> li_dir (snd e) = [fst e] /\ exact FUEL fs (snd e) = true).
  { intros [s li] He. cbn [fst snd]. apply (Hex s li (dget_of_in info s li Hnd He)). intros []. }
  unfold exact_all. apply andb_true_iff. split; [apply andb_true_iff; split|].
  - apply forallb_forall. intros e He. destruct (Hent e He) as [D E]. rewrite E, D, dpath_eqb_refl. reflexivity.
  - apply nodup_names_spec. unfold all_listed.
    apply (NoDup_flat_map_keys (fun e : nat * list_info => fst e)); [exact Hnd | |].
    + intros e He. destruct (Hent e He) as [D _]. rewrite D. apply (dfs_nodup FUEL fs [fst e]); [eapply WFunder_mono; [|exact Hwf]; reflexivity | exact Hdk].
    + intros a b x Ha Hb Hne Hxa Hxb. destruct (Hent a Ha) as [Da _]. destruct (Hent b Hb) as [Db _]. rewrite Da in Hxa. rewrite Db in Hxb.
      apply in_map_iff in Hxa as (sa & <- & Hsa). apply in_map_iff in Hxb as (sb & Eb & Hsb). injection Eb as Ed _.
      pose proof (dfs_dirs FUEL fs [fst a] sa (WFunder_mono fs [] [fst a] eq_refl Hwf) Hsa) as Pa.
      pose proof (dfs_dirs FUEL fs [fst b] sb (WFunder_mono fs [] [fst b] eq_refl Hwf) Hsb) as Pb. rewrite Ed in Pb.
      apply prefix_single in Pa as [ta Ea]. apply prefix_single in Pb as [tb Eb]. rewrite Ea in Eb. injection Eb as Ek _. contradiction.
  - apply forallb_forall. intros [[d n] v] Hk. cbn [fst snd].
    destruct (Hsd (d, n) v Hk) as (s & t & Ed). cbn [fst] in Ed. subst d.
    destruct (In_lookup_shard (s :: t) n v (shards fs) Hk) as [v' Hv'].
    destruct (history_all_shards_listed eps Heps h fs info Hr s t n v' Hv') as (li & sh & Hg & Hdir & Hin & Hsd' & Hsn).
    apply existsb_exists. exists (s :: t, n). split; [|cbn [fst snd]; rewrite dpath_eqb_refl, Nat.eqb_refl; reflexivity].
    unfold all_listed. apply in_flat_map. exists (s, li). split; [apply in_of_dget; exact Hg|]. cbn [snd]. rewrite Hdir.
    apply in_map_iff. exists sh. split; [rewrite Hsd', Hsn; reflexivity | exact Hin].
Qed.
