(** C19/C03: over ANY stream of paths the batch machine (unshuffled concurrent reader) hands over exactly the sequence the lazy chain of
    shards (unshuffled synchronous reader) hands over — reading ahead does not reorder, drop or repeat. *)
Require Import Sedpack.Model.Base Sedpack.Generated.GenIter Sedpack.Model.Iter Sedpack.Proofs.IterProofs Sedpack.Proofs.ChainProofs Sedpack.Proofs.BatchProofs.

Section Sim.
Variables (path ex : Type).
Variable psrc : @source path.
Variable read : path -> list ex.
Variable T : nat.
Hypothesis T_pos : 1 <= T.
Hypothesis shard_ne : forall p, 1 <= length (read p).
Notation bsrc := (batch_source path ex psrc read T).
Notation csrc := (chain_source path ex psrc read).

(** the source state [s2] is [s1] advanced over the paths [ps] *)
Inductive advance : list path -> s_state psrc -> s_state psrc -> Prop :=
| adv_nil s : advance [] s s
| adv_cons p ps s s1 s2 : s_next psrc s = Some (p, s1) -> advance ps s1 s2 -> advance (p :: ps) s s2.

Lemma take_paths_advance k : forall s, advance (fst (take_paths path psrc k s)) s (snd (take_paths path psrc k s)).
Proof.
  induction k as [|k IH]; intros s; cbn [take_paths]; [constructor|].
  destruct (s_next psrc s) as [[p s1]|] eqn:En; [|constructor]. specialize (IH s1). destruct (take_paths path psrc k s1) as [ps s2].
  cbn [fst snd] in *. econstructor; eassumption.
Qed.
Lemma take_paths_none k s : s_next psrc s = None -> take_paths path psrc k s = ([], s).
Proof. intros H. destruct k; cbn [take_paths]; [reflexivity|]. rewrite H. reflexivity. Qed.

Lemma take_paths_pos k s p s1 : 1 <= k -> s_next psrc s = Some (p, s1) ->
  take_paths path psrc k s = (p :: fst (take_paths path psrc (k - 1) s1), snd (take_paths path psrc (k - 1) s1)).
Proof.
  intros Hk Hn. destruct k as [|k]; [lia|]. cbn [take_paths Nat.sub]. rewrite Hn, Nat.sub_0_r. destruct (take_paths path psrc k s1). reflexivity.
Qed.

(** the batch machine is ahead of the chain by the paths [ps], whose examples it already holds *)
Definition R (bs : bstate path ex psrc) (cs : cstate path ex psrc) : Prop :=
  exists ps, advance ps (c_src path ex psrc cs) (b_src path ex psrc bs) /\
             b_cur path ex psrc bs = c_cur path ex psrc cs ++ concat (map read ps).

Lemma R_init s0 : R (batch_init path ex psrc s0) (chain_init path ex psrc s0).
Proof. exists []. split; [constructor|reflexivity]. Qed.

Lemma read_cons p : exists x t, read p = x :: t.
Proof. pose proof (shard_ne p) as H. destruct (read p) as [|x t]; [cbn in H; lia|eauto]. Qed.

Lemma sim_step bs cs : R bs cs ->
  match s_next bsrc bs, s_next csrc cs with
  | Some (x, bs'), Some (y, cs') => x = y /\ R bs' cs'
  | None, None => True
  | _, _ => False
  end.
Proof.
  intros (ps & Ha & Hc). cbn [s_next batch_source chain_source]. unfold batch_next, chain_next.
  destruct (c_cur path ex psrc cs) as [|y t] eqn:Ec.
  - cbn [app] in Hc. destruct ps as [|p ps].
    + (* both are empty-handed: the batch machine takes up to T paths, the chain one *)
      cbn [map concat] in Hc. rewrite Hc. inversion Ha; subst.
      match goal with H : _ = b_src path ex psrc bs |- _ => rename H into Hsrc end.
      destruct (s_next psrc (c_src path ex psrc cs)) as [[p s1]|] eqn:En.
      * rewrite (take_paths_pos T _ p s1 T_pos En).
        pose proof (take_paths_advance (T - 1) s1) as Hadv. destruct (take_paths path psrc (T - 1) s1) as [ps' s2]. cbn [fst snd] in *.
        cbn [map concat]. destruct (read_cons p) as (x & t & Er). rewrite Er. cbn [app].
        split; [reflexivity|]. exists ps'. cbn [c_src b_src c_cur b_cur]. split; [exact Hadv|reflexivity].
      * rewrite (take_paths_none T _ En). cbn [map concat]. exact I.
    + (* the chain opens the next shard, which the batch machine already holds *)
      inversion Ha; subst. match goal with H : s_next psrc _ = Some (p, _) |- _ => rewrite H end.
      cbn [map concat] in Hc. destruct (read_cons p) as (x & t & Er). rewrite Er in *. cbn [app] in Hc. rewrite Hc.
      split; [reflexivity|]. exists ps. cbn [c_src b_src c_cur b_cur]. split; [assumption|reflexivity].
  - cbn [app] in Hc. rewrite Hc. split; [reflexivity|]. exists ps. cbn [c_src b_src c_cur b_cur]. split; [exact Ha|reflexivity].
Qed.

(** the k-th element pulled *)
Definition nth_out {A} (src : @source A) (k : nat) (s : s_state src) : option A :=
  match after src k s with Some s' => option_map fst (s_next src s') | None => None end.

Theorem batch_equals_chain k : forall bs cs, R bs cs -> nth_out bsrc k bs = nth_out csrc k cs.
Proof.
  induction k as [|k IH]; intros bs cs HR; unfold nth_out; cbn [after]; pose proof (sim_step bs cs HR) as Hs.
  - destruct (s_next bsrc bs) as [[x bs']|], (s_next csrc cs) as [[y cs']|]; try contradiction; [|reflexivity].
    destruct Hs as [-> _]. reflexivity.
  - destruct (s_next bsrc bs) as [[x bs']|], (s_next csrc cs) as [[y cs']|]; try contradiction; [|reflexivity].
    destruct Hs as [_ HR']. exact (IH bs' cs' HR').
Qed.
End Sim.

Require Import Sedpack.Proofs.CycleChain.
(** as_numpy_iterator_concurrent(shuffle=0, repeat=True): for every k, the k-th example handed over is example (k mod N) of one pass *)
Theorem concurrent_cycle_periodic (path ex : Type) (read : path -> list ex) (l : list path) (dp : path) (de : ex) (T : nat) :
  l <> [] -> (forall p, 1 <= length (read p)) -> 1 <= T ->
  forall k, nth_out (batch_source path ex (cycle_source l dp) read T) k (batch_init path ex (cycle_source l dp) 0)
            = Some (nth (k mod length (concat (map read l))) (concat (map read l)) de).
Proof.
  intros Hl Hs HT k.
  rewrite (batch_equals_chain path ex (cycle_source l dp) read T HT Hs k _ _ (R_init path ex (cycle_source l dp) read 0)).
  exact (chain_cycle_periodic path ex read l dp de Hl Hs k _ eq_refl).
Qed.

Lemma batch_equals_chain_init (path ex : Type) (psrc : @source path) (read : path -> list ex) (T : nat) :
  1 <= T -> (forall p, 1 <= length (read p)) -> forall (k : nat) (s0 : s_state psrc),
  nth_out (batch_source path ex psrc read T) k (batch_init path ex psrc s0) = nth_out (chain_source path ex psrc read) k (chain_init path ex psrc s0).
Proof. intros HT Hs k s0. exact (batch_equals_chain path ex psrc read T HT Hs k _ _ (R_init path ex psrc read s0)). Qed.
