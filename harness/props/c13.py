"""C13 — the lazy thread pool is correct under every thread interleaving."""
import json

from harness import common
from harness.common import Broken, COQ, REPO
from translator import pygen

PID = "C13"
STRATS = ["random", "random", "consumer_first", "consumer_last", "starve_worker", "lowest", "highest", "bursty", "timeout_then_workers", "check_then_act"]


def gen_trials(ctx):
    rng = ctx.rng
    out = [
        {"T": 2, "n": 5, "seed": 1, "fail": None, "take": None, "strategy": "random", "reuse": True},
        {"T": 3, "n": 0, "seed": 2, "fail": None, "take": None, "strategy": "consumer_first", "reuse": True},
        {"T": 1, "n": 7, "seed": 3, "fail": None, "take": None, "strategy": "consumer_last"},
        {"T": 2, "n": 9, "seed": 4, "fail": None, "take": 3, "strategy": "random", "reuse": True},
        {"T": 2, "n": 6, "seed": 5, "fail": 3, "take": None, "strategy": "random"},
        {"T": 3, "n": 8, "seed": 6, "fail": 0, "take": None, "strategy": "consumer_first"},
        {"T": 2, "n": 6, "seed": 7, "fail": 5, "take": None, "strategy": "starve_worker"},
        {"T": 4, "n": 10, "seed": 8, "fail": None, "take": 1, "strategy": "highest", "reuse": True},
        {"T": 2, "n": 7, "seed": 9, "fail": 6, "take": 2, "strategy": "random"},
        # several iterations inside one context: a complete one, then an abandoned one
        {"T": 3, "n": 9, "seed": 10, "fail": None, "take": 2, "strategy": "random", "before": [[4, None]], "reuse": True},
        {"T": 2, "n": 6, "seed": 11, "fail": None, "take": None, "strategy": "consumer_last", "before": [[5, None], [3, None]]},
        {"T": 2, "n": 2, "seed": 12, "fail": None, "take": None, "strategy": "timeout_then_workers"},
        {"T": 3, "n": 3, "seed": 13, "fail": None, "take": None, "strategy": "timeout_then_workers"},
        {"T": 2, "n": 8, "seed": 14, "fail": 0, "take": None, "strategy": "check_then_act"},
        {"T": 3, "n": 9, "seed": 15, "fail": 1, "take": None, "strategy": "check_then_act"},
        {"T": 2, "n": 6, "seed": 16, "fail": None, "take": 2, "strategy": "check_then_act"},
        # a failure that is not an Exception (SystemExit-like); an abandoned generator still referenced while the pool is used again
        {"T": 2, "n": 7, "seed": 17, "fail": 2, "take": None, "strategy": "random", "fail_kind": "base"},
        {"T": 1, "n": 5, "seed": 18, "fail": 0, "take": None, "strategy": "consumer_first", "fail_kind": "base"},
        {"T": 1, "n": 9, "seed": 19, "fail": None, "take": 1, "strategy": "random", "reuse": True, "keep": True, "reuse_n": 8},
        {"T": 2, "n": 12, "seed": 20, "fail": None, "take": 2, "strategy": "consumer_last", "reuse": True, "keep": True, "reuse_n": 12},
    ]
    for i in range(ctx.scale(150, 3000)):
        T = rng.choice([1, 1, 2, 2, 2, 3, 3, 4])
        n = rng.choice([0, 1, T - 1, T, T + 1, 2 * T + 1, 2 * T + 2, 2 * T + 3, rng.randint(0, 2 * T + 6)])
        n = max(0, n)
        kind = rng.choice(["plain", "plain", "fail", "take", "both"])
        fail = rng.randrange(n) if kind in ("fail", "both") and n > 0 else None
        take = rng.randint(1, max(1, n)) if kind in ("take", "both") and n > 0 else None
        tr = {"T": T, "n": n, "seed": 1000 + i + ctx.seed * 100000, "fail": fail, "take": take,
              "strategy": rng.choice(STRATS), "reuse": rng.random() < 0.3}
        if fail is not None and rng.random() < 0.25:
            tr["fail_kind"] = "base"
        if tr["reuse"] and take is not None and fail is None and rng.random() < 0.5:
            tr.update({"keep": True, "reuse_n": rng.choice([3, 2 * T + 4, 2 * T + 7])})
        if rng.random() < 0.15:
            # earlier iterations in the same context must be complete: restarting after an abandoned one
            # is documented to raise AssertionError (tests/io/itertools/test_lazy_pool.py::test_no_restart_while_imap)
            tr["before"] = [[rng.randint(0, 2 * T + 3), None] for _ in range(rng.choice([1, 1, 2]))]
        out.append(tr)
    return out


def schedule_of(t, r, mode):
    """Turn the real trace of the first pass into a schedule of model thread ids (see lazypool_run.py)."""
    cut = r["first_pass_ops"] if r["first_pass_ops"] is not None else len(r["trace"])
    # first pass = the consumer's operations before it left the context + everything its T workers ever do
    ops = [op for i, op in enumerate(r["trace"]) if (op[0] == 0 and i < cut) or 2 <= op[0] < 2 + t["T"]]
    sched, real = [], []
    abandon_at = r.get("abandon_at")
    cons_before = len([1 for op in r["trace"][: abandon_at or 0] if op[0] == 0])
    busy = {}
    for i, (tid, kind, q, payload) in enumerate(ops):
        if abandon_at is not None and tid == 0 and 1 not in sched and len([1 for x in sched if x == 0]) >= cons_before:
            sched.append(1)
        sched.append(tid)
        real.append([kind, q, payload])
        if mode == "Die" and tid >= 2 and kind == 1 and q == 0 and t.get("fail") is not None and payload == t["fail"] + 10:
            sched.append(tid)  # the silent death of the worker is an internal step of the model
    if abandon_at is not None and 1 not in sched and r["exc"] is None:
        sched.append(1)
    sched += [0, 0, 0]  # internal Reset 0 -> Final (extra choices are blocked and harmless)
    return sched, real


def impl_oracle(t, r):
    bad = []
    n, fail, take = t["n"], t.get("fail"), t.get("take")
    if r["status"] == "deadlock":
        bad.append(("deadlock:" + ("failing-function" if fail is not None else "normal"),
                    f"all live threads blocked on empty queues: {r['pending']}"))
        return bad
    if r["status"] != "done":
        bad.append(("timeout", f"scheduler status {r['status']}"))
        return bad
    if r.get("exc2"):
        bad.append(("harness", r["exc2"]))
    if r["leftover_threads"]:
        bad.append(("threads-left-running", f"{r['leftover_threads']} worker threads still alive after the context was left"))
    out = r["out"]
    if len(set(out)) != len(out):
        bad.append(("duplicate-result", f"results {out}"))
    if fail is None and take is None:
        if sorted(out) != list(range(n)) or r["exc"]:
            bad.append(("wrong-multiset", f"yielded {sorted(out)} for inputs 0..{n - 1}, exc={r['exc']}"))
    if fail is not None and (take is None or take > n):
        if r["exc"] != ("Cancelled" if t.get("fail_kind") == "base" else "RuntimeError"):
            bad.append(("failure-not-raised", f"input {fail} raises but the pass ended with exc={r['exc']} out={out}"))
    if fail is not None and r["exc"] is None and take is not None and len(out) < take:
        bad.append(("failure-swallowed", f"pass ended normally with {out} although input {fail} raises"))
    if not set(out) <= set(range(n)) or (fail in out):
        bad.append(("phantom-result", f"results {out}"))
    for (n0, take0), got in zip(t.get("before", []), r.get("before_out", [])):
        if len(set(got)) != len(got) or not set(got) <= set(range(n0)) or (take0 is None and sorted(got) != list(range(n0))):
            bad.append(("wrong-multiset-earlier-iteration", f"an earlier iteration over 0..{n0 - 1} (take={take0}) in the same context yielded {got}"))
    st = r.get("state_after")
    if st and (st[0] > 0 or not st[1] or not st[2]):
        bad.append(("pool-not-reset", f"after the context: active={st[0]} to_process_none={st[1]} results_none={st[2]}"))
    if t.get("reuse") and r["reuse"] != list(range(t.get("reuse_n", 3))) and r["exc"] != "Deadlock":
        bad.append(("pool-not-reusable", f"second use returned {r['reuse']}"))
    return bad


def run(ctx):
    broken = []
    tr = pygen.regenerate(REPO, COQ / "Generated", only=["GenLazyPool"])
    mode = "Forward"
    if tr["GenLazyPool"]:
        broken.append(Broken("translator: GenLazyPool (lazy_pool.py no longer has the shape the model assumes)", tr["GenLazyPool"]))
    else:
        mode = "Forward" if "worker_on_exception : wmode := Forward" in (COQ / "Generated/GenLazyPool.v").read_text() else "Die"
    proof = None
    if not broken:
        try:
            proof = common.check_property_file(PID)
        except Broken as b:
            broken.append(b)
    trials = gen_trials(ctx)
    results = []
    for i in range(0, len(trials), 100):
        results += common.run_impl("lazypool_run.py", {"trials": trials[i:i + 100]}, timeout=1200)["results"]
    for t, r in zip(trials, results):
        for sig, text in impl_oracle(t, r):
            ctx.report(sig, f"T={t['T']} n={t['n']} fail={t.get('fail')} take={t.get('take')} {t['strategy']}: {text}",
                       {"trial": t, "impl": {k: v for k, v in r.items() if k != "trace"}, "trace": r["trace"][:400]})
    # correspondence: replay every real trace in the model, step by step
    disagreements, replayed, total_ops = 0, 0, 0
    if not tr["GenLazyPool"]:
        try:
            rc, log = common.coq_make(["Model/LazyPoolObs.vo"])
            if rc:
                raise Broken("Model/LazyPool*.v no longer compile against the generated kernels", log[-2000:])
            todo = [(t, r) for t, r in zip(trials, results) if r["status"] == "done" and not t.get("before")
                    and not any(op[1] >= 3 for op in r["trace"])]
            files, meta = {}, {}
            for ci in range(0, len(todo), 60):
                body = ["Require Import Sedpack.Model.Base Sedpack.Model.LazyPool Sedpack.Model.LazyPoolObs."]
                items = []
                for t, r in todo[ci:ci + 60]:
                    sched, real = schedule_of(t, r, mode)
                    items.append((t, r, sched, real))
                    f = "None" if t.get("fail") is None else f"(Some {t['fail']})"
                    body.append(f"Eval vm_compute in replay_summary {f} {t['T']} {t['n']} {common.clist(sched)}.")
                files[f"replay{ci // 60}"] = "\n".join(body) + "\n"
                meta[f"replay{ci // 60}"] = items
            outs = common.coq_eval_many(PID, files)
            for name, items in meta.items():
                answers = common.coq_answers(outs[name])
                if len(answers) != len(items):
                    raise Broken("model replay output could not be parsed", outs[name][:500])
                for (t, r, sched, real), (mtr, (blocked, (fin, (mout, (quiet, enabled))))) in zip(items, answers):
                    replayed += 1
                    total_ops += len(real)
                    mreal = [[k, q, p] for (k, (q, p)) in mtr if k != 2]
                    want_fin = 2 if r["exc"] in ("RuntimeError", "Cancelled") else (3 if r.get("abandon_at") is not None and r["exc"] is None else 1)
                    d = []
                    if mreal != real:
                        j = next((i for i, (a, b) in enumerate(zip(mreal, real)) if a != b), min(len(mreal), len(real)))
                        d.append(f"traces differ at op {j}: model {mreal[j:j + 3]} impl {real[j:j + 3]}")
                    if fin != want_fin:
                        d.append(f"ending: model {fin} impl {want_fin}")
                    if list(mout) != r["out"]:
                        d.append(f"yielded: model {list(mout)} impl {r['out']}")
                    if not quiet or enabled:
                        d.append(f"model not quiescent at the end of the real run (quiescent={quiet}, enabled={enabled})")
                    if blocked > 3:
                        d.append(f"{blocked} scheduled operations of the real run are blocked in the model")
                    if d:
                        disagreements += 1
                        if disagreements <= 2:
                            broken.append(Broken("correspondence lazy-pool model vs real threads under the controlled scheduler",
                                                 json.dumps({"trial": t, "diffs": d})))
        except Broken as b:
            broken.append(b)
    if broken and not ctx.violations:
        b = broken[0]
        ctx.report(f"broken:{b.what}", b.what, {"unchecked": b.what, "detail": b.detail[-3000:]}, found_input=False)
    kinds = {}
    for t in trials:
        k = ("fail" if t.get("fail") is not None else "") + ("take" if t.get("take") is not None else "") or "plain"
        kinds[k] = kinds.get(k, 0) + 1
    distinct = {json.dumps([t["T"], t["n"], t.get("fail"), t.get("take"), r["trace"]]) for t, r in zip(trials, results) if t["n"] > 0}
    for t in trials[9:12]:
        ctx.sample(t)
    if results:
        ctx.sample({"trace_of_first_trial": results[0]["trace"][:40]})
    ctx.coverage.update({
        "obligations": proof["obligations"] if proof else 8, "discharged": proof["discharged"] if proof else 0,
        "theorems": proof["theorems"] if proof else [],
        "checker_cmd": "make -C coq Proofs/LazyPoolResult.vo && coqc -Q coq Sedpack coq/Properties/C13.v (Print Assumptions under each theorem)",
        "trusted_base": common.TRUSTED_BASE_COMMON + [
            "hypotheses of the model: queue.Queue is FIFO with atomic get/put, put never blocks (unbounded), get blocks while empty; the mapped function terminates",
            "granularity: one step per queue operation; Python code between two queue operations of a thread touches only that thread's locals (checked by reading; `_active_threads` is only used by the consumer)",
            "the controlled scheduler replaces lazy_pool.queue in the harness process (no source change) and drives the real Collector threads"],
        "evaluations": len(trials), "distinct_nontrivial": len(distinct),
        "rule": "real LazyPool runs under a gated-queue scheduler: T in 1..4, n around T and 2T+2, failing position, early-exit position, 8 scheduling strategies "
                "(random, consumer first/last, starve one worker, lowest/highest id, bursty); non-trivial = n>0; distinct by (T,n,fail,take,complete operation trace)",
        "trial_kinds": kinds, "traces_validated_against_impl": replayed - disagreements, "queue_operations_replayed": total_ops,
        "model_vs_impl_disagreements": disagreements, "worker_on_exception": mode,
    })
    ctx.assumptions += ["queue.Queue FIFO/atomic", "the mapped function terminates", "T = max(1, threads)"]


def replay(ctx, rp):
    t = rp["replay"].get("trial")
    if not t:
        print("no concrete input in this replay file:", rp["replay"].get("unchecked"))
        return False
    r = common.run_impl("lazypool_run.py", {"trials": [t]})["results"][0]
    bad = impl_oracle(t, r)
    print(json.dumps({"trial": t, "status": r["status"], "out": r["out"], "exc": r["exc"], "oracle": bad}, indent=1))
    return not bad
