(** Sequential readers in the presence of an unreadable shard: [chain.from_iterable(map(read, paths))]
    (sync, async) and the batch loop with an ordered [executor.map] (unshuffled concurrent).
    [read p = None] models: the file is missing or its content is rejected by the decoder. *)
Require Import Sedpack.Model.Base Sedpack.Model.Iter.

Section R.
Variables P E : Type.
Variable read : P -> option (list E).

(** outcome of a pass: the examples handed over so far, and whether the pass ended by raising *)
Fixpoint chain_read (paths : list P) : list E * bool :=
  match paths with
  | [] => ([], false)
  | p :: t => match read p with
              | None => ([], true)
              | Some ex => let (r, raised) := chain_read t in (ex ++ r, raised)
              end
  end.

(** ordered map over one batch: results are consumed in order; the first failing element re-raises *)
Definition batch_read (fuel T : nat) (paths : list P) : list E * bool :=
  fold_left (fun (acc : list E * bool) (bt : list P) =>
               if snd acc then acc else let (r, raised) := chain_read bt in (fst acc ++ r, raised))
            (batches fuel T paths) ([], false).
End R.
