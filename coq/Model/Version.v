(** M10: the version gate of [DatasetBase._load] and the omit-defaults / restore-defaults round trip. *)
Require Import Sedpack.Model.Base Sedpack.Generated.GenVersion.
From Coq Require Import ZArith.

Definition version := (nat * (nat * nat))%type.   (* MAJOR.MINOR.PATCH *)

(** [semver.Version.compare] on plain triples: -1, 0, 1, lexicographically. *)
Definition cmp_nat (a b : nat) : Z := if a <? b then (-1)%Z else if b <? a then 1%Z else 0%Z.
Definition compare (a b : version) : Z :=
  let '(a1, (a2, a3)) := a in let '(b1, (b2, b3)) := b in
  if Z.eqb (cmp_nat a1 b1) 0 then (if Z.eqb (cmp_nat a2 b2) 0 then cmp_nat a3 b3 else cmp_nat a2 b2) else cmp_nat a1 b1.

(** Is the recorded version strictly newer than the running one? *)
Definition newer (rec run : version) : Prop :=
  let '(a1, (a2, a3)) := rec in let '(b1, (b2, b3)) := run in
  b1 < a1 \/ (a1 = b1 /\ (b2 < a2 \/ (a2 = b2 /\ b3 < a3))).

Definition load_refused (rec run : version) : bool := gate_refuses (compare rec run).

(** pydantic [model_dump_json(exclude_defaults=True)] then [model_validate_json], field by field:
    a field equal to its default is omitted; a missing field is restored to the default. *)
Section Defaults.
  Variable V : Type.
  Variable veqb : V -> V -> bool.
  Definition omit (d v : V) : option V := if veqb v d then None else Some v.
  Definition restore (d : V) (o : option V) : V := match o with Some v => v | None => d end.
End Defaults.
