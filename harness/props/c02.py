"""C02 — exactly-once delivery: one pass yields precisely the split's examples."""
import json

from harness import common, combinators, iterlib
from harness.common import Broken, COQ, REPO
from translator import pygen

PID = "C02"
GENS = ["GenIter", "GenLazyPool", "GenMerge", "GenPipeline"]


def pipeline_jobs(ctx, n):
    rng = ctx.rng
    jobs = []
    for _ in range(n):
        spec = iterlib.gen_dataset(rng, min_shards=rng.choice([1, 1, 2, 3, 5, 8]))
        reqs = []
        for iface in iterlib.ifaces_for(spec):
            for _k in range(2 if ctx.quick else 4):
                sh = rng.choice([0, 1, 2, 3, 7, 50, 1000])
                fp = rng.choice([1, 2, 3, 4, 9])
                reqs.append({"iface": iface, "split": rng.choice([0, 0, 0, 1, 2]), "shuffle": sh, "repeat": False, "file_parallelism": fp,
                             "process": rng.random() < 0.3 and iface != "tf", "hold": rng.random() < 0.5})
                if iface == "tf" and rng.random() < 0.5:
                    reqs[-1]["batch"] = rng.choice([2, 3, 5, 16])      # the last batch of a pass may be short; nothing may be dropped
                if reqs[-1]["process"] and reqs[-1]["hold"] and rng.random() < 0.5:
                    reqs[-1]["inplace"] = True                         # process_record updates the example it was given and returns it
            if iface == "tf":
                # the returned tf.data.Dataset iterated twice as the same object, shuffled: both passes must deliver the whole split
                reqs.append({"iface": "tf", "split": 0, "shuffle": rng.choice([2, 7, 100]), "repeat": False, "file_parallelism": rng.choice([1, 2, 3]), "process": False, "reiterate": 2})
            if iface == "rust":
                reqs.append({"iface": "rust", "split": 0, "shuffle": rng.choice([0, 3]), "repeat": False, "file_parallelism": 2, "process": True, "hold": True, "inplace": True})
        # the same interfaces with a fixed LCG seed and a known final shuffle: their output is then a function of the inputs,
        # compared element by element with the generated composition model (GenPipeline)
        for iface in iterlib.ifaces_for(spec):
            if iface not in ("sync", "async", "concurrent", "rust"):
                continue
            for _k in range(2 if ctx.quick else 4):
                sh = rng.choice([0, 1, 2, 3, 7, 50])
                fp = 1 if (iface == "concurrent" and sh) else rng.choice([1, 2, 3, 4])
                reqs.append({"iface": iface, "split": 0, "shuffle": sh, "repeat": False, "file_parallelism": fp, "process": rng.random() < 0.3,
                             "seed": rng.randrange(1, 2 ** 30)})
        # several passes alive at once (A created, B created, A finishes, C created, B and C run to their ends): every pass still
        # yields exactly its own split's examples
        for iface in iterlib.ifaces_for(spec):
            if iface in ("async", "tf") or (ctx.quick and iface not in ("rust", "sync")):
                continue
            streams = [{"split": 0, "repeat": False, "shuffle": 0, "file_parallelism": rng.choice([1, 2, 3])},
                       {"split": rng.choice([0, 1]), "repeat": False, "shuffle": 0, "file_parallelism": 2},
                       {"split": 0, "repeat": False, "shuffle": 0, "file_parallelism": 2}]
            ops = [["P", 0], ["P", 1]] + [["P", 0]] * 40 + [["P", 2], ["P", 1]] * 40
            reqs.append({"iface": iface, "split": 0, "shuffle": 0, "repeat": False, "file_parallelism": 2, "multi": {"streams": streams, "ops": ops}})
            # a half-consumed ordered pass, then a freshly created SHUFFLED pass over the same split, then both to their ends
            streams2 = [{"split": 0, "repeat": False, "shuffle": 0, "file_parallelism": 2}, {"split": 0, "repeat": False, "shuffle": rng.choice([3, 50]), "file_parallelism": 2}]
            reqs.append({"iface": iface, "split": 0, "shuffle": 0, "repeat": False, "file_parallelism": 2,
                         "multi": {"streams": streams2, "ops": [["P", 0], ["P", 0], ["P", 1], ["P", 1]] + [["P", 0], ["P", 1]] * 40}})
        jobs.append({"dataset": spec, "requests": reqs})
    # the description's examples_per_shard is lowered between two sessions (public setter): the first shards hold more examples than it says
    Wr = ["W", 0, None, True]
    for fmt in ("tfrec", "fb", "npz"):
        spec = {"format": fmt, "compression": "", "eps": 4, "sessions": [{"kind": "filler", "sub": [], "reopen": False, "ops": [Wr] * 7},
                                                                       {"kind": "filler", "sub": [], "reopen": False, "ops": [Wr] * 3, "set_eps": 2}]}
        jobs.append({"dataset": spec, "requests": [{"iface": iface, "split": 0, "shuffle": sh, "repeat": False, "file_parallelism": 2, "process": False}
                                                   for iface in iterlib.ifaces_for(spec) for sh in (0, 3)] +
                     [{"iface": "tf", "split": 0, "shuffle": sh, "repeat": False, "file_parallelism": 2, "process": False, "reiterate": 3} for sh in (0, 7)]})
    return jobs


def composition_check(PID, jobs, res):
    """Model (coqc) vs implementation for every seeded request; returns (compared, [Broken])."""
    lines = ["Require Import Sedpack.Model.Base Sedpack.Generated.GenIter Sedpack.Model.Iter Sedpack.Model.PipeBase Sedpack.Generated.GenPipeline.",
             "From Coq Require Import NArith.", "Open Scope nat_scope.",
             "Definition rd (tab : list (list N)) (p : nat) : list N := nth p tab [].",
             "Definition pr (x : N) : N := (x + 100000)%N."]
    todo = []
    for job, r in zip(jobs, res):
        if "build_error" in r:
            continue
        for q, o in zip(job["requests"], r["results"]):
            if q.get("seed") is None or o.get("skipped") or o.get("hang") or o.get("error"):
                continue
            ref = r["reference"].get(str(q["split"]))
            if ref is None:
                continue
            tab = "[" + "; ".join("[" + "; ".join(f"{x}%N" for x in ex) + "]" for ex, _m in ref["shards"]) + "]"
            paths = common.clist(list(range(len(ref["shards"]))))
            pk = f"(lcg_pick {q['seed']}%N)"
            hp = "true" if q.get("process") else "false"
            if q["iface"] == "sync":
                t = f"ani nat N (rd {tab}) pr {pk} (@rev nat) {pk} (@rev N) {q['shuffle']} {hp} {paths}"
            elif q["iface"] == "concurrent":
                t = f"anc nat N (rd {tab}) pr {pk} (@rev nat) {pk} (fun l => l) {q['shuffle']} {q['file_parallelism']} {hp} {paths}"
            elif q["iface"] == "rust":
                t = f"anr nat N (rd {tab}) pr {pk} (@rev nat) {q['shuffle']} {hp} {paths}"
            else:
                t = f"ana nat N (rd {tab}) pr {pk} (@rev nat) {pk} {q['shuffle']} {q['file_parallelism']} {hp} {paths}"
            lines.append(f"Eval vm_compute in {t}.")
            todo.append((job, q, o))
    if not todo:
        return 0, []
    ans = common.coq_answers(common.coq_eval(PID, "composition", "\n".join(lines) + "\n"))
    bad = []
    for (job, q, o), m in zip(todo, ans):
        if list(m) != list(o["out"]):
            bad.append(Broken("correspondence: the generated composition model and the interface disagree under a fixed seed",
                              json.dumps({"request": q, "dataset": job["dataset"], "model": list(m)[:40], "impl": o["out"][:40]})))
    return len(todo), bad


def lazy_pool_search(ctx):
    from harness.props import c13
    trials = [t for t in c13.gen_trials(ctx) if t.get("fail") is None and t.get("take") is None and not t.get("before")]
    res = []
    for i in range(0, len(trials), 100):
        res += common.run_impl("lazypool_run.py", {"trials": trials[i:i + 100]}, timeout=1200)["results"]
    out = []
    for t, r in zip(trials, res):
        for sig, text in c13.impl_oracle(t, r):
            if sig in ("wrong-multiset", "duplicate-result", "phantom-result", "deadlock:normal"):
                out.append((t, r, sig, text))
    return out


def run(ctx):
    broken = []
    tr = pygen.regenerate(REPO, COQ / "Generated", only=GENS)
    for g in GENS:
        if tr[g]:
            broken.append(Broken(f"translator: {g}", tr[g]))
    proof = None
    if not broken:
        try:
            proof = common.check_property_file(PID)
        except Broken as b:
            broken.append(b)
    # 1. whole pipelines on generated datasets: multiset of yielded examples == what the split holds
    jobs = pipeline_jobs(ctx, ctx.scale(10, 120))
    res = iterlib.run_jobs(jobs)
    runs, nontrivial = 0, set()
    trailing_errors = [0]
    for job, r in zip(jobs, res):
        if "build_error" in r:
            ctx.report("harness", r["build_error"], {"job": job}, found_input=False)
            continue
        for q, o in zip(job["requests"], r["results"]):
            if o.get("skipped"):
                continue
            runs += 1
            ref = r["reference"].get(str(q["split"]))
            one = {"dataset": job["dataset"], "requests": [q]}
            if q.get("multi"):
                if o.get("hang") or o.get("error"):
                    ctx.report("iteration-hangs" if o.get("hang") else "iteration-error", f"{q['iface']} with three passes alive at once: {o.get('error') or 'no result within the watchdog'}", {"job": one})
                    continue
                nontrivial.add(json.dumps([job["dataset"]["format"], q["iface"], "multi", q["multi"]["streams"]]))
                for si, st in enumerate(q["multi"]["streams"]):
                    rs = r["reference"].get(str(st["split"]))
                    if rs is None:
                        continue
                    got = [a for (k, i), a in zip(q["multi"]["ops"], o["out"]) if i == si and k == "P"]
                    vals = [a for a in got if not isinstance(a, str)]
                    errs = [a for a in got if isinstance(a, str) and a.startswith("error")]
                    if st.get("shuffle"):
                        vals, want_seq = sorted(vals), sorted(rs["seq"])
                    else:
                        want_seq = rs["seq"]
                    if errs and vals == want_seq:
                        # the pass handed over exactly its split and then ended with an exception instead of a normal end (TensorFlow's device
                        # scope of the tfrec branch does not nest across interleaved generators): outside what C02 states, recorded only
                        trailing_errors[0] += 1
                        continue
                    if vals != want_seq:
                        missing = sorted(set(rs["seq"]) - set(vals))
                        foreign = sorted(set(vals) - set(rs["seq"]))
                        sig = "examples-lost" if missing else "examples-foreign" if foreign else "examples-duplicated"
                        ctx.report(sig, f"{q['iface']} on {job['dataset']['format']}: pass {si} over split {st['split']} (one of three passes alive at once) returned {vals[:12]}"
                                        f"{' then ' + errs[0] if errs else ''}; the split holds {rs['seq'][:12]}; missing {missing[:8]} foreign {foreign[:8]}", {"job": one})
                        break
                continue
            if ref is None:
                if not o.get("error"):
                    ctx.report("absent-split-iterates", f"{q['iface']}: split {q['split']} holds nothing but iteration returned {str(o)[:80]}", {"job": one})
                continue
            if o.get("hang"):
                ctx.report("iteration-hangs", f"{q}: no result within the watchdog", {"job": one})
                continue
            if o.get("error"):
                ctx.report("iteration-error", f"{q}: {o['error']}", {"job": one})
                continue
            want = sorted(ref["seq"])
            if q.get("reiterate"):
                for pi, ps in enumerate(o["out"]):
                    if sorted(ps) != want:
                        ctx.report("examples-lost" if set(want) - set(ps) else "examples-duplicated",
                                   f"tf shuffle={q['shuffle']} on {job['dataset']['format']}: pass {pi} over the SAME returned dataset object delivered {len(ps)} examples for {len(want)}", {"job": one})
                        break
                continue
            got = [x - 100000 for x in o["out"]] if q.get("process") else o["out"]
            nontrivial.add(json.dumps([job["dataset"]["format"], q["iface"], q["shuffle"], q["file_parallelism"], len(ref["shards"]), q.get("process", False)]))
            if sorted(got) != want:
                missing = sorted(set(want) - set(got))
                dup = sorted({x for x in got if got.count(x) > 1})
                sig = "examples-lost" if missing else "examples-duplicated" if dup else "examples-foreign"
                ctx.report(sig, f"{q['iface']} shuffle={q['shuffle']} fp={q['file_parallelism']} on {job['dataset']['format']}: {len(got)} examples for {len(want)}; "
                                f"missing {missing[:8]} duplicated {dup[:8]}", {"job": one, "got": got, "expected": want})
            if q.get("process") and o.get("calls") is not None and o["calls"] != want:
                ctx.report("process-record-not-once", f"{q['iface']}: process_record was applied to {o['calls'][:10]}.. expected each of {want[:10]}.. once", {"job": one})
    # 2. combinators: model == implementation element by element
    dis = 0
    ncomb = 0
    ncompo = 0
    if not any(tr.values()):
        try:
            rc, log = common.coq_make(["Model/Iter.vo"])
            if rc:
                raise Broken("Model/Iter.v no longer compiles", log[-2000:])
            sb, rr, _r, br, dis = combinators.check(ctx, PID)
            ncomb = len(sb) + len(rr)
            broken += br
            rc, log = common.coq_make(["Generated/GenPipeline.vo"])
            if rc:
                raise Broken("Generated/GenPipeline.v no longer compiles", log[-2000:])
            ncompo, br2 = composition_check(PID, jobs, res)
            broken += br2[:3]
            dis += len(br2)
        except Broken as b:
            broken.append(b)
    if broken and not ctx.violations and any("LazyPool" in b.what or "lazy" in b.what.lower() or "c02_lazy_pool" in b.detail for b in broken):
        # the lazy-pool obligation no longer checks: search the real pool, driven one queue operation at a time, for a schedule that loses or duplicates a result
        lost = lazy_pool_search(ctx)
        for t, r, sig, text in lost[:3]:
            ctx.report("lazy-pool-" + sig, f"LazyPool.imap_unordered T={t['T']} n={t['n']} under schedule strategy {t['strategy']}: {text}",
                       {"trial": t, "impl": {k: v for k, v in r.items() if k != "trace"}, "trace": r["trace"][:300]})
    if broken and not ctx.violations:
        b = broken[0]
        ctx.report(f"broken:{b.what}", b.what, {"unchecked": b.what, "detail": b.detail[-3000:]}, found_input=False)
    ctx.sample(jobs[0]["requests"][0])
    ctx.sample({"dataset_format": jobs[0]["dataset"]["format"], "sessions": len(jobs[0]["dataset"]["sessions"])})
    ctx.coverage.update({
        "obligations": proof["obligations"] if proof else 5, "discharged": proof["discharged"] if proof else 0,
        "theorems": proof["theorems"] if proof else [],
        "checker_cmd": "make -C coq Proofs/IterProofs.vo Proofs/LazyPoolResult.vo && coqc -Q coq Sedpack coq/Properties/C02.v (Print Assumptions under each theorem)",
        "trusted_base": common.TRUSTED_BASE_COMMON + [
            "theorems cover the combinators (shuffle buffer, round robin, batches, lazy pool); the composition inside each as_* method, the depth-first shard list and the tf.data path "
            "are validated by whole-pipeline runs (multiset comparison), not by theorem",
            "Model/Iter.v machines are compared with the real shuffle_buffer/round_robin (sync and async) element by element under the real LCG with a fixed seed",
            "ThreadPoolExecutor.map is an ordered map; asyncstdlib mirrors; tf.data interleave/shuffle preserve the multiset (oracles)"],
        "evaluations": runs + ncomb, "distinct_nontrivial": len(nontrivial) + ncomb,
        "rule": "pipelines: generated datasets (1..3 splits, 1..9 shards, short last shards, nested/multi-writer lists, fb/npz/tfrec x compressions) x interface x shuffle in {0,1,2,3,7,50,1000} x "
                "file_parallelism in {1,2,3,4,9} x process_record on/off; distinct by (format, interface, shuffle, parallelism, shards, process). combinators: lists of length 0..21 x buffer sizes around the length",
        "pipeline_runs": runs, "multi_pass_trailing_errors_after_complete_pass": trailing_errors[0], "combinator_cases": ncomb, "composition_cases_model_vs_interface": ncompo, "model_vs_impl_disagreements": dis,
        "traces_validated_against_impl": ncomb - dis,
    })
    ctx.assumptions += ["repeat=False", "every shard file readable (C07 covers damage)"]


def replay(ctx, rp):
    job = rp["replay"].get("job")
    if rp["replay"].get("trial"):
        from harness.props import c13
        t = rp["replay"]["trial"]
        r = common.run_impl("lazypool_run.py", {"trials": [t]}, timeout=600)["results"][0]
        bad = c13.impl_oracle(t, r)
        print(json.dumps({"trial": t, "out": r.get("out"), "oracle": bad})[:2000])
        return not bad
    if not job:
        print("no concrete input in this replay file:", rp["replay"].get("unchecked"))
        return False
    r = iterlib.run_jobs([job])[0]
    q, o = job["requests"][0], r["results"][0]
    if q.get("multi"):
        ok = not o.get("error") and not o.get("hang")
        for si, st in enumerate(q["multi"]["streams"]):
            rs = r["reference"].get(str(st["split"]))
            if rs is None or not ok:
                continue
            got = [a for (k, i), a in zip(q["multi"]["ops"], o["out"]) if i == si and k == "P"]
            vals = [a for a in got if not isinstance(a, str)]
            print(json.dumps({"pass": si, "split": st["split"], "got": vals, "expected": rs["seq"], "errors": [a for a in got if isinstance(a, str) and a.startswith("error")][:2]})[:600])
            ok = ok and (sorted(vals) == sorted(rs["seq"]) if st.get("shuffle") else vals == rs["seq"])
        return ok
    ref = r["reference"].get(str(q["split"]), {"seq": []})
    if q.get("reiterate"):
        print(json.dumps({"expected": sorted(ref["seq"]), "passes": o.get("out")})[:1500])
        return not o.get("error") and not o.get("hang") and all(sorted(ps) == sorted(ref["seq"]) for ps in o.get("out", [[]]))
    got = [x - 100000 for x in o.get("out", [])] if q.get("process") else o.get("out", [])
    print(json.dumps({"expected": sorted(ref["seq"]), "got": got, "raw": {k: v for k, v in o.items() if k != "out"}})[:2000])
    return sorted(got) == sorted(ref["seq"]) and not o.get("error") and not o.get("hang")
