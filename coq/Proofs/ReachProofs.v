(** C04: every list document below a split is linked from the split's root after every completed session
    (so that no stored shard is unlisted), by a second induction over the recursive merge. *)
Require Import Sedpack.Model.Base Sedpack.Generated.GenMerge Sedpack.Generated.GenFiller Sedpack.Model.Filler Sedpack.Model.Meta.
Require Import Sedpack.Proofs.MergeBasics Sedpack.Proofs.MergeProofs Sedpack.Proofs.FillerProofs Sedpack.Proofs.HistoryProofs.
Local Open Scope Z_scope.

(** [d] is reached from [p] by following child entries of the documents on disk *)
Inductive reach (fs : fsT) : dpath -> dpath -> Prop :=
| reach_refl p : reach fs p p
| reach_down p s h c d : lookup p (lists fs) = Some (s, h) -> List.In c (sl_children s) -> reach fs (li_dir c) d -> reach fs p d.

Lemma reach_under fs q d : WFunder fs q -> reach fs q d -> prefix q d.
Proof.
  intros Hwf H. induction H as [p | p s h c d Hl Hc _ IH]; [apply prefix_refl|].
  destruct (Hwf p s h (prefix_refl p) Hl) as (_ & _ & _ & H4). rewrite Forall_forall in H4. destruct (H4 c Hc) as [x Hx].
  rewrite Hx in IH. eapply prefix_trans; [apply prefix_app|]. apply IH. eapply WFunder_mono; [|exact Hwf]. apply prefix_app.
Qed.

Lemma reach_frame fs fs' q d : WFunder fs q -> (forall d', prefix q d' -> lookup d' (lists fs') = lookup d' (lists fs)) -> reach fs q d -> reach fs' q d.
Proof.
  intros Hwf Hf H. induction H as [p | p s h c d Hl Hc _ IH]; [constructor|].
  destruct (Hwf p s h (prefix_refl p) Hl) as (_ & _ & _ & H4). rewrite Forall_forall in H4. destruct (H4 c Hc) as [x Hx].
  apply (reach_down fs' p s h c d); [rewrite Hf; [exact Hl | apply prefix_refl] | exact Hc|].
  apply IH; [rewrite Hx; eapply WFunder_mono; [apply prefix_app | exact Hwf]|].
  intros d' Hd'. apply Hf. rewrite Hx in Hd'. eapply prefix_trans; [apply prefix_app | exact Hd'].
Qed.

Lemma reach_inv fs p d : reach fs p d -> d = p \/ exists s h c, lookup p (lists fs) = Some (s, h) /\ List.In c (sl_children s) /\ reach fs (li_dir c) d.
Proof. destruct 1 as [p | p s h c d Hl Hc Hr]; [left; reflexivity | right; exists s, h, c; auto]. Qed.

Lemma reach_trans fs a b c : reach fs a b -> reach fs b c -> reach fs a c.
Proof. intros H1 H2. induction H1 as [p | p s h ch d Hl Hc _ IH]; [exact H2|]. eapply reach_down; eauto. Qed.

(** what the merge at [p] guarantees about links *)
Definition merge_reach_at (fuel : nat) : Prop :=
  forall U c fs fs' li u0,
    hd_error U = Some u0 ->
    (forall u, List.In u U -> (c <= length (li_dir u))%nat) ->
    WFunder fs (firstn c (li_dir u0)) ->
    merge fuel U c fs = Ok (fs', li) ->
    (forall d, (reach fs (firstn c (li_dir u0)) d \/ exists u, List.In u U /\ reach fs (li_dir u) d) -> reach fs' (firstn c (li_dir u0)) d) /\
    (forall d, prefix (firstn c (li_dir u0)) d -> lookup d (lists fs') <> None -> lookup d (lists fs) = None -> reach fs' (firstn c (li_dir u0)) d).

Lemma prefix_firstn_of c (d : dpath) : (c <= length d)%nat -> prefix (firstn c d) d.
Proof. intros H. unfold prefix. rewrite firstn_length, Nat.min_l by lia. reflexivity. Qed.

Section Step.
Variable fuel' : nat.
Hypothesis IHr : merge_reach_at fuel'.

Lemma fold_groups_reach p : forall groups fs1 done fs3 merged, let c := length p in
  groups_ok c (fun u => prefix p (li_dir u) /\ (c < length (li_dir u))%nat) groups ->
  WFunder fs1 p ->
  fold_left (Fstep fuel' c) groups (Ok (fs1, done)) = Ok (fs3, merged) ->
  exists news, merged = done ++ news /\
    Forall2 (fun g li => li_dir li = p ++ [fst g] /\
               (forall d, (exists u, List.In u (snd g) /\ reach fs1 (li_dir u) d) -> reach fs3 (p ++ [fst g]) d) /\
               (forall d, prefix (p ++ [fst g]) d -> lookup d (lists fs3) <> None -> lookup d (lists fs1) = None -> reach fs3 (p ++ [fst g]) d)) groups news /\
    WFunder fs3 p /\
    (forall d, (forall g, List.In g groups -> ~ prefix (p ++ [fst g]) d) -> lookup d (lists fs3) = lookup d (lists fs1)).
Proof.
  induction groups as [|[k U] gs IH]; intros fs1 done fs3 merged c [Hnd Hall] Hwf Hf; cbn [fold_left] in Hf.
  - injection Hf as <- <-. exists []. rewrite app_nil_r. split; [reflexivity|]. split; [constructor|]. split; [exact Hwf | intros; reflexivity].
  - inversion Hnd as [|x1 y1 Hni Hnd' Ex1]; clear Ex1. inversion Hall as [|x2 y2 [Hne HU] Hall' Ex2]; clear Ex2. cbn [fst snd] in Hne, HU, Hni.
    unfold Fstep at 2 in Hf. cbn [snd] in Hf.
    destruct (merge fuel' U (S c) fs1) as [[fs2 info]|e] eqn:Em; [|rewrite fold_err in Hf; discriminate].
    destruct U as [|u0 U']; [congruence|].
    assert (Hmem : forall u, List.In u (u0 :: U') -> gkey c u = k /\ prefix p (li_dir u) /\ (c < length (li_dir u))%nat).
    { rewrite Forall_forall in HU. intros u Hu. destruct (HU u Hu) as (H1 & H2 & H3). auto. }
    destruct (Hmem u0 (or_introl eq_refl)) as (Hk0 & Hp0 & Hl0).
    assert (Hp' : firstn (S c) (li_dir u0) = p ++ [k]).
    { rewrite firstn_S_nth by exact Hl0. unfold gkey in Hk0. rewrite Hk0. f_equal. unfold prefix in Hp0. exact Hp0. }
    assert (Hwf' : WFunder fs1 (firstn (S c) (li_dir u0))) by (rewrite Hp'; eapply WFunder_mono; [apply prefix_app | exact Hwf]).
    assert (Hlens : forall u, List.In u (u0 :: U') -> (S c <= length (li_dir u))%nat) by (intros u Hu; destruct (Hmem u Hu) as (_ & _ & H3); lia).
    destruct (merge_spec fuel' (u0 :: U') (S c) fs1 fs2 info u0 eq_refl Hlens Hwf' Em) as (Hd & _ & Hsh & Hfoot & Hwf2 & _).
    destruct (IHr (u0 :: U') (S c) fs1 fs2 info u0 eq_refl Hlens Hwf' Em) as [Hreach Hnew].
    cbv zeta in *. rewrite Hp' in *.
    assert (Hwf2p : WFunder fs2 p).
    { intros d s h Hpd Hlk. destruct (dpath_eqb (firstn (length (p ++ [k])) d) (p ++ [k])) eqn:Epk.
      - apply dpath_eqb_eq in Epk. apply (Hwf2 d s h Epk Hlk).
      - assert (Hnp : ~ prefix (p ++ [k]) d) by (intros HH; unfold prefix in HH; rewrite HH, dpath_eqb_refl in Epk; discriminate).
        rewrite (Hfoot d Hnp) in Hlk. apply (WFdoc_shards fs1 fs2); [congruence|]. apply (Hwf d s h Hpd Hlk). }
    destruct (IH fs2 (done ++ [info]) fs3 merged (conj Hnd' Hall') Hwf2p Hf) as (news & Hm & Hf2 & Hwf3 & Hfoot3).
    exists (info :: news). rewrite <- app_assoc in Hm. cbn [app] in Hm.
    split; [exact Hm|]. split; [|split; [exact Hwf3|]].
    + constructor.
      * (* the later groups do not touch the subtree of this one *)
        assert (Hsame : forall d', prefix (p ++ [k]) d' -> lookup d' (lists fs3) = lookup d' (lists fs2)).
        { intros d' Hd'. apply Hfoot3. intros g Hg. apply (prefix_snoc_neq p k (fst g)); [|exact Hd'].
          intros Heq. apply Hni. rewrite Heq. apply in_map. exact Hg. }
        cbn [fst snd]. split; [exact Hd|]. split.
        -- intros d Hex. apply (reach_frame fs2 fs3 (p ++ [k]) d Hwf2 Hsame). apply Hreach. right. exact Hex.
        -- intros d Hpd Hn3 Hn1. apply (reach_frame fs2 fs3 (p ++ [k]) d Hwf2 Hsame). apply Hnew; [exact Hpd | rewrite <- Hsame by exact Hpd; exact Hn3 | exact Hn1].
      * (* the hypotheses of the later groups, stated in fs1, hold in fs2 *)
        clear Hk0.
        assert (Conv : forall gs' ns,
          Forall (fun kv : nat * list list_info => snd kv <> [] /\ Forall (fun u => gkey c u = fst kv /\ prefix p (li_dir u) /\ (c < length (li_dir u))%nat) (snd kv)) gs' ->
          ~ List.In k (map fst gs') ->
          Forall2 (fun g li => li_dir li = p ++ [fst g] /\ (forall d, (exists u, List.In u (snd g) /\ reach fs2 (li_dir u) d) -> reach fs3 (p ++ [fst g]) d) /\
                     (forall d, prefix (p ++ [fst g]) d -> lookup d (lists fs3) <> None -> lookup d (lists fs2) = None -> reach fs3 (p ++ [fst g]) d)) gs' ns ->
          Forall2 (fun g li => li_dir li = p ++ [fst g] /\ (forall d, (exists u, List.In u (snd g) /\ reach fs1 (li_dir u) d) -> reach fs3 (p ++ [fst g]) d) /\
                     (forall d, prefix (p ++ [fst g]) d -> lookup d (lists fs3) <> None -> lookup d (lists fs1) = None -> reach fs3 (p ++ [fst g]) d)) gs' ns).
        { induction gs' as [|g gs' IHg]; intros ns Hal Hnk Hq; inversion Hq as [|g0 li0 gs0 ns0 [Hd0 [Hr0 Hn0]] Hrest]; subst; constructor.
          - split; [exact Hd0|]. split; [|intros d Hpd Hn3 Hn1; apply Hn0; [exact Hpd | exact Hn3|]; rewrite Hfoot; [exact Hn1|];
              intros Hk; apply (prefix_snoc_neq p k (fst g)) with (d := d); [intros Heq; apply Hnk; rewrite Heq; left; reflexivity | exact Hk | exact Hpd]].
            intros d (u & Hu & Hru). apply Hr0. exists u. split; [exact Hu|].
            inversion Hal as [|x y [_ HUg] _]; subst. rewrite Forall_forall in HUg. destruct (HUg u Hu) as (Hgk & Hpu & Hlu).
            assert (Hpk : prefix (p ++ [fst g]) (li_dir u)).
            { unfold prefix. rewrite app_length. cbn [length]. rewrite Nat.add_1_r. rewrite firstn_S_nth by exact Hlu.
              replace (nth (length p) (li_dir u) 0%nat) with (fst g) by (symmetry; exact Hgk). f_equal. exact Hpu. }
            apply (reach_frame fs1 fs2 (li_dir u) d); [eapply WFunder_mono; [|exact Hwf]; exact Hpu | | exact Hru].
            intros d' Hd'. apply Hfoot. intros Hk. apply (prefix_snoc_neq p k (fst g)) with (d := d').
            + intros Heq. apply Hnk. rewrite Heq. left. reflexivity.
            + exact Hk.
            + eapply prefix_trans; [exact Hpk | exact Hd'].
          - apply IHg; [inversion Hal; assumption | intros Hin; apply Hnk; right; exact Hin | exact Hrest]. }
        apply (Conv gs news Hall' Hni Hf2).
    + intros d Hnone. rewrite Hfoot3 by (intros g Hg; apply Hnone; right; exact Hg).
      apply Hfoot. apply (Hnone (k, u0 :: U')). left. reflexivity.
Qed.
End Step.


Lemma insert_group_keeps k u g gr x : List.In gr g -> List.In x (snd gr) -> exists gr', List.In gr' (insert_group k u g) /\ fst gr' = fst gr /\ List.In x (snd gr').
Proof.
  induction g as [|[k' us] t IH]; intros Hg Hx; [destruct Hg|]. cbn [insert_group].
  destruct Hg as [<- | Hg].
  - destruct (Nat.eqb k k'); [exists (k', us ++ [u]); split; [left; reflexivity|]; split; [reflexivity | apply in_or_app; left; exact Hx]
                              | exists (k', us); split; [left; reflexivity | split; [reflexivity | exact Hx]]].
  - destruct (Nat.eqb k k'); [exists gr; split; [right; exact Hg | split; [reflexivity | exact Hx]]|].
    destruct (IH Hg Hx) as (gr' & H1 & H2 & H3). exists gr'. split; [right; exact H1 | split; assumption].
Qed.
Lemma insert_group_new k u g : exists gr', List.In gr' (insert_group k u g) /\ fst gr' = k /\ List.In u (snd gr').
Proof.
  induction g as [|[k' us] t IH]; cbn [insert_group]; [exists (k, [u]); split; [left; reflexivity | split; [reflexivity | left; reflexivity]]|].
  destruct (Nat.eqb_spec k k') as [->|Hne]; [exists (k', us ++ [u]); split; [left; reflexivity | split; [reflexivity | apply in_or_app; right; left; reflexivity]]|].
  destruct IH as (gr' & H1 & H2 & H3). exists gr'. split; [right; exact H1 | split; assumption].
Qed.
Lemma group_by_mem c us x : List.In x us -> exists gr, List.In gr (group_by c us) /\ fst gr = gkey c x /\ List.In x (snd gr).
Proof.
  unfold group_by. assert (G : forall us g, (List.In x us \/ exists gr, List.In gr g /\ fst gr = gkey c x /\ List.In x (snd gr)) ->
     exists gr, List.In gr (fold_left (fun g u => insert_group (nth c (li_dir u) 0%nat) u g) us g) /\ fst gr = gkey c x /\ List.In x (snd gr)).
  { induction us0 as [|u t IH]; intros g H; cbn [fold_left].
    - destruct H as [[] | H]; exact H.
    - apply IH. destruct H as [[<- | H] | (gr & H1 & H2 & H3)].
      + right. apply insert_group_new.
      + left. exact H.
      + right. destruct (insert_group_keeps (nth c (li_dir u) 0%nat) u g gr x H1 H3) as (gr' & A & B & C). exists gr'. split; [exact A | split; [congruence | exact C]]. }
  intros H. apply G. left. exact H.
Qed.
Lemma Forall2_in_l {A B} (P : A -> B -> Prop) l1 l2 a : Forall2 P l1 l2 -> List.In a l1 -> exists b, List.In b l2 /\ P a b.
Proof.
  induction 1 as [|x y l1 l2 Hxy _ IH]; intros Ha; [destruct Ha|]. destruct Ha as [<- | Ha]; [exists y; split; [left; reflexivity | exact Hxy]|].
  destruct (IH Ha) as (b & Hb & Hp). exists b. split; [right; exact Hb | exact Hp].
Qed.

Theorem merge_reach : forall fuel, merge_reach_at fuel.
Proof.
  induction fuel as [|fuel' IH]; intros U c fs fs' li u0 Hhd Hlens Hwf Hm; [discriminate|].
  rewrite merge_S in Hm. destruct U as [|u U']; [discriminate|]. injection Hhd as ->.
  destruct (negb (forallb (fun u => dpath_eqb (firstn c (li_dir u)) (firstn c (li_dir u0))) (u0 :: U'))) eqn:Epre; [discriminate|].
  apply negb_false_iff in Epre. rewrite forallb_forall in Epre.
  cbv zeta in Hm. set (p := firstn c (li_dir u0)) in *.
  set (root := load_or_create fs p) in *.
  destruct (negb (Nat.eqb _ _)); [discriminate|].
  destruct (merge_asserts_single_update && _)%bool; [discriminate|].
  set (deeper := filter (fun u => is_deeper_level (length (li_dir u)) c) (u0 :: U')) in *.
  destruct (fold_left (Fstep fuel' c) (group_by c (deeper ++ sl_children root)) (Ok (fs, []))) as [[fs3 merged]|e] eqn:Ef; [|discriminate].
  assert (Hplen : length p = c) by (unfold p; rewrite firstn_length; specialize (Hlens u0 (or_introl eq_refl)); lia).
  pose proof (load_or_create_WF fs p Hwf) as (Hr1 & Hr2 & Hr3 & Hr4). fold root in Hr1, Hr2, Hr3, Hr4.
  assert (Hmem : Forall (fun u => prefix p (li_dir u) /\ (c < length (li_dir u))%nat) (deeper ++ sl_children root)).
  { apply Forall_app. split.
    - apply Forall_forall. intros u Hu. unfold deeper in Hu. apply filter_In in Hu. destruct Hu as (Hin & Hdp).
      apply is_deeper_spec in Hdp. split; [|exact Hdp]. unfold prefix. rewrite Hplen. apply dpath_eqb_eq. apply (Epre u Hin).
    - eapply Forall_impl; [|exact Hr4]. cbn beta. intros ch (x & Hx). rewrite Hx. split; [apply prefix_app|]. rewrite app_length. cbn [length]. lia. }
  pose proof (group_by_ok c _ _ Hmem) as Hgok. rewrite <- Hplen in Hgok, Ef.
  destruct (fold_groups_reach fuel' IH p _ fs [] fs3 merged Hgok Hwf Ef) as (news & Hmg & Hf2 & Hwf3 & Hfoot3).
  cbn [app] in Hmg. subst merged.
  set (doc := {| sl_dir := p; sl_nex := _; sl_files := sl_files root; sl_children := news |}) in *.
  pose proof (write_list_lists fs3 doc) as HL.
  destruct (write_list fs3 doc) as [fs4 li4] eqn:Ew. cbn [fst] in HL. injection Hm as <- <-.
  assert (Hlkp : lookup p (lists fs4) = Some (doc, S (ver fs3))) by (rewrite HL; apply lookup_cons_eq).
  (* anything reached in fs from a member of (deeper ++ old children) is reached in fs4 from p *)
  (* from a group's directory down, fs3 and fs4 agree *)
  assert (Down : forall (gr : nat * list list_info) lik d, List.In lik news -> li_dir lik = p ++ [fst gr] -> reach fs3 (p ++ [fst gr]) d -> reach fs4 p d).
  { intros gr lik d Hlik Hdk Hrr3. apply (reach_down fs4 p doc (S (ver fs3)) lik d Hlkp); [exact Hlik|]. rewrite Hdk.
    apply (reach_frame fs3 fs4 (p ++ [fst gr]) d); [eapply WFunder_mono; [apply prefix_app | exact Hwf3] | | exact Hrr3].
    intros d' Hd'. rewrite HL. apply lookup_cons_neq. cbn [sl_dir doc]. intros E. rewrite <- E in Hd'. exact (prefix_longer p (fst gr) Hd'). }
  (* anything reached in fs from a member of (deeper ++ old children) is reached in fs4 from p *)
  assert (Key : forall d x, List.In x (deeper ++ sl_children root) -> reach fs (li_dir x) d -> reach fs4 p d).
  { intros d x Hx Hrx. destruct (group_by_mem (length p) _ x Hx) as (gr & Hg & Hk & Hxg).
    destruct (Forall2_in_l _ _ _ gr Hf2 Hg) as (lik & Hlik & Hdk & Hrk & _).
    apply (Down gr lik d Hlik Hdk). apply Hrk. exists x. split; assumption. }
  assert (FromP : forall d, reach fs p d -> reach fs4 p d).
  { intros d Hr. destruct (reach_inv fs p d Hr) as [-> | (s & h & c0 & Hl & Hc0 & Hr0)]; [constructor|].
    apply (Key d c0); [|exact Hr0]. apply in_or_app. right. unfold root, load_or_create. rewrite Hl. exact Hc0. }
  split.
  - intros d Hd. destruct Hd as [Hd | (u & Hu & Hru)]; [apply FromP, Hd|].
    destruct (Nat.eq_dec (length (li_dir u)) c) as [Hc | Hc].
    + (* an update for this very directory *)
      assert (Hup : li_dir u = p).
      { pose proof (dpath_eqb_eq _ _ (Epre u Hu)) as E. fold p in E. rewrite <- E. rewrite <- Hc. symmetry. apply firstn_all. }
      rewrite Hup in Hru. apply FromP, Hru.
    + apply (Key d u); [|exact Hru]. apply in_or_app. left. unfold deeper. apply filter_In. split; [exact Hu|].
      apply is_deeper_spec. specialize (Hlens u Hu). lia.
  - (* documents that did not exist before *)
    intros d Hpd Hn4 Hn0. destruct (dpath_eqb_spec d p) as [->|Hne]; [constructor|].
    assert (Hl43 : lookup d (lists fs4) = lookup d (lists fs3)) by (rewrite HL; apply lookup_cons_neq; cbn [sl_dir doc]; congruence).
    assert (Hlen : (length p < length d)%nat).
    { pose proof (prefix_length _ _ Hpd) as Hle. destruct (Nat.eq_dec (length p) (length d)) as [E|E]; [|lia].
      exfalso. apply Hne. unfold prefix in Hpd. rewrite E, firstn_all in Hpd. exact Hpd. }
    set (k := nth (length p) d 0%nat).
    assert (Hpk : prefix (p ++ [k]) d).
    { unfold prefix. rewrite app_length. cbn [length]. rewrite Nat.add_1_r, firstn_S_nth by exact Hlen. fold k. f_equal. exact Hpd. }
    destruct (in_dec Nat.eq_dec k (map fst (group_by (length p) (deeper ++ sl_children root)))) as [Hin | Hnin].
    + apply in_map_iff in Hin as (gr & Hgk & Hg). destruct (Forall2_in_l _ _ _ gr Hf2 Hg) as (lik & Hlik & Hdk & _ & Hnk).
      apply (Down gr lik d Hlik Hdk). rewrite Hgk in *. apply Hnk; [exact Hpk | rewrite <- Hl43; exact Hn4 | exact Hn0].
    + exfalso. apply Hn4. rewrite Hl43, Hfoot3; [exact Hn0|]. intros g Hg Hpg. apply Hnin. apply in_map_iff. exists g. split; [|exact Hg].
      unfold prefix in Hpg, Hpk. rewrite app_length in Hpg, Hpk. cbn [length] in Hpg, Hpk. rewrite Hpk in Hpg. apply app_inv_head in Hpg. congruence.
Qed.

(** ** sessions keep documents linked *)
Definition ChildrenKept (fs fs' : fsT) : Prop :=
  forall d s h, lookup d (lists fs) = Some (s, h) -> exists s' h', lookup d (lists fs') = Some (s', h') /\ sl_children s' = sl_children s.
Lemma ChildrenKept_refl fs : ChildrenKept fs fs.
Proof. intros d s h E. exists s, h. auto. Qed.
Lemma ChildrenKept_trans a b c : ChildrenKept a b -> ChildrenKept b c -> ChildrenKept a c.
Proof. intros A B d s h E. destruct (A d s h E) as (s1 & h1 & E1 & C1). destruct (B d s1 h1 E1) as (s2 & h2 & E2 & C2). exists s2, h2. split; [exact E2 | congruence]. Qed.
Lemma reach_kept fs fs' p d : ChildrenKept fs fs' -> reach fs p d -> reach fs' p d.
Proof.
  intros K H. induction H as [p | p s h c d Hl Hc _ IH]; [constructor|].
  destruct (K p s h Hl) as (s' & h' & E & C). apply (reach_down fs' p s' h' c d E); [rewrite C; exact Hc | exact IH].
Qed.

Definition Linked (fs : fsT) (skip : dpath -> Prop) : Prop :=
  forall s t sd h, lookup (s :: t) (lists fs) = Some (sd, h) -> ~ skip (s :: t) -> reach fs [s] (s :: t).
(** every stored shard is listed by the document of its own directory *)
Definition ListedOwn (fs : fsT) : Prop :=
  forall d n v, lookup_shard d n (shards fs) = Some v -> exists sh, List.In sh (sl_files (load_or_create fs d)) /\ sh_name sh = n /\ sh_dir sh = d.

Lemma ListedOwn_extends fs fs' : ListedOwn fs -> Extends fs fs' -> (forall d n v, lookup_shard d n (shards fs') = Some v -> lookup_shard d n (shards fs) = Some v) -> ListedOwn fs'.
Proof.
  intros L [E1 _] Hs d n v H. destruct (L d n v (Hs d n v H)) as (sh & Hin & Hn & Hd). destruct (E1 d) as [ext Eq].
  exists sh. rewrite Eq. split; [apply in_or_app; left; exact Hin | auto].
Qed.

Lemma add_shard_children fs d sh h : WFunder fs [] -> ChildrenKept fs (add_shard fs d sh h).
Proof.
  intros Hwf d' s0 h0 E. destruct (dpath_eqb_spec d' d) as [->|Hne].
  - unfold add_shard. cbv zeta. set (fs1 := {| lists := lists fs; shards := _; ver := _; fresh := _; base := _ |}).
    assert (Hl : load_or_create fs1 d = s0) by (unfold load_or_create; cbn [lists fs1]; rewrite E; reflexivity).
    assert (Hd : sl_dir s0 = d) by (apply (Hwf d s0 h0); [reflexivity | exact E]).
    eexists _, _. rewrite write_list_lists. cbn [sl_dir]. rewrite Hl, Hd, lookup_cons_eq. split; [reflexivity | reflexivity].
  - exists s0, h0. split; [rewrite add_shard_lists_other; assumption | reflexivity].
Qed.
Lemma add_shard_listed fs d sh h : WFunder fs [] -> FreshOK fs -> ListedOwn fs -> ListedOwn (add_shard fs d sh h).
Proof.
  intros Hwf Hfr L d' n v H. rewrite add_shard_shards in H. cbn [lookup_shard] in H.
  destruct (dpath_eqb d d' && Nat.eqb (fresh fs) n) eqn:E.
  - apply andb_true_iff in E as [E1 E2]. apply dpath_eqb_eq in E1. apply Nat.eqb_eq in E2. subst d' n.
    unfold add_shard. cbv zeta. set (fs1 := {| lists := lists fs; shards := _; ver := _; fresh := _; base := _ |}).
    assert (Hd : sl_dir (load_or_create fs1 d) = d).
    { unfold load_or_create. cbn [lists fs1]. destruct (lookup d (lists fs)) as [[s hh]|] eqn:E; [|reflexivity]. apply (Hwf d s hh); [reflexivity | exact E]. }
    eexists. unfold load_or_create at 1. rewrite write_list_lists. cbn [sl_dir]. rewrite Hd, lookup_cons_eq. cbn [sl_files].
    split; [apply in_or_app; right; left; reflexivity | split; reflexivity].
  - destruct (L d' n v H) as (s0 & Hin & Hn & Hd). destruct (add_shard_extends fs d sh h Hwf Hfr) as [E1 _]. destruct (E1 d') as [ext Eq].
    exists s0. rewrite Eq. split; [apply in_or_app; left; exact Hin | auto].
Qed.
Lemma rewrite_children fs dd : WFunder fs [] -> ChildrenKept fs (fst (write_list fs (load_or_create fs dd))).
Proof.
  intros Hwf d' s0 h0 E. destruct (dpath_eqb_spec d' dd) as [->|Hne].
  - eexists _, _. rewrite write_list_lists, (loc_dir fs dd Hwf), lookup_cons_eq. split; [reflexivity|]. unfold load_or_create. rewrite E. reflexivity.
  - exists s0, h0. split; [rewrite rewrite_lists_other; assumption | reflexivity].
Qed.

Section Sess.
Variable eps : nat.
Hypothesis Heps : (1 <= eps)%nat.

(** the facts about a filler session needed for linking, with the same list [tl] of touched splits *)
Lemma filler_session_links fs sub ops : WFunder fs [] -> FreshOK fs ->
  let r := filler_session fs sub eps ops in
  WFunder (fst r) [] /\ FreshOK (fst r) /\ (ListedOwn fs -> ListedOwn (fst r)) /\ ChildrenKept fs (fst r) /\
  exists tl, map li_dir (snd r) = map (fun c => c :: sub) tl /\
    (forall s, ~ List.In s tl -> SameBelow s fs (fst r)) /\
    (forall d', (forall c, List.In c tl -> d' <> c :: sub) -> lookup d' (lists (fst r)) = lookup d' (lists fs)).
Proof.
  intros Hwf Hfr. unfold filler_session. cbv zeta.
  set (st := run_ops eps ops). set (closes := f_closed st ++ exit_closes st).
  assert (Hsz : Forall (fun c => sh_n (snd c) = length (sh_ex (snd c))) closes).
  { pose proof (sizes_ok_lemma eps Heps ops) as H. unfold sizes_ok, session_closed in H. fold st in H. fold closes in H.
    rewrite forallb_forall in H. apply Forall_forall. intros c Hc. specialize (H c Hc). unfold size_ok in H.
    apply andb_true_iff in H as [_ H]. apply Nat.eqb_eq in H. exact H. }
  assert (A : forall cl fsa, Forall (fun c => sh_n (snd c) = length (sh_ex (snd c))) cl -> WFunder fsa [] -> FreshOK fsa ->
     let fsb := fold_left (fun fs0 c => add_shard fs0 (split_code (fst c) :: sub) (snd c) (f_heap st)) cl fsa in
     WFunder fsb [] /\ FreshOK fsb /\ (ListedOwn fsa -> ListedOwn fsb) /\ ChildrenKept fsa fsb /\
     (forall s, (forall c, List.In c cl -> split_code (fst c) <> s) -> SameBelow s fsa fsb) /\
     (forall d', (forall c, List.In c cl -> d' <> split_code (fst c) :: sub) -> lookup d' (lists fsb) = lookup d' (lists fsa))).
  { induction cl as [|c t IH]; intros fsa Hs W F; cbn [fold_left].
    - split; [exact W|]. split; [exact F|]. split; [auto|]. split; [apply ChildrenKept_refl|]. split; [intros; apply SameBelow_refl | reflexivity].
    - inversion Hs as [|x y Hc Ht]; subst.
      assert (W1 : WFunder (add_shard fsa (split_code (fst c) :: sub) (snd c) (f_heap st)) []) by (apply add_shard_WF; assumption).
      assert (F1 : FreshOK (add_shard fsa (split_code (fst c) :: sub) (snd c) (f_heap st))) by (apply add_shard_fresh; assumption).
      pose proof (add_shard_listed fsa (split_code (fst c) :: sub) (snd c) (f_heap st) W F) as L1.
      destruct (IH _ Ht W1 F1) as (W2 & F2 & L2 & K2 & S2 & D2).
      split; [exact W2|]. split; [exact F2|]. split; [auto|].
      split; [eapply ChildrenKept_trans; [apply add_shard_children; exact W | exact K2]|]. split.
      + intros s Hs'. eapply SameBelow_trans; [|apply S2; intros c' Hc'; apply Hs'; right; exact Hc'].
        apply (SameBelow_other_dir s fsa _ (split_code (fst c) :: sub)).
        * intros d' Hd'. apply add_shard_lists_other; assumption.
        * intros d' n Hd'. apply add_shard_shards_other. exact Hd'.
        * apply not_prefix_cons. intros ->. apply (Hs' c); [left; reflexivity | reflexivity].
      + intros d' Hd'. rewrite D2 by (intros c' Hc'; apply Hd'; right; exact Hc'). apply add_shard_lists_other; [exact W|]. apply Hd'. left. reflexivity. }
  destruct (A closes fs Hsz Hwf Hfr) as (W1 & F1 & L1 & K1 & S1 & D1). cbv zeta in *.
  set (fs1 := fold_left (fun fs0 c => add_shard fs0 (split_code (fst c) :: sub) (snd c) (f_heap st)) closes fs) in *.
  assert (B : forall tl fsa acc, WFunder fsa [] -> FreshOK fsa ->
     let r := fold_left (fun (a : fsT * list list_info) (c : nat) => let (fs2, li) := write_list (fst a) (load_or_create (fst a) (c :: sub)) in (fs2, snd a ++ [li])) tl (fsa, acc) in
     (ListedOwn fsa -> ListedOwn (fst r)) /\ ChildrenKept fsa (fst r) /\ (forall d', (forall c, List.In c tl -> d' <> c :: sub) -> lookup d' (lists (fst r)) = lookup d' (lists fsa))).
  { induction tl as [|c t IH]; intros fsa acc W F; cbn [fold_left fst snd]; [split; [auto | split; [apply ChildrenKept_refl | reflexivity]]|].
    pose proof (rewrite_WF fsa (c :: sub) W) as W2. pose proof (rewrite_children fsa (c :: sub) W) as K2. pose proof (rewrite_extends fsa (c :: sub) W) as E2.
    pose proof (rewrite_lists_other fsa (c :: sub) W) as O2.
    pose proof (rewrite_shards fsa (c :: sub)) as Sh2. pose proof (rewrite_fresh fsa (c :: sub)) as Fr2.
    destruct (write_list fsa (load_or_create fsa (c :: sub))) as [fs2 li]. cbn [fst] in *.
    assert (F2 : FreshOK fs2) by (intros d n v E; rewrite Fr2; rewrite Sh2 in E; apply (F d n v E)).
    assert (L2 : ListedOwn fsa -> ListedOwn fs2) by (intros L; apply (ListedOwn_extends fsa fs2 L E2); intros d n v E; rewrite Sh2 in E; exact E).
    destruct (IH fs2 (acc ++ [li]) W2 F2) as (L3 & K3 & D3).
    split; [auto|]. split; [eapply ChildrenKept_trans; eassumption|].
    intros d' Hd'. rewrite D3 by (intros c' Hc'; apply Hd'; right; exact Hc'). apply O2. apply Hd'. left. reflexivity. }
  destruct (fold_rewrite sub (touched closes []) fs1 [] W1 F1) as (W3 & F3 & Hs3 & Hf3 & S3 & news & Hn & Hd). cbv zeta in *.
  destruct (B (touched closes []) fs1 [] W1 F1) as (L3 & K3 & D3). cbv zeta in *.
  destruct (fold_left _ (touched closes []) (fs1, [])) as [fs3 ups] eqn:Ef. cbn [fst snd] in *.
  assert (Hcl : forall s, ~ List.In s (touched closes []) -> forall c, List.In c closes -> split_code (fst c) <> s).
  { intros s Hs c Hc Heq. apply Hs. apply touched_spec. right. exists c. split; assumption. }
  split; [intros d s0 h0 Hp E; apply (WFdoc_shards fs3); [reflexivity | exact (W3 d s0 h0 Hp E)]|].
  split; [exact F3|]. split; [intros L0; apply (ListedOwn_extends fs3); [auto | apply Extends_same; reflexivity | auto]|]. split; [eapply ChildrenKept_trans; eassumption|].
  exists (touched closes []). split; [rewrite Hn; exact Hd|]. split.
  - intros s Hs. destruct (S1 s (Hcl s Hs)) as [A1 A2]. destruct (S3 s Hs) as [B1 B2].
    split; intros; cbn [shards lists]; [rewrite B1, A1 | rewrite B2, A2]; auto.
  - intros d' Hd'. cbn [lists]. rewrite D3 by exact Hd'. apply D1. intros c Hc. apply Hd'. apply touched_spec. right. exists c. split; [exact Hc | reflexivity].
Qed.
End Sess.

(** what the writing phase of a session (one filler, or all fillers of a multi-writer call) leaves for the merges *)
Definition Phase (fs fs1 : fsT) (ups : list list_info) : Prop :=
  WFunder fs1 [] /\ FreshOK fs1 /\ (ListedOwn fs -> ListedOwn fs1) /\ ChildrenKept fs fs1 /\
  (forall u, List.In u ups -> (1 <= length (li_dir u))%nat) /\
  (forall s, ~ List.In s (map (gkey 0) ups) -> SameBelow s fs fs1) /\
  (forall d', ~ List.In d' (map li_dir ups) -> lookup d' (lists fs1) = lookup d' (lists fs)).

Lemma Phase_trans fs fs1 fs2 u1 u2 : Phase fs fs1 u1 -> Phase fs1 fs2 u2 -> Phase fs fs2 (u1 ++ u2).
Proof.
  intros (W1 & F1 & L1 & K1 & N1 & S1 & D1) (W2 & F2 & L2 & K2 & N2 & S2 & D2).
  split; [exact W2|]. split; [exact F2|]. split; [auto|]. split; [eapply ChildrenKept_trans; eassumption|]. split.
  - intros u Hu. apply in_app_or in Hu as [Hu | Hu]; auto.
  - split.
    + intros s Hs. rewrite map_app in Hs. eapply SameBelow_trans; [apply S1 | apply S2]; intros H; apply Hs; apply in_or_app; auto.
    + intros d' Hd'. rewrite map_app in Hd'. rewrite D2, D1; [reflexivity | |]; intros H; apply Hd'; apply in_or_app; auto.
Qed.


Section Sess2.
Variable eps : nat.
Hypothesis Heps : (1 <= eps)%nat.

Lemma filler_phase fs sub ops : WFunder fs [] -> FreshOK fs -> Phase fs (fst (filler_session fs sub eps ops)) (snd (filler_session fs sub eps ops)).
Proof.
  intros Hwf Hfr. destruct (filler_session_links eps Heps fs sub ops Hwf Hfr) as (W & F & L & K & tl & Hd & S & D). cbv zeta in *.
  destruct (gkeys_of_dirs sub _ tl Hd) as [Kk Ll].
  split; [exact W|]. split; [exact F|]. split; [exact L|]. split; [exact K|]. split; [exact Ll|]. split.
  - intros s Hs. apply S. rewrite <- Kk. exact Hs.
  - intros d' Hd'. apply D. intros c Hc E. apply Hd'. rewrite Hd. apply in_map_iff. exists c. split; [symmetry; exact E | exact Hc].
Qed.

Lemma multi_phase : forall writers fsa k, WFunder fsa [] -> FreshOK fsa ->
  let r := fold_left (fun (acc : fsT * list list_info * nat) (ops : list wop) =>
            let '(fsx, usx, kx) := acc in let (fsy, u) := filler_session fsx [kx] eps ops in (fsy, usx ++ u, S kx)) writers (fsa, [], k) in
  Phase fsa (fst (fst r)) (snd (fst r)).
Proof.
  assert (G : forall writers fsa us k, WFunder fsa [] -> FreshOK fsa ->
    let r := fold_left (fun (acc : fsT * list list_info * nat) (ops : list wop) =>
            let '(fsx, usx, kx) := acc in let (fsy, u) := filler_session fsx [kx] eps ops in (fsy, usx ++ u, S kx)) writers (fsa, us, k) in
    exists news, snd (fst r) = us ++ news /\ Phase fsa (fst (fst r)) news).
  { induction writers as [|ops t IH]; intros fsa us k W F; cbn [fold_left fst snd].
    - exists []. rewrite app_nil_r. split; [reflexivity|]. split; [exact W|]. split; [exact F|]. split; [auto|]. split; [apply ChildrenKept_refl|].
      split; [intros u []|]. split; [intros; apply SameBelow_refl | reflexivity].
    - pose proof (filler_phase fsa [k] ops W F) as P1. destruct (filler_session fsa [k] eps ops) as [fsb u1]. cbn [fst snd] in P1.
      destruct P1 as (W1 & F1 & R1). destruct (IH fsb (us ++ u1) (S k) W1 F1) as (news & Hn & P2). cbv zeta in *.
      exists (u1 ++ news). rewrite Hn, <- app_assoc. split; [reflexivity|]. apply (Phase_trans fsa fsb _ u1 news); [split; [exact W1 | split; [exact F1 | exact R1]] | exact P2]. }
  intros writers fsa k W F. destruct (G writers fsa [] k W F) as (news & Hn & P). cbv zeta in *. rewrite Hn. exact P.
Qed.

(** the merges that end a session re-link everything *)
Definition pending (gs : list (nat * list list_info)) (d : dpath) : Prop := exists g u, List.In g gs /\ List.In u (snd g) /\ li_dir u = d.

Lemma wc_fold_links : forall gs fs1 i1 fs' info',
  groups_ok 0 (fun u => (1 <= length (li_dir u))%nat) gs -> WFunder fs1 [] ->
  Linked fs1 (pending gs) -> ListedOwn fs1 ->
  (forall s t, lookup (s :: t) (lists fs1) <> None -> dget i1 s <> None \/ List.In s (map fst gs)) ->
  fold_left WCstep gs (Ok (fs1, i1)) = Ok (fs', info') ->
  Linked fs' (fun _ => False) /\ ListedOwn fs' /\ (forall s t, lookup (s :: t) (lists fs') <> None -> dget info' s <> None).
Proof.
  induction gs as [|[k U] gs IH]; intros fs1 i1 fs' info' [Hnd Hall] Hwf Hlk Hlo Hinfo Hf; cbn [fold_left] in Hf.
  - injection Hf as <- <-. split; [|split; [exact Hlo|]].
    + intros s t sd h E _. apply (Hlk s t sd h E). intros (g & u & [] & _).
    + intros s t E. destruct (Hinfo s t E) as [H | []]; exact H.
  - unfold WCstep at 2 in Hf. cbn [fst snd] in Hf.
    inversion Hnd as [|x1 y1 Hni Hnd' Ex1]; clear Ex1. inversion Hall as [|x2 y2 [Hne HU] Hall' Ex2]; clear Ex2. cbn [fst snd] in *.
    destruct (merge FUEL U 1%nat fs1) as [[fs2 li]|e] eqn:Em; [|rewrite wc_err in Hf; discriminate].
    destruct U as [|u0 U']; [congruence|].
    assert (Hmem : forall u, List.In u (u0 :: U') -> gkey 0 u = k /\ (1 <= length (li_dir u))%nat) by (rewrite Forall_forall in HU; exact HU).
    destruct (Hmem u0 (or_introl eq_refl)) as [Hk0 Hl0].
    assert (Hp : firstn 1 (li_dir u0) = [k]) by (rewrite firstn1_gkey by exact Hl0; rewrite Hk0; reflexivity).
    assert (Hwf1 : WFunder fs1 (firstn 1 (li_dir u0))) by (eapply WFunder_mono; [|exact Hwf]; reflexivity).
    destruct (merge_spec FUEL (u0 :: U') 1%nat fs1 fs2 li u0 eq_refl (fun u Hu => proj2 (Hmem u Hu)) Hwf1 Em) as (Hd & _ & Hsh & Hfoot & Hwf2 & Hfiles).
    destruct (merge_reach FUEL (u0 :: U') 1%nat fs1 fs2 li u0 eq_refl (fun u Hu => proj2 (Hmem u Hu)) Hwf1 Em) as [R1 R2].
    cbv zeta in *. rewrite Hp in *. clear Hk0.
    assert (W2 : WFunder fs2 []).
    { intros d s0 h0 _ E. destruct (dpath_eqb (firstn 1 d) [k]) eqn:Epk.
      - apply dpath_eqb_eq in Epk. apply (Hwf2 d s0 h0 Epk E).
      - assert (Hnp : ~ prefix [k] d) by (intros HH; unfold prefix in HH; cbn [length] in HH; rewrite HH, dpath_eqb_refl in Epk; discriminate).
        rewrite (Hfoot d Hnp) in E. apply (WFdoc_shards fs1 fs2); [congruence|]. apply (Hwf d s0 h0); [reflexivity | exact E]. }
    assert (Hother : forall s t, s <> k -> lookup (s :: t) (lists fs2) = lookup (s :: t) (lists fs1)).
    { intros s t Hsk. apply Hfoot. intros Hpk. apply prefix_single in Hpk as [t' [= -> _]]. congruence. }
    apply (IH fs2 (dset i1 k li) fs' info' (conj Hnd' Hall') W2); [| | |exact Hf].
    + (* linked *)
      intros s t sd h E Hskip. destruct (Nat.eq_dec s k) as [->|Hsk].
      * destruct (lookup (k :: t) (lists fs1)) as [[sd1 h1]|] eqn:E1.
        -- destruct (existsb (fun u => dpath_eqb (li_dir u) (k :: t)) (u0 :: U')) eqn:Ex.
           ++ apply existsb_exists in Ex as (u & Hu & Eu). apply dpath_eqb_eq in Eu. apply R1. right. exists u. split; [exact Hu|]. rewrite Eu. constructor.
           ++ apply R1. left. apply (Hlk k t sd1 h1 E1). intros (g & u & [<- | Hg] & Hu & Eu).
              ** cbn [snd] in Hu. assert (Hc : existsb (fun u => dpath_eqb (li_dir u) (k :: t)) (u0 :: U') = true) by (apply existsb_exists; exists u; split; [exact Hu | rewrite Eu; apply dpath_eqb_refl]). congruence.
              ** apply Hskip. exists g, u. auto.
        -- apply R2; [apply prefix_single; eexists; reflexivity | rewrite E; discriminate | exact E1].
      * rewrite (Hother s t Hsk) in E.
        apply (reach_frame fs1 fs2 [s] (s :: t)).
        -- eapply WFunder_mono; [|exact Hwf]. reflexivity.
        -- intros d' Hd'. apply prefix_single in Hd' as [t' ->]. apply Hother. exact Hsk.
        -- apply (Hlk s t sd h E). intros (g & u & [<- | Hg] & Hu & Eu).
           ++ cbn [snd] in Hu. destruct (Hmem u Hu) as [Hgk Hlen]. unfold gkey in Hgk. rewrite Eu in Hgk. cbn in Hgk. congruence.
           ++ apply Hskip. exists g, u. auto.
    + (* listed *)
      intros d n v Hq. rewrite Hsh in Hq. destruct (Hlo d n v Hq) as (sh & Hin & Hn & Hdd). exists sh. rewrite Hfiles. auto.
    + (* the description knows the split *)
      intros s t E. rewrite dget_dset. destruct (Nat.eqb_spec s k) as [->|Hsk]; [left; discriminate|].
      rewrite (Hother s t Hsk) in E. destruct (Hinfo s t E) as [Hq | [Hq | Hq]]; [left; exact Hq | exfalso; apply Hsk; symmetry; exact Hq | right; exact Hq].
Qed.

(** the invariant of whole histories *)
Definition Inv3 (st : fsT * dinfo) : Prop :=
  Inv st /\ Linked (fst st) (fun _ => False) /\ ListedOwn (fst st) /\ (forall s t, lookup (s :: t) (lists (fst st)) <> None -> dget (snd st) s <> None).

Lemma finish_session3 fs info fs1 ups st' :
  Inv3 (fs, info) -> Phase fs fs1 ups ->
  match ups with [] => Ok (fs1, info) | _ => write_config fs1 info ups end = Ok st' ->
  Linked (fst st') (fun _ => False) /\ ListedOwn (fst st') /\ (forall s t, lookup (s :: t) (lists (fst st')) <> None -> dget (snd st') s <> None).
Proof.
  intros (HI & Hlk & Hlo & Hinfo) (W1 & F1 & L1 & K1 & N1 & S1 & D1) Hr. cbn [fst snd] in *.
  (* after the writing phase everything that existed is still linked; only the updates' own directories may be new *)
  assert (Lk1 : Linked fs1 (fun d => List.In d (map li_dir ups))).
  { intros s t sd h E Hskip. rewrite (D1 (s :: t) Hskip) in E. apply (reach_kept fs fs1 [s] (s :: t) K1). apply (Hlk s t sd h E). intros []. }
  assert (Info1 : forall s t, lookup (s :: t) (lists fs1) <> None -> dget info s <> None \/ List.In s (map (gkey 0) ups)).
  { intros s t E. destruct (in_dec (list_eq_dec Nat.eq_dec) (s :: t) (map li_dir ups)) as [Hin | Hnin].
    - right. apply in_map_iff in Hin as (u & Eu & Hu). apply in_map_iff. exists u. split; [unfold gkey; rewrite Eu; reflexivity | exact Hu].
    - left. rewrite (D1 _ Hnin) in E. apply (Hinfo s t E). }
  destruct ups as [|u0 ups'].
  - injection Hr as <-. cbn [fst snd map] in *. split; [|split; [auto|]].
    + intros s t sd h E _. apply (Lk1 s t sd h E). intros [].
    + intros s t E. destruct (Info1 s t E) as [H | []]. exact H.
  - destruct st' as [fs' info']. unfold write_config, group_split in Hr. fold WCstep in Hr. cbn [fst snd].
    apply (wc_fold_links (group_by 0 (u0 :: ups')) fs1 info fs' info'); auto.
    + apply group_by_ok. apply Forall_forall. exact N1.
    + intros s t sd h E Hskip. apply (Lk1 s t sd h E). intros Hin. apply Hskip.
      apply in_map_iff in Hin as (u & Eu & Hu). destruct (group_by_mem 0 _ u Hu) as (gr & Hg & _ & Hug). exists gr, u. auto.
    + intros s t E. destruct (Info1 s t E) as [H | H]; [left; exact H | right; apply group_by_keys; exact H].
Qed.

Lemma run_session_inv3 st s st' : Inv3 st -> run_session eps st s = Ok st' -> Inv3 st'.
Proof.
  intros H3 Hr. pose proof H3 as (HI & _). split; [apply (run_session_inv eps Heps st s st' HI Hr)|].
  destruct st as [fs info]. pose proof HI as (Hwf & Hfr & Hex). cbn [fst snd] in *. unfold run_session in Hr. destruct s as [sub ops | writers].
  - pose proof (filler_phase fs sub ops Hwf Hfr) as P. destruct (filler_session fs sub eps ops) as [fs1 ups]. cbn [fst snd] in P.
    exact (finish_session3 fs info fs1 ups st' H3 P Hr).
  - set (fsm := {| lists := lists fs; shards := shards fs; ver := ver fs; fresh := (fresh fs + length writers)%nat; base := base fs |}) in *.
    assert (Wm : WFunder fsm []) by (intros d s0 h0 Hp E; apply (WFdoc_shards fs fsm); [reflexivity | exact (Hwf d s0 h0 Hp E)]).
    assert (Fm : FreshOK fsm) by (intros d n v E; cbn [fresh fsm]; pose proof (Hfr d n v E); lia).
    assert (Pm : Phase fs fsm []).
    { split; [exact Wm|]. split; [exact Fm|]. split; [intros L; apply (ListedOwn_extends fs fsm L); [apply Extends_same; reflexivity | auto]|].
      split; [intros d s0 h0 E; exists s0, h0; split; [exact E | reflexivity]|]. split; [intros u []|]. split; [intros; split; reflexivity | reflexivity]. }
    pose proof (multi_phase writers fsm (fresh fs) Wm Fm) as P. cbv zeta in P.
    destruct (fold_left _ writers (fsm, [], fresh fs)) as [[fs1 ups] kk]. cbn [fst snd] in *.
    exact (finish_session3 fs info fs1 ups st' H3 (Phase_trans fs fsm fs1 [] ups Pm P) Hr).
Qed.

Lemma inv3_init : Inv3 (fs0, []).
Proof.
  split; [apply inv_init|]. split; [intros s t sd h E; discriminate|]. split; [intros d n v E; discriminate | intros s t E; exfalso; apply E; reflexivity].
Qed.

Theorem history_inv3 h st : run_history eps h = Ok st -> Inv3 st.
Proof.
  unfold run_history.
  assert (G : forall h st0 st1, Inv3 st0 -> fold_left (fun acc s => match acc with Err e => Err e | Ok stx => run_session eps stx s end) h (Ok st0) = Ok st1 -> Inv3 st1).
  { induction h0 as [|s t IH]; intros st0 st1 HI Hf; cbn [fold_left] in Hf.
    - injection Hf as <-. exact HI.
    - destruct (run_session eps st0 s) as [stx|e] eqn:Er.
      + apply (IH stx st1); [apply (run_session_inv3 st0 s stx HI Er) | exact Hf].
      + exfalso. clear -Hf. induction t as [|x t IHt]; cbn [fold_left] in Hf; [discriminate | auto]. }
  intros Hr. apply (G h (fs0, []) st inv3_init Hr).
Qed.
End Sess2.

(** ** from links to the depth-first list of shards *)
Lemma exact_reach_dfs f : forall fs li d sd h sh, exact f fs li = true -> reach fs (li_dir li) d -> lookup d (lists fs) = Some (sd, h) ->
  List.In sh (sl_files sd) -> List.In sh (dfs f fs (li_dir li)).
Proof.
  induction f as [|f IH]; intros fs li d sd h sh Hex Hr Hl Hsh; [discriminate|].
  cbn [exact] in Hex. cbn [dfs]. destruct (lookup (li_dir li) (lists fs)) as [[s hh]|] eqn:E; [|discriminate].
  destruct (reach_inv fs (li_dir li) d Hr) as [-> | (s' & h' & c & Hl' & Hc & Hr')].
  - rewrite E in Hl. injection Hl as <- _. apply in_or_app. left. exact Hsh.
  - rewrite E in Hl'. injection Hl' as <- _. apply in_or_app. right. apply in_flat_map. exists c. split; [exact Hc|].
    repeat (apply andb_true_iff in Hex as [Hex ?]). match goal with H : forallb _ (sl_children s) = true |- _ => rewrite forallb_forall in H; specialize (H c Hc); apply andb_true_iff in H as [_ Hc'] end.
    apply (IH fs c d sd h sh Hc' Hr' Hl Hsh).
Qed.

(** No stored shard is unlisted: after every history that completes, every shard file stored below a split is returned by the
    depth-first traversal from that split's root (the iteration order), through the summary the description holds. *)
Theorem history_all_shards_listed eps : (1 <= eps)%nat -> forall h fs info, run_history eps h = Ok (fs, info) ->
  forall s t n v, lookup_shard (s :: t) n (shards fs) = Some v ->
  exists li sh, dget info s = Some li /\ li_dir li = [s] /\ List.In sh (dfs FUEL fs [s]) /\ sh_dir sh = s :: t /\ sh_name sh = n.
Proof.
  intros Heps h fs info Hr s t n v Hs.
  destruct (history_inv3 eps Heps h (fs, info) Hr) as ((Hwf & Hfr & Hex) & Hlk & Hlo & Hinfo). cbn [fst snd] in *.
  destruct (Hlo (s :: t) n v Hs) as (sh & Hin & Hn & Hd).
  unfold load_or_create in Hin. destruct (lookup (s :: t) (lists fs)) as [[sd hh]|] eqn:E; [|destruct Hin].
  assert (Hne : lookup (s :: t) (lists fs) <> None) by (rewrite E; discriminate).
  destruct (dget info s) as [li|] eqn:Eg; [|exfalso; apply (Hinfo s t Hne); exact Eg].
  destruct (Hex s li Eg (fun f => f)) as [Hdir Hexa]. exists li, sh. split; [reflexivity|]. split; [exact Hdir|]. split; [|split; assumption].
  rewrite <- Hdir. apply (exact_reach_dfs FUEL fs li (s :: t) sd hh sh Hexa); [rewrite Hdir; apply (Hlk s t sd hh E); intros [] | exact E | exact Hin].
Qed.
