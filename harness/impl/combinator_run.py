"""Run the real shuffle_buffer / round_robin (sync and async) with a fixed LCG seed and a known final
shuffle (reverse), on an instrumented source; report outputs and the number of source pulls at each yield.
stdin: {"sb":[{"l":[...],"b":n,"seed":s,"async":bool}], "rr":[{"ls":[[..],..],"b":n,"seed":s,"async":bool}]}
"""
import asyncio
import json
import sys

import numpy as np
import sedpack.io.itertools.itertools as IT


class Src:
    def __init__(self, items):
        self.items = list(items)
        self.i = 0
        self.pulled = 0

    def __iter__(self):
        return self

    def __next__(self):
        if self.i >= len(self.items):
            raise StopIteration
        x = self.items[self.i]
        self.i += 1
        self.pulled += 1
        return x

    def __aiter__(self):
        return self

    async def __anext__(self):
        if self.i >= len(self.items):
            raise StopAsyncIteration
        x = self.items[self.i]
        self.i += 1
        self.pulled += 1
        return x


class AList:
    def __init__(self, items):
        self.items = list(items)

    def __aiter__(self):
        async def gen():
            for x in self.items:
                yield x
        return gen()


def patch(seed):
    IT.initial_random_state = lambda s=None: np.array([seed], np.uint32)[0]
    IT.random.shuffle = lambda buf: buf.reverse()


def run_sb(c):
    patch(c["seed"])
    src = Src(c["l"])
    out, pulls = [], []
    try:
        if c.get("async"):
            async def go():
                async for x in IT.shuffle_buffer_async(src, c["b"]):
                    out.append(x)
                    pulls.append(src.pulled)
            asyncio.run(go())
        else:
            with np.errstate(all="ignore"):
                for x in IT.shuffle_buffer(src, c["b"]):
                    out.append(x)
                    pulls.append(src.pulled)
        return {"out": out, "pulls": pulls}
    except Exception as ex:  # noqa: BLE001
        return {"error": type(ex).__name__, "out": out, "pulls": pulls}


def run_rr(c):
    patch(c["seed"])
    out, opened = [], []
    try:
        if c.get("async"):
            src = Src([AList(l) for l in c["ls"]])

            async def go():
                async for x in IT.round_robin_async(src, c["b"]):
                    out.append(x)
                    opened.append(src.pulled)
            asyncio.run(go())
        else:
            src = Src(c["ls"])
            for x in IT.round_robin(src, c["b"]):
                out.append(x)
                opened.append(src.pulled)
        return {"out": out, "opened": opened, "total_opened": src.pulled}
    except Exception as ex:  # noqa: BLE001
        return {"error": type(ex).__name__, "out": out, "opened": opened}


def main():
    req = json.load(sys.stdin)
    import warnings
    warnings.simplefilter("ignore")
    print("@@RESULT@@" + json.dumps({"sb": [run_sb(c) for c in req.get("sb", [])], "rr": [run_rr(c) for c in req.get("rr", [])]}))


main()
