(** C11: with copy-on-attach, every example written under a non-empty metadata value lies in a
    shard labelled with exactly that value. *)
Require Import Sedpack.Model.Base Sedpack.Generated.GenFiller Sedpack.Model.Filler Sedpack.Proofs.FillerProofs.

(** Kernel facts (the only places that look inside the generated definitions). *)
Lemma attach_is_copy : attach_mode = Copy.
Proof. reflexivity. Qed.

Lemma metadata_changed_complete cm prev :
  cm <> 0 -> prev <> 0 -> cm <> prev -> metadata_changed cm prev = true.
Proof.
  intros H1 H2 H3. unfold metadata_changed, meta_truthy, meta_eqb.
  apply Nat.eqb_neq in H1. apply Nat.eqb_neq in H2. apply Nat.eqb_neq in H3.
  rewrite H1, H2, H3. reflexivity.
Qed.

Lemma rollover_changed w eps : 0 < w -> rollover w eps true = true.
Proof.
  intros H. unfold rollover. apply Nat.ltb_lt in H. rewrite H.
  destruct (Nat.leb eps w); reflexivity.
Qed.

Lemma meta_truthy_false m : meta_truthy m = false -> m = 0.
Proof. unfold meta_truthy. intros H. apply negb_false_iff, Nat.eqb_eq in H. exact H. Qed.
Lemma meta_truthy_true m : meta_truthy m = true -> m <> 0.
Proof. unfold meta_truthy. intros H. apply negb_true_iff, Nat.eqb_neq in H. exact H. Qed.

Definition mv (r : mref) : meta := mval [] r.
Definition noref (r : mref) : Prop := match r with MRef _ => False | _ => True end.
Definition lab (sh : shard) : Prop :=
  noref (sh_meta sh) /\ Forall (fun v => v = 0 \/ v = mv (sh_meta sh)) (sh_vals sh)
  /\ length (sh_vals sh) = length (sh_ex sh).

Lemma mval_noref h r : noref r -> mval h r = mv r.
Proof. destruct r; simpl; tauto. Qed.

Lemma lab_fresh n : lab (fresh_shard n).
Proof. unfold lab; simpl. repeat split; auto. Qed.

Lemma Forall_snoc {A} (P : A -> Prop) l x : Forall P l -> P x -> Forall P (l ++ [x]).
Proof. intros H Hx. apply Forall_app. split; [exact H | constructor; [exact Hx | constructor]]. Qed.

(** Attaching value [v] (non-zero) to a labelled shard whose earlier writes are compatible. *)
Lemma lab_attach sh v :
  lab sh -> (mv (sh_meta sh) = 0 \/ mv (sh_meta sh) = v \/ sh_vals sh = []) ->
  lab {| sh_id := sh_id sh; sh_ex := sh_ex sh; sh_n := sh_n sh; sh_meta := MVal v; sh_vals := sh_vals sh |}.
Proof.
  intros (Hr & Hf & Hl) Hc. unfold lab; simpl. repeat split; auto.
  destruct Hc as [Hc|[Hc|Hc]].
  - eapply Forall_impl; [|exact Hf]. simpl. intros a [Ha|Ha]; [left; exact Ha | left; congruence].
  - eapply Forall_impl; [|exact Hf]. simpl. intros a [Ha|Ha]; [left; exact Ha | right; unfold mv; simpl; congruence].
  - rewrite Hc. constructor.
Qed.

Lemma lab_write sh e v :
  lab sh -> (v = 0 \/ v = mv (sh_meta sh)) ->
  lab {| sh_id := sh_id sh; sh_ex := sh_ex sh ++ [e]; sh_n := S (sh_n sh); sh_meta := sh_meta sh;
         sh_vals := sh_vals sh ++ [v] |}.
Proof.
  intros (Hr & Hf & Hl) Hv. unfold lab; simpl. repeat split; auto.
  - apply Forall_snoc; assumption.
  - rewrite !app_length; simpl; lia.
Qed.

Record LInv (st : fstate) : Prop := {
  l_open : forall s p, f_open st s = Some p -> lab (p_shard p) /\ length (sh_vals (p_shard p)) = p_written p;
  l_closed : Forall (fun x => lab (snd x)) (f_closed st)
}.

Lemma linv_init : LInv init_fstate.
Proof. constructor; simpl; [discriminate | constructor]. Qed.

Section L.
Variable eps : nat.
Hypothesis eps_pos : 1 <= eps.

(** one write_example on a progress [p] (already fetched or freshly created) *)
Lemma run_tags_lab s h cm ok e p cl nx :
  lab (p_shard p) -> length (sh_vals (p_shard p)) = p_written p ->
  Forall (fun x => lab (snd x)) cl ->
  let changed := metadata_changed (cm_value h cm) (mval h (sh_meta (p_shard p))) in
  let c := fst (run_tags eps s h cm changed ok e write_example_order {| w_prog := p; w_closed := cl; w_next := nx |}) in
  (lab (p_shard (w_prog c)) /\ length (sh_vals (p_shard (w_prog c))) = p_written (w_prog c))
  /\ Forall (fun x => lab (snd x)) (w_closed c).
Proof.
  intros Hlab Hlen Hcl. cbv zeta. rewrite order_is.
  pose proof Hlab as (Hnr & Hf & Hl).
  rewrite (mval_noref h _ Hnr).
  set (changed := metadata_changed (cm_value h cm) (mv (sh_meta (p_shard p)))).
  cbn [run_tags exec_tag w_prog w_closed w_next p_shard p_written].
  assert (Hcmv : forall o, cm = Some o -> meta_truthy (hget h o) = false -> cm_value h cm = 0).
  { intros o -> H. simpl. apply meta_truthy_false, H. }
  destruct (rollover (p_written p) eps changed) eqn:Er.
  - (* rolled: fresh shard *)
    assert (Hcl' : Forall (fun x => lab (snd x)) (cl ++ [(s, p_shard p)])) by (apply Forall_snoc; assumption).
    destruct cm as [o|]; [destruct (meta_truthy (hget h o)) eqn:Et|];
      cbn [w_prog w_closed w_next p_shard p_written sh_id sh_ex sh_n sh_meta sh_vals fresh_shard];
      destruct ok; cbn [fst w_prog w_closed w_next p_shard p_written sh_id sh_ex sh_n sh_meta sh_vals fresh_shard];
      (split; [|exact Hcl']); rewrite ?attach_is_copy; cbn [attach];
      try (split; [|simpl; reflexivity]).
    + apply (lab_write {| sh_id := nx; sh_ex := []; sh_n := 0; sh_meta := MVal (hget h o); sh_vals := [] |}).
      * unfold lab; simpl; repeat split; auto.
      * right. reflexivity.
    + unfold lab; simpl; repeat split; auto.
    + apply (lab_write (fresh_shard nx)); [apply lab_fresh|]. left. apply (Hcmv o eq_refl Et).
    + apply lab_fresh.
    + apply (lab_write (fresh_shard nx)); [apply lab_fresh|]. left. reflexivity.
    + apply lab_fresh.
  - (* not rolled *)
    destruct cm as [o|]; [destruct (meta_truthy (hget h o)) eqn:Et|];
      cbn [w_prog w_closed w_next p_shard p_written sh_id sh_ex sh_n sh_meta sh_vals];
      destruct ok; cbn [fst w_prog w_closed w_next p_shard p_written sh_id sh_ex sh_n sh_meta sh_vals];
      (split; [|exact Hcl]); rewrite ?attach_is_copy; cbn [attach].
    + (* attach v then write *)
      assert (Hcompat : mv (sh_meta (p_shard p)) = 0 \/ mv (sh_meta (p_shard p)) = hget h o \/ sh_vals (p_shard p) = []).
      { destruct (Nat.eq_dec (mv (sh_meta (p_shard p))) 0) as [H0|H0]; [left; exact H0|].
        destruct (Nat.eq_dec (mv (sh_meta (p_shard p))) (hget h o)) as [H1|H1]; [right; left; exact H1|].
        right; right. apply meta_truthy_true in Et.
        assert (Hch : changed = true).
        { unfold changed. simpl. apply metadata_changed_complete; auto. }
        rewrite Hch in Er.
        destruct (p_written p) as [|w] eqn:Ew.
        - destruct (sh_vals (p_shard p)); [reflexivity | simpl in Hlen; discriminate].
        - rewrite rollover_changed in Er by lia. discriminate. }
      pose proof (lab_attach _ (hget h o) Hlab Hcompat) as Hla.
      split.
      * apply (lab_write _ e (hget h o) Hla). right. reflexivity.
      * simpl. rewrite app_length. simpl. lia.
    + assert (Hcompat : mv (sh_meta (p_shard p)) = 0 \/ mv (sh_meta (p_shard p)) = hget h o \/ sh_vals (p_shard p) = []).
      { destruct (Nat.eq_dec (mv (sh_meta (p_shard p))) 0) as [H0|H0]; [left; exact H0|].
        destruct (Nat.eq_dec (mv (sh_meta (p_shard p))) (hget h o)) as [H1|H1]; [right; left; exact H1|].
        right; right. apply meta_truthy_true in Et.
        assert (Hch : changed = true).
        { unfold changed. simpl. apply metadata_changed_complete; auto. }
        rewrite Hch in Er.
        destruct (p_written p) as [|w] eqn:Ew.
        - destruct (sh_vals (p_shard p)); [reflexivity | simpl in Hlen; discriminate].
        - rewrite rollover_changed in Er by lia. discriminate. }
      split; [apply (lab_attach _ (hget h o) Hlab Hcompat) | simpl; exact Hlen].
    + split.
      * destruct (p_shard p) as [i ex n m vs] eqn:Esh. apply (lab_write {| sh_id := i; sh_ex := ex; sh_n := n; sh_meta := m; sh_vals := vs |}); [exact Hlab|].
        left. apply (Hcmv o eq_refl Et).
      * simpl. rewrite app_length. simpl. lia.
    + split; [destruct (p_shard p); exact Hlab | exact Hlen].
    + split.
      * destruct (p_shard p) as [i ex n m vs] eqn:Esh. apply (lab_write {| sh_id := i; sh_ex := ex; sh_n := n; sh_meta := m; sh_vals := vs |}); [exact Hlab|].
        left. reflexivity.
      * simpl. rewrite app_length. simpl. lia.
    + split; [destruct (p_shard p); exact Hlab | exact Hlen].
Qed.

Lemma write_example_linv st s cm ok : LInv st -> LInv (fst (write_example eps st s cm ok)).
Proof.
  intros [Lo Lc]. unfold write_example.
  destruct (f_open st s) as [p|] eqn:Eop.
  - destruct (Lo s p Eop) as (Hlab & Hlen).
    pose proof (run_tags_lab s (f_heap st) cm ok (f_clock st) p (f_closed st) (f_next st) Hlab Hlen Lc) as H.
    cbv zeta in H.
    destruct (run_tags eps s (f_heap st) cm _ ok (f_clock st) write_example_order _) as [c raised].
    simpl in H. destruct H as (H1 & H2).
    constructor; cbn [fst f_open f_closed]; [|exact H2].
    intros s' p'. unfold upd_open. destruct (split_eqb_spec s' s) as [->|Hne]; [|apply Lo].
    intros E. injection E as <-. exact H1.
  - pose proof (run_tags_lab s (f_heap st) cm ok (f_clock st) {| p_shard := fresh_shard (f_next st); p_written := 0 |}
                             (f_closed st) (S (f_next st)) (lab_fresh _) eq_refl Lc) as H.
    cbv zeta in H.
    destruct (run_tags eps s (f_heap st) cm _ ok (f_clock st) write_example_order _) as [c raised].
    simpl in H. destruct H as (H1 & H2).
    constructor; cbn [fst f_open f_closed]; [|exact H2].
    intros s' p'. unfold upd_open. destruct (split_eqb_spec s' s) as [->|Hne]; [|apply Lo].
    intros E. injection E as <-. exact H1.
Qed.

Lemma step_linv st o : LInv st -> LInv (step eps st o).
Proof.
  destruct o as [s cm ok|ob v]; [apply write_example_linv|].
  intros [Lo Lc]. constructor; simpl; auto.
Qed.

Lemma fold_linv ops st : LInv st -> LInv (fold_left (step eps) ops st).
Proof. revert st; induction ops as [|o ops IH]; simpl; intros st H; [exact H | apply IH, step_linv, H]. Qed.

Lemma run_linv ops : LInv (run_ops eps ops).
Proof. apply fold_linv, linv_init. Qed.

Lemma lab_label_ok h sh : lab sh -> label_ok h sh = true.
Proof.
  intros (Hr & Hf & Hl). unfold label_ok. rewrite (mval_noref h _ Hr).
  apply andb_true_iff; split; [|apply Nat.eqb_eq, Hl].
  apply forallb_forall. intros v Hv. rewrite Forall_forall in Hf. destruct (Hf v Hv) as [->| ->].
  - reflexivity.
  - rewrite Nat.eqb_refl. apply orb_true_r.
Qed.

Lemma exit_lab st : LInv st -> Forall (fun x => lab (snd x)) (exit_closes st).
Proof.
  intros [Lo _]. unfold exit_closes. induction (f_order st) as [|s l IH]; simpl; [constructor|].
  apply Forall_app; split; [|exact IH].
  destruct (f_open st s) as [p|] eqn:E; [|constructor].
  destruct (close_on_exit (p_written p)); [|constructor].
  constructor; [|constructor]. simpl. apply (Lo s p E).
Qed.

Lemma labels_ok_lemma ops : labels_ok eps ops = true.
Proof.
  unfold labels_ok, session_closed. pose proof (run_linv ops) as H.
  apply forallb_forall. intros x Hx. apply lab_label_ok.
  assert (HF : Forall (fun x => lab (snd x)) (f_closed (run_ops eps ops) ++ exit_closes (run_ops eps ops))).
  { apply Forall_app; split; [apply (l_closed _ H) | apply exit_lab, H]. }
  rewrite Forall_forall in HF. apply HF, Hx.
Qed.
End L.
