(** C13 — The lazy thread pool is correct under every thread interleaving.
    Property theorems only; each is closed by [exact] of a lemma proved in Proofs/.
    A schedule is an arbitrary list of thread choices (0 consumer continues, 1 consumer abandons
    the iteration and leaves the context, 2+w worker w); [reach] is reachability under any
    schedule; all statements hold for every thread count T >= 1, every input list, every mapped
    function (total or failing) and every schedule. *)
Require Import Sedpack.Model.Base Sedpack.Generated.GenLazyPool Sedpack.Model.LazyPool.
Require Import Sedpack.Proofs.LazyPoolInv Sedpack.Proofs.LazyPoolResult.
From Coq Require Import Permutation.

(** Never a deadlock: unless the consumer has finished (normally, by raising, or by abandoning)
    and every worker thread has ended, some thread can move — also when the mapped function fails. *)
Theorem c13_no_deadlock :
  forall (A B : Type) (f : A -> option B) (T : nat), 1 <= T ->
  forall (xs : list A) (s : st A B), reach A B f T xs s -> quiescent s = false ->
  exists t s', step A B f T s t = Some s'.
Proof. exact no_deadlock_lemma. Qed.
Print Assumptions c13_no_deadlock.

(** A state in which nothing can move has the consumer finished and every worker ended. *)
Theorem c13_stuck_only_when_done :
  forall (A B : Type) (f : A -> option B) (T : nat), 1 <= T ->
  forall (xs : list A) (s : st A B), reach A B f T xs s ->
  (forall t, step A B f T s t = None) -> quiescent s = true.
Proof. exact stuck_is_quiescent. Qed.
Print Assumptions c13_stuck_only_when_done.

(** Termination: under every schedule at most 5n + 15T + 12 queue operations are performed. *)
Theorem c13_terminates :
  forall (A B : Type) (f : A -> option B) (T : nat), 1 <= T ->
  forall (xs : list A) (sched : list nat),
    effective A B f T (init A B T xs) sched <= 5 * length xs + 15 * T + 12.
Proof.
  intros A B f T Tpos xs sched. rewrite <- (mu_init A B T Tpos xs).
  exact (effective_bounded A B f T Tpos (length xs) sched _ (inv_init A B T Tpos xs)).
Qed.
Print Assumptions c13_terminates.

(** A pass that ends normally has yielded exactly one result per input — the same number of
    results satisfying any predicate as the inputs produce — every worker has ended and the
    pool's counter is reset. *)
Theorem c13_finished_exact :
  forall (A B : Type) (f : A -> option B) (T : nat), 1 <= T ->
  forall (xs : list A) (s : st A B), reach A B f T xs s -> pc s = Final Finished ->
  length (out s) = length xs /\ (forall p, cntB B p (out s) = cntB B p (fs A B f xs)) /\
  all_workers_ended s = true /\ src s = [] /\ active s = 0.
Proof. exact finished_exact_lemma. Qed.
Print Assumptions c13_finished_exact.

(** The same as a permutation when results have decidable equality. *)
Theorem c13_finished_permutation :
  forall (A B : Type) (f : A -> option B) (T : nat), 1 <= T ->
  (forall x y : B, {x = y} + {x <> y}) ->
  forall (xs : list A) (s : st A B), reach A B f T xs s -> pc s = Final Finished ->
  Permutation (out s) (fs A B f xs).
Proof. exact finished_permutation_lemma. Qed.
Print Assumptions c13_finished_permutation.

(** If the mapped function fails on some input the pass never ends normally (with
    [c13_no_deadlock] and [c13_terminates]: it ends by raising, or by the caller abandoning it). *)
Theorem c13_failure_never_finishes_normally :
  forall (A B : Type) (f : A -> option B) (T : nat), 1 <= T ->
  forall (xs : list A) (s : st A B) (a : A), reach A B f T xs s -> List.In a xs -> f a = None ->
  pc s <> Final Finished.
Proof. exact failure_not_finished_lemma. Qed.
Print Assumptions c13_failure_never_finishes_normally.

(** After the consumer left the iteration in any way the pool's counter is zero (reusable). *)
Theorem c13_pool_reset :
  forall (A B : Type) (f : A -> option B) (T : nat),
  forall (xs : list A) (s : st A B), reach A B f T xs s -> normal (pc s) = false -> active s = 0.
Proof. exact ending_active0. Qed.
Print Assumptions c13_pool_reset.

(** Non-vacuity: concrete runs reach each of the three endings, with all workers ended. *)
Definition rr (k : nat) : list nat := concat (repeat [0; 2; 3; 4] k).
Theorem c13_nonvacuous :
  let f := fun x : nat => if x =? 5 then None else Some (10 * x) in
  let g := fun x : nat => Some (10 * x) in
  let s1 := run nat nat g 3 (init nat nat 3 [1; 2; 3; 4; 5; 6; 7; 8; 9]) (rr 40) in
  let s2 := run nat nat f 3 (init nat nat 3 [1; 2; 3; 4; 5; 6; 7; 8; 9]) (rr 40) in
  let s3 := run nat nat g 2 (init nat nat 2 [1; 2; 3; 4; 5; 6; 7; 8; 9]) (rr 8 ++ [1] ++ rr 20) in
  (pc s1 = Final Finished /\ quiescent s1 = true /\ out s1 = [10; 20; 30; 40; 50; 60; 70; 80; 90]) /\
  (pc s2 = Final Raised /\ quiescent s2 = true) /\
  (pc s3 = Final Abandoned /\ quiescent s3 = true /\ length (out s3) = 1).
Proof. vm_compute. repeat split. Qed.
Print Assumptions c13_nonvacuous.
