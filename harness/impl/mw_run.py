"""C09: real write_multiprocessing with worker processes vs the single-process run of the same writers.
stdin: {"jobs":[{"eps":n,"format":"fb","pre":[sessions],"writers":[{"ops":[...],"sleep":s}], ...}]}
"""
import json
import os
import shutil
import sys
import tempfile
import time
from pathlib import Path

AUDIT_DIR = [None]


def hook(event, args):
    d = AUDIT_DIR[0]
    if d is None:
        return
    try:
        if event == "open" and isinstance(args[0], (str, bytes, os.PathLike)):
            mode = args[1]
            if isinstance(mode, str) and any(c in mode for c in "wax+"):
                with open(os.path.join(d, f"{os.getpid()}.log"), "a") as f:
                    f.write("open " + os.fsdecode(args[0]) + "\n")
        elif event == "os.rename":
            with open(os.path.join(d, f"{os.getpid()}.log"), "a") as f:
                f.write("rename " + os.fsdecode(args[1]) + "\n")
    except Exception:  # noqa: BLE001
        pass


sys.addaudithook(hook)

sys.path.insert(0, str(Path(__file__).resolve().parent))
import history_run as H  # noqa: E402
import relocate_run as R  # noqa: E402
from sedpack.io import Dataset, Metadata, DatasetStructure, Attribute  # noqa: E402


def feed(dataset_filler, ops, base, sleep, marker_dir):
    if marker_dir:
        with open(os.path.join(marker_dir, f"writer_{base}.pid"), "w") as f:
            f.write(str(os.getpid()))
    if sleep:
        time.sleep(sleep)
    with dataset_filler as f:
        H.apply_ops(f, ops, base)
    if base % 200 == 0:
        dataset_filler.get_updated_infos()      # looking at what was produced must not change what the parent receives
    return ["result", base, len(ops)]


def build(job, root, single, audit_dir):
    ds = Dataset.create(path=root, metadata=Metadata(description="mw"), dataset_structure=DatasetStructure(
        saved_data_description=[Attribute(name="a", dtype="int32", shape=(1,))], shard_file_type=job.get("format", "fb"),
        compression="", examples_per_shard=job["eps"], hash_checksum_algorithms=("sha256",)))
    base = 0
    for s in job.get("pre", []):
        sub = Path(*[f"d{x}" for x in s["sub"]]) if s["sub"] else Path(".")
        with H.DatasetFiller(ds, relative_path_from_split=sub) as f:
            H.apply_ops(f, s["ops"], base)
        base += 100
    ws = job["writers"]
    bases = [base + 100 * i for i in range(len(ws))]
    AUDIT_DIR[0] = audit_dir
    err = None
    try:
        ret = ds.write_multiprocessing(feed_writer=feed, custom_arguments=[(w["ops"], b, 0 if single else w.get("sleep", 0), audit_dir) for w, b in zip(ws, bases)],
                                       consistency_check=True, single_process=single)
    except BaseException as ex:  # noqa: BLE001
        ret, err = None, f"{type(ex).__name__}: {str(ex)[:200]}"
    AUDIT_DIR[0] = None
    return ds, ret, bases, err


def main():
    req = json.load(sys.stdin)
    res = []
    for job in req["jobs"]:
        tmp = Path(tempfile.mkdtemp(prefix="verif_mw_")).resolve()
        try:
            audit = tmp / "audit"
            audit.mkdir()
            ds_p, ret_p, bases, err_p = build(job, tmp / "par" / "ds", False, str(audit))
            ds_s, ret_s, _b, err_s = build(job, tmp / "seq" / "ds", True, None)
            dump_p = R.canon(H.dump(ds_p, tmp / "par" / "ds", ds_p))
            dump_s = R.canon(H.dump(ds_s, tmp / "seq" / "ds", ds_s))
            # files written per process
            per = {}
            for f in audit.glob("*.log"):
                per[f.stem] = sorted({l.split(" ", 1)[1].strip() for l in f.read_text().splitlines() if l.strip() and str(tmp / "par") in l})
            pids = {f.stem.split("_")[1]: f.read_text() for f in audit.glob("writer_*.pid")}
            worker_pids = sorted(set(pids.values()))
            clashes = []
            wp = [p for p in per if p in worker_pids]
            for i in range(len(wp)):
                for j in range(i + 1, len(wp)):
                    both = set(per[wp[i]]) & set(per[wp[j]])
                    if both:
                        clashes.append(sorted(both)[:3])
            res.append({"same": dump_p == dump_s, "par": dump_p if dump_p != dump_s else None, "seq": dump_s if dump_p != dump_s else None,
                        "problems": dump_p.get("problems"), "check": dump_p.get("check"), "ret_par": ret_p, "ret_seq": ret_s,
                        "expected_ret": [["result", b, len(w["ops"])] for w, b in zip(job["writers"], bases)], "err_par": err_p, "err_seq": err_s,
                        "worker_processes": len(worker_pids), "clashes": clashes, "files_per_worker": [len(per[p]) for p in wp]})
        except Exception as ex:  # noqa: BLE001
            res.append({"build_error": f"{type(ex).__name__}: {str(ex)[:300]}"})
        finally:
            shutil.rmtree(tmp, ignore_errors=True)
    print("@@RESULT@@" + json.dumps({"jobs": res}))


if __name__ == "__main__":
    main()
