(** C06: under the publication discipline every prefix of the effect trace — every crash point,
    every instant a concurrent reader may look — leaves a consistent disk, and everything a
    committed document referenced is still referenced. *)
Require Import Sedpack.Model.Base Sedpack.Model.Crash.

Section P.
Variable kind_of : path -> kind.
Notation apply_eff := apply_eff.
Notation step_ok := (step_ok kind_of).
Notation discipline := (discipline kind_of).
Notation Consistent := (Consistent kind_of).
Notation doc_ok := (doc_ok kind_of).
Notation shard_ok := (shard_ok kind_of).
Notation child_ok := (child_ok kind_of).
Notation is_kind := (is_kind kind_of).

Lemma is_kind_true k p : is_kind k p = true <-> kind_of p = k.
Proof. unfold Crash.is_kind. destruct (kind_of p), k; split; intros; congruence. Qed.

Lemma upd_same d p v : upd d p v p = v.
Proof. unfold upd. rewrite Nat.eqb_refl. reflexivity. Qed.
Lemma upd_other d p v q : q <> p -> upd d p v q = d q.
Proof. unfold upd. intros H. destruct (Nat.eqb_spec q p); congruence. Qed.

(** A state change that leaves closed shards and closed metadata documents in place (possibly
    replacing a metadata document by another complete one) keeps references valid. *)
Definition preserves (d d' : disk) : Prop :=
  (forall r h, kind_of r = KShard -> d r = Some {| closed := true; fbody := BShard h |} -> d' r = Some {| closed := true; fbody := BShard h |}) /\
  (forall c dc, kind_of c = KMeta -> d c = Some {| closed := true; fbody := BDoc dc |} -> exists dc', d' c = Some {| closed := true; fbody := BDoc dc' |}).

Lemma shard_ok_preserved d d' r : preserves d d' -> shard_ok d r = true -> shard_ok d' r = true.
Proof.
  intros [Hs _]. unfold Crash.shard_ok. intros H. apply andb_true_iff in H. destruct H as [Hk H].
  rewrite Hk. simpl. destruct (d (fst r)) as [[[|] [h|dc]]|] eqn:E; try discriminate.
  apply is_kind_true in Hk. rewrite (Hs _ _ Hk E). exact H.
Qed.
Lemma child_ok_preserved d d' c : preserves d d' -> child_ok d c = true -> child_ok d' c = true.
Proof.
  intros [_ Hc]. unfold Crash.child_ok. intros H. apply andb_true_iff in H. destruct H as [Hk H].
  rewrite Hk. simpl. destruct (d c) as [[[|] [h|dc]]|] eqn:E; try discriminate.
  apply is_kind_true in Hk. destruct (Hc _ _ Hk E) as (dc' & ->). reflexivity.
Qed.
Lemma doc_ok_preserved d d' dc : preserves d d' -> doc_ok d dc = true -> doc_ok d' dc = true.
Proof.
  intros Hp H. unfold Crash.doc_ok in *. apply andb_true_iff in H. destruct H as [H1 H2]. apply andb_true_iff. split.
  - apply forallb_forall. intros r Hr. rewrite forallb_forall in H1. apply (shard_ok_preserved d d' r Hp (H1 r Hr)).
  - apply forallb_forall. intros c Hc. rewrite forallb_forall in H2. apply (child_ok_preserved d d' c Hp (H2 c Hc)).
Qed.

(** every allowed effect preserves closed shards and complete metadata *)
Lemma step_preserves d e : step_ok d e = true -> preserves d (apply_eff d e).
Proof.
  intros H. destruct e as [p b|p|p|p q| |p]; simpl in *.
  - apply andb_true_iff in H. destruct H as [_ H]. destruct (d p) eqn:E; [discriminate|].
    split; intros x y Hk Hx; [|exists y]; rewrite upd_other; auto; intros ->; congruence.
  - split; intros x y Hk Hx; [|exists y]; auto.
  - apply andb_true_iff in H. destruct H as [Hm H]. destruct (d p) as [[[|] b]|] eqn:E; try discriminate.
    split; intros x y Hk Hx; [|exists y]; rewrite upd_other; auto; intros ->; rewrite E in Hx; discriminate.
  - apply andb_true_iff in H. destruct H as [Hk H]. apply andb_true_iff in Hk. destruct Hk as [Hkp Hkq].
    apply is_kind_true in Hkp. apply is_kind_true in Hkq.
    destruct (d p) as [[[|] [h|dn]]|] eqn:E; try discriminate.
    split.
    + intros r h Hr Hx. rewrite upd_other by (intros ->; congruence). rewrite upd_other by (intros ->; congruence). exact Hx.
    + intros c dc Hc Hx. destruct (Nat.eq_dec c p) as [->|Hcp]; [congruence|]. rewrite upd_other by exact Hcp.
      destruct (Nat.eq_dec c q) as [->|Hcq]; [rewrite upd_same; exists dn; reflexivity | rewrite upd_other by exact Hcq; exists dc; exact Hx].
  - split; intros x y Hk Hx; [|exists y]; auto.
  - apply is_kind_true in H. split; intros x y Hk Hx; [|exists y]; rewrite upd_other; auto; intros ->; congruence.
Qed.

Lemma step_consistent d e : Consistent d -> step_ok d e = true -> Consistent (apply_eff d e).
Proof.
  intros Hc Hs. pose proof (step_preserves d e Hs) as Hp. intros q f Hq Hf.
  destruct e as [p b|p|p|p q'| |p]; simpl in *.
  - apply andb_true_iff in Hs. destruct Hs as [Hm _]. apply negb_true_iff in Hm.
    destruct (Nat.eq_dec q p) as [->|Hne]; [exfalso; apply is_kind_true in Hq; congruence|].
    rewrite upd_other in Hf by exact Hne. destruct (Hc q f Hq Hf) as (H1 & dc & H2 & H3).
    split; [exact H1|]. exists dc. split; [exact H2|]. apply (doc_ok_preserved d _ dc Hp H3).
  - destruct (Hc q f Hq Hf) as (H1 & dc & H2 & H3). split; [exact H1|]. exists dc. split; [exact H2|exact H3].
  - apply andb_true_iff in Hs. destruct Hs as [Hm Hs]. apply negb_true_iff in Hm.
    destruct (d p) as [fp|] eqn:E; [|destruct (Hc q f Hq Hf) as (H1 & dc & H2 & H3); split; [exact H1|]; exists dc; split; [exact H2 | exact H3]].
    destruct (Nat.eq_dec q p) as [->|Hne]; [exfalso; apply is_kind_true in Hq; congruence|].
    rewrite upd_other in Hf by exact Hne. destruct (Hc q f Hq Hf) as (H1 & dc & H2 & H3).
    split; [exact H1|]. exists dc. split; [exact H2|]. apply (doc_ok_preserved d _ dc Hp H3).
  - apply andb_true_iff in Hs. destruct Hs as [Hk Hs]. apply andb_true_iff in Hk. destruct Hk as [Hkp Hkq].
    apply is_kind_true in Hkp. apply is_kind_true in Hkq.
    destruct (d p) as [[[|] [h|dn]]|] eqn:E; try discriminate. apply andb_true_iff in Hs. destruct Hs as [Hok _].
    destruct (Nat.eq_dec q p) as [->|Hqp]; [congruence|]. rewrite upd_other in Hf by exact Hqp.
    destruct (Nat.eq_dec q q') as [->|Hqq].
    + rewrite upd_same in Hf. injection Hf as <-. split; [reflexivity|]. exists dn. split; [reflexivity|].
      apply (doc_ok_preserved d _ dn Hp Hok).
    + rewrite upd_other in Hf by exact Hqq. destruct (Hc q f Hq Hf) as (H1 & dc & H2 & H3).
      split; [exact H1|]. exists dc. split; [exact H2|]. apply (doc_ok_preserved d _ dc Hp H3).
  - destruct (Hc q f Hq Hf) as (H1 & dc & H2 & H3). split; [exact H1|]. exists dc. split; [exact H2|exact H3].
  - apply is_kind_true in Hs. destruct (Nat.eq_dec q p) as [->|Hne]; [congruence|].
    rewrite upd_other in Hf by exact Hne. destruct (Hc q f Hq Hf) as (H1 & dc & H2 & H3).
    split; [exact H1|]. exists dc. split; [exact H2|]. apply (doc_ok_preserved d _ dc Hp H3).
Qed.

Lemma discipline_prefix tr : forall d n, discipline d tr = true -> discipline d (firstn n tr) = true.
Proof.
  induction tr as [|e t IH]; intros d [|n] H; simpl in *; auto.
  apply andb_true_iff in H. destruct H as [H1 H2]. rewrite H1. simpl. apply IH, H2.
Qed.

Lemma discipline_consistent tr : forall d, Consistent d -> discipline d tr = true -> Consistent (apply_all tr d).
Proof.
  induction tr as [|e t IH]; intros d Hc H; simpl in *; [exact Hc|].
  apply andb_true_iff in H. destruct H as [H1 H2]. apply IH; [apply step_consistent; assumption | exact H2].
Qed.

(** Every crash point. *)
Theorem crash_consistent_lemma d tr n : Consistent d -> discipline d tr = true -> Consistent (apply_all (firstn n tr) d).
Proof. intros Hc H. apply discipline_consistent; [exact Hc | apply discipline_prefix, H]. Qed.

(** What a committed document referenced stays referenced by whatever document is at that path later. *)
Definition refs_in (d : disk) (q : path) (r : path * nat) : Prop :=
  exists f dc, d q = Some f /\ fbody f = BDoc dc /\ mem_ref r (d_shards dc) = true.
Definition child_in (d : disk) (q c : path) : Prop :=
  exists f dc, d q = Some f /\ fbody f = BDoc dc /\ existsb (Nat.eqb c) (d_children dc) = true.

Lemma mem_ref_trans r old new : mem_ref r (d_shards old) = true -> extends old new = true -> mem_ref r (d_shards new) = true.
Proof.
  unfold extends. intros Hm He. apply andb_true_iff in He. destruct He as [He _]. rewrite forallb_forall in He.
  unfold mem_ref in Hm. apply existsb_exists in Hm. destruct Hm as (x & Hx & Hxe).
  apply andb_true_iff in Hxe. destruct Hxe as [E1 E2]. apply Nat.eqb_eq in E1. apply Nat.eqb_eq in E2.
  specialize (He x Hx). destruct x as [a b], r as [c e]. simpl in *. subst. exact He.
Qed.
Lemma child_trans c old new : existsb (Nat.eqb c) (d_children old) = true -> extends old new = true -> existsb (Nat.eqb c) (d_children new) = true.
Proof.
  unfold extends. intros Hm He. apply andb_true_iff in He. destruct He as [_ He]. rewrite forallb_forall in He.
  apply existsb_exists in Hm. destruct Hm as (x & Hx & Hxe). apply Nat.eqb_eq in Hxe. subst x. apply He, Hx.
Qed.

Lemma step_refs_persist d e q r : kind_of q = KMeta -> step_ok d e = true ->
  (refs_in d q r -> refs_in (apply_eff d e) q r) /\ (forall c, child_in d q c -> child_in (apply_eff d e) q c).
Proof.
  intros Hq Hs.
  assert (Hgen : forall (P : doc -> bool), (forall old new, P old = true -> extends old new = true -> P new = true) ->
            (exists f dc, d q = Some f /\ fbody f = BDoc dc /\ P dc = true) ->
            exists f dc, apply_eff d e q = Some f /\ fbody f = BDoc dc /\ P dc = true).
  { intros P HP (f & dc & Hf & Hb & Hm).
    destruct e as [p b|p|p|p q'| |p]; simpl in *.
    - apply andb_true_iff in Hs. destruct Hs as [Hm' _]. apply negb_true_iff in Hm'.
      exists f, dc. rewrite upd_other; [auto|]. intros ->. apply is_kind_true in Hq. congruence.
    - exists f, dc. auto.
    - apply andb_true_iff in Hs. destruct Hs as [Hm' _]. apply negb_true_iff in Hm'.
      destruct (d p) eqn:E; [|exists f, dc; auto]. exists f, dc. rewrite upd_other; [auto|]. intros ->. apply is_kind_true in Hq. congruence.
    - apply andb_true_iff in Hs. destruct Hs as [Hk Hs]. apply andb_true_iff in Hk. destruct Hk as [Hkp Hkq].
      apply is_kind_true in Hkp. apply is_kind_true in Hkq.
      destruct (d p) as [[[|] [h|dn]]|] eqn:E; try discriminate. apply andb_true_iff in Hs. destruct Hs as [_ Hext].
      destruct (Nat.eq_dec q p) as [->|Hqp]; [congruence|]. rewrite upd_other by exact Hqp.
      destruct (Nat.eq_dec q q') as [->|Hqq].
      + rewrite upd_same. rewrite Hf in Hext. destruct f as [cl bd]. simpl in Hb. subst bd.
        exists {| closed := true; fbody := BDoc dn |}, dn. repeat split. apply (HP dc dn Hm Hext).
      + rewrite upd_other by exact Hqq. exists f, dc. auto.
    - exists f, dc. auto.
    - apply is_kind_true in Hs. exists f, dc. rewrite upd_other; [auto|]. intros ->. congruence. }
  split.
  - intros H. apply (Hgen (fun dc => mem_ref r (d_shards dc))); [intros; eapply mem_ref_trans; eauto | exact H].
  - intros c H. apply (Hgen (fun dc => existsb (Nat.eqb c) (d_children dc))); [intros; eapply child_trans; eauto | exact H].
Qed.

Theorem refs_persist_lemma tr : forall d q r, kind_of q = KMeta -> discipline d tr = true ->
  (refs_in d q r -> refs_in (apply_all tr d) q r) /\ (forall c, child_in d q c -> child_in (apply_all tr d) q c).
Proof.
  induction tr as [|e t IH]; intros d q r Hq H; simpl in *; [split; auto|].
  apply andb_true_iff in H. destruct H as [H1 H2].
  destruct (step_refs_persist d e q r Hq H1) as (Ha & Hb). destruct (IH (apply_eff d e) q r Hq H2) as (Hc & Hd).
  split; [intros Hx; apply Hc, Ha, Hx | intros c Hx; apply Hd, Hb, Hx].
Qed.
End P.
