(** Counting invariant of the lazy pool, absence of deadlock, termination measure. *)
Require Import Sedpack.Model.Base Sedpack.Generated.GenLazyPool Sedpack.Model.LazyPool.

(** Kernel facts: the only lemmas that look inside the generated definitions. *)
Lemma prefill_break_spec i T : prefill_break i T = true <-> 2 * T < i.
Proof. unfold prefill_break. apply Nat.ltb_lt. Qed.
Lemma reset_sentinels_spec T : reset_sentinels T = T.
Proof. reflexivity. Qed.
Lemma worker_forwards : worker_on_exception = Forward.
Proof. reflexivity. Qed.

Section C.
Variables A B : Type.
(* counting *)
Definition isIn (x : item A) := match x with In _ => true | _ => false end.
Definition isOut (x : res B) := match x with Out _ => true | _ => false end.
Definition isExc (x : res B) := match x with Exc => true | _ => false end.
Definition isStopR (x : res B) := match x with StopR => true | _ => false end.
Definition nIn (l : list (item A)) := length (filter isIn l).
Definition nStop (l : list (item A)) := length (filter (fun x => negb (isIn x)) l).
Definition nOut (l : list (res B)) := length (filter isOut l).
Definition nExc (l : list (res B)) := length (filter isExc l).
Definition nStopR (l : list (res B)) := length (filter isStopR l).
Definition cnt (p : wst A -> bool) (l : list (wst A)) := length (filter p l).
Definition isIdle (x : wst A) := match x with Idle => true | _ => false end.
Definition isBusy (x : wst A) := match x with Busy _ => true | _ => false end.
Definition isStopping (x : wst A) := match x with Stopping => true | _ => false end.
Definition isDone (x : wst A) := match x with Done => true | _ => false end.
Definition isDead (x : wst A) := match x with Dead => true | _ => false end.

Definition normal (c : cpc B) : bool := match c with Prefill _ | Get | Put _ => true | _ => false end.
Definition pend (c : cpc B) : nat := match c with Put _ => 1 | _ => 0 end.
Definition excseen (c : cpc B) : nat := match c with Reset _ Raised | Final Raised => 1 | _ => 0 end.
Definition kleft (c : cpc B) : nat := match c with Reset k _ => k | _ => 0 end.

Lemma cnt_upd p (l : list (wst A)) w x y : nth_error l w = Some y ->
  cnt p (upd l w x) + (if p y then 1 else 0) = cnt p l + (if p x then 1 else 0).
Proof.
  revert w; induction l as [|h t IH]; intros [|w] Hn; simpl in *; try discriminate.
  - injection Hn as ->. unfold cnt; simpl. destruct (p y), (p x); simpl; lia.
  - specialize (IH w Hn). unfold cnt in *; simpl. destruct (p h); simpl; lia.
Qed.

Lemma len_upd (l : list (wst A)) w x : length (upd l w x) = length l.
Proof. revert w; induction l; intros [|w]; simpl; auto. Qed.

Lemma filter_app_len {X} (p : X -> bool) l x :
  length (filter p (l ++ [x])) = length (filter p l) + (if p x then 1 else 0).
Proof. rewrite filter_app, app_length; simpl. destruct (p x); simpl; lia. Qed.

Lemma cnt_repeat p x k : cnt p (repeat x k) = if p x then k else 0.
Proof.
  unfold cnt. induction k; simpl; [destruct (p x); reflexivity|].
  destruct (p x) eqn:E; simpl; rewrite ?E in *; lia.
Qed.

Lemma cnt_le p l : cnt p l <= length l.
Proof. unfold cnt. induction l as [|h t IH]; simpl; auto. destruct (p h); simpl; lia. Qed.

Lemma cnt_partition l :
  cnt isIdle l + cnt isBusy l + cnt isStopping l + cnt isDone l + cnt isDead l = length l.
Proof. induction l as [|h t IH]; unfold cnt in *; simpl; auto. destruct h; simpl; lia. Qed.

Lemma exists_nonidle (l : list (wst A)) : cnt isBusy l + cnt isStopping l > 0 ->
  exists w x, nth_error l w = Some x /\ (isBusy x = true \/ isStopping x = true).
Proof.
  induction l as [|h t IH]; unfold cnt in *; simpl; [lia|].
  destruct (isBusy h) eqn:E1; [intros _; exists 0, h; simpl; auto|].
  destruct (isStopping h) eqn:E2; [intros _; exists 0, h; simpl; auto|].
  simpl; intros H. destruct (IH H) as (w & x & Hn & Hx). exists (S w), x; auto.
Qed.

Lemma exists_idle (l : list (wst A)) : cnt isIdle l > 0 -> exists w, nth_error l w = Some Idle.
Proof.
  induction l as [|h t IH]; unfold cnt in *; simpl; [lia|].
  destruct h; simpl; try (intros _; exists 0; reflexivity);
  intros H; destruct (IH H) as (w & Hw); exists (S w); auto.
Qed.

Lemma not_ended_live (l : list (wst A)) :
  forallb (fun x => negb (worker_live A x)) l = false -> cnt isIdle l + cnt isBusy l + cnt isStopping l > 0.
Proof.
  induction l as [|h t IH]; unfold cnt in *; simpl; [discriminate|].
  destruct h; simpl; try lia; intros H; specialize (IH H); lia.
Qed.
End C.

Arguments isIn {A}. Arguments nIn {A}. Arguments nStop {A}. Arguments isOut {B}. Arguments isExc {B}. Arguments isStopR {B}.
Arguments nOut {B}. Arguments nExc {B}. Arguments nStopR {B}. Arguments cnt {A}. Arguments isIdle {A}. Arguments isBusy {A}.
Arguments isStopping {A}. Arguments isDone {A}. Arguments isDead {A}. Arguments normal {B}. Arguments pend {B}. Arguments excseen {B}. Arguments kleft {B}.
Arguments cnt_upd {A}. Arguments len_upd {A}. Arguments cnt_repeat {A}. Arguments cnt_le {A}. Arguments cnt_partition {A}.
Arguments exists_nonidle {A}. Arguments exists_idle {A}. Arguments not_ended_live {A}.

Section P.
Variables A B : Type.
Variable f : A -> option B.
Variable T : nat.
Hypothesis Tpos : 1 <= T.

Notation st := (st A B).
Notation step := (step A B f T).
Notation reach := (reach A B f T).
Notation init := (init A B T).

Definition puts_of (s : st) : nat := match pc s with Prefill i => i | _ => 2 * T + 2 + length (out s) end.

Record Inv (n : nat) (s : st) : Prop := {
  i_len : length (wk s) = T;
  i_cons : n = length (src s) + nIn (tp s) + cnt isBusy (wk s) + nOut (rs s) + pend (pc s) + length (out s) + cnt isDead (wk s);
  i_dead : cnt isDead (wk s) = nExc (rs s) + excseen (pc s);
  i_pre : match pc s with Prefill i => i <= 2 * T + 1 /\ out s = [] | _ => True end;
  i_norm : normal (pc s) = true ->
      puts_of s + length (src s) = n + nStop (tp s) + cnt isStopping (wk s) + cnt isDone (wk s) /\
      active s + (cnt isDone (wk s) - nStopR (rs s)) = T /\ nStopR (rs s) <= cnt isDone (wk s) /\ 1 <= active s;
  i_end : normal (pc s) = false -> cnt isIdle (wk s) + cnt isBusy (wk s) <= nStop (tp s) + kleft (pc s)
}.







Lemma inv_init xs : Inv (length xs) (init xs).
Proof.
  constructor; simpl; unfold nIn, nStop, nOut, nExc, nStopR, puts_of; simpl; rewrite ?cnt_repeat; simpl; try lia.
  - apply repeat_length.
  - split; [lia | reflexivity].
Qed.

Ltac cu Ew x :=
  pose proof (cnt_upd isIdle _ _ x _ Ew); pose proof (cnt_upd isBusy _ _ x _ Ew);
  pose proof (cnt_upd isStopping _ _ x _ Ew); pose proof (cnt_upd isDone _ _ x _ Ew);
  pose proof (cnt_upd isDead _ _ x _ Ew).

Ltac unf := unfold nIn, nStop, nOut, nExc, nStopR, puts_of in *.
Ltac fin :=
  unf; simpl in *; rewrite ?len_upd, ?reset_sentinels_spec; repeat rewrite filter_app_len; repeat rewrite app_length; simpl in *;
  try lia; try discriminate; try assumption; try (split; [lia | reflexivity]);
  try (intros _; simpl in *; lia).

Lemma inv_step n s t s' : Inv n s -> step s t = Some s' -> Inv n s'.
Proof.
  intros [Hl Hc Hd Hp Hn He] Hst.
  pose proof (cnt_partition (wk s)) as Hpart. pose proof (cnt_le isDead (wk s)) as Hdl.
  destruct t as [|[|w]]; simpl in Hst.
  - (* consumer continues *)
    unfold cstep in Hst. destruct (pc s) eqn:Epc.
    + (* prefill *)
      destruct Hp as (Hp1 & Hp2). specialize (Hn eq_refl). destruct Hn as (Hs & Ha & Hsr & Hact). unfold puts_of in Hs. rewrite Epc in Hs.
      destruct (prefill_break i T) eqn:El;
        [apply prefill_break_spec in El | assert (~ 2 * T < i) by (intros HH; apply prefill_break_spec in HH; congruence)];
      destruct (src s) as [|a s0] eqn:Es; simpl in Hst; injection Hst as <-;
      (constructor; rewrite ?Hp2 in *; fin).
    + (* get *)
      specialize (Hn eq_refl). destruct Hn as (Hs & Ha & Hsr & Hact). unfold puts_of in Hs. rewrite Epc in Hs.
      destruct (rs s) as [|[b| |] r'] eqn:Er; try discriminate; injection Hst as <-.
      * constructor; fin.
      * constructor; fin.
      * destruct (active s - 1 =? 0) eqn:E0; [apply Nat.eqb_eq in E0 | apply Nat.eqb_neq in E0]; constructor; fin.
    + (* put *)
      specialize (Hn eq_refl). destruct Hn as (Hs & Ha & Hsr & Hact). unfold puts_of in Hs. rewrite Epc in Hs.
      destruct (src s) as [|a s0] eqn:Es; simpl in Hst; injection Hst as <-; constructor; fin.
    + (* reset *)
      specialize (He eq_refl). simpl in He.
      destruct k as [|k]; injection Hst as <-; constructor; fin; destruct e; fin.
    + discriminate.
  - (* consumer abandons *)
    unfold astep in Hst. destruct (pc s) eqn:Epc; try discriminate. injection Hst as <-.
    constructor; fin.
  - (* worker *)
    unfold wstep in Hst. destruct (nth_error (wk s) w) as [[|a| | |]|] eqn:Ew; try discriminate.
    + (* idle takes *)
      destruct (tp s) as [|[a|] t'] eqn:Et; try discriminate; injection Hst as <-.
      * cu Ew (Busy a). constructor; fin;
          try (intros Hnn; first [specialize (Hn Hnn) | specialize (He Hnn)]; destruct (pc s); fin).
      * cu Ew (@Stopping A). constructor; fin;
          try (intros Hnn; first [specialize (Hn Hnn) | specialize (He Hnn)]; destruct (pc s); fin).
    + (* busy *)
      destruct (f a) as [b|] eqn:Ef.
      * injection Hst as <-. cu Ew (@Idle A). constructor; fin;
          try (intros Hnn; first [specialize (Hn Hnn) | specialize (He Hnn)]; destruct (pc s); fin).
      * rewrite worker_forwards in Hst. injection Hst as <-. cu Ew (@Dead A). constructor; fin;
          try (intros Hnn; first [specialize (Hn Hnn) | specialize (He Hnn)]; destruct (pc s); fin).
    + (* stopping *)
      injection Hst as <-. cu Ew (@Done A). constructor; fin;
          try (intros Hnn; first [specialize (Hn Hnn) | specialize (He Hnn)]; destruct (pc s); fin).
Qed.

Lemma reach_inv xs s : reach xs s -> Inv (length xs) s.
Proof. induction 1; [apply inv_init | eapply inv_step; eauto]. Qed.

(** * No deadlock *)



Lemma worker_can_step s :
  cnt isBusy (wk s) + cnt isStopping (wk s) > 0 -> exists t s', step s t = Some s'.
Proof.
  intros H. destruct (exists_nonidle (wk s) H) as (w & x & Hn & Hx).
  exists (S (S w)). simpl. unfold wstep. rewrite Hn.
  destruct x; simpl in Hx; destruct Hx; try discriminate; eauto.
  destruct (f a); [eauto|]. rewrite worker_forwards. eauto.
Qed.

Lemma idle_can_step s : cnt isIdle (wk s) > 0 -> tp s <> [] -> exists t s', step s t = Some s'.
Proof.
  intros H Ht. destruct (exists_idle (wk s) H) as (w & Hw).
  exists (S (S w)). simpl. unfold wstep. rewrite Hw. destruct (tp s) as [|[a|] t']; [congruence| |]; eauto.
Qed.

Lemma no_deadlock_lemma xs s : reach xs s -> quiescent s = false -> exists t s', step s t = Some s'.
Proof.
  intros Hr Hq. pose proof (reach_inv _ _ Hr) as [Hl Hc Hd Hp Hn He].
  pose proof (cnt_partition (wk s)) as Hpart.
  destruct (pc s) eqn:Epc.
  - exists 0. simpl. unfold cstep. rewrite Epc. destruct (next_item A (src s)). eauto.
  - (* Get *)
    destruct (rs s) as [|r r'] eqn:Er.
    2:{ exists 0. simpl. unfold cstep. rewrite Epc, Er. destruct r; eauto. }
    specialize (Hn eq_refl). destruct Hn as (Hs & Ha & Hsr & Hact). unfold puts_of in Hs. rewrite Epc in Hs.
    unfold nExc, nStopR, nOut in *. simpl in *.
    destruct (Nat.eq_dec (cnt isBusy (wk s) + cnt isStopping (wk s)) 0) as [Hz|Hnz]; [|apply worker_can_step; lia].
    destruct (tp s) as [|x t'] eqn:Et.
    + exfalso. unfold nIn, nStop in *; simpl in *. pose proof (cnt_le isDone (wk s)). lia.
    + destruct (Nat.eq_dec (cnt isIdle (wk s)) 0) as [Hi|Hi]; [exfalso; lia|].
      apply idle_can_step; [lia | rewrite Et; discriminate].
  - exists 0. simpl. unfold cstep. rewrite Epc. destruct (next_item A (src s)). eauto.
  - exists 0. simpl. unfold cstep. rewrite Epc. destruct k; eauto.
  - (* consumer final: some worker is still live *)
    unfold quiescent, is_final in Hq. rewrite Epc in Hq. simpl in Hq.
    apply not_ended_live in Hq. specialize (He eq_refl). simpl in He.
    destruct (Nat.eq_dec (cnt isBusy (wk s) + cnt isStopping (wk s)) 0) as [Hz|Hnz]; [|apply worker_can_step; lia].
    apply idle_can_step; [lia|]. intros Ht. rewrite Ht in He. unfold nStop in He. simpl in He. lia.
Qed.

(** * Termination: a measure that every step decreases *)
Definition prefill_left (c : cpc B) : nat := match c with Prefill i => 2 * T + 2 - i | _ => 0 end.
Definition reset_left (c : cpc B) : nat := match c with Reset k _ => k | Final _ => 0 | _ => T end.
Definition rank (c : cpc B) : nat := match c with Reset _ _ => 1 | Final _ => 0 | _ => 2 end.
Definition mu (s : st) : nat :=
  5 * (prefill_left (pc s) + (length (src s) + nIn (tp s) + cnt isBusy (wk s) + nOut (rs s) + pend (pc s)) + reset_left (pc s))
  + 3 * length (tp s) + 2 * (cnt isBusy (wk s) + cnt isStopping (wk s)) + length (rs s) + rank (pc s).

Lemma mu_step n s t s' : Inv n s -> step s t = Some s' -> mu s' < mu s.
Proof.
  intros [Hl Hc Hd Hp Hn He] Hst. unfold mu.
  destruct t as [|[|w]]; simpl in Hst.
  - unfold cstep in Hst. destruct (pc s) eqn:Epc.
    + destruct Hp as (Hp1 & Hp2).
      destruct (prefill_break i T) eqn:El;
        [apply prefill_break_spec in El | assert (~ 2 * T < i) by (intros HH; apply prefill_break_spec in HH; congruence)];
      destruct (src s) as [|a s0] eqn:Es; simpl in Hst; injection Hst as <-; fin.
    + destruct (rs s) as [|[b| |] r'] eqn:Er; try discriminate; injection Hst as <-; fin.
      destruct (active s - 1 =? 0); fin.
    + destruct (src s) as [|a s0] eqn:Es; simpl in Hst; injection Hst as <-; fin.
    + destruct k as [|k]; injection Hst as <-; fin.
    + discriminate.
  - unfold astep in Hst. destruct (pc s) eqn:Epc; try discriminate. injection Hst as <-. fin.
  - unfold wstep in Hst. destruct (nth_error (wk s) w) as [[|a| | |]|] eqn:Ew; try discriminate.
    + destruct (tp s) as [|[a|] t'] eqn:Et; try discriminate; injection Hst as <-.
      * cu Ew (Busy a). fin.
      * cu Ew (@Stopping A). fin.
    + destruct (f a) as [b|] eqn:Ef.
      * injection Hst as <-. cu Ew (@Idle A). fin.
      * rewrite worker_forwards in Hst. injection Hst as <-. cu Ew (@Dead A). fin.
    + injection Hst as <-. cu Ew (@Done A). fin.
Qed.

(** Number of effective (non-stuttering) steps of a schedule. *)
Fixpoint effective (s : st) (sched : list nat) : nat :=
  match sched with
  | [] => 0
  | t :: rest => match step s t with Some s' => S (effective s' rest) | None => effective s rest end
  end.

Lemma effective_bounded n sched : forall s, Inv n s -> effective s sched <= mu s.
Proof.
  induction sched as [|t rest IH]; intros s Hi; simpl; [lia|].
  destruct (step s t) as [s'|] eqn:E; [|apply IH, Hi].
  pose proof (mu_step _ _ _ _ Hi E). pose proof (IH s' (inv_step _ _ _ _ Hi E)). lia.
Qed.

Lemma mu_init xs : mu (init xs) = 5 * length xs + 15 * T + 12.
Proof.
  unfold mu, init. simpl. unfold nIn, nOut. simpl. rewrite !cnt_repeat. simpl. lia.
Qed.

Lemma run_reach xs sched : forall s, reach xs s -> reach xs (run A B f T s sched).
Proof.
  induction sched as [|t rest IH]; intros s Hr; simpl; [exact Hr|].
  destruct (step s t) as [s'|] eqn:E; [apply IH; econstructor; eauto | apply IH, Hr].
Qed.
End P.
