"""Build datasets from session descriptions and run iteration requests through every interface.
stdin: {"jobs":[{"dataset":{"format","compression","eps","sessions":[...]}, "requests":[{...}], "damage": optional}]}
request: {"iface":"sync|concurrent|async|rust|tf","split":0,"shuffle":0,"repeat":false,"take":null,
          "file_parallelism":2,"shards":null,"limit":null,"filter":null|value,"process":false,"reopen":false}
result per request: {"out":[payloads]} | {"error": "..."} | {"hang": true}
"""
import asyncio
import json
import os
import shutil
import sys
import tempfile
import threading
from pathlib import Path

import numpy as np

sys.path.insert(0, str(Path(__file__).resolve().parent))
import history_run as H  # noqa: E402
from sedpack.io import Dataset, Metadata, DatasetStructure, Attribute  # noqa: E402

SPLITS = H.SPLITS


def build(spec, tmp):
    root = Path(tmp) / "ds"
    if root.exists():
        shutil.rmtree(root)
    ds = Dataset.create(path=root, metadata=Metadata(description="it"), dataset_structure=DatasetStructure(
        saved_data_description=[Attribute(name="a", dtype="int32", shape=(1,))], shard_file_type=spec.get("format", "fb"),
        compression=spec.get("compression", ""), examples_per_shard=spec["eps"], hash_checksum_algorithms=("sha256",)))
    base = 0
    for s in spec["sessions"]:
        if s["kind"] == "filler":
            sub = Path(*[f"d{x}" for x in s["sub"]]) if s["sub"] else Path(".")
            with H.DatasetFiller(ds, relative_path_from_split=sub) as f:
                H.apply_ops(f, s["ops"], base)
            base += 100
        else:
            bases = [base + 100 * i for i in range(len(s["writers"]))]
            ds.write_multiprocessing(feed_writer=H.feed, custom_arguments=[(ops, b) for ops, b in zip(s["writers"], bases)],
                                     consistency_check=False, single_process=True)
            base += 100 * len(s["writers"])
    return root


def val(e):
    a = e["a"] if isinstance(e, dict) else e
    if hasattr(a, "numpy"):
        a = a.numpy()
    return int(np.asarray(a).reshape(-1)[0])


CALLS = []


def proc(e):
    v = val(e)
    CALLS.append(v)
    return {"a": np.asarray([v + 100000], np.int32)}


def iterate(root, r):
    ds = Dataset(root)
    if r.get("passes"):
        r2 = dict(r)
        r2.pop("passes")
        return [iterate_ds(ds, r2) for _ in range(r["passes"])]
    return iterate_ds(ds, r)


def iterate_ds(ds, r):
    split = SPLITS[r["split"]]
    kw = {"split": split, "repeat": r.get("repeat", False), "shuffle": r.get("shuffle", 0)}
    if r.get("shards") is not None:
        kw["shards"] = r["shards"]
    if r.get("filter") is not None:
        fv = r["filter"]
        kw["shard_filter"] = lambda s, fv=fv: int(s.custom_metadata.get("k", 0)) == fv
    if r.get("process"):
        kw["process_record"] = proc
    iface = r["iface"]
    take = r.get("take")
    out = []

    def consume(it):
        for e in it:
            out.append(val(e))
            if take is not None and len(out) >= take:
                break

    if iface == "sync":
        if r.get("limit") is not None:
            kw["custom_metadata_type_limit"] = r["limit"]
        consume(ds.as_numpy_iterator(**kw))
    elif iface == "concurrent":
        if r.get("limit") is not None:
            kw["custom_metadata_type_limit"] = r["limit"]
        consume(ds.as_numpy_iterator_concurrent(file_parallelism=r.get("file_parallelism", 2), **kw))
    elif iface == "rust":
        consume(ds.as_numpy_iterator_rust(file_parallelism=r.get("file_parallelism", 2), **kw))
    elif iface == "async":
        async def go():
            async for e in ds.as_numpy_iterator_async(file_parallelism=r.get("file_parallelism", 2), **kw):
                out.append(val(e))
                if take is not None and len(out) >= take:
                    break
        asyncio.run(go())
    elif iface == "tf":
        if r.get("limit") is not None:
            kw["custom_metadata_type_limit"] = r["limit"]
        tfds = ds.as_tfdataset(batch_size=0, file_parallelism=r.get("file_parallelism", 2), parallelism=1, prefetch=1, **kw)
        consume(tfds)
    else:
        raise ValueError(iface)
    return out


def run_request(root, r, timeout):
    box = {}

    def target():
        try:
            CALLS.clear()
            box["out"] = iterate(root, r)
            if r.get("process"):
                box["calls"] = sorted(CALLS)
        except BaseException as ex:  # noqa: BLE001
            box["error"] = f"{type(ex).__name__}: {str(ex)[:120]}"

    th = threading.Thread(target=target, daemon=True)
    th.start()
    th.join(timeout)
    if th.is_alive():
        return {"hang": True}
    return box


def damage(root, dmg):
    """{"split":0,"which":"first|middle|last","kind":"deleted|emptied|garbage"} applied to a shard file in DFS order."""
    ds = Dataset(root)
    infos = list(ds.shard_info_iterator(SPLITS[dmg["split"]]))
    idx = {"first": 0, "middle": len(infos) // 2, "last": len(infos) - 1}[dmg["which"]]
    p = root / infos[idx].file_infos[0].file_path
    if dmg["kind"] == "deleted":
        p.unlink()
    elif dmg["kind"] == "emptied":
        p.write_bytes(b"")
    else:
        n = p.stat().st_size
        p.write_bytes(bytes((i * 37 + 11) % 256 for i in range(max(64, n))))
    return idx


def reference(root):
    """DFS order of the examples per split, decoded shard by shard (the write-order oracle)."""
    ds = Dataset(root)
    ref = {}
    for s in ds._dataset_info.splits:
        seq, shards = [], []
        for sh in ds.shard_info_iterator(s):
            ex = H.decode(ds, root / sh.file_infos[0].file_path)
            shards.append([ex, int(sh.custom_metadata.get("k", 0))])
            seq += ex
        ref[str(SPLITS.index(s))] = {"seq": seq, "shards": shards}
    return ref


def main():
    req = json.load(sys.stdin)
    res = []
    hung = False
    for job in req["jobs"]:
        tmp = tempfile.mkdtemp(prefix="verif_iter_")
        try:
            try:
                root = build(job["dataset"], tmp)
                ref = reference(root)
                dmg_idx = damage(root, job["damage"]) if job.get("damage") else None
            except Exception as ex:  # noqa: BLE001
                res.append({"build_error": f"{type(ex).__name__}: {ex}"[:300]})
                continue
            outs = []
            for r in job["requests"]:
                if hung:
                    outs.append({"skipped": True})
                    continue
                o = run_request(root, r, req.get("timeout", 60))
                if o.get("hang"):
                    hung = True
                outs.append(o)
            res.append({"reference": ref, "results": outs, "damaged_index": dmg_idx})
        finally:
            shutil.rmtree(tmp, ignore_errors=True)
    print("@@RESULT@@" + json.dumps({"jobs": res}))
    sys.stdout.flush()
    os._exit(0)


if __name__ == "__main__":
    main()
