"""C06 — a writer crash never corrupts or loses committed data."""
import json
import os

from harness import common, history
from harness.common import Broken, COQ, REPO
from translator import pygen

PID = "C06"


def gen_jobs(ctx):
    rng = ctx.rng
    W = lambda s=0: ["W", s, None, True]  # noqa: E731
    mp = ctx.scale(28, 400)
    jobs = [
        # first session on a fresh dataset
        {"eps": 2, "format": "fb", "pre": [], "session": {"kind": "filler", "sub": [], "ops": [W(), W(), W(), W(1)]}, "max_points": mp},
        # continued root session (the list the description points to is rewritten)
        {"eps": 2, "format": "fb", "pre": [{"sub": [], "ops": [W()] * 3 + [W(1)]}], "session": {"kind": "filler", "sub": [], "ops": [W(), W(), W()]}, "max_points": mp},
        # the same continued session in a process whose temporary directory is on another file system (TMPDIR on tmpfs)
        {"eps": 2, "format": "fb", "pre": [{"sub": [], "ops": [W()] * 3 + [W(1)]}], "session": {"kind": "filler", "sub": [], "ops": [W(), W(), W()]}, "max_points": mp, "other_fs_tmp": True},
        # continued session into a known sub-directory, npz (several write calls per shard)
        {"eps": 2, "format": "npz", "pre": [{"sub": [7], "ops": [W()] * 3}, {"sub": [], "ops": [W()]}], "session": {"kind": "filler", "sub": [7], "ops": [W(), W(), W()]}, "max_points": mp},
        # multi-writer call on top of committed data
        {"eps": 1, "format": "fb", "pre": [{"sub": [], "ops": [W(), W()]}], "session": {"kind": "multi", "writers": [[W(), W()], [W(1)]]}, "max_points": mp},
    ]
    for i in range(ctx.scale(2, 30)):
        eps = rng.choice([1, 2, 3])
        pre = [{"sub": rng.choice([[], [1], [1, 2]]), "ops": history.gen_ops(rng, eps, small=True)} for _ in range(rng.choice([0, 1, 2]))]
        if rng.random() < 0.3:
            sess = {"kind": "multi", "writers": [history.gen_ops(rng, eps, small=True) for _ in range(rng.choice([1, 2]))]}
        else:
            sess = {"kind": "filler", "sub": rng.choice([[], [1], [1, 2], [3]]), "ops": history.gen_ops(rng, eps, small=rng.random() < 0.5)}
        jobs.append({"eps": eps, "format": rng.choice(["fb", "npz"]), "pre": pre, "session": sess, "max_points": mp, "seed": i})
    return jobs


class Interner:
    def __init__(self):
        self.ids = {}

    def __call__(self, x, start=0):
        if x not in self.ids:
            self.ids[x] = len(self.ids) + 1
        return self.ids[x]


def kind_of(rel):
    b = os.path.basename(rel)
    if b in ("shards_list.json", "dataset_info.json"):
        return "KMeta"
    if b.startswith("update_"):
        return "KTmp"
    return "KShard"


def doc_of(text, P, D):
    """Abstract a metadata document to its references."""
    try:
        d = json.loads(text)
    except Exception:  # noqa: BLE001
        return None
    if "splits" in d:
        return ([], [P(v["shard_list_info_file"]["file_path"]) for v in d["splits"].values()])
    shards = [(P(s["file_infos"][0]["file_path"]), D((s["file_infos"][0].get("hash_checksums") or ["none"])[0])) for s in d.get("shard_files", [])]
    kids = [P(c["shard_list_info_file"]["file_path"]) for c in d.get("children_shard_lists", [])]
    return (shards, kids)


def coq_doc(dc):
    sh, kids = dc
    return "{| d_shards := [" + "; ".join(f"({p}, {h})" for p, h in sh) + "]; d_children := " + common.clist(kids) + " |}"


def coq_trace(r):
    """Base disk, kind function and effect trace of the reference run as Coq text; plus the event index of every effect."""
    P, D = Interner(), Interner()
    base = r["base_files"]
    files = []
    for rel, v in sorted(base.items()):
        pid = P(rel)
        if "text" in v:
            dc = doc_of(v["text"], P, D)
            files.append((pid, "BDoc " + coq_doc(dc)))
        else:
            files.append((pid, f"BShard {D(v['sha'])}"))
    events = r["events"]
    closes = {}
    for e in reversed(events):
        if e["k"] == "close":
            closes.setdefault((e["p"], e["i"]), e)
    effs = []
    struct = []
    for idx, e in enumerate(events):
        p = P(e["p"])
        struct.append((e["k"], p, P(e["src"]) if e["k"] == "rename" else None, kind_of(e["p"])))
        if e["k"] == "create":
            nxt = next((c for c in events[idx + 1:] if c["k"] == "close" and c["p"] == e["p"]), {})
            if kind_of(e["p"]) == "KShard":
                body = f"BShard {D(nxt.get('sha', 'unclosed'))}"
            else:
                dc = doc_of(nxt.get("text", ""), P, D)
                body = "BDoc " + coq_doc(dc if dc is not None else ([], []))
            effs.append(f"Create {p} ({body})")
        elif e["k"] == "write":
            effs.append(f"Write {p}")
        elif e["k"] == "close":
            effs.append(f"Close {p}")
        elif e["k"] == "rename":
            effs.append(f"Rename {P(e['src'])} {p}")
        elif e["k"] == "mkdir":
            effs.append("Mkdir")
        elif e["k"] == "remove":
            effs.append(f"Remove {p}")
    kinds = {"KMeta": [], "KShard": []}
    for rel, pid in P.ids.items():
        k = kind_of(rel)
        if k in kinds:
            kinds[k].append(pid)
    d0 = "fun p => " + " ".join(f"if p =? {pid} then Some {{| closed := true; fbody := {b} |}} else" for pid, b in files) + " None"
    kf = f"fun p => if existsb (Nat.eqb p) {common.clist(kinds['KMeta'])} then KMeta else if existsb (Nat.eqb p) {common.clist(kinds['KShard'])} then KShard else KTmp"
    coq_trace.last_struct = (struct, effs)
    return d0, kf, effs


def pubs_of(struct, effs):
    """Parse the effect trace into publications (new shard file; metadata file replaced through a temporary; mkdir).
    Returns the Coq list of publications, or None when the trace is not such a sequence."""
    pubs, i = [], 0
    while i < len(struct):
        k, p, src, kind = struct[i]
        if k == "mkdir":
            pubs.append("PMkdir")
            i += 1
            continue
        if k != "create":
            return None
        body = effs[i][len(f"Create {p} "):]            # "(BShard h)" / "(BDoc {...})"
        j, writes = i + 1, 0
        while j < len(struct) and struct[j][0] == "write" and struct[j][1] == p:
            writes += 1
            j += 1
        if j >= len(struct) or struct[j][0] != "close" or struct[j][1] != p:
            return None
        j += 1
        if kind == "KTmp":
            if j >= len(struct) or struct[j][0] != "rename" or struct[j][2] != p:
                return None
            q = struct[j][1]
            pubs.append(f"PDoc {p} {q} {body[len('(BDoc '):-1]} {writes}")
            j += 1
        elif kind == "KShard":
            pubs.append(f"PShard {p} {body[len('(BShard '):-1]} {writes}")
        else:
            return None
        i = j
    return pubs


def run(ctx):
    broken = []
    tr = pygen.regenerate(REPO, COQ / "Generated", only=["GenSafeUpdate", "GenMerge", "GenFiller"])
    if tr["GenSafeUpdate"]:
        broken.append(Broken("translator: GenSafeUpdate (safe_update_file / close_shard no longer write-temp, close, then rename)", tr["GenSafeUpdate"]))
    for g in ("GenMerge", "GenFiller"):
        if tr[g]:
            broken.append(Broken(f"translator: {g} (the session model of the publication-order theorem no longer matches the source)", tr[g]))
    proof = None
    if not broken:
        try:
            proof = common.check_property_file(PID)
        except Broken as b:
            broken.append(b)
    jobs = gen_jobs(ctx)
    res = []
    for j in jobs:
        res += common.run_impl("crash_run.py", {"jobs": [j]}, timeout=1800)["jobs"]
    npoints, kinds, nontrivial = 0, {}, set()
    for ji, (job, r) in enumerate(zip(jobs, res)):
        if "build_error" in r:
            ctx.report("harness", r["build_error"], {"job": job}, found_input=False)
            continue
        for p in r["final_problems"]:
            ctx.report("uninterrupted-session-inconsistent", f"{p}", {"job": job})
        for c in r["crashes"]:
            npoints += 1
            kinds[c["event"]["k"]] = kinds.get(c["event"]["k"], 0) + 1
            nontrivial.add((ji, c["point"], c["torn"]))
            for p in c["problems"]:
                sig = ("torn-metadata" if "not a complete valid document" in p else "committed-examples-lost" if "no longer returned" in p or "disappeared" in p else
                       "cannot-reopen" if "reopened" in p else "iteration-raises" if "raises" in p else "checksum-mismatch" if "checksum" in p else "phantom-examples")
                where = f"crash before effect #{c['point']} ({c['event']['k']} {os.path.basename(c['event'].get('p', ''))[:40]}{', torn write' if c['torn'] else ''})"
                ctx.report(f"{sig}", f"{job['session']['kind']} session on {job['format']}: {where}: {p}", {"job": job, "crash_point": c["point"], "torn": c["torn"], "event": c["event"]})
                break
    # tie: the recorded traces satisfy the discipline the theorems are about (evaluated by coqc)
    ndisc, dis, npub, notpub = 0, 0, 0, []
    try:
        rc, log = common.coq_make(["Model/Crash.vo", "Proofs/PublishProofs.vo"])
        if rc:
            raise Broken("Model/Crash.v no longer compiles", log[-2000:])
        body = ["Require Import Sedpack.Model.Base Sedpack.Model.Crash Sedpack.Proofs.PublishProofs.",
                "Fixpoint first_bad (k : path -> kind) (d : disk) (tr : list eff) (i : nat) : nat :=",
                "  match tr with [] => 0 | e :: t => if step_ok k d e then first_bad k (apply_eff d e) t (S i) else S i end."]
        todo = []
        for job, r in zip(jobs, res):
            if "events" not in r:
                continue
            d0, kf, effs = coq_trace(r)
            pubs = pubs_of(*coq_trace.last_struct)
            todo.append((job, r, pubs is not None))
            pl = "[" + "; ".join(pubs) + "]" if pubs is not None else "[]"
            body.append(f"Eval vm_compute in (discipline ({kf}) ({d0}) [{'; '.join(effs)}], first_bad ({kf}) ({d0}) [{'; '.join(effs)}] 0, pubs_ok ({kf}) ({d0}) {pl}, "
                        f"length (flat_map compile {pl})).")
        ans = common.coq_answers(common.coq_eval(PID, "discipline", "\n".join(body) + "\n"))
        for (job, r, parsed), (ok, bad, pok, plen) in zip(todo, ans):
            ndisc += 1
            if parsed and pok and plen == len(r["events"]):
                npub += 1
            elif ok:
                # the trace obeys the discipline but is not a sequence of publications in the sense of the bridge theorem: say so in the evidence
                notpub.append({"session": job["session"]["kind"], "format": job["format"], "parsed": parsed, "pubs_ok": bool(pok)})
            if not ok:
                dis += 1
                ev = r["events"][bad - 1] if 0 < bad <= len(r["events"]) else {}
                broken.append(Broken("the recorded effect trace violates the publication discipline",
                                     json.dumps({"job": job, "first_violating_effect": bad, "event": {k: ev.get(k) for k in ("k", "p", "src")}})))
    except Broken as b:
        broken.append(b)
    if broken and not ctx.violations:
        b = broken[0]
        ctx.report(f"broken:{b.what}", b.what, {"unchecked": b.what, "detail": b.detail[-3000:]}, found_input=False)
    if res and "events" in res[0]:
        ctx.sample({"trace_of_first_job": [[e["k"], os.path.basename(e["p"])[:30]] for e in res[0]["events"][:24]]})
    ctx.sample(jobs[1])
    ctx.coverage.update({
        "obligations": proof["obligations"] if proof else 3, "discharged": proof["discharged"] if proof else 0,
        "theorems": proof["theorems"] if proof else [],
        "checker_cmd": "make -C coq Proofs/CrashProofs.vo && coqc -Q coq Sedpack coq/Properties/C06.v (Print Assumptions under each theorem)",
        "trusted_base": common.TRUSTED_BASE_COMMON + [
            "the theorems are about every trace satisfying `discipline`; that the library's traces satisfy it is checked per recorded trace (the same boolean evaluated by coqc on the effects recorded from the real session), "
            "and the write-temp/close/rename shape of safe_update_file is pinned from the source; it is not proved for all sessions",
            "effects are recorded by wrapping open/os.replace/os.mkdir in the forked writer (Python-level I/O of the fb and npz writers; the TFRecord writer's native I/O is not visible to it)",
            "rename is atomic; a crashed process leaves a prefix of what it wrote (operating system stays up); metadata documents are abstracted to the files they reference"],
        "evaluations": npoints + ndisc, "distinct_nontrivial": len(nontrivial),
        "rule": "sessions (first, continued root, continued known sub-directory, multi-writer; fb and npz) on committed datasets; the forked writer is killed before effect #k for the chosen k "
                "(all renames/closes and the effects after them, plus a sample; every k in the thorough tier) and in the middle of write calls; the real directory is then audited: every metadata file a complete valid document, "
                "reopen + iterate return all committed examples and only written ones, reachable shards match their checksums",
        "crash_points": npoints, "event_kinds": kinds, "traces_checked_against_discipline": ndisc, "discipline_violations": dis,
        "traces_that_are_publication_sequences_with_pubs_ok": npub, "traces_not_publication_sequences": notpub[:5],
        "traces_validated_against_impl": ndisc - dis,
    })
    ctx.assumptions += ["process crash, operating system stays up", "atomic rename"]


def replay(ctx, rp):
    job = rp["replay"].get("job")
    if not job:
        print("no concrete input in this replay file:", rp["replay"].get("unchecked"))
        return False
    r = common.run_impl("crash_run.py", {"jobs": [dict(job, max_points=None)]}, timeout=1800)["jobs"][0]
    bad = [c for c in r.get("crashes", []) if c["problems"]]
    print(json.dumps({"final_problems": r.get("final_problems"), "bad_crash_points": bad[:5]}, indent=1)[:3000])
    return not bad and not r.get("final_problems")
