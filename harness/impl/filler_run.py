"""Run filler sessions on the real library.  stdin: {"cases":[{"eps":n,"ops":[...]}], "format": "fb"}
op = ["W", split, obj|null, ok]  |  ["M", obj, value]
stdout: @@RESULT@@{"results":[{"shards":{split:[[n,[examples],meta],...]}, "raised":[...], "error":..}]}
"""
import json
import shutil
import sys
import tempfile
from pathlib import Path

import numpy as np

sys.path.insert(0, str(Path(__file__).resolve().parent))
from indep import decode_indep  # noqa: E402

from sedpack.io import Dataset, Metadata, DatasetStructure, Attribute
from sedpack.io.flatbuffer import IterateShardFlatBuffer
from sedpack.io.npz import IterateShardNP
from sedpack.io.shard_file_metadata import ShardsList

SPLITS = ["train", "test", "holdout"]


def decode(ds, path):
    ft = ds.dataset_structure.shard_file_type
    if ft == "fb":
        it = IterateShardFlatBuffer(dataset_structure=ds.dataset_structure, process_record=None)
    elif ft == "npz":
        it = IterateShardNP(dataset_structure=ds.dataset_structure, process_record=None)
    else:
        from sedpack.io.tfrec import IterateShardTFRec
        it = IterateShardTFRec(dataset_structure=ds.dataset_structure, process_record=None, num_parallel_calls=1)
    return [int(np.asarray(e["a"]).reshape(-1)[0]) for e in it.iterate_shard(path)]


FALSY = {"zero": 0, "flag": False, "empty": "", "none": None, "list": [], "float": 0.0}


def kval(meta):
    """The metadata value of a shard (flat {"k": v} or nested {"k": {"id": v}})."""
    v = meta.get("k", 0)
    return int(v.get("id", 0)) if isinstance(v, dict) else int(v)


def run_case(case, fmt, tmp, select=False):
    # "fb+nested": the value lives one level down and the caller updates it in place
    fmt, _, flag = fmt.partition("+")
    nested = flag == "nested"
    falsy = flag == "falsy"
    keys = flag == "keys"        # every value comes with a key of its own ({"k": v, "only<v>": True}): different values have different key sets
    reorder = flag == "reorder"  # the metadata has two entries and the caller rebuilds the dict with the keys in the other order between writes (equal value)      # the value is accompanied by entries whose values are falsy (0, False, "", None, []): they are part of the metadata
    root = Path(tmp) / "d"
    if root.exists():
        shutil.rmtree(root)
    ds = Dataset.create(
        path=root, metadata=Metadata(description="c"),
        dataset_structure=DatasetStructure(
            saved_data_description=[Attribute(name="a", dtype="int32", shape=(1,))],
            shard_file_type=fmt, compression="", examples_per_shard=case["eps"],
            hash_checksum_algorithms=("sha256",)))
    objs = {}
    nfail = 0
    raised = []
    error = None
    try:
        with ds.filler() as f:
            for i, op in enumerate(case["ops"]):
                if op[0] == "M":
                    d = objs.setdefault(op[1], {})
                    if nested and op[2] and isinstance(d.get("k"), dict):
                        d["k"]["id"] = op[2]
                    else:
                        d.clear()
                        if op[2]:
                            d["k"] = {"id": op[2]} if nested else op[2]
                            if falsy:
                                d.update(FALSY)
                            if reorder:
                                d["tag"] = "x"
                            if keys:
                                d[f"only{op[2]}"] = True
                    raised.append(False)
                else:
                    _, split, o, ok = op
                    cm = None if o is None else objs.setdefault(o, {})
                    if reorder and cm and i % 2:
                        cm = dict(reversed(list(cm.items())))      # an equal dict whose keys were inserted in the opposite order
                    extra = {}
                    if ok:
                        val = np.array([i], np.int32)
                    elif fmt in ("npz", "tfrec") and (nfail := nfail + 1) % 2:
                        val = np.array([i], np.int32)              # a right value together with an attribute that was never declared: rejected by the writer itself
                        extra = {"zz": np.array([i], np.int32)}
                    elif fmt == "tfrec" and i % 2:
                        val = np.array([i + 0.5], np.float64)      # right shape, wrong dtype kind: rejected inside the writer, after its file was opened
                    else:
                        val = np.array([i, i], np.int32)           # wrong shape: rejected by the common check before the writer is called
                    try:
                        f.write_example(values=dict({"a": val}, **extra), split=SPLITS[split], custom_metadata=cm)
                        raised.append(False)
                    except Exception as ex:  # noqa: BLE001 - the caller of the model catches everything
                        raised.append(type(ex).__name__)
    except Exception as ex:  # noqa: BLE001
        error = f"{type(ex).__name__}: {ex}"[:300]
    shards = {}
    for si, s in enumerate(SPLITS):
        lf = root / s / "shards_list.json"
        if not lf.exists():
            continue
        sl = ShardsList.model_validate_json(lf.read_text())
        out = []
        for sh in sl.shard_files:
            p = root / sh.file_infos[0].file_path
            try:
                ex = decode_indep(ds, p)
            except Exception as e:  # noqa: BLE001
                ex = f"undecodable:{type(e).__name__}"
            k = kval(sh.custom_metadata)
            if reorder and k and dict(sh.custom_metadata) != {"k": k, "tag": "x"}:
                k = -1
            if keys and k and dict(sh.custom_metadata) != {"k": k, f"only{k}": True}:
                k = -1          # the recorded metadata has entries of another value
            if falsy and k and dict(sh.custom_metadata) != dict({"k": k}, **FALSY):
                k = -1          # the recorded metadata is not the value that was written (some entries are missing or changed)
            out.append([sh.number_of_examples, ex, k])
        shards[str(si)] = out
    # what a reopened dataset reports
    try:
        ds2 = Dataset(root)
        listed = {str(si): [s.number_of_examples for s in ds2.shard_info_iterator(SPLITS[si])]
                  for si in range(3) if SPLITS[si] in ds2._dataset_info.splits}
    except Exception as ex:  # noqa: BLE001
        listed = f"{type(ex).__name__}: {ex}"[:200]
    selected = None
    if select and not isinstance(listed, str):
        selected = {}
        for si in range(3):
            if SPLITS[si] not in ds2._dataset_info.splits:
                continue
            vals = sorted({sh[2] for sh in shards.get(str(si), [])})
            for v in vals:
                try:
                    got = [int(np.asarray(e["a"]).reshape(-1)[0]) for e in ds2.as_numpy_iterator(
                        split=SPLITS[si], repeat=False, shuffle=0,
                        shard_filter=lambda s, v=v: kval(s.custom_metadata) == v)]
                except Exception as ex:  # noqa: BLE001
                    got = f"{type(ex).__name__}"
                selected[f"{si}:{v}"] = got
    return {"shards": shards, "raised": raised, "error": error, "listed": listed, "selected": selected}


def main():
    req = json.load(sys.stdin)
    tmp = tempfile.mkdtemp(prefix="verif_filler_")
    try:
        res = [run_case(c, req.get("format", "fb"), tmp, req.get("select", False)) for c in req["cases"]]
    finally:
        shutil.rmtree(tmp, ignore_errors=True)
    print("@@RESULT@@" + json.dumps({"results": res}))


main()
