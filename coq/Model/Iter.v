(** M2/M3: the iteration combinators of itertools.py and dataset_iteration.py as pull machines.
    A source is a state with a [next] function (finite list, or an endless cycle); every machine
    step performs at most one pull from its source and yields at most one element, so read-ahead
    can be stated as an invariant.  The random numbers are an arbitrary function [rs] (theorems
    quantify over it); the concrete generator of the code is [lcg]. *)
Require Import Sedpack.Model.Base Sedpack.Generated.GenIter.
From Coq Require Import NArith.

Section Src.
Variable A : Type.

(** Sources. *)
Record source := { s_state : Type; s_next : s_state -> option (A * s_state) }.
Definition list_source : source := {| s_state := list A; s_next := fun l => match l with [] => None | x :: t => Some (x, t) end |}.
(** [itertools.cycle l] for non-empty [l]: position counter. *)
Definition cycle_source (l : list A) (d : A) : source :=
  {| s_state := nat; s_next := fun i => Some (nth (i mod length l) l d, S i) |}.

Fixpoint replace (l : list A) (i : nat) (x : A) : list A :=
  match l, i with
  | [], _ => []
  | _ :: t, O => x :: t
  | h :: t, S i' => h :: replace t i' x
  end.

(** * shuffle_buffer *)
Inductive sb_phase := SbFill | SbLoop | SbDrain (rest : list A) | SbDone.
Record sb_state (S : Type) := {
  sb_src : S; sb_buf : list A; sb_ph : sb_phase;
  sb_pulled : nat;            (* elements taken from the source *)
  sb_out : list A;            (* yielded, oldest first *)
  sb_j : nat                  (* index of the next random number *)
}.
Arguments sb_src {S}. Arguments sb_buf {S}. Arguments sb_ph {S}. Arguments sb_pulled {S}. Arguments sb_out {S}. Arguments sb_j {S}.

Section SB.
Variable src : source.
Variable pick : nat -> nat -> nat.            (* [pick j len]: the index [r_j % len] chosen at the j-th draw *)
Variable perm : list A -> list A.            (* random.shuffle of the final buffer *)
Variable b : nat.                            (* buffer_size *)

Definition sb_init (s0 : s_state src) : sb_state (s_state src) :=
  {| sb_src := s0; sb_buf := []; sb_ph := SbFill; sb_pulled := 0; sb_out := []; sb_j := 0 |}.

Definition sb_step (st : sb_state (s_state src)) : option (sb_state (s_state src)) :=
  match sb_ph st with
  | SbFill =>
      (* zip(range(buffer_size), iterable): the range is consulted first *)
      if fill_continue (length (sb_buf st)) b then
        match s_next src (sb_src st) with
        | Some (x, s') => Some {| sb_src := s'; sb_buf := sb_buf st ++ [x]; sb_ph := SbFill; sb_pulled := S (sb_pulled st); sb_out := sb_out st; sb_j := sb_j st |}
        | None => Some {| sb_src := sb_src st; sb_buf := sb_buf st; sb_ph := SbLoop; sb_pulled := sb_pulled st; sb_out := sb_out st; sb_j := sb_j st |}
        end
      else Some {| sb_src := sb_src st; sb_buf := sb_buf st; sb_ph := SbLoop; sb_pulled := sb_pulled st; sb_out := sb_out st; sb_j := sb_j st |}
  | SbLoop =>
      match s_next src (sb_src st) with
      | Some (x, s') =>
          let i := pick (sb_j st) (length (sb_buf st)) in
          Some {| sb_src := s'; sb_buf := replace (sb_buf st) i x; sb_ph := SbLoop; sb_pulled := S (sb_pulled st);
                  sb_out := sb_out st ++ [nth i (sb_buf st) x]; sb_j := S (sb_j st) |}
      | None => Some {| sb_src := sb_src st; sb_buf := []; sb_ph := SbDrain (perm (sb_buf st)); sb_pulled := sb_pulled st; sb_out := sb_out st; sb_j := sb_j st |}
      end
  | SbDrain (y :: t) => Some {| sb_src := sb_src st; sb_buf := []; sb_ph := SbDrain t; sb_pulled := sb_pulled st; sb_out := sb_out st ++ [y]; sb_j := sb_j st |}
  | SbDrain [] => Some {| sb_src := sb_src st; sb_buf := []; sb_ph := SbDone; sb_pulled := sb_pulled st; sb_out := sb_out st; sb_j := sb_j st |}
  | SbDone => None
  end.

Fixpoint sb_run (fuel : nat) (st : sb_state (s_state src)) : sb_state (s_state src) :=
  match fuel with O => st | S f => match sb_step st with Some st' => sb_run f st' | None => st end end.
End SB.

(** * round_robin *)
Record rr_state (S : Type) := {
  rr_src : S;                   (* the iterable of iterables *)
  rr_buf : list (list A);       (* the open inner iterators (what each still holds) *)
  rr_filling : bool;
  rr_opened : nat;              (* inner iterables taken from the source *)
  rr_out : list A;
  rr_j : nat;
  rr_done : bool
}.
Arguments rr_src {S}. Arguments rr_buf {S}. Arguments rr_filling {S}. Arguments rr_opened {S}. Arguments rr_out {S}. Arguments rr_j {S}. Arguments rr_done {S}.

End Src.

Arguments replace {A}. Arguments list_source {A}. Arguments cycle_source {A}.
Arguments s_state {A}. Arguments s_next {A}.
Arguments SbFill {A}. Arguments SbLoop {A}. Arguments SbDrain {A}. Arguments SbDone {A}.
Arguments sb_src {A S}. Arguments sb_buf {A S}. Arguments sb_ph {A S}. Arguments sb_pulled {A S}. Arguments sb_out {A S}. Arguments sb_j {A S}.
Arguments sb_init {A}. Arguments sb_step {A}. Arguments sb_run {A}.
Arguments rr_src {A S}. Arguments rr_buf {A S}. Arguments rr_filling {A S}. Arguments rr_opened {A S}. Arguments rr_out {A S}. Arguments rr_j {A S}. Arguments rr_done {A S}.

Section RR.
Variable A : Type.
(** The source yields whole inner iterables (lists). *)
Variable src : @source (list A).
Variable pick : nat -> nat -> nat.
Variable b : nat.

Definition rr_init (s0 : s_state src) : rr_state A (s_state src) :=
  {| rr_src := s0; rr_buf := []; rr_filling := true; rr_opened := 0; rr_out := []; rr_j := 0; rr_done := false |}.

Definition rr_step (st : rr_state A (s_state src)) : option (rr_state A (s_state src)) :=
  if rr_done st then None else
  if rr_filling st then
    if fill_continue (length (rr_buf st)) b then
      match s_next src (rr_src st) with
      | Some (l, s') => Some {| rr_src := s'; rr_buf := rr_buf st ++ [l]; rr_filling := true; rr_opened := S (rr_opened st); rr_out := rr_out st; rr_j := rr_j st; rr_done := false |}
      | None => Some {| rr_src := rr_src st; rr_buf := rr_buf st; rr_filling := false; rr_opened := rr_opened st; rr_out := rr_out st; rr_j := rr_j st; rr_done := false |}
      end
    else Some {| rr_src := rr_src st; rr_buf := rr_buf st; rr_filling := false; rr_opened := rr_opened st; rr_out := rr_out st; rr_j := rr_j st; rr_done := false |}
  else
    match rr_buf st with
    | [] => Some {| rr_src := rr_src st; rr_buf := []; rr_filling := false; rr_opened := rr_opened st; rr_out := rr_out st; rr_j := rr_j st; rr_done := true |}
    | _ =>
        let pos := pick (rr_j st) (length (rr_buf st)) in
        match nth pos (rr_buf st) [] with
        | x :: t => (* next(buffer[pos]) yields *)
            Some {| rr_src := rr_src st; rr_buf := replace (rr_buf st) pos t; rr_filling := false; rr_opened := rr_opened st;
                    rr_out := rr_out st ++ [x]; rr_j := S (rr_j st); rr_done := false |}
        | [] => (* exhausted: refill the slot, or move the last iterator into it *)
            match s_next src (rr_src st) with
            | Some (l, s') => Some {| rr_src := s'; rr_buf := replace (rr_buf st) pos l; rr_filling := false; rr_opened := S (rr_opened st);
                                      rr_out := rr_out st; rr_j := S (rr_j st); rr_done := false |}
            | None => Some {| rr_src := rr_src st; rr_buf := removelast (replace (rr_buf st) pos (last (rr_buf st) []));
                              rr_filling := false; rr_opened := rr_opened st; rr_out := rr_out st; rr_j := S (rr_j st); rr_done := false |}
            end
        end
    end.

Fixpoint rr_run (fuel : nat) (st : rr_state A (s_state src)) : rr_state A (s_state src) :=
  match fuel with O => st | S f => match rr_step st with Some st' => rr_run f st' | None => st end end.
End RR.
Arguments rr_init {A}. Arguments rr_step {A}. Arguments rr_run {A}.

(** * Batches of the unshuffled concurrent reader: [islice(it, T)] repeatedly, each batch mapped in order. *)
Section Batches.
Variable A : Type.
Fixpoint batches (fuel : nat) (T : nat) (l : list A) : list (list A) :=
  match fuel with
  | O => []
  | S f => match l with [] => [] | _ => firstn T l :: batches f T (skipn T l) end
  end.
End Batches.
Arguments batches {A}.

(** The concrete random generator: [r * 1664525 + 1013904223] in [np.uint32]. *)
Definition lcg (r : N) : N := ((r * lcg_a + lcg_c) mod 4294967296)%N.
Fixpoint lcg_seq (r : N) (j : nat) : N := match j with O => r | S j' => lcg_seq (lcg r) j' end.
Definition lcg_pick (seed : N) (j len : nat) : nat := N.to_nat (lcg_seq seed j mod N.of_nat len).
(** Any sequence of random numbers induces a chooser. *)
Definition pick_of (rs : nat -> nat) (j len : nat) : nat := rs j mod len.
