"""C12 — shard selection options mean the same thing in every iteration interface."""
import json

from harness import common, iterlib
from harness.common import Broken, COQ, REPO
from translator import pygen

PID = "C12"
ACCEPTS_LIMIT = {"sync", "concurrent", "tf", "paths"}


def spec_select(shards, filt, k, n):
    """The property text on the reference shard list [(examples, meta)]: indices selected, or None = error."""
    def keep(e, m):
        if filt is None:
            return True
        if isinstance(filt, dict):
            return len(e) >= filt["nex_ge"] if "nex_ge" in filt else len(e) == filt["nex_eq"]
        return m == filt
    idx = [i for i, (e, m) in enumerate(shards) if keep(e, m)]
    if not idx:
        return None
    if k:
        idx = idx[:k]
    if n:
        seen, out = {}, []
        for i in idx:
            m = shards[i][1]
            seen[m] = seen.get(m, 0) + 1
            if seen[m] <= n:
                out.append(i)
        idx = out
    return idx


def jobs_for(ctx, n):
    rng = ctx.rng
    jobs = []
    for _ in range(n):
        spec = iterlib.gen_dataset(rng, min_shards=rng.choice([3, 5, 7]), meta=True, max_sessions=2)
        reqs = []
        for iface in ["paths"] + iterlib.ifaces_for(spec):
            base = {"iface": iface, "split": 0, "shuffle": 0, "repeat": False, "file_parallelism": 2, "shards": None, "filter": None}
            reqs.append(dict(base, shards=2))
            reqs.append(dict(base, filter=rng.choice([1, 2])))
            # a predicate on something other than the metadata: shards of one metadata value may get different verdicts
            reqs.append(dict(base, filter=rng.choice([{"nex_ge": rng.choice([2, 3])}, {"nex_eq": rng.choice([1, 2, 3])}])))
            if iface in ACCEPTS_LIMIT:
                reqs.append(dict(base, limit=1))
            for _k in range(2 if ctx.quick else 6):
                q = {"iface": iface, "split": 0, "shuffle": 0, "repeat": False, "file_parallelism": rng.choice([1, 2, 3]),
                     "shards": rng.choice([None, None, 1, 2, 3, 5, 50]), "filter": rng.choice([None, None, 0, 1, 2, 3, 9])}
                if iface in ACCEPTS_LIMIT:
                    q["limit"] = rng.choice([None, None, 1, 2, 3, 50])
                reqs.append(q)
        reqs.append({"iface": "paths_seq", "split": 0, "shuffle": 0, "repeat": False, "filters": [rng.choice([0, 1, 2, 3, 9, None]) for _ in range(6)]})
        reqs.append({"iface": "paths_seq", "split": 0, "shuffle": 0, "repeat": False, "seq": [
            {"filter": rng.choice([None, None, None, 1, 2, {"nex_ge": 2}, {"nex_eq": 1}]), "shards": rng.choice([None, 1, 2, 3, 50]), "limit": rng.choice([None, None, 1, 2])} for _ in range(6)]})
        for via in ("sync", "concurrent", "tf"):
            reqs.append({"iface": "iface_seq", "via": via, "split": 0, "shuffle": 0, "repeat": False, "seq": [
                {"filter": rng.choice([1, 2, 1, 2, None, {"nex_ge": 2}]), "shards": rng.choice([None, None, 2])} for _ in range(5)]})
        jobs.append({"dataset": spec, "requests": reqs})
    # a TFRecord dataset (as_tfdataset builds its own pipeline for it): a filtered pass followed by an unfiltered one with otherwise equal options
    M = lambda v: ["M", 1, v]  # noqa: E731
    Wm = ["W", 0, 1, True]
    spec = {"format": "tfrec", "compression": "", "eps": 2, "sessions": [{"kind": "filler", "sub": [], "reopen": False,
            "ops": [M(1), Wm, Wm, Wm, M(2), Wm, Wm, M(1), Wm, Wm, Wm]}]}
    seq = [{"filter": 1}, {"filter": None}, {"filter": 2, "shards": 3}, {"filter": None, "shards": 3}, {"filter": {"nex_eq": 1}}, {"filter": None}]
    jobs.append({"dataset": spec, "requests": [{"iface": "iface_seq", "via": via, "split": 0, "shuffle": 0, "repeat": False, "seq": seq} for via in ("tf", "sync")]})
    return jobs


def model_select(cases):
    """cases: [(shards metas, filt, k, n)] -> selected indices or None, evaluated in Coq."""
    body = ["Require Import Sedpack.Model.Base Sedpack.Generated.GenSelect Sedpack.Model.Select.",
            "Definition mk (ms : list nat) : list sinfo := map (fun p => {| s_id := fst p; s_meta := snd p |}) (combine (seq 0 (length ms)) ms).",
            "Definition run (ms : list nat) (f : option nat) (k n : nat) : list nat * bool :=",
            "  match select (option_map (fun v s => s_meta s =? v) f) k n (mk ms) with Some r => (map s_id r, true) | None => ([], false) end."]
    body.append("Eval vm_compute in [" + "; ".join(
        f"run {common.clist(ms)} {common.copt(f)} {k or 0} {n or 0}" for ms, f, k, n in cases) + "].")
    return common.parse_coq_list(common.coq_eval(PID, "select", "\n".join(body) + "\n"))


def run(ctx):
    broken = []
    tr = pygen.regenerate(REPO, COQ / "Generated", only=["GenSelect"])
    if tr["GenSelect"]:
        broken.append(Broken("translator: GenSelect (shard_paths_dataset / the as_* methods no longer have the shape the model assumes)", tr["GenSelect"]))
    proof = None
    if not broken:
        try:
            proof = common.check_property_file(PID)
        except Broken as b:
            broken.append(b)
    jobs = jobs_for(ctx, ctx.scale(8, 80))
    res = iterlib.run_jobs(jobs)
    runs, nontrivial, mcases, mexpect = 0, set(), [], []
    for job, r in zip(jobs, res):
        if "build_error" in r:
            ctx.report("harness", r["build_error"], {"job": job}, found_input=False)
            continue
        shards = r["reference"]["0"]["shards"]
        for q, o in zip(job["requests"], r["results"]):
            if o.get("skipped"):
                continue
            runs += 1
            one = {"dataset": job["dataset"], "requests": [q]}
            if q["iface"] == "iface_seq":
                wants = []
                for x in q["seq"]:
                    w = spec_select(shards, x.get("filter"), x.get("shards"), None)
                    wants.append("error" if w is None else [e for i in w for e in shards[i][0]])
                if o.get("error") or o.get("out") != wants:
                    ctx.report("selection-depends-on-history", f"successive passes through {q['via']} on one handle with options {[(x.get('filter'), x.get('shards')) for x in q['seq']]} on metadata "
                                                               f"{[m for _e, m in shards]}: returned {o.get('out') or o.get('error')} expected {wants}", {"job": one})
                continue
            if q["iface"] == "paths_seq":
                seq = q.get("seq") or [{"filter": fv} for fv in q["filters"]]
                wants = [spec_select(shards, x.get("filter"), x.get("shards"), x.get("limit")) for x in seq]
                wants = ["error" if w is None else w for w in wants]
                if o.get("error") or o.get("out") != wants:
                    ctx.report("selection-depends-on-history", f"successive selections on one handle with options {[(x.get('filter'), x.get('shards'), x.get('limit')) for x in seq]} (predicate value, shards, limit) on metadata {[m for _e, m in shards]}: "
                                                               f"returned {o.get('out') or o.get('error')} expected {wants}", {"job": one})
                continue
            want = spec_select(shards, q.get("filter"), q.get("shards"), q.get("limit"))
            nontrivial.add(json.dumps([job["dataset"]["format"], q["iface"], q.get("shards"), q.get("filter"), q.get("limit"), [m for _e, m in shards]]))
            if o.get("hang"):
                ctx.report("iteration-hangs", f"{q}", {"job": one})
                continue
            if want is None:
                if not o.get("error"):
                    ctx.report("empty-selection-not-an-error", f"{q['iface']} filter={q.get('filter')}: no shard matches but the pass ended normally with {len(o.get('out', []))} examples", {"job": one})
                continue
            if o.get("error"):
                ctx.report("selection-error", f"{q}: {o['error']}", {"job": one})
                continue
            if q["iface"] == "paths":
                if not isinstance(q.get("filter"), dict):
                    mcases.append(([m for _e, m in shards], q.get("filter"), q.get("shards"), q.get("limit")))
                    mexpect.append((o["out"], one))
                got, exp = o["out"], want
            else:
                got, exp = o["out"], [x for i in want for x in shards[i][0]]
            if got != exp:
                opt = "limit" if q.get("limit") and spec_select(shards, q.get("filter"), q.get("shards"), None) and \
                    [x for i in spec_select(shards, q.get("filter"), q.get("shards"), None) for x in shards[i][0]] == got else "selection"
                ctx.report(f"option-not-honoured:{q['iface']}:{opt}",
                           f"{q['iface']} shards={q.get('shards')} filter={q.get('filter')} custom_metadata_type_limit={q.get('limit')} on metadata {[m for _e, m in shards]}: "
                           f"returned {got[:14]} expected {exp[:14]}", {"job": one, "got": got, "expected": exp})
    dis = 0
    if not tr["GenSelect"] and mcases:
        try:
            rc, log = common.coq_make(["Model/Select.vo"])
            if rc:
                raise Broken("Model/Select.v no longer compiles", log[-2000:])
            ms = model_select(mcases)
            for (idx, ok), (got, one), c in zip(ms, mexpect, mcases):
                if not ok or list(idx) != got:
                    dis += 1
                    if dis <= 2:
                        broken.append(Broken("correspondence selection model vs shard_paths_dataset", json.dumps({"case": c, "model": [list(idx), ok], "impl": got})))
        except Broken as b:
            broken.append(b)
    if broken and not ctx.violations:
        b = broken[0]
        ctx.report(f"broken:{b.what}", b.what, {"unchecked": b.what, "detail": b.detail[-3000:]}, found_input=False)
    ctx.sample(jobs[0]["requests"][2])
    ctx.coverage.update({
        "obligations": proof["obligations"] if proof else 6, "discharged": proof["discharged"] if proof else 0,
        "theorems": proof["theorems"] if proof else [],
        "checker_cmd": "make -C coq Proofs/SelectProofs.vo && coqc -Q coq Sedpack coq/Properties/C12.v (Print Assumptions under each theorem)",
        "trusted_base": common.TRUSTED_BASE_COMMON + [
            "custom metadata abstracted to naturals; `tuple(sorted(items()))` as grouping key is injective on the metadata used (oracle)",
            "the forwarding table is read from keyword arguments of the calls (a renamed or positional pass-through fails closed)",
            "that the forwarded option has its effect inside tf.data / Rust is validated on the implementation only"],
        "evaluations": runs, "distinct_nontrivial": len(nontrivial),
        "rule": "datasets with metadata groups (3..12 shards, values 0..2) x {paths, sync, concurrent, async, rust, tf} x shards in {None,1,2,3,5,50} x predicate selecting none/some/all (by metadata value, or by the recorded number of examples so that shards sharing metadata get different verdicts) x "
                "custom_metadata_type_limit in {None,1,2,3,50}, plus sequences of 6 selections (predicate / shards / limit) on ONE handle; expected result = the property text evaluated on the independently decoded shard list",
        "model_cases": len(mcases), "model_vs_impl_disagreements": dis, "traces_validated_against_impl": len(mcases) - dis,
    })


def replay(ctx, rp):
    job = rp["replay"].get("job")
    if not job:
        print("no concrete input in this replay file:", rp["replay"].get("unchecked"))
        return False
    r = iterlib.run_jobs([job])[0]
    q, o = job["requests"][0], r["results"][0]
    shards = r["reference"]["0"]["shards"]
    if q["iface"] == "iface_seq":
        wants = []
        for x in q["seq"]:
            w = spec_select(shards, x.get("filter"), x.get("shards"), None)
            wants.append("error" if w is None else [e for i in w for e in shards[i][0]])
        print(json.dumps({"expected": wants, "result": o})[:1500])
        return o.get("out") == wants
    if q["iface"] == "paths_seq":
        seq = q.get("seq") or [{"filter": fv} for fv in q["filters"]]
        wants = ["error" if w is None else w for w in (spec_select(shards, x.get("filter"), x.get("shards"), x.get("limit")) for x in seq)]
        print(json.dumps({"metadata": [m for _e, m in shards], "expected": wants, "result": o}))
        return o.get("out") == wants
    want = spec_select(shards, q.get("filter"), q.get("shards"), q.get("limit"))
    print(json.dumps({"metadata": [m for _e, m in shards], "selected": want, "result": o})[:2000])
    if want is None:
        return bool(o.get("error"))
    exp = want if q["iface"] == "paths" else [x for i in want for x in shards[i][0]]
    return o.get("out") == exp
