(** C04/C08: total correctness.  Every history whose directories are not deeper than the recursion budget COMPLETES: the merge
    never trips an assertion, never finds its updates inconsistent, and never runs out of fuel. *)
Require Import Sedpack.Model.Base Sedpack.Generated.GenMerge Sedpack.Generated.GenFiller Sedpack.Model.Filler Sedpack.Model.Meta.
Require Import Sedpack.Proofs.MergeBasics Sedpack.Proofs.MergeProofs Sedpack.Proofs.FillerProofs Sedpack.Proofs.HistoryProofs Sedpack.Proofs.ReachProofs.
Local Open Scope Z_scope.

(** every document below [q] lies at depth < B;  every child entry below [q] names a document that exists *)
Definition DB (fs : fsT) (q : dpath) (B : nat) : Prop := forall d s h, prefix q d -> lookup d (lists fs) = Some (s, h) -> (length d < B)%nat.
Definition CE (fs : fsT) (q : dpath) : Prop :=
  forall d s h c, prefix q d -> lookup d (lists fs) = Some (s, h) -> List.In c (sl_children s) -> lookup (li_dir c) (lists fs) <> None.

Lemma lookup_app_some {V} d (nl l : list (dpath * V)) : lookup d l <> None -> lookup d (nl ++ l) <> None.
Proof. induction nl as [|[k v] t IH]; cbn [app lookup]; [auto|]. intros H. destruct (dpath_eqb k d); [discriminate | auto]. Qed.

Lemma merge_lists_grow : forall fuel U c fs fs' li, merge fuel U c fs = Ok (fs', li) -> exists nl, lists fs' = nl ++ lists fs.
Proof.
  induction fuel as [|f IH]; intros U c fs fs' li Hm; [discriminate|].
  rewrite merge_S in Hm. destruct U as [|u0 U']; [discriminate|].
  destruct (negb (forallb _ _)); [discriminate|]. cbv zeta in Hm.
  destruct (negb (Nat.eqb _ _)); [discriminate|]. destruct (merge_asserts_single_update && _)%bool; [discriminate|].
  destruct (fold_left (Fstep f c) _ _) as [[fs3 merged]|e] eqn:Ef; [|discriminate].
  assert (G : forall gs fsa done fsb m, fold_left (Fstep f c) gs (Ok (fsa, done)) = Ok (fsb, m) -> exists nl, lists fsb = nl ++ lists fsa).
  { induction gs as [|g gs IHg]; intros fsa done fsb m E; cbn [fold_left] in E.
    - injection E as <- _. exists []. reflexivity.
    - unfold Fstep at 2 in E. destruct (merge f (snd g) (S c) fsa) as [[fs2 info]|e] eqn:Em; [|rewrite fold_err in E; discriminate].
      destruct (IH _ _ _ _ _ Em) as [n1 E1]. destruct (IHg _ _ _ _ E) as [n2 E2]. exists (n2 ++ n1). rewrite E2, E1, app_assoc. reflexivity. }
  destruct (G _ _ _ _ _ Ef) as [n3 E3]. injection Hm as <- _. cbn [lists]. eexists (_ :: n3). rewrite E3. reflexivity.
Qed.
Lemma merge_keeps_docs fuel U c fs fs' li d : merge fuel U c fs = Ok (fs', li) -> lookup d (lists fs) <> None -> lookup d (lists fs') <> None.
Proof. intros Hm H. destruct (merge_lists_grow _ _ _ _ _ _ Hm) as [nl E]. rewrite E. apply lookup_app_some, H. Qed.

Lemma filter_partition (U : list list_info) c : (forall u, List.In u U -> (c <= length (li_dir u))%nat) ->
  (length (filter (fun u => is_current_level (length (li_dir u)) c) U) + length (filter (fun u => is_deeper_level (length (li_dir u)) c) U))%nat = length U.
Proof.
  induction U as [|u t IH]; intros H; [reflexivity|]. cbn [filter].
  specialize (IH (fun x Hx => H x (or_intror Hx))). pose proof (H u (or_introl eq_refl)) as Hu.
  destruct (is_current_level (length (li_dir u)) c) eqn:E1; destruct (is_deeper_level (length (li_dir u)) c) eqn:E2; cbn [length].
  - apply is_current_spec in E1. apply is_deeper_spec in E2. lia.
  - lia.
  - lia.
  - exfalso. assert (H1 : ~ (length (li_dir u) = c)) by (intros Hq; apply is_current_spec in Hq; congruence).
    assert (H2 : ~ (c < length (li_dir u))%nat) by (intros Hq; apply is_deeper_spec in Hq; congruence). lia.
Qed.

Definition merge_total_at (fuel : nat) : Prop :=
  forall U c fs u0 B, hd_error U = Some u0 ->
    (forall u, List.In u U -> (c <= length (li_dir u))%nat /\ firstn c (li_dir u) = firstn c (li_dir u0)) ->
    WFunder fs (firstn c (li_dir u0)) -> CE fs (firstn c (li_dir u0)) -> DB fs (firstn c (li_dir u0)) B ->
    (forall u, List.In u U -> (length (li_dir u) < B)%nat) -> (B <= c + fuel)%nat ->
    exists fs' li, merge fuel U c fs = Ok (fs', li) /\ DB fs' (firstn c (li_dir u0)) B /\ CE fs' (firstn c (li_dir u0)).

Section Step.
Variable fuel' : nat.
Hypothesis IHt : merge_total_at fuel'.
Hypothesis Hswitch : merge_asserts_single_update = false.

Lemma fold_total p B : forall groups fsa done, let c := length p in
  groups_ok c (fun u => prefix p (li_dir u) /\ (c < length (li_dir u))%nat /\ (length (li_dir u) < B)%nat) groups ->
  (B <= S c + fuel')%nat -> WFunder fsa p -> CE fsa p -> DB fsa p B ->
  (forall x, List.In x done -> lookup (li_dir x) (lists fsa) <> None) ->
  exists fsb m, fold_left (Fstep fuel' c) groups (Ok (fsa, done)) = Ok (fsb, m) /\ WFunder fsb p /\ CE fsb p /\ DB fsb p B /\
    (forall x, List.In x m -> lookup (li_dir x) (lists fsb) <> None) /\ (forall d, lookup d (lists fsa) <> None -> lookup d (lists fsb) <> None).
Proof.
  induction groups as [|[k U] gs IH]; intros fsa done c [Hnd Hall] HB Hwf Hce Hdb Hdone; cbn [fold_left].
  - exists fsa, done. auto 10.
  - inversion Hnd as [|x1 y1 Hni Hnd' Ex1]; clear Ex1. inversion Hall as [|x2 y2 [Hne HU] Hall' Ex2]; clear Ex2. cbn [fst snd] in *.
    destruct U as [|u0 U']; [congruence|].
    assert (Hmem : forall u, List.In u (u0 :: U') -> gkey c u = k /\ prefix p (li_dir u) /\ (c < length (li_dir u))%nat /\ (length (li_dir u) < B)%nat) by (rewrite Forall_forall in HU; exact HU).
    assert (Hp' : forall u, List.In u (u0 :: U') -> firstn (S c) (li_dir u) = p ++ [k]).
    { intros u Hu. destruct (Hmem u Hu) as (Hk & Hp & Hl & _). rewrite firstn_S_nth by exact Hl. unfold gkey in Hk. rewrite Hk. f_equal. exact Hp. }
    pose proof (Hp' u0 (or_introl eq_refl)) as Hp0.
    assert (H1 : forall u, List.In u (u0 :: U') -> (S c <= length (li_dir u))%nat /\ firstn (S c) (li_dir u) = firstn (S c) (li_dir u0)).
    { intros u Hu. destruct (Hmem u Hu) as (_ & _ & Hl & _). split; [lia | rewrite (Hp' u Hu), Hp0; reflexivity]. }
    assert (Wk : WFunder fsa (firstn (S c) (li_dir u0))) by (rewrite Hp0; eapply WFunder_mono; [apply prefix_app | exact Hwf]).
    assert (Ck : CE fsa (firstn (S c) (li_dir u0))) by (rewrite Hp0; intros d s h ch Hd; apply Hce; eapply prefix_trans; [apply prefix_app | exact Hd]).
    assert (Dk : DB fsa (firstn (S c) (li_dir u0)) B) by (rewrite Hp0; intros d s h Hd; apply Hdb; eapply prefix_trans; [apply prefix_app | exact Hd]).
    destruct (IHt (u0 :: U') (S c) fsa u0 B eq_refl H1 Wk Ck Dk (fun u Hu => proj2 (proj2 (proj2 (Hmem u Hu)))) HB) as (fs2 & info & Em & D2 & C2).
    unfold Fstep at 2. cbn [snd]. rewrite Em.
    destruct (merge_spec fuel' (u0 :: U') (S c) fsa fs2 info u0 eq_refl (fun u Hu => proj1 (H1 u Hu)) Wk Em) as (Hd & Hexa & Hsh & Hfoot & Hwf2 & _).
    cbv zeta in *. rewrite Hp0 in *.
    assert (Keep : forall d, lookup d (lists fsa) <> None -> lookup d (lists fs2) <> None) by (intros d; apply (merge_keeps_docs _ _ _ _ _ _ d Em)).
    assert (Under : forall d, {prefix (p ++ [k]) d} + {~ prefix (p ++ [k]) d}).
    { intros d. destruct (dpath_eqb (firstn (length (p ++ [k])) d) (p ++ [k])) eqn:Epk; [left; apply dpath_eqb_eq; exact Epk|].
      right. intros HH. unfold prefix in HH. rewrite HH, dpath_eqb_refl in Epk. discriminate. }
    assert (W2 : WFunder fs2 p).
    { intros d s h Hpd Hlk. destruct (Under d) as [Hu | Hnu]; [apply (Hwf2 d s h Hu Hlk)|].
      rewrite (Hfoot d Hnu) in Hlk. apply (WFdoc_shards fsa fs2); [congruence|]. apply (Hwf d s h Hpd Hlk). }
    assert (C2p : CE fs2 p).
    { intros d s h ch Hpd Hlk Hch. destruct (Under d) as [Hu | Hnu]; [apply (C2 d s h ch Hu Hlk Hch)|].
      rewrite (Hfoot d Hnu) in Hlk. apply Keep. apply (Hce d s h ch Hpd Hlk Hch). }
    assert (D2p : DB fs2 p B).
    { intros d s h Hpd Hlk. destruct (Under d) as [Hu | Hnu]; [apply (D2 d s h Hu Hlk)|]. rewrite (Hfoot d Hnu) in Hlk. apply (Hdb d s h Hpd Hlk). }
    assert (Hinfo : lookup (li_dir info) (lists fs2) <> None).
    { destruct fuel' as [|f]; [discriminate|]. cbn [exact] in Hexa. destruct (lookup (li_dir info) (lists fs2)); [discriminate | discriminate]. }
    assert (Hdone2 : forall x, List.In x (done ++ [info]) -> lookup (li_dir x) (lists fs2) <> None).
    { intros x Hx. apply in_app_or in Hx as [Hx | [<- | []]]; [apply Keep, Hdone, Hx | exact Hinfo]. }
    destruct (IH fs2 (done ++ [info]) (conj Hnd' Hall') HB W2 C2p D2p Hdone2) as (fsb & m & Ef & Wb & Cb & Db & Hm & Kb).
    exists fsb, m. split; [exact Ef|]. split; [exact Wb|]. split; [exact Cb|]. split; [exact Db|]. split; [exact Hm|]. intros d Hd'. apply Kb, Keep, Hd'.
Qed.
End Step.

Theorem merge_total : merge_asserts_single_update = false -> forall fuel, merge_total_at fuel.
Proof.
  intros Hsw. induction fuel as [|fuel' IH]; intros U c fs u0 B Hhd Hpre Hwf Hce Hdb Hlen HB.
  - exfalso. destruct U as [|u U']; [discriminate|]. injection Hhd as ->. specialize (Hlen u0 (or_introl eq_refl)). destruct (Hpre u0 (or_introl eq_refl)) as [Hc _]. lia.
  - rewrite merge_S. destruct U as [|u U']; [discriminate|]. injection Hhd as ->.
    assert (Epre : forallb (fun u => dpath_eqb (firstn c (li_dir u)) (firstn c (li_dir u0))) (u0 :: U') = true).
    { apply forallb_forall. intros u Hu. destruct (Hpre u Hu) as [_ E]. rewrite E. apply dpath_eqb_refl. }
    rewrite Epre. cbn [negb]. cbv zeta. set (p := firstn c (li_dir u0)) in *. set (root := load_or_create fs p) in *.
    rewrite (filter_partition (u0 :: U') c (fun u Hu => proj1 (Hpre u Hu))), Nat.eqb_refl. cbn [negb]. rewrite Hsw. cbn [andb].
    set (deeper := filter (fun u => is_deeper_level (length (li_dir u)) c) (u0 :: U')) in *.
    assert (Hplen : length p = c) by (unfold p; rewrite firstn_length; destruct (Hpre u0 (or_introl eq_refl)) as [Hc _]; lia).
    pose proof (load_or_create_WF fs p Hwf) as (Hr1 & Hr2 & Hr3 & Hr4). fold root in Hr1, Hr2, Hr3, Hr4.
    assert (Hchild : forall ch, List.In ch (sl_children root) -> lookup (li_dir ch) (lists fs) <> None).
    { intros ch Hch. unfold root, load_or_create in Hch. destruct (lookup p (lists fs)) as [[s h]|] eqn:E; [|destruct Hch].
      apply (Hce p s h ch (prefix_refl p) E Hch). }
    assert (Hmem : Forall (fun u => prefix p (li_dir u) /\ (c < length (li_dir u))%nat /\ (length (li_dir u) < B)%nat) (deeper ++ sl_children root)).
    { apply Forall_app. split.
      - apply Forall_forall. intros u Hu. unfold deeper in Hu. apply filter_In in Hu. destruct Hu as (Hin & Hdp).
        apply is_deeper_spec in Hdp. split; [|split; [exact Hdp | apply Hlen, Hin]]. unfold prefix. rewrite Hplen. apply (proj2 (Hpre u Hin)).
      - apply Forall_forall. intros ch Hch. rewrite Forall_forall in Hr4. destruct (Hr4 ch Hch) as [x Hx].
        split; [rewrite Hx; apply prefix_app|]. split; [rewrite Hx, app_length; cbn [length]; lia|].
        destruct (lookup (li_dir ch) (lists fs)) as [[s h]|] eqn:E; [|exfalso; apply (Hchild ch Hch); exact E].
        apply (Hdb (li_dir ch) s h); [rewrite Hx; apply prefix_app | exact E]. }
    pose proof (group_by_ok c _ _ Hmem) as Hgok. rewrite <- Hplen in Hgok.
    assert (HB' : (B <= S (length p) + fuel')%nat) by lia.
    destruct (fold_total fuel' IH p B _ fs [] Hgok HB' Hwf Hce Hdb (fun x (H : List.In x []) => match H with end)) as (fs3 & merged & Ef & W3 & C3 & D3 & Hm3 & K3).
    cbv zeta in Ef. rewrite Hplen in Ef. rewrite Ef.
    set (doc := {| sl_dir := p; sl_nex := fold_left (fun z ch => z + li_nex ch) merged (fold_left (fun z ch => z - li_nex ch) (sl_children root) (sl_nex root)); sl_files := sl_files root; sl_children := merged |}).
    pose proof (write_list_lists fs3 doc) as HL. destruct (write_list fs3 doc) as [fs4 li4] eqn:Ew. cbn [fst sl_dir doc] in HL.
    exists fs4, li4. split; [reflexivity|].
    assert (Keep4 : forall d, lookup d (lists fs3) <> None -> lookup d (lists fs4) <> None).
    { intros d H. rewrite HL. apply (lookup_app_some d [(p, (doc, S (ver fs3)))] (lists fs3) H). }
    split.
    + intros d s h Hpd Hlk. rewrite HL in Hlk. cbn [lookup] in Hlk. destruct (dpath_eqb_spec p d) as [<-|Hne].
      * rewrite Hplen. destruct (Hpre u0 (or_introl eq_refl)) as [Hc _]. specialize (Hlen u0 (or_introl eq_refl)). lia.
      * apply (D3 d s h Hpd Hlk).
    + intros d s h ch Hpd Hlk Hch. rewrite HL in Hlk. cbn [lookup] in Hlk. destruct (dpath_eqb_spec p d) as [<-|Hne].
      * injection Hlk as <- _. cbn [sl_children doc] in Hch. apply Keep4, Hm3, Hch.
      * apply Keep4. apply (C3 d s h ch Hpd Hlk Hch).
Qed.

(** ** sessions *)
Lemma CE_mono fs p q : prefix p q -> CE fs p -> CE fs q.
Proof. intros Hpq H d s h c Hd. apply H. eapply prefix_trans; eauto. Qed.
Lemma DB_mono fs p q B : prefix p q -> DB fs p B -> DB fs q B.
Proof. intros Hpq H d s h Hd. apply H. eapply prefix_trans; eauto. Qed.

Lemma kept_docs fs fs' d : ChildrenKept fs fs' -> lookup d (lists fs) <> None -> lookup d (lists fs') <> None.
Proof. intros K H. destruct (lookup d (lists fs)) as [[s h]|] eqn:E; [|congruence]. destruct (K d s h E) as (s' & h' & E' & _). rewrite E'. discriminate. Qed.

Lemma add_shard_cedb fs d sh h B : WFunder fs [] -> CE fs [] -> DB fs [] B -> (length d < B)%nat -> CE (add_shard fs d sh h) [] /\ DB (add_shard fs d sh h) [] B.
Proof.
  intros Hwf Hce Hdb Hd. pose proof (add_shard_children fs d sh h Hwf) as K. split.
  - intros d' s0 h0 c _ E Hc. destruct (dpath_eqb_spec d' d) as [->|Hne].
    + destruct (lookup d (lists fs)) as [[s1 h1]|] eqn:E1.
      * destruct (K d s1 h1 E1) as (s' & h' & E' & C'). rewrite E in E'. injection E' as <- _. rewrite C' in Hc.
        apply (kept_docs fs _ _ K). apply (Hce d s1 h1 c eq_refl E1 Hc).
      * (* a new document: it has no children *)
        exfalso. revert E. unfold add_shard. cbv zeta. set (fs1 := {| lists := lists fs; shards := _; ver := _; fresh := _; base := _ |}).
        assert (Hl : load_or_create fs1 d = empty_list d) by (unfold load_or_create; cbn [lists fs1]; rewrite E1; reflexivity).
        rewrite write_list_lists. cbn [sl_dir]. rewrite Hl. cbn [sl_dir empty_list]. rewrite lookup_cons_eq. intros [= <- _]. cbn [sl_children empty_list] in Hc. exact Hc.
    + rewrite (add_shard_lists_other fs d sh h Hwf d' Hne) in E. apply (kept_docs fs _ _ K). apply (Hce d' s0 h0 c eq_refl E Hc).
  - intros d' s0 h0 _ E. destruct (dpath_eqb_spec d' d) as [->|Hne]; [exact Hd|].
    rewrite (add_shard_lists_other fs d sh h Hwf d' Hne) in E. apply (Hdb d' s0 h0 eq_refl E).
Qed.

Lemma rewrite_cedb fs dd B : WFunder fs [] -> CE fs [] -> DB fs [] B -> (length dd < B)%nat ->
  CE (fst (write_list fs (load_or_create fs dd))) [] /\ DB (fst (write_list fs (load_or_create fs dd))) [] B.
Proof.
  intros Hwf Hce Hdb Hd. pose proof (rewrite_children fs dd Hwf) as K. split.
  - intros d' s0 h0 c _ E Hc. destruct (dpath_eqb_spec d' dd) as [->|Hne].
    + rewrite write_list_lists, (loc_dir fs dd Hwf), lookup_cons_eq in E. injection E as <- _.
      unfold load_or_create in Hc. destruct (lookup dd (lists fs)) as [[s1 h1]|] eqn:E1; [|destruct Hc].
      apply (kept_docs fs _ _ K). apply (Hce dd s1 h1 c eq_refl E1 Hc).
    + rewrite (rewrite_lists_other fs dd Hwf d' Hne) in E. apply (kept_docs fs _ _ K). apply (Hce d' s0 h0 c eq_refl E Hc).
  - intros d' s0 h0 _ E. destruct (dpath_eqb_spec d' dd) as [->|Hne]; [exact Hd|].
    rewrite (rewrite_lists_other fs dd Hwf d' Hne) in E. apply (Hdb d' s0 h0 eq_refl E).
Qed.

Section ST.
Variable eps : nat.
Hypothesis Heps : (1 <= eps)%nat.
Variable B : nat.
Hypothesis HB : (B <= S FUEL)%nat.
Hypothesis Hsw : merge_asserts_single_update = false.

Lemma filler_cedb fs sub ops : WFunder fs [] -> FreshOK fs -> CE fs [] -> DB fs [] B -> (S (length sub) < B)%nat ->
  CE (fst (filler_session fs sub eps ops)) [] /\ DB (fst (filler_session fs sub eps ops)) [] B.
Proof.
  intros Hwf Hfr Hce Hdb Hd. unfold filler_session. cbv zeta.
  set (st := run_ops eps ops). set (closes := f_closed st ++ exit_closes st).
  assert (Hsz : Forall (fun c => sh_n (snd c) = length (sh_ex (snd c))) closes).
  { pose proof (sizes_ok_lemma eps Heps ops) as H. unfold sizes_ok, session_closed in H. fold st in H. fold closes in H.
    rewrite forallb_forall in H. apply Forall_forall. intros c Hc. specialize (H c Hc). unfold size_ok in H.
    apply andb_true_iff in H as [_ H]. apply Nat.eqb_eq in H. exact H. }
  assert (A : forall cl fsa, Forall (fun c => sh_n (snd c) = length (sh_ex (snd c))) cl -> WFunder fsa [] -> FreshOK fsa -> CE fsa [] -> DB fsa [] B ->
     let fsb := fold_left (fun fs0 c => add_shard fs0 (split_code (fst c) :: sub) (snd c) (f_heap st)) cl fsa in WFunder fsb [] /\ CE fsb [] /\ DB fsb [] B).
  { induction cl as [|c t IH]; intros fsa Hs W F C D; cbn [fold_left]; [auto|].
    inversion Hs as [|x y Hc Ht]; subst.
    destruct (add_shard_cedb fsa (split_code (fst c) :: sub) (snd c) (f_heap st) B W C D) as [C1 D1]; [cbn [length]; lia|].
    apply IH; [exact Ht | apply add_shard_WF; assumption | apply add_shard_fresh; assumption | exact C1 | exact D1]. }
  destruct (A closes fs Hsz Hwf Hfr Hce Hdb) as (W1 & C1 & D1). cbv zeta in *.
  set (fs1 := fold_left (fun fs0 c => add_shard fs0 (split_code (fst c) :: sub) (snd c) (f_heap st)) closes fs) in *.
  assert (Bq : forall tl fsa acc, WFunder fsa [] -> CE fsa [] -> DB fsa [] B ->
     let r := fold_left (fun (a : fsT * list list_info) (c : nat) => let (fs2, li) := write_list (fst a) (load_or_create (fst a) (c :: sub)) in (fs2, snd a ++ [li])) tl (fsa, acc) in
     CE (fst r) [] /\ DB (fst r) [] B).
  { induction tl as [|c t IH]; intros fsa acc W C D; cbn [fold_left fst snd]; [auto|].
    pose proof (rewrite_WF fsa (c :: sub) W) as W2. destruct (rewrite_cedb fsa (c :: sub) B W C D) as [C2 D2]; [cbn [length]; lia|].
    destruct (write_list fsa (load_or_create fsa (c :: sub))) as [fs2 li]. cbn [fst] in *. apply IH; assumption. }
  destruct (Bq (touched closes []) fs1 [] W1 C1 D1) as [C3 D3]. cbv zeta in *.
  destruct (fold_left _ (touched closes []) (fs1, [])) as [fs3 ups]. cbn [fst] in *.
  split; [intros d s0 h0 c Hp E Hc; apply (C3 d s0 h0 c Hp E Hc) | intros d s0 h0 Hp E; apply (D3 d s0 h0 Hp E)].
Qed.

Lemma wc_total : forall gs fs1 i1,
  groups_ok 0 (fun u => (1 <= length (li_dir u))%nat /\ (length (li_dir u) < B)%nat) gs -> WFunder fs1 [] -> CE fs1 [] -> DB fs1 [] B ->
  exists fs' info', fold_left WCstep gs (Ok (fs1, i1)) = Ok (fs', info') /\ CE fs' [] /\ DB fs' [] B.
Proof.
  induction gs as [|[k U] gs IH]; intros fs1 i1 [Hnd Hall] Hwf Hce Hdb; cbn [fold_left].
  - exists fs1, i1. auto.
  - inversion Hnd as [|x1 y1 Hni Hnd' Ex1]; clear Ex1. inversion Hall as [|x2 y2 [Hne HU] Hall' Ex2]; clear Ex2. cbn [fst snd] in *.
    destruct U as [|u0 U']; [congruence|].
    assert (Hmem : forall u, List.In u (u0 :: U') -> gkey 0 u = k /\ (1 <= length (li_dir u))%nat /\ (length (li_dir u) < B)%nat) by (rewrite Forall_forall in HU; exact HU).
    assert (Hp : forall u, List.In u (u0 :: U') -> firstn 1 (li_dir u) = [k]).
    { intros u Hu. destruct (Hmem u Hu) as (Hk & Hl & _). rewrite firstn1_gkey by exact Hl. rewrite Hk. reflexivity. }
    pose proof (Hp u0 (or_introl eq_refl)) as Hp0.
    assert (H1 : forall u, List.In u (u0 :: U') -> (1 <= length (li_dir u))%nat /\ firstn 1 (li_dir u) = firstn 1 (li_dir u0)).
    { intros u Hu. split; [apply (Hmem u Hu) | rewrite (Hp u Hu), Hp0; reflexivity]. }
    assert (Wk : WFunder fs1 (firstn 1 (li_dir u0))) by (eapply WFunder_mono; [|exact Hwf]; reflexivity).
    assert (Ck : CE fs1 (firstn 1 (li_dir u0))) by (eapply CE_mono; [|exact Hce]; reflexivity).
    assert (Dk : DB fs1 (firstn 1 (li_dir u0)) B) by (eapply DB_mono; [|exact Hdb]; reflexivity).
    assert (HBf : (B <= 1 + FUEL)%nat) by lia.
    destruct (merge_total Hsw FUEL (u0 :: U') 1%nat fs1 u0 B eq_refl H1 Wk Ck Dk (fun u Hu => proj2 (proj2 (Hmem u Hu))) HBf) as (fs2 & li & Em & D2 & C2).
    unfold WCstep at 2. cbn [fst snd]. rewrite Em.
    destruct (merge_spec FUEL (u0 :: U') 1%nat fs1 fs2 li u0 eq_refl (fun u Hu => proj1 (H1 u Hu)) Wk Em) as (_ & _ & Hsh & Hfoot & Hwf2 & _).
    cbv zeta in *. rewrite Hp0 in *.
    assert (Keep : forall d, lookup d (lists fs1) <> None -> lookup d (lists fs2) <> None) by (intros d; apply (merge_keeps_docs _ _ _ _ _ _ d Em)).
    assert (Under : forall d, {prefix [k] d} + {~ prefix [k] d}).
    { intros d. destruct (dpath_eqb (firstn 1 d) [k]) eqn:Epk; [left; apply dpath_eqb_eq; exact Epk|].
      right. intros HH. unfold prefix in HH. cbn [length] in HH. rewrite HH, dpath_eqb_refl in Epk. discriminate. }
    assert (W2 : WFunder fs2 []).
    { intros d s h _ Hlk. destruct (Under d) as [Hu | Hnu]; [apply (Hwf2 d s h Hu Hlk)|].
      rewrite (Hfoot d Hnu) in Hlk. apply (WFdoc_shards fs1 fs2); [congruence|]. apply (Hwf d s h eq_refl Hlk). }
    assert (C2p : CE fs2 []).
    { intros d s h ch _ Hlk Hch. destruct (Under d) as [Hu | Hnu]; [apply (C2 d s h ch Hu Hlk Hch)|].
      rewrite (Hfoot d Hnu) in Hlk. apply Keep. apply (Hce d s h ch eq_refl Hlk Hch). }
    assert (D2p : DB fs2 [] B).
    { intros d s h _ Hlk. destruct (Under d) as [Hu | Hnu]; [apply (D2 d s h Hu Hlk)|]. rewrite (Hfoot d Hnu) in Hlk. apply (Hdb d s h eq_refl Hlk). }
    apply (IH fs2 (dset i1 k li) (conj Hnd' Hall') W2 C2p D2p).
Qed.

Definition sdepth (s : session) : Prop := match s with SFiller sub _ => (S (length sub) < B)%nat | SMulti _ => (2 < B)%nat end.

Lemma finish_total fs1 info ups : WFunder fs1 [] -> CE fs1 [] -> DB fs1 [] B ->
  (forall u, List.In u ups -> (1 <= length (li_dir u))%nat /\ (length (li_dir u) < B)%nat) ->
  exists st', match ups with [] => Ok (fs1, info) | _ => write_config fs1 info ups end = Ok st' /\ CE (fst st') [] /\ DB (fst st') [] B.
Proof.
  intros W C D L. destruct ups as [|u0 ups']; [exists (fs1, info); auto|].
  unfold write_config, group_split. fold WCstep.
  destruct (wc_total (group_by 0 (u0 :: ups')) fs1 info) as (fs' & info' & E & C' & D'); [apply group_by_ok; apply Forall_forall; exact L | exact W | exact C | exact D|].
  exists (fs', info'). auto.
Qed.

Lemma run_session_total st s : Inv st -> CE (fst st) [] -> DB (fst st) [] B -> sdepth s ->
  exists st', run_session eps st s = Ok st' /\ CE (fst st') [] /\ DB (fst st') [] B.
Proof.
  intros (Hwf & Hfr & _) Hce Hdb Hsd. destruct st as [fs info]. cbn [fst snd] in *. unfold run_session. destruct s as [sub ops | writers]; cbn [sdepth] in Hsd.
  - destruct (filler_cedb fs sub ops Hwf Hfr Hce Hdb Hsd) as [C1 D1].
    destruct (filler_session_links eps Heps fs sub ops Hwf Hfr) as (W1 & _ & _ & _ & tl & Hd & _). cbv zeta in *.
    destruct (filler_session fs sub eps ops) as [fs1 ups]. cbn [fst snd] in *.
    apply (finish_total fs1 info ups W1 C1 D1). destruct (gkeys_of_dirs sub ups tl Hd) as [_ L].
    intros u Hu. split; [apply L, Hu|]. assert (Hin : List.In (li_dir u) (map li_dir ups)) by (apply in_map; exact Hu). rewrite Hd in Hin.
    apply in_map_iff in Hin as (c & <- & _). cbn [length]. lia.
  - set (fsm := {| lists := lists fs; shards := shards fs; ver := ver fs; fresh := (fresh fs + length writers)%nat; base := base fs |}) in *.
    assert (Wm : WFunder fsm []) by (intros d s0 h0 Hp E; apply (WFdoc_shards fs fsm); [reflexivity | exact (Hwf d s0 h0 Hp E)]).
    assert (Fm : FreshOK fsm) by (intros d n v E; cbn [fresh fsm]; pose proof (Hfr d n v E); lia).
    assert (Cm : CE fsm []) by (intros d s0 h0 c Hp E Hc; apply (Hce d s0 h0 c Hp E Hc)).
    assert (Dm : DB fsm [] B) by (intros d s0 h0 Hp E; apply (Hdb d s0 h0 Hp E)).
    assert (M : forall ws fsa us k, WFunder fsa [] -> FreshOK fsa -> CE fsa [] -> DB fsa [] B ->
      (forall u, List.In u us -> (1 <= length (li_dir u))%nat /\ (length (li_dir u) < B)%nat) ->
      let r := fold_left (fun (acc : fsT * list list_info * nat) (ops : list wop) =>
            let '(fsx, usx, kx) := acc in let (fsy, u) := filler_session fsx [kx] eps ops in (fsy, usx ++ u, S kx)) ws (fsa, us, k) in
      WFunder (fst (fst r)) [] /\ CE (fst (fst r)) [] /\ DB (fst (fst r)) [] B /\ (forall u, List.In u (snd (fst r)) -> (1 <= length (li_dir u))%nat /\ (length (li_dir u) < B)%nat)).
    { induction ws as [|ops t IH]; intros fsa us k W F C D L; cbn [fold_left fst snd]; [auto|].
      destruct (filler_cedb fsa [k] ops W F C D) as [C1 D1]; [cbn [length]; lia|].
      destruct (filler_session_links eps Heps fsa [k] ops W F) as (W1 & F1 & _ & _ & tl & Hd & _). cbv zeta in *.
      destruct (filler_session fsa [k] eps ops) as [fsb u1]. cbn [fst snd] in *.
      apply IH; try assumption. intros u Hu. apply in_app_or in Hu as [Hu | Hu]; [apply L, Hu|].
      destruct (gkeys_of_dirs [k] u1 tl Hd) as [_ L1]. split; [apply L1, Hu|].
      assert (Hin : List.In (li_dir u) (map li_dir u1)) by (apply in_map; exact Hu). rewrite Hd in Hin. apply in_map_iff in Hin as (c & <- & _). cbn [length]. lia. }
    destruct (M writers fsm [] (fresh fs) Wm Fm Cm Dm (fun u (H : List.In u []) => match H with end)) as (W1 & C1 & D1 & L1). cbv zeta in *.
    destruct (fold_left _ writers (fsm, [], fresh fs)) as [[fs1 ups] kk]. cbn [fst snd] in *.
    apply (finish_total fs1 info ups W1 C1 D1 L1).
Qed.

(** every history whose directories are not deeper than the budget completes (and, by [history_exact_all], satisfies the oracle) *)
Theorem history_total h : Forall sdepth h -> exists st, run_history eps h = Ok st.
Proof.
  unfold run_history.
  assert (G : forall h st, Inv st -> CE (fst st) [] -> DB (fst st) [] B -> Forall sdepth h ->
     exists st', fold_left (fun acc s => match acc with Err e => Err e | Ok st0 => run_session eps st0 s end) h (Ok st) = Ok st').
  { induction h0 as [|s t IH]; intros st HI C D Hs; cbn [fold_left]; [exists st; reflexivity|].
    inversion Hs as [|x y Hx Hy]; subst. destruct (run_session_total st s HI C D Hx) as (st1 & E & C1 & D1). rewrite E.
    apply (IH st1 (run_session_inv eps Heps st s st1 HI E) C1 D1 Hy). }
  intros Hs. apply (G h (fs0, []) (HistoryProofs.inv_init) ); [intros d s0 h0 c _ E; discriminate | intros d s0 h0 _ E; discriminate | exact Hs].
Qed.
End ST.

Require Import Sedpack.Proofs.NoDupProofs.
(** the assertion on the number of same-level updates is not in the source (generated switch) *)
Lemma switch_off : merge_asserts_single_update = false.
Proof. reflexivity. Qed.

(** Total correctness of the metadata bookkeeping: every history whose sessions write at most [FUEL - 1] directory levels below
    a split completes, and the result satisfies the whole exactness oracle. *)
Theorem bounded_history_completes_exact eps : (1 <= eps)%nat -> forall h, Forall (sdepth (S FUEL)) h ->
  exists fs info, run_history eps h = Ok (fs, info) /\ exact_all fs info = true.
Proof.
  intros Heps h Hd. destruct (history_total eps Heps (S FUEL) (le_n _) switch_off h Hd) as [[fs info] E].
  exists fs, info. split; [exact E | apply (history_exact_all eps Heps h fs info E)].
Qed.
