(** The output of a complete pass of the two randomised combinators over a finite input. *)
Require Import Sedpack.Model.Base Sedpack.Generated.GenIter Sedpack.Model.Iter.
Definition sb_result {A} (pick : nat -> nat -> nat) (perm : list A -> list A) (b : nat) (l : list A) : list A :=
  sb_out (sb_run list_source pick perm b (2 * length l + 3) (sb_init list_source l)).
Definition rr_result {A} (pick : nat -> nat -> nat) (b : nat) (ls : list (list A)) : list A :=
  rr_out (rr_run list_source pick b (length (concat ls) + 3 * length ls + 2) (rr_init list_source ls)).
