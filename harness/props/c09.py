"""C09 — parallel writers do not interfere."""
import json
import os

from harness import common, history
from harness.common import Broken

PID = "C09"


def gen_jobs(ctx):
    rng = ctx.rng
    W = lambda s=0: ["W", s, None, True]  # noqa: E731
    jobs = [
        # a later writer finishes first (writer 0 is slow); uneven loads; an empty writer; several splits
        {"eps": 2, "format": "fb", "pre": [], "writers": [{"ops": [W()] * 5, "sleep": 1.2}, {"ops": [W(1), W()], "sleep": 0}, {"ops": [], "sleep": 0}, {"ops": [W()] * 3 + [W(2)], "sleep": 0.3}]},
        # more writers than CPUs
        {"eps": 1, "format": "fb", "pre": [{"sub": [], "ops": [W(), W()]}], "writers": [{"ops": [W()], "sleep": 0} for _ in range((os.cpu_count() or 4) + 3)]},
        {"eps": 3, "format": "npz", "pre": [{"sub": [7], "ops": [W()] * 4}], "writers": [{"ops": [W()] * 4, "sleep": 0.2}]},
    ]
    for _ in range(ctx.scale(3, 40)):
        k = rng.choice([1, 2, 3, 4, 5, 8])
        eps = rng.choice([1, 2, 3])
        jobs.append({"eps": eps, "format": rng.choice(["fb", "fb", "npz"]),
                     "pre": [{"sub": rng.choice([[], [1], [1, 2]]), "ops": history.gen_ops(rng, eps, small=True)}] if rng.random() < 0.5 else [],
                     "writers": [{"ops": history.gen_ops(rng, eps, small=rng.random() < 0.7), "sleep": rng.choice([0, 0, 0.1, 0.4, 0.8])} for _ in range(k)]})
    return jobs


def run(ctx):
    broken = []
    proof = None
    try:
        proof = common.check_property_file(PID)
    except Broken as b:
        broken.append(b)
    jobs = gen_jobs(ctx)
    res = []
    for j in jobs:
        res += common.run_impl("mw_run.py", {"jobs": [j]}, timeout=900)["jobs"]
    nontrivial = set()
    for job, r in zip(jobs, res):
        if "build_error" in r:
            ctx.report("harness", r["build_error"], {"job": job}, found_input=False)
            continue
        desc = f"{len(job['writers'])} writers (loads {[len(w['ops']) for w in job['writers']][:20]}, delays {[w['sleep'] for w in job['writers']][:8]})"
        nontrivial.add(json.dumps(job, sort_keys=True))
        if r["err_par"]:
            ctx.report("multiwriter-raises", f"{desc}: write_multiprocessing raised {r['err_par']}", {"job": job})
            continue
        if r["ret_par"] != r["expected_ret"]:
            sig = "results-missing" if len(r["ret_par"] or []) != len(r["expected_ret"]) else "results-out-of-order"
            ctx.report(sig, f"{desc}: returned {str(r['ret_par'])[:200]} expected {str(r['expected_ret'])[:200]}", {"job": job})
        if not r["same"]:
            ctx.report("differs-from-sequential", f"{desc}: the dataset differs from the one-after-another run: {json.dumps(r['par'])[:200]} vs {json.dumps(r['seq'])[:200]}", {"job": job})
        if r["problems"] or r["check"] is not True:
            ctx.report("inexact-after-multiwriter", f"{desc}: {r['problems'][:2]} check={r['check']}", {"job": job})
        if r["clashes"]:
            ctx.report("two-workers-one-file", f"{desc}: two worker processes wrote the same file: {r['clashes'][:2]}", {"job": job})
    if broken and not ctx.violations:
        b = broken[0]
        ctx.report(f"broken:{b.what}", b.what, {"unchecked": b.what, "detail": b.detail[-3000:]}, found_input=False)
    ctx.sample({"writers": [[len(w["ops"]), w["sleep"]] for w in jobs[0]["writers"]]})
    ctx.coverage.update({
        "obligations": proof["obligations"] if proof else 2, "discharged": proof["discharged"] if proof else 0,
        "theorems": proof["theorems"] if proof else [],
        "checker_cmd": "make -C coq Proofs/EffectsProofs.vo && coqc -Q coq Sedpack coq/Properties/C09.v (Print Assumptions under each theorem)",
        "trusted_base": common.TRUSTED_BASE_COMMON + [
            "the theorem is about abstract effect lists; that the real workers' effects are pairwise independent is MEASURED (audit hook in every worker process: files opened for writing / renamed, pairwise disjoint), "
            "and that the parent's merge sees the same inputs is validated by comparing the multi-process dataset with the single-process one",
            "uuid4 directory names distinct; multiprocessing.Pool.imap returns in argument order; workers share nothing but the directory"],
        "evaluations": len(jobs), "distinct_nontrivial": len(nontrivial),
        "rule": "real write_multiprocessing with forked worker processes: 1..19 writers, uneven loads, empty writers, several splits, delays making later writers finish first, more writers than CPUs, "
                "pre-existing content; each compared with single_process=True on the same inputs (whole metadata tree, iteration order, check), return values, per-worker written-file sets",
        "worker_processes_observed": sum(r.get("worker_processes", 0) for r in res),
        "traces_validated_against_impl": len([r for r in res if r.get("same")]),
    })
    ctx.assumptions += ["uuid4 names never repeat", "fork start method"]


def replay(ctx, rp):
    job = rp["replay"].get("job")
    if not job:
        print("no concrete input in this replay file:", rp["replay"].get("unchecked"))
        return False
    r = common.run_impl("mw_run.py", {"jobs": [job]}, timeout=900)["jobs"][0]
    print(json.dumps({k: r.get(k) for k in ("same", "ret_par", "expected_ret", "problems", "check", "clashes", "err_par")})[:2000])
    return r.get("same") and r.get("ret_par") == r.get("expected_ret") and not r.get("problems") and not r.get("clashes") and r.get("check") is True
