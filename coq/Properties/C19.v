(** C19 — Repeating iteration cycles through the whole split forever.
    Property theorems only; each is closed by [exact] of a lemma proved in Proofs/. *)
Require Import Sedpack.Model.Base Sedpack.Generated.GenIter Sedpack.Model.Iter Sedpack.Proofs.IterProofs Sedpack.Proofs.ChainProofs Sedpack.Proofs.CycleChain.
From Coq Require Import Permutation.

(** Unshuffled: the repeating path stream is periodic — its k-th element is the (k mod N)-th
    path of the one-pass list, for every k (hence the example stream is the one-pass sequence
    repeated, because reading a shard is a function of its path). *)
Theorem c19_cycle_periodic :
  forall (A : Type) (l : list A) (d : A) (k i : nat),
    nth_error (take_src A l d (S k + i) 0) k = Some (nth (k mod length l) l d).
Proof. exact cycle_periodic_lemma. Qed.
Print Assumptions c19_cycle_periodic.

(** Shuffled: whatever the buffer size and the random indices, a shuffle buffer fed by the
    endless cycle of a non-empty list only ever yields elements of that list, at every moment. *)
Theorem c19_shuffled_stream_stays_in_split :
  forall (A : Type) (pick : nat -> nat -> nat) (perm : list A -> list A) (b : nat),
    (forall l, Permutation (perm l) l) ->
    forall (l : list A) (d : A), l <> [] -> forall fuel : nat,
      Forall (fun x => List.In x l) (sb_out (sb_run (cycle_source l d) pick perm b fuel (sb_init (cycle_source l d) 0))).
Proof. intros A pick perm b Hp l d Hl fuel. exact (cycle_shuffle_subset_lemma A pick perm b l d Hl fuel). Qed.
Print Assumptions c19_shuffled_stream_stays_in_split.

(** It never ends and never stalls: every step after the fill yields one more element (C14's
    bound says how few elements it holds back). *)
(** The unshuffled repeating synchronous reader as a composition — the lazy chain of shards over [itertools.cycle] of the selected
    paths: for EVERY k (not a prefix of a few epochs) the k-th example handed over is example (k mod N) of a single pass, N being
    the number of examples of the selection (every shard holds at least one example). *)
Theorem c19_sync_reader_periodic :
  forall (path ex : Type) (read : path -> list ex) (l : list path) (dp : path) (de : ex),
  l <> nil -> (forall p, 1 <= length (read p)) ->
  forall (k : nat) (s0 : cstate path ex (cycle_source l dp)), s0 = chain_init path ex (cycle_source l dp) 0 ->
  chain_nth path ex read l dp k s0 = Some (nth (k mod length (concat (map read l))) (concat (map read l)) de).
Proof. exact chain_cycle_periodic. Qed.
Print Assumptions c19_sync_reader_periodic.

Theorem c19_nonvacuous :
  let st := sb_run (cycle_source [1; 2; 3] 0) (lcg_pick 5) (@rev nat) 2 100 (sb_init (cycle_source [1; 2; 3] 0) 0) in
  length (sb_out st) = 97 /\ take_src nat [7; 8; 9] 0 7 0 = [7; 8; 9; 7; 8; 9; 7].
Proof. vm_compute. split; reflexivity. Qed.
Print Assumptions c19_nonvacuous.
