(** C04/C08: the lift of [merge_spec] over whole histories of sessions (root / sub-directory fillers, multi-writer calls):
    after every session that completes, every split's summary is exact for its whole subtree. *)
Require Import Sedpack.Model.Base Sedpack.Generated.GenMerge Sedpack.Generated.GenFiller Sedpack.Model.Filler Sedpack.Model.Meta.
Require Import Sedpack.Proofs.MergeBasics Sedpack.Proofs.MergeProofs Sedpack.Proofs.FillerProofs.
Local Open Scope Z_scope.

(** every stored shard has a name below the fresh-name counter (uuid4 freshness) *)
Definition FreshOK (fs : fsT) : Prop := forall d n v, lookup_shard d n (shards fs) = Some v -> (n < fresh fs)%nat.
(** the summaries of the description are exact, except for the splits in [skip] *)
Definition ExactOn (fs : fsT) (info : dinfo) (skip : nat -> Prop) : Prop :=
  forall s li, dget info s = Some li -> ~ skip s -> li_dir li = [s] /\ exact FUEL fs li = true.

Lemma lookup_shard_cons_eq d n v l : lookup_shard d n (((d, n), v) :: l) = Some v.
Proof. cbn [lookup_shard]. rewrite dpath_eqb_refl, Nat.eqb_refl. reflexivity. Qed.
Lemma lookup_shard_cons_neq d n d' n' v l : (d' <> d \/ n' <> n) -> lookup_shard d n (((d', n'), v) :: l) = lookup_shard d n l.
Proof.
  intros H. cbn [lookup_shard]. destruct (dpath_eqb_spec d' d) as [->|Hd]; cbn [andb]; [|reflexivity].
  destruct (Nat.eqb_spec n' n) as [->|Hn]; [destruct H; congruence | reflexivity].
Qed.

(** [exact] only looks at the lists and shard files below the directory it is asked about *)
Lemma exact_frame f : forall fs1 fs2 li,
  (forall d n, prefix (li_dir li) d -> lookup_shard d n (shards fs1) = lookup_shard d n (shards fs2)) ->
  (forall d, prefix (li_dir li) d -> lookup d (lists fs1) = lookup d (lists fs2)) ->
  exact f fs1 li = exact f fs2 li.
Proof.
  induction f as [|f IH]; intros fs1 fs2 li Hs Hl; cbn [exact]; [reflexivity|].
  rewrite <- (Hl (li_dir li) (prefix_refl _)).
  destruct (lookup (li_dir li) (lists fs1)) as [[s h]|]; [|reflexivity].
  assert (E1 : forallb (shard_exact fs1 (li_dir li)) (sl_files s) = forallb (shard_exact fs2 (li_dir li)) (sl_files s)).
  { apply forallb_ext. intros sh. unfold shard_exact. rewrite (Hs (li_dir li) (sh_name sh) (prefix_refl _)). reflexivity. }
  assert (E2 : forallb (fun c => dpath_eqb (firstn (length (li_dir li)) (li_dir c)) (li_dir li) &&
                                 Nat.eqb (length (li_dir c)) (S (length (li_dir li))) && exact f fs1 c) (sl_children s)
             = forallb (fun c => dpath_eqb (firstn (length (li_dir li)) (li_dir c)) (li_dir li) &&
                                 Nat.eqb (length (li_dir c)) (S (length (li_dir li))) && exact f fs2 c) (sl_children s)).
  { apply forallb_ext. intros c.
    destruct (dpath_eqb (firstn (length (li_dir li)) (li_dir c)) (li_dir li)) eqn:Ep; [|reflexivity].
    cbn [andb]. f_equal. apply dpath_eqb_eq in Ep.
    apply IH; intros d; [intros n|]; intros Hd; [apply Hs | apply Hl]; (eapply prefix_trans; [exact Ep | exact Hd]). }
  rewrite E1, E2. reflexivity.
Qed.

(** a file system [fs2] that agrees with [fs1] on everything below the first component [s] *)
Definition SameBelow (s : nat) (fs1 fs2 : fsT) : Prop :=
  (forall d n, prefix [s] d -> lookup_shard d n (shards fs2) = lookup_shard d n (shards fs1)) /\
  (forall d, prefix [s] d -> lookup d (lists fs2) = lookup d (lists fs1)).
Lemma SameBelow_refl s fs : SameBelow s fs fs.
Proof. split; reflexivity. Qed.
Lemma SameBelow_trans s a b c : SameBelow s a b -> SameBelow s b c -> SameBelow s a c.
Proof. intros [A1 A2] [B1 B2]. split; intros; [rewrite B1, A1 | rewrite B2, A2]; auto. Qed.
Lemma exact_same_below s fs1 fs2 li : li_dir li = [s] -> SameBelow s fs1 fs2 -> exact FUEL fs2 li = exact FUEL fs1 li.
Proof. intros Hd [H1 H2]. apply exact_frame; rewrite Hd; auto. Qed.

Lemma prefix_single s d : prefix [s] d <-> exists t, d = s :: t.
Proof.
  unfold prefix. cbn [length]. split.
  - destruct d as [|x t]; cbn [firstn]; [discriminate|]. intros [= ->]. eexists; reflexivity.
  - intros [t ->]. reflexivity.
Qed.

(** ** [add_shard] *)
Section AddShard.
Variables (fs : fsT) (d : dpath) (sh : Filler.shard) (h : heap).
Hypothesis Hwf : WFunder fs [].
Hypothesis Hfr : FreshOK fs.
Hypothesis Hsz : sh_n sh = length (sh_ex sh).
Let fs' := add_shard fs d sh h.

Lemma add_shard_lists_other d' : d' <> d -> lookup d' (lists fs') = lookup d' (lists fs).
Proof.
  intros Hne. unfold fs', add_shard. cbv zeta. rewrite write_list_lists. cbn [sl_dir].
  set (fs1 := {| lists := lists fs; shards := _; ver := _; fresh := _; base := _ |}).
  assert (Hd : sl_dir (load_or_create fs1 d) = d).
  { unfold load_or_create. cbn [lists fs1]. destruct (lookup d (lists fs)) as [[s hh]|] eqn:E; [|reflexivity].
    apply (Hwf d s hh); [reflexivity | exact E]. }
  rewrite Hd. apply lookup_cons_neq. congruence.
Qed.
Lemma add_shard_shards : shards fs' = ((d, fresh fs), (map (Nat.add (base fs)) (sh_ex sh), S (ver fs))) :: shards fs.
Proof. reflexivity. Qed.
Lemma add_shard_shards_other d' n : d' <> d -> lookup_shard d' n (shards fs') = lookup_shard d' n (shards fs).
Proof. intros Hne. rewrite add_shard_shards. apply lookup_shard_cons_neq. left. congruence. Qed.
Lemma add_shard_shards_old d' n v : lookup_shard d' n (shards fs) = Some v -> lookup_shard d' n (shards fs') = Some v.
Proof.
  intros E. rewrite add_shard_shards, lookup_shard_cons_neq; [exact E|]. right. apply Hfr in E. lia.
Qed.
Lemma add_shard_fresh : FreshOK fs'.
Proof.
  intros d' n v. rewrite add_shard_shards. unfold fs', add_shard. cbn [fresh write_list fst].
  cbn [lookup_shard]. destruct (dpath_eqb d d' && Nat.eqb (fresh fs) n) eqn:E.
  - intros _. apply andb_true_iff in E as [_ E]. apply Nat.eqb_eq in E. lia.
  - intros H. apply Hfr in H. lia.
Qed.

Lemma shard_exact_old d' s0 : shard_exact fs d' s0 = true -> shard_exact fs' d' s0 = true.
Proof.
  unfold shard_exact. intros H. apply andb_true_iff in H as [H1 H2]. rewrite H1. cbn [andb].
  destruct (lookup_shard d' (sh_name s0) (shards fs)) as [[ex hh]|] eqn:E; [|discriminate].
  rewrite (add_shard_shards_old _ _ _ E). exact H2.
Qed.
Lemma WFdoc_old d' s0 : WFdoc fs d' s0 -> WFdoc fs' d' s0.
Proof.
  intros (H1 & H2 & H3 & H4). repeat split; auto.
  rewrite forallb_forall in *. intros x Hx. apply shard_exact_old, H3, Hx.
Qed.

Lemma add_shard_WF : WFunder fs' [].
Proof.
  intros d' s0 h0 _ E.
  destruct (dpath_eqb_spec d' d) as [->|Hne].
  - (* the rewritten document *)
    revert E. unfold fs', add_shard. cbv zeta. rewrite write_list_lists. cbn [sl_dir].
    set (fs1 := {| lists := lists fs; shards := _; ver := _; fresh := _; base := _ |}).
    assert (Hold : WFdoc fs d (load_or_create fs1 d)).
    { unfold load_or_create. cbn [lists fs1]. destruct (lookup d (lists fs)) as [[s hh]|] eqn:E; [apply (Hwf d s hh); [reflexivity | exact E] | apply WFdoc_empty]. }
    destruct Hold as (H1 & H2 & H3 & H4). rewrite H1. rewrite lookup_cons_eq. intros [= <- _].
    repeat split; cbn [sl_dir sl_nex sl_files sl_children]; auto.
    + unfold own. cbn [sl_files]. rewrite sumZ_app. unfold sumZ at 2. cbn [fold_left sh_num]. fold (own (load_or_create fs1 d)). rewrite H2. lia.
    + rewrite forallb_app. apply andb_true_iff. split.
      * rewrite forallb_forall in *. intros x Hx. apply shard_exact_old, H3, Hx.
      * cbn [forallb]. rewrite andb_true_r. unfold shard_exact. cbn [sh_dir sh_name sh_num sh_hash].
        rewrite dpath_eqb_refl. cbn [andb]. rewrite write_list_shards. cbn [shards fs1]. rewrite lookup_shard_cons_eq.
        rewrite map_length, Hsz, !Nat.eqb_refl. reflexivity.
  - rewrite (add_shard_lists_other d' Hne) in E. apply WFdoc_old. apply (Hwf d' s0 h0); [reflexivity | exact E].
Qed.
End AddShard.

(** ** [merge] keeps the fresh-name counter *)
Lemma merge_fresh : forall fuel U c fs fs' li, merge fuel U c fs = Ok (fs', li) -> fresh fs' = fresh fs.
Proof.
  induction fuel as [|f IH]; intros U c fs fs' li Hm; [discriminate|].
  rewrite merge_S in Hm. destruct U as [|u0 U']; [discriminate|].
  destruct (negb (forallb _ _)); [discriminate|]. cbv zeta in Hm.
  destruct (negb (Nat.eqb _ _)); [discriminate|]. destruct (merge_asserts_single_update && _)%bool; [discriminate|].
  destruct (fold_left (Fstep f c) _ _) as [[fs3 merged]|e] eqn:Ef; [|discriminate].
  injection Hm as <- _. cbn [write_list fst fresh].
  assert (G : forall gs fsa done fsb m, fold_left (Fstep f c) gs (Ok (fsa, done)) = Ok (fsb, m) -> fresh fsb = fresh fsa).
  { induction gs as [|g gs IHg]; intros fsa done fsb m E; cbn [fold_left] in E.
    - injection E as <- _. reflexivity.
    - unfold Fstep at 2 in E. destruct (merge f (snd g) (S c) fsa) as [[fs2 info]|e] eqn:Em; [|rewrite fold_err in E; discriminate].
      rewrite (IHg _ _ _ _ E). apply (IH _ _ _ _ _ Em). }
  apply (G _ _ _ _ _ Ef).
Qed.

(** ** rewriting a list file unchanged (what [__exit__] does for every touched list) *)
Section Rewrite.
Variables (fs : fsT) (dd : dpath).
Hypothesis Hwf : WFunder fs [].
Let fs' := fst (write_list fs (load_or_create fs dd)).
Lemma loc_dir : sl_dir (load_or_create fs dd) = dd.
Proof.
  unfold load_or_create. destruct (lookup dd (lists fs)) as [[s hh]|] eqn:E; [|reflexivity].
  apply (Hwf dd s hh); [reflexivity | exact E].
Qed.
Lemma rewrite_lists_other d' : d' <> dd -> lookup d' (lists fs') = lookup d' (lists fs).
Proof. intros Hne. unfold fs'. rewrite write_list_lists, loc_dir. apply lookup_cons_neq. congruence. Qed.
Lemma rewrite_shards : shards fs' = shards fs.
Proof. reflexivity. Qed.
Lemma rewrite_fresh : fresh fs' = fresh fs.
Proof. reflexivity. Qed.
Lemma rewrite_info_dir : li_dir (snd (write_list fs (load_or_create fs dd))) = dd.
Proof. rewrite write_list_info. cbn [li_dir]. apply loc_dir. Qed.
Lemma rewrite_WF : WFunder fs' [].
Proof.
  intros d' s0 h0 _ E. destruct (dpath_eqb_spec d' dd) as [->|Hne].
  - unfold fs' in E. rewrite write_list_lists, loc_dir, lookup_cons_eq in E. injection E as <- _.
    apply (WFdoc_shards fs fs'); [reflexivity|]. apply load_or_create_WF. eapply WFunder_mono; [|exact Hwf]. reflexivity.
  - rewrite (rewrite_lists_other d' Hne) in E. apply (WFdoc_shards fs fs'); [reflexivity|]. apply (Hwf d' s0 h0); [reflexivity | exact E].
Qed.
End Rewrite.

Lemma SameBelow_other_dir s fs1 fs2 dd :
  (forall d', d' <> dd -> lookup d' (lists fs2) = lookup d' (lists fs1)) ->
  (forall d' n, d' <> dd -> lookup_shard d' n (shards fs2) = lookup_shard d' n (shards fs1)) ->
  ~ prefix [s] dd -> SameBelow s fs1 fs2.
Proof. intros H1 H2 Hn. split; intros; [apply H2 | apply H1]; intros ->; contradiction. Qed.

Lemma not_prefix_cons s c sub : s <> c -> ~ prefix [s] (c :: sub).
Proof. intros Hne H. apply prefix_single in H as [t [= -> _]]. congruence. Qed.

(** ** a whole filler session *)
Lemma touched_spec closes : forall acc c, List.In c (touched closes acc) <-> List.In c acc \/ exists x, List.In x closes /\ split_code (fst x) = c.
Proof.
  induction closes as [|[s sh] t IH]; intros acc c; cbn [touched].
  - split; [auto | intros [H | (x & [] & _)]; exact H].
  - rewrite IH. destruct (existsb (Nat.eqb (split_code s)) acc) eqn:E.
    + apply existsb_exists in E as (y & Hy & Ey). apply Nat.eqb_eq in Ey. subst y.
      split; [intros [H | (x & Hx & Hc)]; [left; exact H | right; exists x; split; [right; exact Hx | exact Hc]]|].
      intros [H | (x & [<- | Hx] & Hc)]; [left; exact H | left; cbn [fst] in Hc; subst c; exact Hy | right; exists x; auto].
    + split.
      * intros [H | (x & Hx & Hc)]; [apply in_app_or in H as [H | [<- | []]]; [left; exact H | right; exists (s, sh); split; [left; reflexivity | reflexivity]] | right; exists x; split; [right; exact Hx | exact Hc]].
      * intros [H | (x & [<- | Hx] & Hc)]; [left; apply in_or_app; left; exact H | left; apply in_or_app; right; left; exact Hc | right; exists x; auto].
Qed.

Section Session.
Variable eps : nat.
Hypothesis Heps : (1 <= eps)%nat.

Lemma fold_add_shards sub hp : forall closes fs,
  Forall (fun c => sh_n (snd c) = length (sh_ex (snd c))) closes -> WFunder fs [] -> FreshOK fs ->
  let fs1 := fold_left (fun fs0 c => add_shard fs0 (split_code (fst c) :: sub) (snd c) hp) closes fs in
  WFunder fs1 [] /\ FreshOK fs1 /\ forall s, (forall c, List.In c closes -> split_code (fst c) <> s) -> SameBelow s fs fs1.
Proof.
  induction closes as [|c t IH]; intros fs Hsz Hwf Hfr; cbn [fold_left].
  - split; [exact Hwf|]. split; [exact Hfr|]. intros; apply SameBelow_refl.
  - inversion Hsz as [|x y Hc Ht]; subst.
    assert (W1 : WFunder (add_shard fs (split_code (fst c) :: sub) (snd c) hp) []) by (apply add_shard_WF; assumption).
    assert (F1 : FreshOK (add_shard fs (split_code (fst c) :: sub) (snd c) hp)) by (apply add_shard_fresh; assumption).
    destruct (IH _ Ht W1 F1) as (W & F & S). split; [exact W|]. split; [exact F|].
    intros s Hs. eapply SameBelow_trans; [|apply S; intros c' Hc'; apply Hs; right; exact Hc'].
    apply (SameBelow_other_dir s fs _ (split_code (fst c) :: sub)).
    + intros d' Hd'. apply add_shard_lists_other; assumption.
    + intros d' n Hd'. apply add_shard_shards_other. exact Hd'.
    + apply not_prefix_cons. intros ->. apply (Hs c); [left; reflexivity | reflexivity].
Qed.

Lemma fold_rewrite sub : forall tl fs acc,
  WFunder fs [] -> FreshOK fs ->
  let r := fold_left (fun (a : fsT * list list_info) (c : nat) =>
      let (fs2, li) := write_list (fst a) (load_or_create (fst a) (c :: sub)) in (fs2, snd a ++ [li])) tl (fs, acc) in
  WFunder (fst r) [] /\ FreshOK (fst r) /\ shards (fst r) = shards fs /\ fresh (fst r) = fresh fs /\
  (forall s, ~ List.In s tl -> SameBelow s fs (fst r)) /\
  exists news, snd r = acc ++ news /\ map li_dir news = map (fun c => c :: sub) tl.
Proof.
  induction tl as [|c t IH]; intros fs acc Hwf Hfr; cbn [fold_left].
  - cbn [fst snd]. split; [exact Hwf|]. split; [exact Hfr|]. split; [reflexivity|]. split; [reflexivity|].
    split; [intros; apply SameBelow_refl|]. exists []. rewrite app_nil_r. split; reflexivity.
  - cbn [fst snd]. destruct (write_list fs (load_or_create fs (c :: sub))) as [fs2 li] eqn:Ew.
    assert (E2 : fs2 = fst (write_list fs (load_or_create fs (c :: sub)))) by (rewrite Ew; reflexivity).
    assert (El : li = snd (write_list fs (load_or_create fs (c :: sub)))) by (rewrite Ew; reflexivity).
    pose proof (rewrite_WF fs (c :: sub) Hwf) as W2. rewrite <- E2 in W2.
    assert (F2 : FreshOK fs2) by (subst fs2; exact Hfr).
    destruct (IH fs2 (acc ++ [li]) W2 F2) as (W & F & Hs & Hf & S & news & Hn & Hd).
    split; [exact W|]. split; [exact F|]. split; [rewrite Hs, E2; reflexivity|]. split; [rewrite Hf, E2; reflexivity|]. split.
    + intros s Hs'. eapply SameBelow_trans; [|apply S; intros H; apply Hs'; right; exact H].
      apply (SameBelow_other_dir s fs fs2 (c :: sub)).
      * intros d' Hd'. rewrite E2. apply rewrite_lists_other; assumption.
      * intros d' n _. rewrite E2. reflexivity.
      * apply not_prefix_cons. intros ->. apply Hs'. left. reflexivity.
    + exists (li :: news). rewrite Hn, <- app_assoc. split; [reflexivity|]. cbn [map]. rewrite Hd. f_equal.
      rewrite El. apply rewrite_info_dir. exact Hwf.
Qed.

(** what a filler session leaves: well-formed documents, fresh names, one update per touched split (directory split::sub),
    and nothing changed below any split it did not touch *)
Lemma filler_session_spec fs sub ops : WFunder fs [] -> FreshOK fs ->
  let r := filler_session fs sub eps ops in
  WFunder (fst r) [] /\ FreshOK (fst r) /\
  exists tl, map li_dir (snd r) = map (fun c => c :: sub) tl /\ forall s, ~ List.In s tl -> SameBelow s fs (fst r).
Proof.
  intros Hwf Hfr. unfold filler_session. cbv zeta.
  set (st := run_ops eps ops). set (closes := f_closed st ++ exit_closes st).
  assert (Hsz : Forall (fun c => sh_n (snd c) = length (sh_ex (snd c))) closes).
  { pose proof (sizes_ok_lemma eps Heps ops) as H. unfold sizes_ok, session_closed in H. fold st in H. fold closes in H.
    rewrite forallb_forall in H. apply Forall_forall. intros c Hc. specialize (H c Hc). unfold size_ok in H.
    apply andb_true_iff in H as [_ H]. apply Nat.eqb_eq in H. exact H. }
  destruct (fold_add_shards sub (f_heap st) closes fs Hsz Hwf Hfr) as (W1 & F1 & S1). cbv zeta in *.
  set (fs1 := fold_left (fun fs0 c => add_shard fs0 (split_code (fst c) :: sub) (snd c) (f_heap st)) closes fs) in *.
  destruct (fold_rewrite sub (touched closes []) fs1 [] W1 F1) as (W3 & F3 & Hs3 & Hf3 & S3 & news & Hn & Hd). cbv zeta in *.
  destruct (fold_left _ (touched closes []) (fs1, [])) as [fs3 ups] eqn:Ef. cbn [fst snd] in *.
  split; [intros d s0 h0 Hp E; apply (WFdoc_shards fs3); [reflexivity | exact (W3 d s0 h0 Hp E)]|].
  split; [exact F3|].
  exists (touched closes []). split; [rewrite Hn; exact Hd|].
  intros s Hs. assert (Hcl : forall c, List.In c closes -> split_code (fst c) <> s).
  { intros c Hc Heq. apply Hs. apply touched_spec. right. exists c. split; assumption. }
  destruct (S1 s Hcl) as [A1 A2]. destruct (S3 s Hs) as [B1 B2].
  split; intros; cbn [shards lists]; [rewrite B1, A1 | rewrite B2, A2]; auto.
Qed.
End Session.

(** ** [Dataset.write_config]: one merge per touched split *)
Lemma dget_dset i s v s' : dget (dset i s v) s' = if Nat.eqb s' s then Some v else dget i s'.
Proof.
  induction i as [|[k x] t IH]; cbn [dset dget].
  - destruct (Nat.eqb_spec s' s); reflexivity.
  - destruct (Nat.eqb_spec s k) as [->|Hne]; cbn [dget].
    + destruct (Nat.eqb_spec s' k); reflexivity.
    + rewrite IH. destruct (Nat.eqb_spec s' k) as [->|Hk]; [|reflexivity].
      destruct (Nat.eqb_spec k s); [congruence | reflexivity].
Qed.

Definition WCstep := fun (acc : res (fsT * dinfo)) (g : nat * list list_info) =>
      match acc with
      | Err e => Err e
      | Ok (fs1, i1) =>
          match merge FUEL (snd g) 1%nat fs1 with
          | Err e => Err e
          | Ok (fs2, li) => Ok (fs2, dset i1 (fst g) li)
          end
      end.
Lemma wc_err gs e : fold_left WCstep gs (Err e) = Err e.
Proof. induction gs; cbn; auto. Qed.

Lemma firstn1_gkey u : (1 <= length (li_dir u))%nat -> firstn 1 (li_dir u) = [gkey 0 u].
Proof. unfold gkey. destruct (li_dir u) as [|x t]; cbn; [lia | reflexivity]. Qed.

Lemma wc_fold : forall gs fs1 i1 fs' info',
  groups_ok 0 (fun u => (1 <= length (li_dir u))%nat) gs -> WFunder fs1 [] -> FreshOK fs1 ->
  ExactOn fs1 i1 (fun s => List.In s (map fst gs)) ->
  fold_left WCstep gs (Ok (fs1, i1)) = Ok (fs', info') ->
  WFunder fs' [] /\ FreshOK fs' /\ ExactOn fs' info' (fun _ => False).
Proof.
  induction gs as [|[k U] gs IH]; intros fs1 i1 fs' info' [Hnd Hall] Hwf Hfr Hex Hf; cbn [fold_left] in Hf.
  - injection Hf as <- <-. split; [exact Hwf|]. split; [exact Hfr|]. intros s li Hg _. apply (Hex s li Hg). intros [].
  - unfold WCstep at 2 in Hf. cbn [fst snd] in Hf.
    inversion Hnd as [|x1 y1 Hni Hnd' Ex1]; clear Ex1. inversion Hall as [|x2 y2 [Hne HU] Hall' Ex2]; clear Ex2. cbn [fst snd] in *.
    destruct (merge FUEL U 1%nat fs1) as [[fs2 li]|e] eqn:Em; [|rewrite wc_err in Hf; discriminate].
    destruct U as [|u0 U']; [congruence|].
    assert (Hmem : forall u, List.In u (u0 :: U') -> gkey 0 u = k /\ (1 <= length (li_dir u))%nat) by (rewrite Forall_forall in HU; exact HU).
    destruct (Hmem u0 (or_introl eq_refl)) as [Hk0 Hl0].
    assert (Hp : firstn 1 (li_dir u0) = [k]) by (rewrite firstn1_gkey by exact Hl0; rewrite Hk0; reflexivity).
    assert (Hwf1 : WFunder fs1 (firstn 1 (li_dir u0))) by (eapply WFunder_mono; [|exact Hwf]; reflexivity).
    destruct (merge_spec FUEL (u0 :: U') 1%nat fs1 fs2 li u0 eq_refl (fun u Hu => proj2 (Hmem u Hu)) Hwf1 Em) as (Hd & Hexa & Hsh & Hfoot & Hwf2 & _).
    cbv zeta in *. rewrite Hp in *.
    assert (W2 : WFunder fs2 []).
    { intros d s0 h0 _ E. destruct (dpath_eqb (firstn 1 d) [k]) eqn:Epk.
      - apply dpath_eqb_eq in Epk. apply (Hwf2 d s0 h0 Epk E).
      - assert (Hnp : ~ prefix [k] d) by (intros HH; unfold prefix in HH; cbn [length] in HH; rewrite HH, dpath_eqb_refl in Epk; discriminate).
        rewrite (Hfoot d Hnp) in E. apply (WFdoc_shards fs1 fs2); [congruence|]. apply (Hwf d s0 h0); [reflexivity | exact E]. }
    assert (F2 : FreshOK fs2).
    { intros d n v E. rewrite Hsh in E. rewrite (merge_fresh _ _ _ _ _ _ Em). apply (Hfr d n v E). }
    apply (IH fs2 (dset i1 k li) fs' info' (conj Hnd' Hall') W2 F2); [|exact Hf].
    intros s li' Hg Hskip. rewrite dget_dset in Hg. destruct (Nat.eqb_spec s k) as [->|Hsk].
    + injection Hg as <-. split; [exact Hd | exact Hexa].
    + assert (Hns : ~ List.In s (k :: map fst gs)) by (intros [Hq | Hq]; [congruence | contradiction]).
      destruct (Hex s li' Hg Hns) as [D E]. split; [exact D|].
      rewrite <- E. apply exact_same_below with (s := s); [exact D|].
      split; [intros; rewrite Hsh; reflexivity|]. intros d Hd'. apply Hfoot. intros Hk.
      apply prefix_single in Hd' as [t ->]. apply prefix_single in Hk as [t' [= -> _]]. congruence.
Qed.

Lemma group_by_keys c us : forall x, List.In x (map fst (group_by c us)) <-> List.In x (map (gkey c) us).
Proof.
  unfold group_by. assert (G : forall us g x, List.In x (map fst (fold_left (fun g u => insert_group (nth c (li_dir u) 0%nat) u g) us g)) <-> List.In x (map fst g) \/ List.In x (map (gkey c) us)).
  { induction us0 as [|u t IH]; intros g x; cbn [fold_left map]; [cbn; tauto|].
    rewrite IH, insert_group_keys. unfold gkey. cbn [In]. intuition. }
  intros x. rewrite G. cbn. tauto.
Qed.

Lemma write_config_spec fs info ups fs' info' :
  WFunder fs [] -> FreshOK fs -> (forall u, List.In u ups -> (1 <= length (li_dir u))%nat) ->
  ExactOn fs info (fun s => List.In s (map (gkey 0) ups)) ->
  write_config fs info ups = Ok (fs', info') ->
  WFunder fs' [] /\ FreshOK fs' /\ ExactOn fs' info' (fun _ => False).
Proof.
  intros Hwf Hfr Hlen Hex Hw. unfold write_config, group_split in Hw. fold WCstep in Hw.
  apply (wc_fold (group_by 0 ups) fs info fs' info'); auto.
  - apply group_by_ok. apply Forall_forall. exact Hlen.
  - intros s li Hg Hs. apply (Hex s li Hg). intros H. apply Hs. apply group_by_keys. exact H.
Qed.

(** ** sessions and histories *)
Definition Inv (st : fsT * dinfo) : Prop := WFunder (fst st) [] /\ FreshOK (fst st) /\ ExactOn (fst st) (snd st) (fun _ => False).

Lemma ExactOn_same_below fs fs1 info (tl : list nat) :
  ExactOn fs info (fun _ => False) -> (forall s, ~ List.In s tl -> SameBelow s fs fs1) -> ExactOn fs1 info (fun s => List.In s tl).
Proof.
  intros Hex Hs s li Hg Hn. destruct (Hex s li Hg (fun f => f)) as [D E]. split; [exact D|].
  rewrite <- E. apply exact_same_below with (s := s); [exact D | apply Hs, Hn].
Qed.

Lemma gkeys_of_dirs sub (ups : list list_info) tl : map li_dir ups = map (fun c => c :: sub) tl -> map (gkey 0) ups = tl /\ forall u, List.In u ups -> (1 <= length (li_dir u))%nat.
Proof.
  revert tl; induction ups as [|u t IH]; intros [|c tl] H; cbn [map] in H; try discriminate; [split; [reflexivity | intros u []]|].
  injection H as Hu Ht. destruct (IH tl Ht) as [K L]. split.
  - cbn [map]. rewrite K. unfold gkey. rewrite Hu. reflexivity.
  - intros u' [<- | Hu']; [rewrite Hu; cbn; lia | apply L, Hu'].
Qed.

Section Hist.
Variable eps : nat.
Hypothesis Heps : (1 <= eps)%nat.

Lemma finish_session fs info fs1 ups tl st' :
  Inv (fs, info) -> WFunder fs1 [] -> FreshOK fs1 ->
  map (gkey 0) ups = tl -> (forall u, List.In u ups -> (1 <= length (li_dir u))%nat) ->
  (forall s, ~ List.In s tl -> SameBelow s fs fs1) ->
  match ups with [] => Ok (fs1, info) | _ => write_config fs1 info ups end = Ok st' -> Inv st'.
Proof.
  intros (_ & _ & Hex) W1 F1 Hk Hl Hs Hr. cbn [fst snd] in *.
  pose proof (ExactOn_same_below fs fs1 info tl Hex Hs) as E1.
  destruct ups as [|u0 ups'].
  - injection Hr as <-. cbn [map] in Hk. subst tl. split; [exact W1|]. split; [exact F1|]. cbn [fst snd].
    intros s li Hg _. apply (E1 s li Hg). intros [].
  - destruct st' as [fs' info']. rewrite <- Hk in E1.
    exact (write_config_spec fs1 info (u0 :: ups') fs' info' W1 F1 Hl E1 Hr).
Qed.

Lemma multi_fold : forall writers fs0 us k,
  WFunder fs0 [] -> FreshOK fs0 -> (forall u, List.In u us -> (1 <= length (li_dir u))%nat) ->
  let r := fold_left (fun (acc : fsT * list list_info * nat) (ops : list wop) =>
            let '(fsa, usa, ka) := acc in
            let (fs', u) := filler_session fsa [ka] eps ops in (fs', usa ++ u, S ka)) writers (fs0, us, k) in
  WFunder (fst (fst r)) [] /\ FreshOK (fst (fst r)) /\ (forall u, List.In u (snd (fst r)) -> (1 <= length (li_dir u))%nat) /\
  exists news, snd (fst r) = us ++ news /\ forall s, ~ List.In s (map (gkey 0) news) -> SameBelow s fs0 (fst (fst r)).
Proof.
  induction writers as [|ops t IH]; intros fs0 us k Hwf Hfr Hl; cbn [fold_left].
  - cbn [fst snd]. split; [exact Hwf|]. split; [exact Hfr|]. split; [exact Hl|]. exists []. rewrite app_nil_r. split; [reflexivity|]. intros; apply SameBelow_refl.
  - destruct (filler_session_spec eps Heps fs0 [k] ops Hwf Hfr) as (W1 & F1 & tl & Hd & S1). cbv zeta in *.
    destruct (filler_session fs0 [k] eps ops) as [fs1 u1]. cbn [fst snd] in *.
    destruct (gkeys_of_dirs [k] u1 tl Hd) as [K L].
    assert (Hl1 : forall u, List.In u (us ++ u1) -> (1 <= length (li_dir u))%nat) by (intros u Hu; apply in_app_or in Hu as [Hu | Hu]; [apply Hl, Hu | apply L, Hu]).
    destruct (IH fs1 (us ++ u1) (S k) W1 F1 Hl1) as (W & F & Ll & news & Hn & S2). cbv zeta in *.
    split; [exact W|]. split; [exact F|]. split; [exact Ll|].
    exists (u1 ++ news). rewrite Hn, <- app_assoc. split; [reflexivity|].
    intros s Hs. rewrite map_app in Hs. eapply SameBelow_trans.
    + apply S1. rewrite <- K. intros H. apply Hs. apply in_or_app. left. exact H.
    + apply S2. intros H. apply Hs. apply in_or_app. right. exact H.
Qed.

Lemma run_session_inv st s st' : Inv st -> run_session eps st s = Ok st' -> Inv st'.
Proof.
  intros HI Hr. destruct st as [fs info]. pose proof HI as (Hwf & Hfr & Hex). cbn [fst snd] in *. unfold run_session in Hr. destruct s as [sub ops | writers].
  - destruct (filler_session_spec eps Heps fs sub ops Hwf Hfr) as (W1 & F1 & tl & Hd & S1). cbv zeta in *.
    destruct (filler_session fs sub eps ops) as [fs1 ups]. cbn [fst snd] in *.
    destruct (gkeys_of_dirs sub ups tl Hd) as [K L].
    exact (finish_session fs info fs1 ups tl st' HI W1 F1 K L S1 Hr).
  - set (fsm := {| lists := lists fs; shards := shards fs; ver := ver fs; fresh := (fresh fs + length writers)%nat; base := base fs |}) in *.
    assert (Wm : WFunder fsm []) by (intros d s0 h0 Hp E; apply (WFdoc_shards fs fsm); [reflexivity | exact (Hwf d s0 h0 Hp E)]).
    assert (Fm : FreshOK fsm) by (intros d n v E; cbn [fresh fsm]; pose proof (Hfr d n v E); lia).
    destruct (multi_fold writers fsm [] (fresh fs) Wm Fm (fun u (H : List.In u []) => match H with end)) as (W & F & Ll & news & Hn & S2). cbv zeta in *.
    destruct (fold_left _ writers (fsm, [], fresh fs)) as [[fs1 ups] kk]. cbn [fst snd app] in *. subst ups.
    apply (finish_session fs info fs1 news (map (gkey 0) news) st' HI W F eq_refl Ll); [|exact Hr].
    intros s Hs. destruct (S2 s Hs) as [A1 A2]. split; intros; [rewrite A1 | rewrite A2]; auto.
Qed.

Lemma inv_init : Inv (fs0, []).
Proof.
  split; [|split].
  - intros d s h _ E. discriminate.
  - intros d n v E. discriminate.
  - intros s li E. discriminate.
Qed.

(** after every history of sessions that completes, every split of the description is exact for its whole subtree *)
Theorem history_exact : forall h fs info, run_history eps h = Ok (fs, info) ->
  forall s li, dget info s = Some li -> li_dir li = [s] /\ exact FUEL fs li = true.
Proof.
  assert (G : forall h st st', Inv st -> fold_left (fun acc s => match acc with Err e => Err e | Ok st0 => run_session eps st0 s end) h (Ok st) = Ok st' -> Inv st').
  { induction h as [|s t IH]; intros st st' HI Hf; cbn [fold_left] in Hf.
    - injection Hf as <-. exact HI.
    - destruct (run_session eps st s) as [st1|e] eqn:Er.
      + apply (IH st1 st'); [apply (run_session_inv st s st1 HI Er) | exact Hf].
      + exfalso. clear -Hf. induction t as [|x t IHt]; cbn [fold_left] in Hf; [discriminate | auto]. }
  intros h fs info Hr s li Hg. destruct (G h (fs0, []) (fs, info) inv_init Hr) as (_ & _ & Hex).
  apply (Hex s li Hg). intros [].
Qed.
End Hist.

(** ** C08: sessions only append *)
Definition Extends (fs fs' : fsT) : Prop :=
  (forall d, exists ext, sl_files (load_or_create fs' d) = sl_files (load_or_create fs d) ++ ext) /\
  (forall d n v, lookup_shard d n (shards fs) = Some v -> lookup_shard d n (shards fs') = Some v).
Lemma Extends_refl fs : Extends fs fs.
Proof. split; [intros d; exists []; rewrite app_nil_r; reflexivity | auto]. Qed.
Lemma Extends_trans a b c : Extends a b -> Extends b c -> Extends a c.
Proof.
  intros [A1 A2] [B1 B2]. split; [|auto]. intros d. destruct (A1 d) as [e1 E1]. destruct (B1 d) as [e2 E2].
  exists (e1 ++ e2). rewrite E2, E1, app_assoc. reflexivity.
Qed.
Lemma Extends_same fs fs' : lists fs' = lists fs -> shards fs' = shards fs -> Extends fs fs'.
Proof. intros Hl Hs. split; [intros d; exists []; unfold load_or_create; rewrite Hl, app_nil_r; reflexivity | intros d n v; rewrite Hs; auto]. Qed.
Lemma loc_of_lookup fs fs' d : lookup d (lists fs') = lookup d (lists fs) -> load_or_create fs' d = load_or_create fs d.
Proof. unfold load_or_create. intros ->. reflexivity. Qed.

Lemma add_shard_extends fs d sh h : WFunder fs [] -> FreshOK fs -> Extends fs (add_shard fs d sh h).
Proof.
  intros Hwf Hfr. split; [|intros d' n v E; rewrite add_shard_shards, lookup_shard_cons_neq; [exact E | right; apply Hfr in E; lia]].
  intros d'. destruct (dpath_eqb_spec d' d) as [->|Hne].
  - unfold add_shard. cbv zeta. set (fs1 := {| lists := lists fs; shards := _; ver := _; fresh := _; base := _ |}).
    assert (Hd : sl_dir (load_or_create fs1 d) = d).
    { unfold load_or_create. cbn [lists fs1]. destruct (lookup d (lists fs)) as [[s hh]|] eqn:E; [|reflexivity]. apply (Hwf d s hh); [reflexivity | exact E]. }
    eexists. unfold load_or_create at 1. rewrite write_list_lists. cbn [sl_dir]. rewrite Hd, lookup_cons_eq. cbn [sl_files].
    replace (load_or_create fs1 d) with (load_or_create fs d) by reflexivity. reflexivity.
  - exists []. rewrite app_nil_r. f_equal. apply loc_of_lookup. apply add_shard_lists_other; assumption.
Qed.

Lemma rewrite_extends fs dd : WFunder fs [] -> Extends fs (fst (write_list fs (load_or_create fs dd))).
Proof.
  intros Hwf. split; [|auto]. intros d'. exists []. rewrite app_nil_r. destruct (dpath_eqb_spec d' dd) as [->|Hne].
  - unfold load_or_create at 1. rewrite write_list_lists, (loc_dir fs dd Hwf), lookup_cons_eq. reflexivity.
  - f_equal. apply loc_of_lookup. apply rewrite_lists_other; assumption.
Qed.

Section SessionExt.
Variable eps : nat.
Hypothesis Heps : (1 <= eps)%nat.

Lemma filler_session_extends fs sub ops : WFunder fs [] -> FreshOK fs -> Extends fs (fst (filler_session fs sub eps ops)).
Proof.
  intros Hwf Hfr. unfold filler_session. cbv zeta.
  set (st := run_ops eps ops). set (closes := f_closed st ++ exit_closes st).
  assert (Hsz : Forall (fun c => sh_n (snd c) = length (sh_ex (snd c))) closes).
  { pose proof (sizes_ok_lemma eps Heps ops) as H. unfold sizes_ok, session_closed in H. fold st in H. fold closes in H.
    rewrite forallb_forall in H. apply Forall_forall. intros c Hc. specialize (H c Hc). unfold size_ok in H.
    apply andb_true_iff in H as [_ H]. apply Nat.eqb_eq in H. exact H. }
  assert (A : forall cl fsa, Forall (fun c => sh_n (snd c) = length (sh_ex (snd c))) cl -> WFunder fsa [] -> FreshOK fsa ->
     let fsb := fold_left (fun fs0 c => add_shard fs0 (split_code (fst c) :: sub) (snd c) (f_heap st)) cl fsa in
     Extends fsa fsb /\ WFunder fsb [] /\ FreshOK fsb).
  { induction cl as [|c t IH]; intros fsa Hs W F; cbn [fold_left]; [split; [apply Extends_refl | split; assumption]|].
    inversion Hs as [|x y Hc Ht]; subst.
    assert (W1 : WFunder (add_shard fsa (split_code (fst c) :: sub) (snd c) (f_heap st)) []) by (apply add_shard_WF; assumption).
    assert (F1 : FreshOK (add_shard fsa (split_code (fst c) :: sub) (snd c) (f_heap st))) by (apply add_shard_fresh; assumption).
    destruct (IH _ Ht W1 F1) as (E & W2 & F2). split; [|split; assumption].
    eapply Extends_trans; [apply add_shard_extends; assumption | exact E]. }
  destruct (A closes fs Hsz Hwf Hfr) as (E1 & W1 & F1). cbv zeta in *.
  set (fs1 := fold_left (fun fs0 c => add_shard fs0 (split_code (fst c) :: sub) (snd c) (f_heap st)) closes fs) in *.
  assert (B : forall tl fsa acc, WFunder fsa [] ->
     Extends fsa (fst (fold_left (fun (a : fsT * list list_info) (c : nat) =>
        let (fs2, li) := write_list (fst a) (load_or_create (fst a) (c :: sub)) in (fs2, snd a ++ [li])) tl (fsa, acc)))).
  { induction tl as [|c t IH]; intros fsa acc W; cbn [fold_left fst snd]; [apply Extends_refl|].
    destruct (write_list fsa (load_or_create fsa (c :: sub))) as [fs2 li] eqn:Ew.
    assert (E2 : fs2 = fst (write_list fsa (load_or_create fsa (c :: sub)))) by (rewrite Ew; reflexivity).
    pose proof (rewrite_extends fsa (c :: sub) W) as Ex. pose proof (rewrite_WF fsa (c :: sub) W) as W2. rewrite <- E2 in Ex, W2.
    eapply Extends_trans; [exact Ex|]. apply IH. exact W2. }
  specialize (B (touched closes []) fs1 [] W1).
  destruct (fold_left _ (touched closes []) (fs1, [])) as [fs3 ups]. cbn [fst] in *.
  eapply Extends_trans; [exact E1|]. eapply Extends_trans; [exact B|]. apply Extends_same; reflexivity.
Qed.

Lemma wc_fold_extends : forall gs fs1 i1 fs' info',
  groups_ok 0 (fun u => (1 <= length (li_dir u))%nat) gs -> WFunder fs1 [] ->
  fold_left WCstep gs (Ok (fs1, i1)) = Ok (fs', info') -> Extends fs1 fs'.
Proof.
  induction gs as [|[k U] gs IH]; intros fs1 i1 fs' info' [Hnd Hall] Hwf Hf; cbn [fold_left] in Hf.
  - injection Hf as <- _. apply Extends_refl.
  - unfold WCstep at 2 in Hf. cbn [fst snd] in Hf.
    inversion Hnd as [|x1 y1 Hni Hnd' Ex1]; clear Ex1. inversion Hall as [|x2 y2 [Hne HU] Hall' Ex2]; clear Ex2. cbn [fst snd] in *.
    destruct (merge FUEL U 1%nat fs1) as [[fs2 li]|e] eqn:Em; [|rewrite wc_err in Hf; discriminate].
    destruct U as [|u0 U']; [congruence|].
    assert (Hmem : forall u, List.In u (u0 :: U') -> gkey 0 u = k /\ (1 <= length (li_dir u))%nat) by (rewrite Forall_forall in HU; exact HU).
    destruct (Hmem u0 (or_introl eq_refl)) as [Hk0 Hl0].
    assert (Hp : firstn 1 (li_dir u0) = [k]) by (rewrite firstn1_gkey by exact Hl0; rewrite Hk0; reflexivity).
    assert (Hwf1 : WFunder fs1 (firstn 1 (li_dir u0))) by (eapply WFunder_mono; [|exact Hwf]; reflexivity).
    destruct (merge_spec FUEL (u0 :: U') 1%nat fs1 fs2 li u0 eq_refl (fun u Hu => proj2 (Hmem u Hu)) Hwf1 Em) as (Hd & Hexa & Hsh & Hfoot & Hwf2 & Hfiles).
    cbv zeta in *. rewrite Hp in *.
    assert (W2 : WFunder fs2 []).
    { intros d s0 h0 _ E. destruct (dpath_eqb (firstn 1 d) [k]) eqn:Epk.
      - apply dpath_eqb_eq in Epk. apply (Hwf2 d s0 h0 Epk E).
      - assert (Hnp : ~ prefix [k] d) by (intros HH; unfold prefix in HH; cbn [length] in HH; rewrite HH, dpath_eqb_refl in Epk; discriminate).
        rewrite (Hfoot d Hnp) in E. apply (WFdoc_shards fs1 fs2); [congruence|]. apply (Hwf d s0 h0); [reflexivity | exact E]. }
    eapply Extends_trans; [|apply (IH fs2 (dset i1 k li) fs' info' (conj Hnd' Hall') W2 Hf)].
    split; [intros d; exists []; rewrite app_nil_r; apply Hfiles | intros d n v; rewrite Hsh; auto].
Qed.

(** every completed session keeps every stored shard file and every shard entry of every list, in place and in order *)
Theorem session_appends_only st s st' : Inv st -> run_session eps st s = Ok st' -> Extends (fst st) (fst st').
Proof.
  intros HI Hr. destruct st as [fs info]. pose proof HI as (Hwf & Hfr & Hex). cbn [fst snd] in *. unfold run_session in Hr.
  assert (Fin : forall fs1 ups, WFunder fs1 [] -> (forall u, List.In u ups -> (1 <= length (li_dir u))%nat) ->
     match ups with [] => Ok (fs1, info) | _ => write_config fs1 info ups end = Ok st' -> Extends fs1 (fst st')).
  { intros fs1 ups W1 L Hq. destruct ups as [|u0 ups']; [injection Hq as <-; apply Extends_refl|].
    destruct st' as [fs' info']. unfold write_config, group_split in Hq. fold WCstep in Hq.
    apply (wc_fold_extends (group_by 0 (u0 :: ups')) fs1 info fs' info'); [apply group_by_ok; apply Forall_forall; exact L | exact W1 | exact Hq]. }
  destruct s as [sub ops | writers].
  - pose proof (filler_session_extends fs sub ops Hwf Hfr) as E1.
    destruct (filler_session_spec eps Heps fs sub ops Hwf Hfr) as (W1 & F1 & tl & Hd & S1). cbv zeta in *.
    destruct (filler_session fs sub eps ops) as [fs1 ups]. cbn [fst snd] in *.
    destruct (gkeys_of_dirs sub ups tl Hd) as [K L].
    eapply Extends_trans; [exact E1 | apply (Fin fs1 ups W1 L Hr)].
  - set (fsm := {| lists := lists fs; shards := shards fs; ver := ver fs; fresh := (fresh fs + length writers)%nat; base := base fs |}) in *.
    assert (Wm : WFunder fsm []) by (intros d s0 h0 Hp E; apply (WFdoc_shards fs fsm); [reflexivity | exact (Hwf d s0 h0 Hp E)]).
    assert (Fm : FreshOK fsm) by (intros d n v E; cbn [fresh fsm]; pose proof (Hfr d n v E); lia).
    assert (M : forall writers fsa us k, WFunder fsa [] -> FreshOK fsa ->
      Extends fsa (fst (fst (fold_left (fun (acc : fsT * list list_info * nat) (ops : list wop) =>
            let '(fsx, usx, kx) := acc in let (fsy, u) := filler_session fsx [kx] eps ops in (fsy, usx ++ u, S kx)) writers (fsa, us, k))))).
    { induction writers0 as [|ops t IH]; intros fsa us k W F; cbn [fold_left fst]; [apply Extends_refl|].
      pose proof (filler_session_extends fsa [k] ops W F) as E1.
      destruct (filler_session_spec eps Heps fsa [k] ops W F) as (W1 & F1 & _). cbv zeta in *.
      destruct (filler_session fsa [k] eps ops) as [fsb u1]. cbn [fst] in *.
      eapply Extends_trans; [exact E1 | apply IH; assumption]. }
    specialize (M writers fsm [] (fresh fs) Wm Fm).
    destruct (multi_fold eps Heps writers fsm [] (fresh fs) Wm Fm (fun u (H : List.In u []) => match H with end)) as (W & F & Ll & _). cbv zeta in *.
    destruct (fold_left _ writers (fsm, [], fresh fs)) as [[fs1 ups] kk]. cbn [fst snd] in *.
    eapply Extends_trans; [apply (Extends_same fs fsm); reflexivity|]. eapply Extends_trans; [exact M|]. apply (Fin fs1 ups W Ll Hr).
Qed.
End SessionExt.

Section HistExt.
Variable eps : nat.
Hypothesis Heps : (1 <= eps)%nat.
Let stepf := (fun acc s => match acc with Err e => Err e | Ok st0 => run_session eps st0 s end).

Lemma fold_sessions_err t e : fold_left stepf t (Err e) = Err e.
Proof. induction t; cbn; auto. Qed.
Lemma fold_sessions_inv : forall h st st', Inv st -> fold_left stepf h (Ok st) = Ok st' -> Inv st' /\ Extends (fst st) (fst st').
Proof.
  induction h as [|s t IH]; intros st st' HI Hf; cbn [fold_left] in Hf.
  - injection Hf as <-. split; [exact HI | apply Extends_refl].
  - unfold stepf at 2 in Hf. destruct (run_session eps st s) as [st1|e] eqn:Er; [|rewrite fold_sessions_err in Hf; discriminate].
    pose proof (run_session_inv eps Heps st s st1 HI Er) as I1.
    destruct (IH st1 st' I1 Hf) as [I2 E2]. split; [exact I2|].
    eapply Extends_trans; [apply (session_appends_only eps Heps st s st1 HI Er) | exact E2].
Qed.

(** C08 over whole histories: whatever sessions follow, every shard file stored and every shard entry of every list after a
    prefix of the history is still there, in place and in order, after the whole history *)
Theorem history_appends_only h1 h2 st1 st2 :
  run_history eps h1 = Ok st1 -> run_history eps (h1 ++ h2) = Ok st2 -> Extends (fst st1) (fst st2).
Proof.
  unfold run_history. fold stepf. intros H1 H2. rewrite fold_left_app, H1 in H2.
  destruct (fold_sessions_inv h1 (fs0, []) st1 (inv_init) H1) as [I1 _].
  apply (fold_sessions_inv h2 st1 st2 I1 H2).
Qed.
End HistExt.
