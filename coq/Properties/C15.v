(** C15 — The Rust reader equals the Python reader for every thread count and timing.
    Property theorems only; each is closed by [exact] of a lemma proved in Proofs/.
    Model/ParMap.v transcribes rust/src/parallel_map.rs (the source text is pinned); a schedule
    is any list of choices among the consumer's [next()] and the worker threads. *)
Require Import Sedpack.Model.Base Sedpack.Model.ParMap Sedpack.Proofs.ParMapProofs Sedpack.Proofs.ParMapTerm.

(** For every source length n, thread count T >= 1, failure set and schedule: the results
    returned so far are exactly those of tasks 0, 1, ..., k-1 in source order; a pass that ends
    normally has delivered all n; at most min(T, n) tasks more than results returned have been taken
    from the source (one outstanding task per thread, C14). *)
Theorem c15_parmap_in_order_and_complete :
  forall (n : nat) (bad : nat -> bool) (T : nat), 1 <= T -> forall s : pstate, preach n bad T s ->
    returned s = seq 0 (kdone s) /\ (cons s = CDone -> kdone s = n) /\
    sent s <= kdone s + Nat.min T n /\ kdone s <= sent s <= n.
Proof. exact parmap_exact_lemma. Qed.
Print Assumptions c15_parmap_in_order_and_complete.

(** While the pass is running some thread can always move: no deadlock, whatever the timing. *)
Theorem c15_parmap_no_deadlock :
  forall (n : nat) (bad : nat -> bool) (T : nat), 1 <= T -> forall s : pstate, preach n bad T s ->
    cons s = CRun -> exists t s', pstep n bad s t = Some s'.
Proof. exact parmap_progress_lemma. Qed.
Print Assumptions c15_parmap_no_deadlock.

(** If reading some shard panics the pass never ends normally (it ends by panicking in [next],
    which reaches Python as an exception). *)
Theorem c15_parmap_failure_not_swallowed :
  forall (n : nat) (bad : nat -> bool) (T : nat), 1 <= T -> forall (s : pstate) (i : nat),
    preach n bad T s -> i < n -> bad i = true -> cons s = CDone -> False.
Proof. exact parmap_failure_lemma. Qed.
Print Assumptions c15_parmap_failure_not_swallowed.

(** Termination: under every schedule of the consumer and the worker threads a whole pass takes at most 3n + min(T,n) + 1
    thread steps (with [c15_parmap_no_deadlock]: every pass ends, normally or by a panic, within that many steps). *)
Theorem c15_parmap_terminates :
  forall (n : nat) (bad : nat -> bool) (T k : nat) (s' : pstate), steps n bad (pinit n T) k s' -> k <= 3 * n + Nat.min T n + 1.
Proof. exact pass_terminates. Qed.
Print Assumptions c15_parmap_terminates.

(** Early drop: dropping the iterator in any state whatsoever (every thread is sent [None], then joined) lets every thread
    end its body after finitely many of its own steps, so [join] returns: abandoning a pass cannot hang. *)
Theorem c15_drop_is_live :
  forall (bad : nat -> bool) (s : pstate) (w : worker), List.In w (ring (pdrop s)) -> gone (wrun bad (worker_w w) w) = true.
Proof. exact drop_is_live. Qed.
Print Assumptions c15_drop_is_live.

Theorem c15_nonvacuous :
  let sched := concat (repeat [1; 2; 3; 0; 3; 2; 1; 0] 30) in
  let s := prun 7 (fun _ => false) (pinit 7 3) sched in
  let s' := prun 7 (fun i => i =? 4) (pinit 7 3) sched in
  (cons s = CDone /\ returned s = [0; 1; 2; 3; 4; 5; 6]) /\ (cons s' = CPanic /\ returned s' = [0; 1; 2; 3]).
Proof. vm_compute. repeat split. Qed.
Print Assumptions c15_nonvacuous.
