(** C11 — Shard-level custom metadata describes exactly the examples it labels.
    Property theorems only; each is closed by [exact] of a lemma proved in Proofs/. *)
Require Import Sedpack.Model.Base Sedpack.Generated.GenFiller Sedpack.Model.Filler.
Require Import Sedpack.Proofs.FillerProofs Sedpack.Proofs.LabelProofs Sedpack.Proofs.FillerExact.

(** For every shard size and every sequence of caller operations — including in-place mutation
    and reuse of the metadata objects the caller passed, and rejected writes — every write
    accepted with a non-empty metadata value [v] (its value at the time of the write) lies in a
    recorded shard whose metadata, as dumped when the session ends, is [v].  (The statement is
    about the code as it is now: the generated [attach_mode] must be [Copy]; with [Alias] the
    proof of [attach_is_copy] fails.) *)
Theorem c11_label_exact :
  forall (eps : nat), 1 <= eps -> forall (ops : list wop), labels_ok eps ops = true.
Proof. exact labels_ok_lemma. Qed.
Print Assumptions c11_label_exact.

(** "All and only": per split, the recorded shards together contain exactly the accepted writes,
    each once, in caller order — so selecting the shards labelled [v] returns every example
    written under [v] and (by [c11_label_exact]) none written under a different non-empty value. *)
Theorem c11_recorded_exactly_the_accepted_writes :
  forall (eps : nat), 1 <= eps -> forall (ops : list wop) (s : split),
    recorded eps ops s = accepted s ops 0.
Proof. exact filler_exact_lemma. Qed.
Print Assumptions c11_recorded_exactly_the_accepted_writes.

(** Non-vacuity: one dictionary mutated in place between writes yields two differently
    labelled shards, each holding the examples written under its value. *)
Theorem c11_nonvacuous :
  let ops := [WMutate 1 1; WWrite Train (Some 1) true; WWrite Train (Some 1) true; WMutate 1 2;
              WWrite Train (Some 1) true; WWrite Train (Some 1) true] in
  observe 4 ops = [(0, (2, ([1; 2], 1))); (0, (2, ([4; 5], 2)))] /\ labels_ok 4 ops = true.
Proof. vm_compute. split; reflexivity. Qed.
Print Assumptions c11_nonvacuous.
