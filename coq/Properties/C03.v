(** C03 — Unshuffled iteration is deterministic and preserves write order.
    Property theorems only; each is closed by [exact] of a lemma proved in Proofs/. *)
Require Import Sedpack.Model.Base Sedpack.Generated.GenFiller Sedpack.Model.Filler.
Require Import Sedpack.Proofs.FillerProofs Sedpack.Proofs.FillerExact.
Require Import Sedpack.Generated.GenMerge Sedpack.Model.Meta Sedpack.Proofs.OrderProofs.
Require Import Sedpack.Proofs.IterProofs Sedpack.Proofs.ChainProofs Sedpack.Proofs.BatchProofs Sedpack.Proofs.BatchSim.
Require Import Sedpack.Generated.GenIter Sedpack.Model.Iter Sedpack.Model.PipeBase Sedpack.Generated.GenPipeline Sedpack.Proofs.PipelineProofs.

(** Within one filler context the shards recorded for a split, concatenated in the order in
    which they were closed (which is the order of the list file and hence of unshuffled
    iteration), contain exactly the accepted writes of that split in the order written — for
    every shard size, every interleaving of splits, metadata use and rejected writes. *)
Theorem c03_session_order_preserved :
  forall (eps : nat), 1 <= eps -> forall (ops : list wop) (s : split),
    recorded eps ops s = accepted s ops 0.
Proof. exact filler_exact_lemma. Qed.
Print Assumptions c03_session_order_preserved.

(** Unshuffled iteration (shuffle=0, repeat=False) through the three NumPy interfaces, as compositions regenerated from
    dataset_iteration.py: the result is *equal* to the examples of the selected shards in list order, whatever the thread
    count, the random sequences and the pool's completion order (they are not consulted). *)
Theorem c03_unshuffled_interfaces_in_order :
  forall (path ex : Type) (read : path -> list ex) (process : ex -> ex) pickA permA pickB permB pool_perm hp paths,
  ani path ex read process pickA permA pickB permB 0 hp paths = spec path ex read process hp paths
  /\ (forall T, 1 <= T -> anc path ex read process pickA permA pickB pool_perm 0 T hp paths = spec path ex read process hp paths)
  /\ (forall T, ana path ex read process pickA permA pickB 0 T hp paths = spec path ex read process hp paths).
Proof. exact unshuffled_in_order. Qed.
Print Assumptions c03_unshuffled_interfaces_in_order.

(** Over whole histories (session model of C04): whatever sessions came before and whatever sessions follow, the shards a filler
    session closed for a split are found in the depth-first shard list of that split — the order in which unshuffled iteration
    visits shards — contiguously, in close order, each holding exactly the examples written into it (with
    [c03_session_order_preserved]: their concatenation is the session's accepted writes to that split in caller order). *)
Theorem c03_session_block_in_order :
  forall eps : nat, 1 <= eps ->
  forall (h1 : list session) (sub : list nat) (ops : list wop) (h2 : list session) (st1 st2 st3 : fsT * dinfo),
  run_history eps h1 = Ok st1 -> run_session eps st1 (SFiller sub ops) = Ok st2 ->
  run_history eps (h1 ++ SFiller sub ops :: h2) = Ok st3 ->
  forall s : split, exists pre post : list (list nat),
    map (examples_of (fst st3)) (dfs FUEL (fst st3) [split_code s]) =
    pre ++ map (stored (base (fst st1))) (closed_of s (session_closed eps ops)) ++ post.
Proof. exact session_block_in_order. Qed.
Print Assumptions c03_session_block_in_order.

(** Non-vacuity: three splits interleaved, shard size 2. *)
(** ... and so does every pass of the Rust interface (composition regenerated from RustGenerator._single_iter). *)
Theorem c03_rust_pass_in_order :
  forall (path ex : Type) (read : path -> list ex) (process : ex -> ex) pickA permA hp paths,
  anr path ex read process pickA permA 0 hp paths = spec path ex read process hp paths.
Proof. exact anr_ordered. Qed.
Print Assumptions c03_rust_pass_in_order.

(** Over ANY stream of paths (finite, endless, shuffled or not) the unshuffled concurrent reader, whatever its batch size, hands over at
    every position exactly what the unshuffled synchronous reader hands over: thread count does not influence the order. *)
Theorem c03_concurrent_reader_equals_sync_reader :
  forall (path ex : Type) (psrc : @source path) (read : path -> list ex) (T : nat), 1 <= T -> (forall p, 1 <= length (read p)) ->
  forall (k : nat) (s0 : s_state psrc),
    nth_out (batch_source path ex psrc read T) k (batch_init path ex psrc s0) = nth_out (chain_source path ex psrc read) k (chain_init path ex psrc s0).
Proof. exact batch_equals_chain_init. Qed.
Print Assumptions c03_concurrent_reader_equals_sync_reader.

Theorem c03_nonvacuous :
  let ops := [WWrite Train None true; WWrite Test None true; WWrite Train None true; WWrite Train None false;
              WWrite Train None true; WWrite Test None true; WWrite Holdout None true; WWrite Train None true] in
  recorded 2 ops Train = [0; 2; 4; 7] /\ recorded 2 ops Test = [1; 5] /\ recorded 2 ops Holdout = [6].
Proof. vm_compute. repeat split. Qed.
Print Assumptions c03_nonvacuous.
