"""Correspondence of the Iter.v machines with the real shuffle_buffer / round_robin (shared by C02, C14, C19)."""
import json

from harness import common
from harness.common import Broken


def gen_cases(ctx, n_sb, n_rr):
    rng = ctx.rng
    sb = [{"l": [], "b": 3, "seed": 1}, {"l": [5], "b": 1, "seed": 2}, {"l": list(range(7)), "b": 3, "seed": 12345},
          {"l": list(range(4)), "b": 9, "seed": 3}, {"l": list(range(10)), "b": 1, "seed": 4}, {"l": list(range(6)), "b": 6, "seed": 5}]
    rr = [{"ls": [[1, 2, 3], [], [4], [5, 6]], "b": 2, "seed": 7}, {"ls": [], "b": 3, "seed": 1}, {"ls": [[], [], []], "b": 2, "seed": 2},
          {"ls": [[1], [2], [3], [4], [5]], "b": 1, "seed": 3}, {"ls": [[1, 2], [3]], "b": 5, "seed": 4}]
    for _ in range(n_sb):
        n = rng.choice([0, 1, 2, 3, 5, 8, 13, 21])
        b = rng.choice([1, 2, 3, n - 1, n, n + 1, 2 * n + 1])
        sb.append({"l": list(range(100, 100 + n)), "b": max(1, b), "seed": rng.randrange(2 ** 30)})
    for _ in range(n_rr):
        k = rng.choice([0, 1, 2, 3, 5, 8])
        ls, v = [], 0
        for _i in range(k):
            m = rng.choice([0, 1, 1, 2, 3, 5])
            ls.append(list(range(v, v + m)))
            v += m
        rr.append({"ls": ls, "b": rng.choice([1, 2, 3, k, k + 1]) or 1, "seed": rng.randrange(2 ** 30)})
    for c in list(sb):
        sb.append(dict(c, **{"async": True}))
    for c in list(rr):
        rr.append(dict(c, **{"async": True}))
    return sb, rr


def model_eval(pid, sb, rr):
    body = ["Require Import Sedpack.Model.Base Sedpack.Generated.GenIter Sedpack.Model.Iter.", "From Coq Require Import NArith.", "Open Scope nat_scope.",
            "Fixpoint sb_tr (seed : N) (b fuel : nat) (st : sb_state nat (list nat)) (acc : list nat) : list nat * list nat :=",
            "  match fuel with O => (sb_out st, rev acc) | S f => match sb_step list_source (lcg_pick seed) (@rev nat) b st with",
            "    | Some st' => sb_tr seed b f st' (if length (sb_out st) <? length (sb_out st') then sb_pulled st' :: acc else acc)",
            "    | None => (sb_out st, rev acc) end end.",
            "Fixpoint rr_tr (seed : N) (b fuel : nat) (st : rr_state nat (list (list nat))) (acc : list nat) : list nat * list nat :=",
            "  match fuel with O => (rr_out st, rev acc) | S f => match rr_step list_source (lcg_pick seed) b st with",
            "    | Some st' => rr_tr seed b f st' (if length (rr_out st) <? length (rr_out st') then rr_opened st' :: acc else acc)",
            "    | None => (rr_out st, rev acc) end end."]
    body.append("Eval vm_compute in [" + "; ".join(
        f"sb_tr {c['seed']}%N {c['b']} {2 * len(c['l']) + 5} (sb_init list_source {common.clist(c['l'])}) []" for c in sb) + "].")
    body.append("Eval vm_compute in [" + "; ".join(
        f"rr_tr {c['seed']}%N {c['b']} {sum(len(x) for x in c['ls']) + 3 * len(c['ls']) + 5} (rr_init list_source {common.clist(c['ls'], common.clist)}) []" for c in rr) + "].")
    out = common.coq_eval(pid, "combinators", "\n".join(body) + "\n")
    a = common.coq_answers(out)
    return a[0], a[1]


def check(ctx, pid):
    """Returns (evaluations, disagreement Broken list, impl results)."""
    sb, rr = gen_cases(ctx, ctx.scale(40, 400), ctx.scale(40, 400))
    res = common.run_impl("combinator_run.py", {"sb": sb, "rr": rr})
    broken = []
    # model is deterministic in (l, b, seed): evaluate the sync half only
    half_sb, half_rr = len(sb) // 2, len(rr) // 2
    msb, mrr = model_eval(pid, sb[:half_sb], rr[:half_rr])
    dis = 0
    for i, (c, r) in enumerate(zip(sb, res["sb"])):
        mo, mp = msb[i % half_sb]
        if r.get("error") or r["out"] != list(mo) or r["pulls"] != list(mp):
            dis += 1
            if dis <= 2:
                broken.append(Broken("correspondence shuffle_buffer model vs implementation (outputs and pulls at each yield)",
                                     json.dumps({"case": c, "impl": r, "model": [list(mo), list(mp)]})))
    for i, (c, r) in enumerate(zip(rr, res["rr"])):
        mo, mp = mrr[i % half_rr]
        if r.get("error") or r["out"] != list(mo) or r["opened"] != list(mp):
            dis += 1
            if dis <= 2:
                broken.append(Broken("correspondence round_robin model vs implementation (outputs and opened iterators at each yield)",
                                     json.dumps({"case": c, "impl": r, "model": [list(mo), list(mp)]})))
    return sb, rr, res, broken, dis
