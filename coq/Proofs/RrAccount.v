(** C14: round robin over lazily opened inner iterators — every iterator that has been closed delivered all of its (>= m) elements,
    so the inner iterables opened so far exceed those accounted for by the output by at most the buffer size. *)
Require Import Sedpack.Model.Base Sedpack.Generated.GenIter Sedpack.Model.Iter Sedpack.Proofs.IterProofs.
From Coq Require Import Permutation.

Section W.
Variable A : Type.
Variable m : nat.
Definition w (l : list A) : nat := m - length l.
Definition wsum (buf : list (list A)) : nat := list_sum (map w buf).

Lemma wsum_perm b1 b2 : Permutation b1 b2 -> wsum b1 = wsum b2.
Proof.
  unfold wsum. induction 1 as [|x l l' _ IH|x y l|l l' l'' _ IH1 _ IH2]; simpl; lia.
Qed.
Lemma wsum_cons l buf : wsum (l :: buf) = w l + wsum buf.
Proof. reflexivity. Qed.
Lemma wsum_nil : wsum [] = 0.
Proof. reflexivity. Qed.
Lemma wsum_app b1 b2 : wsum (b1 ++ b2) = wsum b1 + wsum b2.
Proof. unfold wsum. rewrite map_app, list_sum_app. reflexivity. Qed.

Lemma wsum_replace buf pos l : pos < length buf -> w (nth pos buf []) + wsum (replace buf pos l) = w l + wsum buf.
Proof. intros H. exact (wsum_perm _ _ (perm_replace (list A) buf pos l [] H)). Qed.

Lemma last_replace_at_end (buf : list (list A)) x : forall pos, S pos = length buf -> last (replace buf pos x) [] = x.
Proof.
  induction buf as [|h r IH]; intros pos Hl; [simpl in Hl; lia|].
  destruct r as [|h2 r2].
  - destruct pos; [reflexivity|simpl in Hl; lia].
  - destruct pos as [|pos]; [simpl in Hl; lia|]. change (replace (h :: h2 :: r2) (S pos) x) with (h :: replace (h2 :: r2) pos x).
    rewrite last_cons_ne by (apply replace_nonempty; discriminate). apply IH. simpl in *. lia.
Qed.

Lemma perm_move_last (buf : list (list A)) pos : pos < length buf ->
  Permutation (nth pos buf [] :: removelast (replace buf pos (last buf []))) buf.
Proof.
  intros Hp. assert (Hne : buf <> []) by (destruct buf; simpl in *; [lia|discriminate]).
  set (buf' := replace buf pos (last buf [])).
  assert (Hne' : buf' <> []) by (apply replace_nonempty; exact Hne).
  pose proof (perm_replace (list A) buf pos (last buf []) [] Hp) as P. fold buf' in P.
  assert (Hl' : last buf' [] = last buf []).
  { destruct (Nat.eq_dec (S pos) (length buf)) as [Hl|Hl]; [|apply last_replace_lt; lia].
    unfold buf'. apply last_replace_at_end. exact Hl. }
  rewrite (app_removelast_last [] Hne') in P. rewrite Hl' in P.
  apply Permutation_cons_inv with (a := last buf []).
  eapply perm_trans; [|exact P].
  eapply perm_trans; [apply perm_swap|]. apply perm_skip.
  eapply perm_trans; [apply Permutation_cons_append|]. reflexivity.
Qed.
End W.

Section Acct.
Variable A : Type.
Variable pick : nat -> nat -> nat.
Variable b : nat.
Hypothesis pick_lt : forall j len, 0 < len -> pick j len < len.
Variable src : @source (list A).
Variable m : nat.
(** the states the source runs through ([Good] is preserved), and in those every inner iterable handed out holds >= m elements *)
Variable Good : s_state src -> Prop.
Hypothesis inner_size : forall s l s', Good s -> s_next src s = Some (l, s') -> m <= length l /\ Good s'.

(** closed iterators were used up; an open one that holds fewer than m elements has delivered the difference *)
Definition RrAcct (st : rr_state A (s_state src)) : Prop :=
  Good (rr_src st) /\ exists closed, rr_opened st = closed + length (rr_buf st) /\ closed * m + wsum A m (rr_buf st) <= length (rr_out st).

Lemma rr_acct_init s0 : Good s0 -> RrAcct (rr_init src s0).
Proof. intros H. split; [exact H|]. exists 0. cbn. lia. Qed.

Lemma w_big l : m <= length l -> w A m l = 0.
Proof. unfold w. lia. Qed.

Lemma rr_acct_step st st' : RrAcct st -> rr_step src pick b st = Some st' -> RrAcct st'.
Proof.
  intros (Hg & c & Ho & Hc) Hs. unfold rr_step in Hs.
  destruct (rr_done st); [discriminate|]. destruct (rr_filling st).
  - destruct (fill_continue (length (rr_buf st)) b).
    + destruct (s_next src (rr_src st)) as [[l s']|] eqn:En; injection Hs as <-.
      * destruct (inner_size _ _ _ Hg En) as [Hsz Hg']. split; [exact Hg'|]. exists c. cbn [rr_opened rr_buf rr_out]. rewrite app_length, wsum_app, wsum_cons, wsum_nil. cbn [length].
        rewrite (w_big l Hsz). lia.
      * split; [exact Hg|]. exists c. cbn [rr_opened rr_buf rr_out]. lia.
    + injection Hs as <-. split; [exact Hg|]. exists c. cbn [rr_opened rr_buf rr_out]. lia.
  - destruct (rr_buf st) as [|h r] eqn:Eb.
    + injection Hs as <-. split; [exact Hg|]. exists c. cbn [rr_opened rr_buf rr_out]. exact (conj Ho Hc).
    + rewrite <- Eb in *. assert (Hne : 0 < length (rr_buf st)) by (rewrite Eb; simpl; lia).
      pose proof (pick_lt (rr_j st) (length (rr_buf st)) Hne) as Hpos. set (pos := pick (rr_j st) (length (rr_buf st))) in *.
      destruct (nth pos (rr_buf st) []) as [|x t] eqn:En.
      * destruct (s_next src (rr_src st)) as [[l s']|] eqn:Es; injection Hs as <-.
        -- (* the exhausted slot is refilled *)
           destruct (inner_size _ _ _ Hg Es) as [Hsz Hg']. split; [exact Hg'|]. exists (S c). cbn [rr_opened rr_buf rr_out]. rewrite replace_length.
           pose proof (wsum_replace A m (rr_buf st) pos l Hpos) as Hw. rewrite En in Hw. rewrite (w_big l Hsz) in Hw.
           unfold w in Hw at 1. cbn [length] in Hw. lia.
        -- (* the last iterator moves into the exhausted slot *)
           split; [exact Hg|]. exists (S c). cbn [rr_opened rr_buf rr_out]. rewrite removelast_len, replace_length.
           pose proof (wsum_perm A m _ _ (perm_move_last A (rr_buf st) pos Hpos)) as Hw. rewrite En in Hw.
           rewrite wsum_cons in Hw. unfold w in Hw at 1. cbn [length] in Hw. lia.
      * injection Hs as <-. split; [exact Hg|]. exists c. cbn [rr_opened rr_buf rr_out]. rewrite replace_length, app_length. cbn [length].
        pose proof (wsum_replace A m (rr_buf st) pos t Hpos) as Hw. rewrite En in Hw. unfold w in Hw at 1 2. cbn [length] in Hw. lia.
Qed.

Lemma rr_acct_run fuel : forall st, RrAcct st -> RrAcct (rr_run src pick b fuel st).
Proof.
  induction fuel as [|f IH]; intros st H; cbn [rr_run]; [exact H|].
  destruct (rr_step src pick b st) as [st'|] eqn:E; [apply IH; eapply rr_acct_step; eauto|exact H].
Qed.

(** at every moment: (opened - b) * m <= yielded *)
Theorem rr_readahead fuel s0 : Good s0 ->
  let st := rr_run src pick b fuel (rr_init src s0) in (rr_opened st - b) * m <= length (rr_out st).
Proof.
  intros Hg0. cbv zeta. destruct (rr_acct_run fuel _ (rr_acct_init s0 Hg0)) as (_ & c & Ho & Hc).
  destruct (rr_bound_run A pick b src fuel _ (rr_bound_init A b src s0)) as (Hb & _).
  set (st := rr_run src pick b fuel (rr_init src s0)) in *. nia.
Qed.
End Acct.
