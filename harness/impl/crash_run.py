"""C06: run a writing session in a forked child that records every file-system effect and can be killed
at the k-th one (before it, or in the middle of a write); the parent inspects the real directory left behind.

stdin: {"jobs":[{"eps":n,"format":"fb","pre":[sessions],"session":{...},"max_points":k}]}
"""
import builtins
import hashlib
import io
import json
import os
import random
import shutil
import sys
import tempfile
from pathlib import Path

sys.path.insert(0, str(Path(__file__).resolve().parent))
import history_run as H  # noqa: E402
import numpy as np  # noqa: E402
from sedpack.io import Dataset, Metadata, DatasetStructure, Attribute  # noqa: E402
from sedpack.io.metadata import DatasetInfo  # noqa: E402
from sedpack.io.shard_file_metadata import ShardsList  # noqa: E402

REAL_OPEN = builtins.open
REAL_REPLACE, REAL_RENAME, REAL_MKDIR, REAL_REMOVE, REAL_UNLINK = os.replace, os.rename, os.mkdir, os.remove, os.unlink


class Recorder:
    def __init__(self, root, log_path, kill_at, torn):
        self.root = str(root)
        self.log = os.open(log_path, os.O_WRONLY | os.O_CREAT | os.O_APPEND)
        self.n = 0
        self.kill_at = kill_at
        self.torn = torn

    def inside(self, p):
        p = os.path.abspath(os.fsdecode(p))
        return p.startswith(self.root + os.sep)

    def event(self, kind, path, extra=None, before=None):
        """Log the effect, and die here if this is the chosen crash point (before performing it)."""
        self.n += 1
        rec = {"i": self.n, "k": kind, "p": os.path.relpath(os.path.abspath(os.fsdecode(path)), self.root)}
        if extra:
            rec.update(extra)
        os.write(self.log, (json.dumps(rec) + "\n").encode())
        if self.n == self.kill_at:
            if before:
                before()
            os._exit(99)


REC = None


def _note(self, kind, path, extra):
    rec = {"i": self.n, "k": kind, "p": os.path.relpath(os.path.abspath(os.fsdecode(path)), self.root)}
    rec.update(extra or {})
    os.write(self.log, (json.dumps(rec) + "\n").encode())


Recorder.note = _note


class FileProxy:
    def __init__(self, f, path):
        self._f, self._path, self._closed = f, path, False

    def write(self, data):
        def torn():
            if REC.torn and len(data) > 1:
                self._f.write(data[: len(data) // 2])
                self._f.flush()
        REC.event("write", self._path, {"n": len(data)}, before=torn)
        return self._f.write(data)

    def writelines(self, lines):
        for l in lines:
            self.write(l)

    def close(self):
        if not self._closed:
            # a crash here loses whatever is still in the Python-level buffer: die BEFORE flushing
            REC.event("close", self._path)
            self._f.flush()
            REC.note("closed", self._path, self._summary())
            self._closed = True
        return self._f.close()

    def _summary(self):
        try:
            data = Path(self._path).read_bytes()
        except OSError:
            return {}
        if self._path.endswith(".json") or "update_" in os.path.basename(self._path):
            return {"text": data.decode("utf-8", "replace")}
        return {"sha": hashlib.sha256(data).hexdigest(), "size": len(data)}

    def __enter__(self):
        return self

    def __exit__(self, *a):
        self.close()
        return False

    def __getattr__(self, name):
        return getattr(self._f, name)

    def __iter__(self):
        return iter(self._f)


def patched_open(file, mode="r", *a, **k):
    if REC is not None and isinstance(file, (str, bytes, os.PathLike)) and any(c in mode for c in "wax+") and REC.inside(file):
        def just_opened():
            # "torn" variant of a create: the process dies right AFTER the (truncating) open and before the first byte is written --
            # however the bytes would have been transferred (write calls, sendfile, copy_file_range)
            if REC.torn:
                REAL_OPEN(file, mode, *a, **k).close()
        REC.event("create", file, {"mode": mode}, before=just_opened)
        return FileProxy(REAL_OPEN(file, mode, *a, **k), os.path.abspath(os.fsdecode(file)))
    return REAL_OPEN(file, mode, *a, **k)


def patched_replace(src, dst, **k):
    if REC is not None and REC.inside(dst):
        REC.event("rename", dst, {"src": os.path.relpath(os.path.abspath(os.fsdecode(src)), REC.root)})
    return REAL_REPLACE(src, dst, **k)


def patched_rename(src, dst, **k):
    if REC is not None and REC.inside(dst):
        REC.event("rename", dst, {"src": os.path.relpath(os.path.abspath(os.fsdecode(src)), REC.root)})
    return REAL_RENAME(src, dst, **k)


def patched_mkdir(path, *a, **k):
    if REC is not None and REC.inside(path) and not os.path.isdir(path):
        REC.event("mkdir", path)
    return REAL_MKDIR(path, *a, **k)


def patched_remove(path, **k):
    if REC is not None and REC.inside(path):
        REC.event("remove", path)
    return REAL_REMOVE(path, **k)


def install():
    builtins.open = patched_open
    io.open = patched_open
    os.replace, os.rename, os.mkdir, os.remove, os.unlink = patched_replace, patched_rename, patched_mkdir, patched_remove, patched_remove


def run_session(root, s):
    ds = Dataset(root)
    if s["kind"] == "filler":
        sub = Path(*[f"d{x}" for x in s["sub"]]) if s["sub"] else Path(".")
        with H.DatasetFiller(ds, relative_path_from_split=sub) as f:
            H.apply_ops(f, s["ops"], 9000)
    else:
        ds.write_multiprocessing(feed_writer=H.feed, custom_arguments=[(ops, 9000 + 100 * i) for i, ops in enumerate(s["writers"])],
                                 consistency_check=False, single_process=True)


OTHER_TMP = [None]


def child(root, session, log_path, kill_at, torn):
    global REC
    pid = os.fork()
    if pid:
        _, status = os.waitpid(pid, 0)
        return os.waitstatus_to_exitcode(status)
    try:
        if OTHER_TMP[0]:
            # the process's temporary directory lies on another file system than the dataset (TMPDIR on tmpfs): a "move" from there is not a rename
            import tempfile as _tf
            _tf.tempdir = OTHER_TMP[0]
            os.environ["TMPDIR"] = OTHER_TMP[0]
        REC = Recorder(root, log_path, kill_at, torn)
        install()
        run_session(root, session)
        os._exit(0)
    except BaseException as ex:  # noqa: BLE001
        os.write(2, f"child failed: {type(ex).__name__}: {ex}\n".encode())
        os._exit(3)


def committed_examples(root):
    ds = Dataset(root)
    out = {}
    for s in ds._dataset_info.splits:
        out[s] = [int(np.asarray(e["a"]).reshape(-1)[0]) for e in ds.as_numpy_iterator(split=s, repeat=False, shuffle=0)]
    return out


def inspect(root, base_examples, new_examples):
    """The property C06 evaluated on the real directory a crash left behind."""
    problems = []
    for d, _x, fs in os.walk(root):
        for f in fs:
            p = Path(d, f)
            if f == "shards_list.json":
                try:
                    ShardsList.model_validate_json(p.read_text())
                except Exception as ex:  # noqa: BLE001
                    problems.append(f"metadata file {p.relative_to(root)} is not a complete valid document ({type(ex).__name__}, {p.stat().st_size} bytes)")
            elif f == "dataset_info.json":
                try:
                    DatasetInfo.model_validate_json(p.read_text())
                except Exception as ex:  # noqa: BLE001
                    problems.append(f"dataset_info.json is not a complete valid document ({type(ex).__name__}, {p.stat().st_size} bytes)")
    if problems:
        return problems
    try:
        ds = Dataset(root)
    except Exception as ex:  # noqa: BLE001
        return [f"the dataset cannot be reopened: {type(ex).__name__}: {str(ex)[:100]}"]
    for s in set(ds._dataset_info.splits) | set(base_examples):
        if s not in ds._dataset_info.splits:
            problems.append(f"split {s} with committed examples disappeared from the description")
            continue
        try:
            infos = list(ds.shard_info_iterator(s))
            got = [int(np.asarray(e["a"]).reshape(-1)[0]) for e in ds.as_numpy_iterator(split=s, repeat=False, shuffle=0)]
        except Exception as ex:  # noqa: BLE001
            problems.append(f"iterating split {s} after the crash raises {type(ex).__name__}: {str(ex)[:100]}")
            continue
        for sh in infos:
            fi = sh.file_infos[0]
            if fi.hash_checksums:
                real = hashlib.sha256((root / fi.file_path).read_bytes()).hexdigest()
                if tuple(fi.hash_checksums) != (real,):
                    problems.append(f"reachable shard {fi.file_path} does not match its recorded checksum")
        base = base_examples.get(s, [])
        missing = sorted(set(base) - set(got))
        if missing:
            problems.append(f"committed examples {missing[:8]} of split {s} are no longer returned")
        extra = sorted(set(got) - set(base) - set(new_examples))
        if extra:
            problems.append(f"split {s} returns values {extra[:8]} that were never written")
        if len(set(got)) != len(got):
            problems.append(f"split {s} returns duplicates")
    return problems


def run_job(job):
    tmp = Path(tempfile.mkdtemp(prefix="verif_crash_")).resolve()
    rng = random.Random(job.get("seed", 0))
    OTHER_TMP[0] = None
    other = None
    if job.get("other_fs_tmp") and os.path.isdir("/dev/shm") and os.stat("/dev/shm").st_dev != os.stat(tmp).st_dev:
        other = tempfile.mkdtemp(prefix="verif_crash_tmp_", dir="/dev/shm")
        OTHER_TMP[0] = other
    try:
        base = tmp / "base" / "ds"
        ds = Dataset.create(path=base, metadata=Metadata(description="c"), dataset_structure=DatasetStructure(
            saved_data_description=[Attribute(name="a", dtype="int32", shape=(1,))], shard_file_type=job.get("format", "fb"),
            compression="", examples_per_shard=job["eps"], hash_checksum_algorithms=("sha256",)))
        b0 = 0
        for s in job.get("pre", []):
            sub = Path(*[f"d{x}" for x in s["sub"]]) if s["sub"] else Path(".")
            with H.DatasetFiller(ds, relative_path_from_split=sub) as f:
                H.apply_ops(f, s["ops"], b0)
            b0 += 100
        base_examples = committed_examples(base)
        sess = job["session"]
        ws = [sess["ops"]] if sess["kind"] == "filler" else sess["writers"]
        new_examples = [9000 + 100 * wi + i for wi, ops in enumerate(ws) for i, op in enumerate(ops) if op[0] == "W" and op[3]]
        # reference run: the full effect trace
        ref = tmp / "ref" / "ds"
        shutil.copytree(base, ref)
        log = tmp / "ref.log"
        rc = child(ref, sess, str(log), -1, False)
        raw = [json.loads(l) for l in log.read_text().splitlines()]
        notes = {(e["i"], e["p"]): e for e in raw if e["k"] == "closed"}
        events = []
        for e in raw:
            if e["k"] == "closed":
                continue
            if e["k"] == "close" and (e["i"], e["p"]) in notes:
                e = dict(e, **{k: v for k, v in notes[(e["i"], e["p"])].items() if k in ("text", "sha", "size")})
            events.append(e)
        final_problems = inspect(ref, base_examples, new_examples) if rc == 0 else [f"the uninterrupted session failed with exit code {rc}"]
        n = len(events)
        points = list(range(1, n + 1))
        if job.get("max_points") and n > job["max_points"]:
            keep = {e["i"] for e in events if e["k"] in ("rename", "close")} | {e["i"] + 1 for e in events if e["k"] in ("rename", "create")}
            rest = [p for p in points if p not in keep]
            rng.shuffle(rest)
            points = sorted((keep | set(rest[: max(0, job["max_points"] - len(keep))])) & set(points))
        crashes = []
        work = tmp / "work" / "ds"
        for k in points:
            ev = events[k - 1]
            for torn in ([False, True] if (ev["k"] == "write" and ev.get("n", 0) > 1) or ev["k"] == "create" else [False]):
                if work.exists():
                    shutil.rmtree(work)
                shutil.copytree(base, work)
                wl = tmp / "work.log"
                if wl.exists():
                    wl.unlink()
                rc = child(work, sess, str(wl), k, torn)
                probs = inspect(work, base_examples, new_examples)
                crashes.append({"point": k, "event": {x: ev[x] for x in ("k", "p") if x in ev}, "torn": torn, "exit": rc, "problems": probs})
        # uuid names differ between runs, so the k-th effect is identified by its position and kind only
        return {"events": events, "final_problems": final_problems, "crashes": crashes, "base_files": snapshot_docs(base)}
    except Exception as ex:  # noqa: BLE001
        import traceback
        return {"build_error": f"{type(ex).__name__}: {str(ex)[:300]} {traceback.format_exc()[-400:]}"}
    finally:
        shutil.rmtree(tmp, ignore_errors=True)
        if other:
            shutil.rmtree(other, ignore_errors=True)
        OTHER_TMP[0] = None


def snapshot_docs(root):
    out = {}
    for d, _x, fs in os.walk(root):
        for f in fs:
            p = Path(d, f)
            rel = str(p.relative_to(root))
            if f.endswith(".json"):
                out[rel] = {"text": p.read_text()}
            else:
                out[rel] = {"sha": hashlib.sha256(p.read_bytes()).hexdigest()}
    return out


def main():
    req = json.load(sys.stdin)
    res = [run_job(j) for j in req["jobs"]]
    print("@@RESULT@@" + json.dumps({"jobs": res}))
    sys.stdout.flush()
    os._exit(0)


if __name__ == "__main__":
    main()
