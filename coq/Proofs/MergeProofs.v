(** Partial correctness of [merge] (merge_shard_infos.py): whenever it returns, the subtree it
    rebuilt is exact, nothing outside that subtree changed, and no shard entry was touched. *)
Require Import Sedpack.Model.Base Sedpack.Generated.GenMerge Sedpack.Model.Filler Sedpack.Model.Meta.
Require Import Sedpack.Proofs.MergeBasics.
Local Open Scope Z_scope.

(** Kernel facts about the generated partition tests. *)
Lemma is_deeper_spec dlen c : is_deeper_level dlen c = true <-> (c < dlen)%nat.
Proof. unfold is_deeper_level. rewrite Nat.ltb_lt. lia. Qed.
Lemma is_current_spec dlen c : is_current_level dlen c = true <-> dlen = c.
Proof. unfold is_current_level. rewrite Nat.eqb_eq. lia. Qed.

(** ** Local well-formedness of the documents on disk (what fillers and merges maintain) *)
Definition own (s : shards_list) : Z := sumZ (fun sh => Z.of_nat (sh_num sh)) (sl_files s).
Definition WFdoc (fs : fsT) (d : dpath) (s : shards_list) : Prop :=
  sl_dir s = d /\ sl_nex s = own s + sumZ li_nex (sl_children s) /\
  forallb (shard_exact fs d) (sl_files s) = true /\
  Forall (fun c => exists x, li_dir c = d ++ [x]) (sl_children s).
Definition WFunder (fs : fsT) (p : dpath) : Prop :=
  forall d s h, prefix p d -> lookup d (lists fs) = Some (s, h) -> WFdoc fs d s.

Lemma shard_exact_shards fs1 fs2 d sh : shards fs1 = shards fs2 -> shard_exact fs1 d sh = shard_exact fs2 d sh.
Proof. unfold shard_exact. intros ->. reflexivity. Qed.
Lemma WFdoc_shards fs1 fs2 d s : shards fs1 = shards fs2 -> WFdoc fs1 d s -> WFdoc fs2 d s.
Proof.
  intros Hs (H1 & H2 & H3 & H4). repeat split; auto.
  rewrite <- H3. apply forallb_ext. intros sh. symmetry. apply shard_exact_shards, Hs.
Qed.
Lemma WFdoc_empty fs d : WFdoc fs d (empty_list d).
Proof. unfold WFdoc, empty_list, own, sumZ. simpl. repeat split; auto. Qed.

Lemma WFunder_mono fs p q : prefix p q -> WFunder fs p -> WFunder fs q.
Proof. intros Hpq H d s h Hd. apply H. eapply prefix_trans; eauto. Qed.

Lemma load_or_create_WF fs p : WFunder fs p -> WFdoc fs p (load_or_create fs p).
Proof.
  intros H. unfold load_or_create. destruct (lookup p (lists fs)) as [[s h]|] eqn:E.
  - apply (H p s h (prefix_refl p) E).
  - apply WFdoc_empty.
Qed.

(** ** Grouping *)
Definition gkey (c : nat) (u : list_info) : nat := nth c (li_dir u) 0%nat.
Definition groups_ok (c : nat) (P : list_info -> Prop) (g : list (nat * list list_info)) : Prop :=
  NoDup (map fst g) /\ Forall (fun kv => snd kv <> [] /\ Forall (fun u => gkey c u = fst kv /\ P u) (snd kv)) g.

Lemma insert_group_keys k u g : forall x, List.In x (map fst (insert_group k u g)) <-> x = k \/ List.In x (map fst g).
Proof.
  induction g as [|[k' us] t IH]; simpl; intros x; [intuition congruence|].
  destruct (Nat.eqb_spec k k') as [->|Hne]; simpl; [intuition congruence|]. rewrite IH. intuition congruence.
Qed.

Lemma insert_group_ok c P u g : groups_ok c P g -> P u -> groups_ok c P (insert_group (gkey c u) u g).
Proof.
  intros [Hnd Hall] Hu. induction g as [|[k' us] t IH]; simpl.
  - split; [constructor; [intros []|constructor]|]. constructor; [|constructor]. simpl. split; [discriminate|].
    constructor; [split; auto|constructor].
  - inversion Hnd as [|x y Hni Hnd']; subst. inversion Hall as [|x y [Hne Hus] Hall']; subst. simpl in *.
    destruct (Nat.eqb_spec (gkey c u) k') as [Hk|Hk]; simpl.
    + split; [constructor; assumption|]. constructor; [|assumption]. simpl. split.
      * destruct us; discriminate.
      * apply Forall_app. split; [assumption|]. constructor; [split; auto|constructor].
    + destruct (IH Hnd' Hall') as [Hnd2 Hall2]. split.
      * simpl. constructor; [|assumption]. rewrite insert_group_keys. intros [Hx|Hx]; [apply Hk; symmetry; exact Hx | contradiction].
      * constructor; [split; assumption | assumption].
Qed.

Lemma group_by_ok c P us : Forall P us -> groups_ok c P (group_by c us).
Proof.
  unfold group_by. assert (Hgen : forall g, groups_ok c P g -> Forall P us ->
     groups_ok c P (fold_left (fun g u => insert_group (nth c (li_dir u) 0%nat) u g) us g)).
  { induction us as [|u us IH]; intros g Hg Hall; simpl; [exact Hg|].
    inversion Hall; subst. apply IH; [|assumption]. apply (insert_group_ok c P u g Hg). assumption. }
  apply Hgen. split; [constructor|constructor].
Qed.

(** ** [exact] only looks below the directory it is asked about *)
Lemma exact_local f : forall fs1 fs2 li,
  shards fs1 = shards fs2 ->
  (forall d, prefix (li_dir li) d -> lookup d (lists fs1) = lookup d (lists fs2)) ->
  exact f fs1 li = exact f fs2 li.
Proof.
  induction f as [|f IH]; intros fs1 fs2 li Hs Hl; simpl; [reflexivity|].
  rewrite <- (Hl (li_dir li) (prefix_refl _)).
  destruct (lookup (li_dir li) (lists fs1)) as [[s h]|]; [|reflexivity].
  assert (E1 : forallb (shard_exact fs1 (li_dir li)) (sl_files s) = forallb (shard_exact fs2 (li_dir li)) (sl_files s)).
  { apply forallb_ext. intros sh. apply shard_exact_shards, Hs. }
  assert (E2 : forallb (fun c => dpath_eqb (firstn (length (li_dir li)) (li_dir c)) (li_dir li) &&
                                 Nat.eqb (length (li_dir c)) (S (length (li_dir li))) && exact f fs1 c) (sl_children s)
             = forallb (fun c => dpath_eqb (firstn (length (li_dir li)) (li_dir c)) (li_dir li) &&
                                 Nat.eqb (length (li_dir c)) (S (length (li_dir li))) && exact f fs2 c) (sl_children s)).
  { apply forallb_ext. intros c.
    destruct (dpath_eqb (firstn (length (li_dir li)) (li_dir c)) (li_dir li)) eqn:Ep; [|reflexivity].
    simpl. f_equal. apply IH; [exact Hs|]. intros d Hd. apply Hl.
    apply dpath_eqb_eq in Ep. eapply prefix_trans; [exact Ep | exact Hd]. }
  rewrite E1, E2. reflexivity.
Qed.

Section Step.
Variable fuel' : nat.
(** Induction hypothesis: the specification of [merge] at fuel [fuel']. *)
Definition merge_spec_at (fuel : nat) : Prop :=
  forall U c fs fs' li u0,
    hd_error U = Some u0 ->
    (forall u, List.In u U -> (c <= length (li_dir u))%nat) ->
    WFunder fs (firstn c (li_dir u0)) ->
    merge fuel U c fs = Ok (fs', li) ->
    let p := firstn c (li_dir u0) in
    li_dir li = p /\ exact fuel fs' li = true /\ shards fs' = shards fs /\
    (forall d, ~ prefix p d -> lookup d (lists fs') = lookup d (lists fs)) /\
    WFunder fs' p /\
    (forall d, sl_files (load_or_create fs' d) = sl_files (load_or_create fs d)).
Hypothesis IHm : merge_spec_at fuel'.

Definition Fstep (c : nat) :=
  fun (acc : res (fsT * list list_info)) (g : nat * list list_info) =>
    match acc with
    | Err e => Err e
    | Ok (fs1, done) =>
        match merge fuel' (snd g) (S c) fs1 with
        | Err e => Err e
        | Ok (fs2, info) => Ok (fs2, done ++ [info])
        end
    end.

Lemma fold_err c gs e : fold_left (Fstep c) gs (Err e) = Err e.
Proof. induction gs; simpl; auto. Qed.

Lemma fold_groups p : forall groups fs1 done fs3 merged, let c := length p in
  groups_ok c (fun u => prefix p (li_dir u) /\ (c < length (li_dir u))%nat) groups ->
  WFunder fs1 p ->
  fold_left (Fstep c) groups (Ok (fs1, done)) = Ok (fs3, merged) ->
  exists news, merged = done ++ news /\
    Forall2 (fun g li => li_dir li = p ++ [fst g] /\ exact fuel' fs3 li = true) groups news /\
    shards fs3 = shards fs1 /\
    (forall d, (forall g, List.In g groups -> ~ prefix (p ++ [fst g]) d) -> lookup d (lists fs3) = lookup d (lists fs1)) /\
    WFunder fs3 p /\
    (forall d, sl_files (load_or_create fs3 d) = sl_files (load_or_create fs1 d)).
Proof.
  induction groups as [|[k U] gs IH]; intros fs1 done fs3 merged c [Hnd Hall] Hwf Hf; simpl in Hf.
  - injection Hf as <- <-. exists []. rewrite app_nil_r.
    split; [reflexivity|]. split; [constructor|]. split; [reflexivity|]. split; [intros; reflexivity|].
    split; [exact Hwf|]. intros; reflexivity.
  - inversion Hnd as [|x1 y1 Hni Hnd' Ex1]; clear Ex1. inversion Hall as [|x2 y2 [Hne HU] Hall' Ex2]; clear Ex2. simpl in Hne, HU, Hni.
    destruct (merge fuel' U (S c) fs1) as [[fs2 info]|e] eqn:Em; [|rewrite fold_err in Hf; discriminate].
    destruct U as [|u0 U']; [congruence|].
    (* facts about the members of this group *)
    assert (Hmem : forall u, List.In u (u0 :: U') -> gkey c u = k /\ prefix p (li_dir u) /\ (c < length (li_dir u))%nat).
    { rewrite Forall_forall in HU. intros u Hu. destruct (HU u Hu) as (H1 & H2 & H3). auto. }
    destruct (Hmem u0 (or_introl eq_refl)) as (Hk0 & Hp0 & Hl0).
    assert (Hp' : firstn (S c) (li_dir u0) = p ++ [k]).
    { rewrite firstn_S_nth by exact Hl0. unfold gkey in Hk0. rewrite Hk0. f_equal.
      unfold prefix in Hp0. exact Hp0. }
    assert (Hwf' : WFunder fs1 (firstn (S c) (li_dir u0))).
    { rewrite Hp'. eapply WFunder_mono; [apply prefix_app | exact Hwf]. }
    assert (Hlens : forall u, List.In u (u0 :: U') -> (S c <= length (li_dir u))%nat).
    { intros u Hu. destruct (Hmem u Hu) as (_ & _ & H3). lia. }
    destruct (IHm (u0 :: U') (S c) fs1 fs2 info u0 eq_refl Hlens Hwf' Em) as (Hd & Hex & Hsh & Hfoot & Hwf2 & Hfiles).
    cbv zeta in *. rewrite Hp' in *.
    (* the rest of the groups *)
    assert (Hwf2p : WFunder fs2 p).
    { intros d s h Hpd Hlk. destruct (dpath_eqb (firstn (length (p ++ [k])) d) (p ++ [k])) eqn:Epk.
      - apply dpath_eqb_eq in Epk. apply (Hwf2 d s h Epk Hlk).
      - assert (Hnp : ~ prefix (p ++ [k]) d) by (intros HH; unfold prefix in HH; rewrite HH, dpath_eqb_refl in Epk; discriminate).
        rewrite (Hfoot d Hnp) in Hlk. apply (WFdoc_shards fs1 fs2); [congruence|]. apply (Hwf d s h Hpd Hlk). }
    destruct (IH fs2 (done ++ [info]) fs3 merged (conj Hnd' Hall') Hwf2p Hf) as (news & Hm & Hf2 & Hsh3 & Hfoot3 & Hwf3 & Hfiles3).
    exists (info :: news). rewrite <- app_assoc in Hm. simpl in Hm.
    split; [exact Hm|]. split; [|split; [|split; [|split; [exact Hwf3|]]]].
    + constructor; [|exact Hf2]. simpl. split; [exact Hd|].
      (* later groups do not touch this subtree *)
      rewrite <- Hex. apply exact_local; [congruence|]. intros d Hd'. rewrite Hd in Hd'. apply Hfoot3.
      intros g Hg. apply (prefix_snoc_neq p k (fst g)); [|exact Hd'].
      intros Heq. apply Hni. rewrite Heq. apply in_map. exact Hg.
    + congruence.
    + intros d Hnone. rewrite Hfoot3 by (intros g Hg; apply Hnone; right; exact Hg).
      apply Hfoot. apply (Hnone (k, u0 :: U')). left. reflexivity.
    + intros d. rewrite Hfiles3. apply Hfiles.
Qed.
End Step.

Lemma merge_S fuel' U c fs :
  merge (S fuel') U c fs =
  match U with
  | [] => Err AssertNothing
  | u0 :: _ =>
      if negb (forallb (fun u => dpath_eqb (firstn c (li_dir u)) (firstn c (li_dir u0))) U)
      then Err PrefixMismatch else
      let dir := firstn c (li_dir u0) in
      let root := load_or_create fs dir in
      let current := filter (fun u => is_current_level (length (li_dir u)) c) U in
      let deeper := filter (fun u => is_deeper_level (length (li_dir u)) c) U in
      if negb (Nat.eqb (length current + length deeper) (length U)) then Err AssertPartition else
      if merge_asserts_single_update && Nat.ltb 1 (length current) then Err AssertSingle else
      let nex1 := fold_left (fun z ch => z - li_nex ch) (sl_children root) (sl_nex root) in
      match fold_left (Fstep fuel' c) (group_by c (deeper ++ sl_children root)) (Ok (fs, [])) with
      | Err e => Err e
      | Ok (fs3, merged) =>
          Ok (write_list fs3 {| sl_dir := dir; sl_nex := fold_left (fun z ch => z + li_nex ch) merged nex1;
                                sl_files := sl_files root; sl_children := merged |})
      end
  end.
Proof. reflexivity. Qed.

Lemma Forall2_dirs p (groups : list (nat * list list_info)) news f fs :
  Forall2 (fun g li => li_dir li = p ++ [fst g] /\ exact f fs li = true) groups news ->
  Forall (fun li => (exists x, li_dir li = p ++ [x]) /\ exact f fs li = true) news.
Proof. induction 1 as [|g li gs ls [H1 H2] _ IH]; constructor; [split; [eexists; exact H1 | exact H2] | exact IH]. Qed.

Theorem merge_spec : forall fuel, merge_spec_at fuel.
Proof.
  induction fuel as [|fuel' IH]; intros U c fs fs' li u0 Hhd Hlens Hwf Hm p; [discriminate|].
  rewrite merge_S in Hm. destruct U as [|u U']; [discriminate|]. injection Hhd as ->.
  destruct (negb (forallb (fun u => dpath_eqb (firstn c (li_dir u)) (firstn c (li_dir u0))) (u0 :: U'))) eqn:Epre; [discriminate|].
  apply negb_false_iff in Epre. rewrite forallb_forall in Epre.
  cbv zeta in Hm. fold p in Hm.
  set (root := load_or_create fs p) in *.
  destruct (negb (Nat.eqb _ _)); [discriminate|].
  destruct (merge_asserts_single_update && _)%bool; [discriminate|].
  set (deeper := filter (fun u => is_deeper_level (length (li_dir u)) c) (u0 :: U')) in *.
  destruct (fold_left (Fstep fuel' c) (group_by c (deeper ++ sl_children root)) (Ok (fs, []))) as [[fs3 merged]|e] eqn:Ef; [|discriminate].
  assert (Hplen : length p = c).
  { unfold p. rewrite firstn_length. specialize (Hlens u0 (or_introl eq_refl)). lia. }
  pose proof (load_or_create_WF fs p Hwf) as (Hr1 & Hr2 & Hr3 & Hr4). fold root in Hr1, Hr2, Hr3, Hr4.
  (* members of deeper ++ children *)
  assert (Hmem : Forall (fun u => prefix p (li_dir u) /\ (c < length (li_dir u))%nat) (deeper ++ sl_children root)).
  { apply Forall_app. split.
    - apply Forall_forall. intros u Hu. unfold deeper in Hu. apply filter_In in Hu. destruct Hu as (Hin & Hd).
      apply is_deeper_spec in Hd. split; [|exact Hd].
      unfold prefix. rewrite Hplen. apply dpath_eqb_eq. apply (Epre u Hin).
    - eapply Forall_impl; [|exact Hr4]. simpl. intros ch (x & Hx). rewrite Hx. split; [apply prefix_app|].
      rewrite app_length. simpl. lia. }
  pose proof (group_by_ok c _ _ Hmem) as Hgok. rewrite <- Hplen in Hgok, Ef.
  destruct (fold_groups fuel' IH p _ fs [] fs3 merged Hgok Hwf Ef) as (news & Hmg & Hf2 & Hsh3 & Hfoot3 & Hwf3 & Hfiles3).
  simpl in Hmg. subst merged.
  pose proof (Forall2_dirs _ _ _ _ _ Hf2) as Hnews.
  (* the new document *)
  set (nex2 := fold_left (fun z ch => z + li_nex ch) news (fold_left (fun z ch => z - li_nex ch) (sl_children root) (sl_nex root))) in *.
  assert (Hnex2 : nex2 = own root + sumZ li_nex news).
  { unfold nex2. rewrite fold_add_shift, fold_sub_shift. rewrite Hr2. unfold sumZ. lia. }
  set (doc := {| sl_dir := p; sl_nex := nex2; sl_files := sl_files root; sl_children := news |}) in *.
  pose proof (write_list_lists fs3 doc) as HL. pose proof (write_list_info fs3 doc) as HI. pose proof (write_list_shards fs3 doc) as Hsh4.
  destruct (write_list fs3 doc) as [fs4 li4] eqn:Ew. simpl in HL, HI, Hsh4. injection Hm as <- <-. subst li4.
  assert (Hlk : forall d, d <> p -> lookup d (lists fs4) = lookup d (lists fs3)).
  { intros d Hd. rewrite HL. apply lookup_cons_neq. simpl. congruence. }
  assert (Hlkp : lookup p (lists fs4) = Some (doc, S (ver fs3))).
  { rewrite HL. apply lookup_cons_eq. }
  assert (Hnotunder : forall x d, prefix (p ++ [x]) d -> d <> p).
  { intros x d Hd ->. exact (prefix_longer p x Hd). }
  clear Ew HL. simpl.
  split; [reflexivity|]. split; [|split; [congruence|split; [|split]]].
  - (* exact *)
    simpl. rewrite Hlkp. rewrite Nat.eqb_refl, dpath_eqb_refl, !Z.eqb_refl. simpl.
    assert (E1 : forallb (shard_exact fs4 p) (sl_files root) = true).
    { rewrite <- Hr3. apply forallb_ext. intros sh. apply shard_exact_shards. congruence. }
    rewrite E1. simpl.
    assert (E2 : (nex2 =? sumZ (fun sh => Z.of_nat (sh_num sh)) (sl_files root) + sumZ li_nex news) = true).
    { apply Z.eqb_eq. rewrite Hnex2. reflexivity. }
    rewrite E2. simpl.
    apply forallb_forall. intros ch Hch. rewrite Forall_forall in Hnews. destruct (Hnews ch Hch) as ((x & Hx) & Hex).
    rewrite Hx. rewrite firstn_app, firstn_all, Nat.sub_diag. simpl. rewrite app_nil_r, dpath_eqb_refl.
    rewrite app_length. simpl. rewrite Nat.add_1_r, Nat.eqb_refl. simpl.
    rewrite <- Hex. apply exact_local; [exact Hsh4|]. intros d Hd. rewrite Hx in Hd. apply Hlk. eapply Hnotunder. exact Hd.
  - (* footprint *)
    intros d Hnp. rewrite Hlk by (intros ->; apply Hnp, prefix_refl). rewrite Hfoot3; [reflexivity|].
    intros g _ Hg. apply Hnp. eapply prefix_trans; [apply prefix_app | exact Hg].
  - (* well-formedness is kept *)
    intros d s h Hpd Hl. destruct (dpath_eqb_spec d p) as [->|Hne].
    + rewrite Hlkp in Hl. injection Hl as <- <-. unfold WFdoc. simpl. repeat split; auto.
      * rewrite <- Hr3. apply forallb_ext. intros sh. apply shard_exact_shards. congruence.
      * eapply Forall_impl; [|exact Hnews]. simpl. intros ch (Hx & _). exact Hx.
    + rewrite Hlk in Hl by exact Hne. apply (WFdoc_shards fs3); [congruence|]. apply (Hwf3 d s h Hpd Hl).
  - (* shard entries are never touched *)
    intros d. unfold load_or_create at 1. destruct (dpath_eqb_spec d p) as [->|Hne].
    + rewrite Hlkp. simpl. reflexivity.
    + rewrite Hlk by exact Hne. apply Hfiles3.
Qed.
