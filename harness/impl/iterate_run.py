"""Build datasets from session descriptions and run iteration requests through every interface.
stdin: {"jobs":[{"dataset":{"format","compression","eps","sessions":[...]}, "requests":[{...}], "damage": optional}]}
request: {"iface":"sync|concurrent|async|rust|tf","split":0,"shuffle":0,"repeat":false,"take":null,
          "file_parallelism":2,"shards":null,"limit":null,"filter":null|value,"process":false,"reopen":false}
result per request: {"out":[payloads]} | {"error": "..."} | {"hang": true}
"""
import asyncio
import json
import os
import shutil
import sys
import tempfile
import threading
from pathlib import Path

import numpy as np

sys.path.insert(0, str(Path(__file__).resolve().parent))
import history_run as H  # noqa: E402
from indep import decode_indep  # noqa: E402
from sedpack.io import Dataset, Metadata, DatasetStructure, Attribute  # noqa: E402

SPLITS = H.SPLITS
OPENS = [0]
SPY = {"on": False}
LEFTOVER = set()      # threads that were already alive when the request started (workers of an earlier, abandoned iteration)


def _hook(event, args):
    if SPY["on"] and event == "open" and isinstance(args[0], (str, bytes, os.PathLike)) and threading.current_thread() not in LEFTOVER:
        p = os.fsdecode(args[0])
        if p.endswith((".fb", ".npz")) and args[1] in ("r", "rb", 0, None, "rb+"):
            OPENS[0] += 1
            if SPY.get("slow_path") == p and not SPY.get("slow_done"):
                # one slow shard: the thread that reads this file is held up (head-of-line blocking for the ordered readers)
                SPY["slow_done"] = True
                import time as _t
                _t.sleep(SPY.get("slow_s", 1.0))


sys.addaudithook(_hook)


def build(spec, tmp):
    root = Path(tmp) / "ds"
    if root.exists():
        shutil.rmtree(root)
    ds = Dataset.create(path=root, metadata=Metadata(description="it"), dataset_structure=DatasetStructure(
        saved_data_description=[Attribute(name="a", dtype="int32", shape=(1,))], shard_file_type=spec.get("format", "fb"),
        compression=spec.get("compression", ""), examples_per_shard=spec["eps"], hash_checksum_algorithms=tuple(spec.get("algs", ["sha256"]))))
    base = 0
    for s in spec["sessions"]:
        if s.get("set_eps"):
            # the structure is changed through the public setter before this session: later shards are smaller than the earlier ones
            ds.dataset_structure = ds.dataset_structure.model_copy(update={"examples_per_shard": s["set_eps"]})
        if s["kind"] == "filler":
            sub = Path(*[f"d{x}" for x in s["sub"]]) if s["sub"] else Path(".")
            with H.DatasetFiller(ds, relative_path_from_split=sub) as f:
                H.apply_ops(f, s["ops"], base)
            base += 100
        else:
            bases = [base + 100 * i for i in range(len(s["writers"]))]
            ds.write_multiprocessing(feed_writer=H.feed, custom_arguments=[(ops, b) for ops, b in zip(s["writers"], bases)],
                                     consistency_check=False, single_process=True)
            base += 100 * len(s["writers"])
    return root


def val(e):
    a = e["a"] if isinstance(e, dict) else e
    if hasattr(a, "numpy"):
        a = a.numpy()
    return int(np.asarray(a).reshape(-1)[0])


CALLS = []


def proc(e):
    v = val(e)
    CALLS.append(v)
    return {"a": np.asarray([v + 100000], np.int32)}


def proc_inplace(e):
    """A per-example transformation in the common 'update in place and return it' style."""
    v = val(e)
    CALLS.append(v)
    e["a"] = np.asarray([v + 100000], np.int32)
    return e


def iterate(root, r):
    ds = Dataset(root)
    if r.get("passes"):
        r2 = dict(r)
        r2.pop("passes")
        if r["iface"] == "tf":
            # a tf.data.Dataset is re-iterable: passes over the same returned object, then one over a freshly built one
            return iterate_ds(ds, dict(r2, reiterate=r["passes"])) + [iterate_ds(ds, r2)]
        return [iterate_ds(ds, r2) for _ in range(r["passes"])]
    return iterate_ds(ds, r)


def make_iter(ds, r):
    """A plain Python iterator for the sync-style interfaces (used to interleave two live streams)."""
    split = SPLITS[r["split"]]
    kw = {"split": split, "repeat": r.get("repeat", False), "shuffle": r.get("shuffle", 0)}
    iface = r["iface"]
    if iface == "sync":
        return iter(ds.as_numpy_iterator(**kw))
    if iface == "concurrent":
        return iter(ds.as_numpy_iterator_concurrent(file_parallelism=r.get("file_parallelism", 2), **kw))
    if iface == "rust":
        return iter(ds.as_numpy_iterator_rust(file_parallelism=r.get("file_parallelism", 2), **kw))
    if iface == "tf":
        return iter(ds.as_tfdataset(batch_size=0, file_parallelism=r.get("file_parallelism", 2), parallelism=1, prefetch=1, **kw))
    raise ValueError(iface)


def iterate_pair(ds, r):
    """Two streams alive at once, pulled alternately (train / validation style)."""
    a, b = make_iter(ds, r), make_iter(ds, r["pair"])
    oa, ob = [], []
    ta, tb = r["take"], r["pair"]["take"]
    while len(oa) < ta or len(ob) < tb:
        if len(oa) < ta:
            try:
                oa.append(val(next(a)))
            except StopIteration:
                ta = len(oa)
        if len(ob) < tb:
            try:
                ob.append(val(next(b)))
            except StopIteration:
                tb = len(ob)
    return [oa, ob]


def mk_filter(fv):
    """A fresh predicate on ShardInfo: an int selects by the custom metadata value; {"nex_ge": t} / {"nex_eq": t} by the recorded number of examples
    (something other than the metadata, on which shards with equal metadata may differ)."""
    if isinstance(fv, dict):
        if "nex_ge" in fv:
            return lambda s, t=fv["nex_ge"]: s.number_of_examples >= t
        return lambda s, t=fv["nex_eq"]: s.number_of_examples == t
    return lambda s, fv=fv: int(s.custom_metadata.get("k", 0)) == fv


def iterate_multi(ds, r):
    """Several streams of one interface alive at once; the consumer pulls from / drops them in the given order.
    ops: ["P", i] = next(stream i), ["A", i] = close stream i.  Answer per op: the example value, "stop", "error:<type>", or None (drop)."""
    m = r["multi"]
    its = [make_iter(ds, dict(q, iface=r["iface"])) for q in m["streams"]]
    ans = []
    for kind, i in m["ops"]:
        if kind == "A":
            try:
                c = getattr(its[i], "close", None)
                if c is not None:
                    c()
                else:
                    its[i] = iter(())
                ans.append(None)
            except BaseException as ex:  # noqa: BLE001
                ans.append("error:" + type(ex).__name__)
            continue
        try:
            ans.append(val(next(its[i])))
        except StopIteration:
            ans.append("stop")
        except BaseException as ex:  # noqa: BLE001
            ans.append("error:" + type(ex).__name__)
    return ans


def iterate_ds(ds, r):
    if r.get("pair"):
        return iterate_pair(ds, r)
    if r.get("multi"):
        return iterate_multi(ds, r)
    split = SPLITS[r["split"]]
    kw = {"split": split, "repeat": r.get("repeat", False), "shuffle": r.get("shuffle", 0)}
    if r.get("shards") is not None:
        kw["shards"] = r["shards"]
    if r.get("filter") is not None:
        kw["shard_filter"] = mk_filter(r["filter"])
    if r.get("process"):
        kw["process_record"] = proc_inplace if r.get("inplace") else proc
    iface = r["iface"]
    take = r.get("take")
    out = []
    SPY["slow_path"], SPY["slow_done"] = None, False
    if r.get("slow_first"):
        SPY["slow_path"] = str(ds.shard_paths_dataset(split=split)[0])
        SPY["slow_s"] = float(r["slow_first"])

    delay = r.get("delay", 0)
    opened = []

    objs = []

    def consume(it):
        import time as _t
        for e in it:
            objs.append(e)
            out.append(val(e))
            opened.append(OPENS[0])
            if delay:
                _t.sleep(delay)
            if r.get("pause") and len(out) == r.get("pause_after", 1):
                _t.sleep(r["pause"])
            if take is not None and len(out) >= take:
                break
    r["_opened"] = opened

    if iface == "paths_seq":
        # several selections one after another on ONE handle, each with a fresh inline predicate
        info = json.loads((ds.path / "dataset_info.json").read_text())
        allp = []

        def walk2(rel):
            d = json.loads((ds.path / rel).read_text())
            for sh in d.get("shard_files", []):
                allp.append(str(ds.path / sh["file_infos"][0]["file_path"]))
            for ch in d.get("children_shard_lists", []):
                walk2(ch["shard_list_info_file"]["file_path"])
        walk2(info["splits"][split]["shard_list_info_file"]["file_path"])
        outs = []
        seq = r.get("seq") or [{"filter": fv} for fv in r["filters"]]
        for o in seq:
            fv = o.get("filter")
            kw3 = {"split": split, "shard_filter": (None if fv is None else mk_filter(fv))}
            if o.get("shards") is not None:
                kw3["shards"] = o["shards"]
            if o.get("limit") is not None:
                kw3["custom_metadata_type_limit"] = o["limit"]
            try:
                outs.append([allp.index(p) for p in ds.shard_paths_dataset(**kw3)])
            except ValueError:
                outs.append("error")
        return outs
    if iface == "iface_seq":
        # several selections one after another on ONE handle through a real interface, each with a fresh inline predicate
        outs = []
        for o in r["seq"]:
            fv = o.get("filter")
            kw3 = {"split": split, "repeat": False, "shuffle": 0}
            if fv is not None:
                kw3["shard_filter"] = mk_filter(fv)
            if o.get("shards") is not None:
                kw3["shards"] = o["shards"]
            try:
                if r.get("via") == "tf":
                    outs.append([val(e) for e in ds.as_tfdataset(batch_size=0, file_parallelism=2, parallelism=1, prefetch=1, **kw3)])
                elif r.get("via") == "concurrent":
                    outs.append([val(e) for e in ds.as_numpy_iterator_concurrent(file_parallelism=2, **kw3)])
                else:
                    outs.append([val(e) for e in ds.as_numpy_iterator(**kw3)])
            except ValueError:
                outs.append("error")
        return outs
    if iface == "paths":
        # the selection itself: indices (in depth-first order) of the shard files shard_paths_dataset returns
        info = json.loads((ds.path / "dataset_info.json").read_text())
        allp = []

        def walk(rel):
            d = json.loads((ds.path / rel).read_text())
            for sh in d.get("shard_files", []):
                allp.append(str(ds.path / sh["file_infos"][0]["file_path"]))
            for ch in d.get("children_shard_lists", []):
                walk(ch["shard_list_info_file"]["file_path"])
        walk(info["splits"][split]["shard_list_info_file"]["file_path"])
        kw2 = {k: v for k, v in kw.items() if k in ("split", "shards", "shard_filter")}
        if r.get("limit") is not None:
            kw2["custom_metadata_type_limit"] = r["limit"]
        return [allp.index(p) for p in ds.shard_paths_dataset(**kw2)]
    if iface == "sync":
        if r.get("limit") is not None:
            kw["custom_metadata_type_limit"] = r["limit"]
        consume(ds.as_numpy_iterator(**kw))
    elif iface == "concurrent":
        if r.get("limit") is not None:
            kw["custom_metadata_type_limit"] = r["limit"]
        consume(ds.as_numpy_iterator_concurrent(file_parallelism=r.get("file_parallelism", 2), **kw))
    elif iface == "rust":
        consume(ds.as_numpy_iterator_rust(file_parallelism=r.get("file_parallelism", 2), **kw))
    elif iface == "async":
        async def go():
            async for e in ds.as_numpy_iterator_async(file_parallelism=r.get("file_parallelism", 2), **kw):
                objs.append(e)
                out.append(val(e))
                opened.append(OPENS[0])
                if delay:
                    await asyncio.sleep(delay)
                if take is not None and len(out) >= take:
                    break
        asyncio.run(go())
    elif iface == "tf":
        if r.get("limit") is not None:
            kw["custom_metadata_type_limit"] = r["limit"]
        bsz = r.get("batch", 0)
        tfds = ds.as_tfdataset(batch_size=bsz, file_parallelism=r.get("file_parallelism", 2), parallelism=1, prefetch=1, **kw)

        def rows(t):
            """Examples of a tf.data.Dataset of batches (batch_size > 0) or of single examples."""
            for b in t:
                if not bsz:
                    yield b
                    continue
                a = (b["a"] if isinstance(b, dict) else b).numpy()
                for k in range(a.shape[0]):
                    yield {"a": a[k]}
        if r.get("reiterate"):
            # the SAME returned object is iterated several times (epochs of a training loop, two take() calls)
            passes = []
            for _p in range(r["reiterate"]):
                del out[:]
                del objs[:]
                consume(rows(tfds))
                passes.append(list(out))
            return passes
        consume(rows(tfds))
    else:
        raise ValueError(iface)
    if r.get("hold"):
        # the consumer kept every example it was handed and looks at them only now (list(it), look-ahead, manual batching)
        out[:] = [val(e) for e in objs]
    return out


def run_request(root, r, timeout):
    box = {}

    def target():
        try:
            CALLS.clear()
            LEFTOVER.clear()
            LEFTOVER.update(t for t in threading.enumerate() if t is not threading.current_thread())
            OPENS[0] = 0
            SPY["on"] = bool(r.get("spy"))
            if r.get("seed") is not None:
                # fixed LCG seed and a known final shuffle (reverse): the run becomes a function of its inputs, comparable with the model
                import random as _random
                import sedpack.io.itertools.itertools as IT
                saved = (IT.initial_random_state, _random.shuffle)
                IT.initial_random_state = lambda s=None, _v=r["seed"]: np.array([_v], np.uint32)[0]
                _random.shuffle = lambda buf: buf.reverse()
                try:
                    with np.errstate(all="ignore"):
                        box["out"] = iterate(root, r)
                finally:
                    IT.initial_random_state, _random.shuffle = saved
            else:
                box["out"] = iterate(root, r)
            SPY["on"] = False
            if r.get("spy"):
                box["opened_at_yield"] = r.pop("_opened", [])
                box["opened_total"] = OPENS[0]
            if r.get("process"):
                box["calls"] = sorted(CALLS)
        except BaseException as ex:  # noqa: BLE001
            box["error"] = f"{type(ex).__name__}: {str(ex)[:120]}"

    th = threading.Thread(target=target, daemon=True)
    th.start()
    th.join(timeout)
    if th.is_alive():
        return {"hang": True}
    return box


def damage(root, dmg):
    """{"split":0,"which":"first|middle|last","kind":"deleted|emptied|garbage"} applied to a shard file in DFS order."""
    info = json.loads((root / "dataset_info.json").read_text())
    paths = []

    def walk(rel):
        d = json.loads((root / rel).read_text())
        for sh in d.get("shard_files", []):
            paths.append(sh["file_infos"][0]["file_path"])
        for ch in d.get("children_shard_lists", []):
            walk(ch["shard_list_info_file"]["file_path"])
    walk(info["splits"][SPLITS[dmg["split"]]]["shard_list_info_file"]["file_path"])
    idx = {"first": 0, "middle": len(paths) // 2, "last": len(paths) - 1}[dmg["which"]]
    p = root / paths[idx]
    if dmg["kind"] == "deleted":
        p.unlink()
    elif dmg["kind"] == "emptied":
        p.write_bytes(b"")
    else:
        n = p.stat().st_size
        p.write_bytes(bytes((i * 37 + 11) % 256 for i in range(max(64, n))))
    return idx


def damaged_path(root, dmg):
    info = json.loads((root / "dataset_info.json").read_text())
    paths = []

    def walk(rel):
        d = json.loads((root / rel).read_text())
        for sh in d.get("shard_files", []):
            paths.append(sh["file_infos"][0]["file_path"])
        for ch in d.get("children_shard_lists", []):
            walk(ch["shard_list_info_file"]["file_path"])
    walk(info["splits"][SPLITS[dmg["split"]]]["shard_list_info_file"]["file_path"])
    return paths[{"first": 0, "middle": len(paths) // 2, "last": len(paths) - 1}[dmg["which"]]]


def reference(root):
    """Depth-first order of the examples per split, from the JSON files themselves (not through the
    library's own iterator): own shards of a list first, then its children in order."""
    info = json.loads((root / "dataset_info.json").read_text())
    ds = Dataset(root)
    ref = {}

    def walk(rel, seq, shards):
        d = json.loads((root / rel).read_text())
        for sh in d.get("shard_files", []):
            ex = decode_indep(ds, root / sh["file_infos"][0]["file_path"])
            shards.append([ex, int(sh.get("custom_metadata", {}).get("k", 0))])
            seq += ex
        for ch in d.get("children_shard_lists", []):
            walk(ch["shard_list_info_file"]["file_path"], seq, shards)
    for s, li in info["splits"].items():
        seq, shards = [], []
        walk(li["shard_list_info_file"]["file_path"], seq, shards)
        ref[str(SPLITS.index(s))] = {"seq": seq, "shards": shards}
    return ref


def progress(rec):
    p = os.environ.get("VERIF_PROGRESS")
    if p:
        with open(p, "a") as f:
            f.write(json.dumps(rec) + "\n")


def main():
    req = json.load(sys.stdin)
    res = []
    hung = False
    for ji, job in enumerate(req["jobs"]):
        tmp = tempfile.mkdtemp(prefix="verif_iter_")
        try:
            try:
                root = build(job["dataset"], tmp)
                ref = reference(root)
                dmg_idx = damage(root, job["damage"]) if job.get("damage") else None
                rejected = None
                if job.get("damage"):
                    box = {}

                    def probe():
                        try:
                            H.decode(Dataset(root), root / damaged_path(root, job["damage"]))
                            box["r"] = False
                        except BaseException as ex:  # noqa: BLE001
                            box["r"] = type(ex).__name__
                    pt = threading.Thread(target=probe, daemon=True)
                    pt.start()
                    pt.join(10)
                    rejected = box.get("r", "hang")       # a decoder that never returns does not accept the file either
            except Exception as ex:  # noqa: BLE001
                res.append({"build_error": f"{type(ex).__name__}: {ex}"[:300]})
                continue
            outs = []
            progress({"job": ji, "reference": ref, "damaged_index": dmg_idx, "decoder_rejects": rejected if job.get("damage") else None})
            for qi, r in enumerate(job["requests"]):
                if hung:
                    outs.append({"skipped": True})
                    continue
                progress({"job": ji, "start": qi})
                o = run_request(root, r, req.get("timeout", 60))
                progress({"job": ji, "req": qi, "result": o})
                if o.get("hang"):
                    hung = True
                outs.append(o)
            res.append({"reference": ref, "results": outs, "damaged_index": dmg_idx, "decoder_rejects": rejected if job.get("damage") else None})
        finally:
            shutil.rmtree(tmp, ignore_errors=True)
    print("@@RESULT@@" + json.dumps({"jobs": res}))
    sys.stdout.flush()
    os._exit(0)


if __name__ == "__main__":
    main()
