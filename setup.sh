#!/bin/sh
# Build the whole framework offline from files on disk: regenerate the kernels from /repo,
# full .vo build of the Coq development (never -vos/-vok).
set -e
here=$(dirname "$(readlink -f "$0")")
cd "$here"
if command -v python3-vt >/dev/null 2>&1; then PY=python3-vt; else PY=python3; fi
mkdir -p build evidence replays coq/Generated
$PY translator/pygen.py /repo
cd coq
coq_makefile -f _CoqProject -o Makefile
timeout 3000 make -j12
cd ..
[ -x tools/build_native.sh ] && tools/build_native.sh || true
echo "setup done"
