(** C10, second sentence at full strength: the only way a shard of a session is closed short before the session ends is a change of
    the shard-level metadata at that very write. *)
Require Import Sedpack.Model.Base Sedpack.Generated.GenFiller Sedpack.Model.Filler Sedpack.Proofs.FillerProofs.

Lemma metadata_changed_spec a b : metadata_changed a b = true -> a <> 0 /\ b <> 0 /\ a <> b.
Proof.
  unfold metadata_changed, meta_truthy, meta_eqb. intros H.
  apply andb_true_iff in H as [H H3]. apply andb_true_iff in H as [H1 H2].
  apply negb_true_iff in H1, H2, H3. apply Nat.eqb_neq in H1, H2, H3. auto.
Qed.

Section FC.
Variable eps : nat.
Hypothesis eps_pos : 1 <= eps.

(** what one [write_example] does to the list of closed shards *)
Lemma write_example_closed st s cm ok : Inv eps st ->
  let p0 := match f_open st s with Some p => p | None => {| p_shard := fresh_shard (f_next st); p_written := 0 |} end in
  let changed := metadata_changed (cm_value (f_heap st) cm) (mval (f_heap st) (sh_meta (p_shard p0))) in
  f_closed (fst (write_example eps st s cm ok)) =
    if rollover (p_written p0) eps changed then f_closed st ++ [(s, p_shard p0)] else f_closed st.
Proof.
  intros HI. unfold write_example. rewrite order_is.
  destruct (f_open st s) as [p|] eqn:Eo; cbv zeta; cbn [run_tags exec_tag];
    (destruct (rollover _ eps _) eqn:Er; cbn [w_prog w_closed w_next p_shard p_written];
     (destruct cm as [o|]; [destruct (meta_truthy (hget (f_heap st) o))|]; cbn [w_prog w_closed w_next p_shard p_written];
      destruct ok; cbn [fst f_closed w_closed]; reflexivity)).
Qed.

Theorem short_close_is_metadata_change ops s cm ok sh :
  let st := run_ops eps ops in
  f_closed (fst (write_example eps st s cm ok)) = f_closed st ++ [(s, sh)] ->
  length (sh_ex sh) = eps \/
  (1 <= length (sh_ex sh) /\ cm_value (f_heap st) cm <> 0 /\ mval (f_heap st) (sh_meta sh) <> 0 /\ cm_value (f_heap st) cm <> mval (f_heap st) (sh_meta sh)).
Proof.
  cbv zeta. intros H. pose proof (run_inv eps eps_pos ops) as HI. rewrite (write_example_closed _ s cm ok HI) in H. cbv zeta in H.
  destruct (f_open (run_ops eps ops) s) as [p|] eqn:Eo.
  - destruct (rollover (p_written p) eps _) eqn:Er.
    + apply app_inv_head in H. injection H as <-. destruct (i_open _ _ HI s p Eo) as (Hl & _ & Hle).
      apply rollover_sound in Er as [Hf | [Hc Hw]]; [left; lia|]. right. apply metadata_changed_spec in Hc as (A & B & C). rewrite Hl. auto.
    + exfalso. apply (f_equal (@length _)) in H. rewrite app_length in H. cbn in H. lia.
  - cbn [p_written] in H. match type of H with (if ?r then _ else _) = _ => destruct r eqn:Er end.
    + exfalso. apply rollover_sound in Er as [Hf | [_ Hw]]; lia.
    + exfalso. apply (f_equal (@length _)) in H. rewrite app_length in H. cbn in H. lia.
Qed.
End FC.
