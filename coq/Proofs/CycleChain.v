(** C19: the unshuffled repeating synchronous reader as a composition — the lazy chain of shards over [itertools.cycle] of the
    paths — is periodic: the k-th example is the (k mod N)-th example of one pass, for every k. *)
Require Import Sedpack.Model.Base Sedpack.Generated.GenIter Sedpack.Model.Iter Sedpack.Proofs.IterProofs Sedpack.Proofs.ChainProofs.

Section CC.
Variables (path ex : Type) (read : path -> list ex) (l : list path) (dp : path) (de : ex).
Hypothesis l_ne : l <> [].
Hypothesis shard_ne : forall p, 1 <= length (read p).
Let len := length l.
Let flat := concat (map read l).
Let psrc := cycle_source l dp.
Notation csrc := (chain_source path ex psrc read).

Definition pth (j : nat) : path := nth (j mod len) l dp.
Definition flatpaths (i m : nat) : list ex := concat (map read (map pth (seq i m))).

(** the k-th element pulled from a chain state *)
Definition chain_nth (k : nat) (s : cstate path ex psrc) : option ex :=
  match after csrc k s with Some s' => option_map fst (chain_next path ex psrc read s') | None => None end.

Lemma len_pos : 0 < len.
Proof. unfold len. destruct l; [congruence | cbn; lia]. Qed.

Lemma flatpaths_len i m : m <= length (flatpaths i m).
Proof.
  revert i; induction m as [|m IH]; intros i; [lia|]. unfold flatpaths in *. cbn [seq map concat]. rewrite app_length.
  specialize (IH (S i)). pose proof (shard_ne (pth i)). lia.
Qed.
Lemma flatpaths_S i m : flatpaths i (S m) = flatpaths i m ++ read (pth (i + m)).
Proof.
  revert i; induction m as [|m IH]; intros i; unfold flatpaths in *; [cbn; rewrite Nat.add_0_r, app_nil_r; reflexivity|].
  change (seq i (S (S m))) with (i :: seq (S i) (S m)). cbn [map concat]. rewrite (IH (S i)). cbn [seq map concat]. rewrite app_assoc. f_equal. f_equal. f_equal. lia.
Qed.
Lemma flatpaths_ext c i m m' k : S k <= m -> m <= m' -> nth k (c ++ flatpaths i m') de = nth k (c ++ flatpaths i m) de.
Proof.
  intros Hk Hm. induction Hm as [|m' Hm IH]; [reflexivity|]. rewrite flatpaths_S, app_assoc, app_nth1; [exact IH|].
  rewrite app_length. pose proof (flatpaths_len i m'). lia.
Qed.

Lemma chain_nth_spec k : forall i c op em, chain_nth k {| c_src := i; c_cur := c; c_opened := op; c_emitted := em |} = Some (nth k (c ++ flatpaths i (S k)) de).
Proof.
  induction k as [|k IH]; intros i c op em; unfold chain_nth in *.
  - cbn [after]. unfold chain_next. cbn [c_cur c_src]. destruct c as [|x t]; [|reflexivity].
    cbn [s_next psrc cycle_source]. fold len. fold (pth i). pose proof (shard_ne (pth i)) as Hp. unfold flatpaths. cbn [seq map concat app]. rewrite app_nil_r.
    destruct (read (pth i)) as [|x t]; [cbn in Hp; lia | reflexivity].
  - cbn [after]. cbn [s_next chain_source]. unfold chain_next at 1. cbn [c_cur c_src]. destruct c as [|x t].
    + cbn [s_next psrc cycle_source]. fold len. fold (pth i). pose proof (shard_ne (pth i)) as Hp.
      destruct (read (pth i)) as [|x t] eqn:Er; [cbn in Hp; lia|].
      rewrite IH. f_equal. unfold flatpaths. change (seq i (S (S k))) with (i :: seq (S i) (S k)). cbn [map concat app]. rewrite Er. reflexivity.
    + rewrite IH. f_equal. cbn [app nth]. symmetry. apply (flatpaths_ext t i (S k) (S (S k)) k); lia.
Qed.

(** whole cycles *)
Lemma nth_concat_repeat {A} (xs : list A) (d : A) : xs <> [] -> forall r k, k < r * length xs -> nth k (concat (repeat xs r)) d = nth (k mod length xs) xs d.
Proof.
  intros Hne. assert (Hl : 0 < length xs) by (destruct xs; [congruence | cbn; lia]).
  induction r as [|r IH]; intros k Hk; [lia|]. cbn [repeat concat].
  destruct (Nat.lt_ge_cases k (length xs)) as [Hlt | Hge].
  - rewrite app_nth1 by exact Hlt. rewrite Nat.mod_small by exact Hlt. reflexivity.
  - rewrite app_nth2 by exact Hge. rewrite IH by (cbn in Hk; lia). f_equal.
    replace k with ((k - length xs) + 1 * length xs) at 2 by lia. rewrite Nat.mod_add by lia. reflexivity.
Qed.
Lemma one_cycle i : i mod len = 0 -> map pth (seq i len) = l.
Proof.
  intros Hi. apply (nth_ext _ _ dp dp); [rewrite map_length, seq_length; reflexivity|].
  intros n Hn. rewrite map_length, seq_length in Hn. rewrite (nth_indep _ dp (pth 0)) by (rewrite map_length, seq_length; exact Hn).
  rewrite map_nth, seq_nth by exact Hn. unfold pth. f_equal.
  rewrite Nat.add_mod by (pose proof len_pos; lia). rewrite Hi, Nat.add_0_l, Nat.mod_mod by (pose proof len_pos; lia). apply Nat.mod_small. exact Hn.
Qed.
Lemma cycles r : forall i, i mod len = 0 -> map pth (seq i (r * len)) = concat (repeat l r).
Proof.
  induction r as [|r IH]; intros i Hi; [reflexivity|]. cbn [Nat.mul repeat concat]. rewrite seq_app, map_app, (one_cycle i Hi). f_equal. apply IH.
  rewrite Nat.add_mod by (pose proof len_pos; lia). rewrite Hi, Nat.mod_same by (pose proof len_pos; lia). cbn. apply Nat.mod_0_l. pose proof len_pos; lia.
Qed.
Lemma concat_map_repeat {A B} (g : A -> list B) (xs : list A) r : concat (map g (concat (repeat xs r))) = concat (repeat (concat (map g xs)) r).
Proof. induction r as [|r IH]; [reflexivity|]. cbn [repeat concat]. rewrite map_app, concat_app, IH. reflexivity. Qed.

Lemma flat_ne : flat <> [].
Proof. unfold flat. destruct l as [|p t]; [congruence|]. cbn [map concat]. pose proof (shard_ne p). destruct (read p); [cbn in *; lia | discriminate]. Qed.

(** as_numpy_iterator(shuffle=0, repeat=True): for every k, the k-th example handed over is example (k mod N) of a single pass *)
Theorem chain_cycle_periodic k s0 : s0 = chain_init path ex psrc 0 -> chain_nth k s0 = Some (nth (k mod length flat) flat de).
Proof.
  intros ->. unfold chain_init. rewrite chain_nth_spec. f_equal.
  assert (Hm : S k <= S k * len) by (pose proof len_pos; nia).
  rewrite <- (flatpaths_ext [] 0 (S k) (S k * len) k (le_n _) Hm). cbn [app]. unfold flatpaths.
  rewrite (cycles (S k) 0) by (apply Nat.mod_0_l; pose proof len_pos; lia). rewrite concat_map_repeat. fold flat.
  apply nth_concat_repeat; [apply flat_ne|]. pose proof flat_ne as Hf. assert (0 < length flat) by (destruct flat; [congruence | cbn; lia]). nia.
Qed.
End CC.
