(** M6: the metadata tree of a dataset — shard lists, their merge into the dataset description,
    the depth-first shard iterator and the integrity check — as executable Gallina over a flat
    file-system model.  [merge] follows merge_shard_infos.py line by line; the decision kernels
    (partition tests, the single-update assertion) come from [Generated/GenMerge.v]. *)
Require Import Sedpack.Model.Base Sedpack.Generated.GenFiller Sedpack.Model.Filler Sedpack.Generated.GenMerge.
Local Open Scope Z_scope.

(** A directory inside the dataset: the split code followed by sub-directory names.
    [[0; 7; 8]] is [train/7/8]; its list file is [train/7/8/shards_list.json]. *)
Definition dpath := list nat.
Fixpoint dpath_eqb (a b : dpath) : bool :=
  match a, b with [], [] => true | x :: a', y :: b' => Nat.eqb x y && dpath_eqb a' b' | _, _ => false end.

(** Digests: the model identifies a digest with the write event that produced the content
    (a version counter); two different write events never share a digest. *)
Definition digest := nat.

Record shard_info := { sh_dir : dpath; sh_name : nat; sh_num : nat; sh_md : meta; sh_hash : digest }.
Record list_info := { li_dir : dpath; li_hash : digest; li_nex : Z; li_nsh : Z }.
Record shards_list := { sl_dir : dpath; sl_nex : Z; sl_files : list shard_info; sl_children : list list_info }.

(** File system: list documents and shard files (latest binding first), the version counter, and
    the counter for fresh names (uuid4). *)
Record fsT := {
  lists : list (dpath * (shards_list * digest));
  shards : list ((dpath * nat) * (list nat * digest));
  ver : nat;
  fresh : nat;
  base : nat      (* payload offset of the examples of the running session (harness convention) *)
}.

Fixpoint lookup {V} (d : dpath) (l : list (dpath * V)) : option V :=
  match l with [] => None | (k, v) :: t => if dpath_eqb k d then Some v else lookup d t end.
Fixpoint lookup_shard (d : dpath) (n : nat) (l : list ((dpath * nat) * (list nat * digest))) : option (list nat * digest) :=
  match l with
  | [] => None
  | ((k, m), v) :: t => if dpath_eqb k d && Nat.eqb m n then Some v else lookup_shard d n t
  end.

Definition empty_list (d : dpath) : shards_list := {| sl_dir := d; sl_nex := 0; sl_files := []; sl_children := [] |}.
Definition load_or_create (fs : fsT) (d : dpath) : shards_list :=
  match lookup d (lists fs) with Some (s, _) => s | None => empty_list d end.

Definition nsh_of (s : shards_list) : Z :=
  Z.of_nat (length (sl_files s)) + fold_left (fun z c => z + li_nsh c) (sl_children s) 0.

(** [ShardsList.write_config]: replace the file, return its summary. *)
Definition write_list (fs : fsT) (s : shards_list) : fsT * list_info :=
  let h := S (ver fs) in
  ({| lists := (sl_dir s, (s, h)) :: lists fs; shards := shards fs; ver := h; fresh := fresh fs; base := base fs |},
   {| li_dir := sl_dir s; li_hash := h; li_nex := sl_nex s; li_nsh := nsh_of s |}).

Inductive err := OutOfFuel | AssertNothing | PrefixMismatch | AssertSingle | AssertPartition | ErrExists | ErrNoSplit.
Inductive res (X : Type) := Ok (x : X) | Err (e : err).
Arguments Ok {X}. Arguments Err {X}.

(** Group by the component at index [common], in first-appearance order (a Python dict). *)
Fixpoint insert_group (k : nat) (u : list_info) (g : list (nat * list list_info)) : list (nat * list list_info) :=
  match g with
  | [] => [(k, [u])]
  | (k', us) :: t => if Nat.eqb k k' then (k', us ++ [u]) :: t else (k', us) :: insert_group k u t
  end.
Definition group_by (common : nat) (us : list list_info) : list (nat * list list_info) :=
  fold_left (fun g u => insert_group (nth common (li_dir u) 0%nat) u g) us [].

Fixpoint merge (fuel : nat) (updates : list list_info) (common : nat) (fs : fsT) : res (fsT * list_info) :=
  match fuel with
  | O => Err OutOfFuel
  | S fuel' =>
    match updates with
    | [] => Err AssertNothing
    | u0 :: _ =>
      if negb (forallb (fun u => dpath_eqb (firstn common (li_dir u)) (firstn common (li_dir u0))) updates)
      then Err PrefixMismatch else
      let dir := firstn common (li_dir u0) in
      let root := load_or_create fs dir in
      let current := filter (fun u => is_current_level (length (li_dir u)) common) updates in
      let deeper := filter (fun u => is_deeper_level (length (li_dir u)) common) updates in
      if negb (Nat.eqb (length current + length deeper) (length updates)) then Err AssertPartition else
      if merge_asserts_single_update && Nat.ltb 1 (length current) then Err AssertSingle else
      let nex1 := fold_left (fun z c => z - li_nex c) (sl_children root) (sl_nex root) in
      let deeper' := deeper ++ sl_children root in
      let groups := group_by common deeper' in
      let rec := fold_left (fun (acc : res (fsT * list list_info)) (g : nat * list list_info) =>
                    match acc with
                    | Err e => Err e
                    | Ok (fs1, done) =>
                        match merge fuel' (snd g) (S common) fs1 with
                        | Err e => Err e
                        | Ok (fs2, info) => Ok (fs2, done ++ [info])
                        end
                    end) groups (Ok (fs, [])) in
      match rec with
      | Err e => Err e
      | Ok (fs3, merged) =>
          let nex2 := fold_left (fun z c => z + li_nex c) merged nex1 in
          Ok (write_list fs3 {| sl_dir := dir; sl_nex := nex2; sl_files := sl_files root; sl_children := merged |})
      end
    end
  end.

Definition FUEL : nat := 40.

(** The dataset description: per split (insertion order) the summary of its root list. *)
Definition dinfo := list (nat * list_info).
Fixpoint dset (i : dinfo) (s : nat) (v : list_info) : dinfo :=
  match i with
  | [] => [(s, v)]
  | (s', v') :: t => if Nat.eqb s s' then (s, v) :: t else (s', v') :: dset t s v
  end.
Fixpoint dget (i : dinfo) (s : nat) : option list_info :=
  match i with [] => None | (s', v) :: t => if Nat.eqb s s' then Some v else dget t s end.

(** [Dataset.write_config]: group the updates by split (first-appearance order), merge each. *)
Definition group_split (us : list list_info) : list (nat * list list_info) := group_by 0 us.
Definition write_config (fs : fsT) (info : dinfo) (updates : list list_info) : res (fsT * dinfo) :=
  fold_left (fun (acc : res (fsT * dinfo)) (g : nat * list list_info) =>
      match acc with
      | Err e => Err e
      | Ok (fs1, i1) =>
          match merge FUEL (snd g) 1 fs1 with
          | Err e => Err e
          | Ok (fs2, li) => Ok (fs2, dset i1 (fst g) li)
          end
      end) (group_split updates) (Ok (fs, info)).

(** One filler (root or sub-directory [sub]) writing the shards [closes] (split, shard) in close
    order: shard file, then [close_shard]'s load-or-create / append / count / write; at exit the
    touched lists are rewritten (first-close order) and returned as updates. *)
Definition add_shard (fs : fsT) (d : dpath) (sh : Filler.shard) (h : heap) : fsT :=
  let nm := fresh fs in
  let hs := S (ver fs) in
  let fs1 := {| lists := lists fs; shards := ((d, nm), (map (Nat.add (base fs)) (sh_ex sh), hs)) :: shards fs; ver := hs; fresh := S nm; base := base fs |} in
  let l := load_or_create fs1 d in
  let l' := {| sl_dir := sl_dir l; sl_nex := sl_nex l + Z.of_nat (sh_n sh);
               sl_files := sl_files l ++ [{| sh_dir := d; sh_name := nm; sh_num := sh_n sh; sh_md := mval h (sh_meta sh); sh_hash := hs |}];
               sl_children := sl_children l |} in
  fst (write_list fs1 l').

Fixpoint touched (closes : list (split * Filler.shard)) (acc : list nat) : list nat :=
  match closes with
  | [] => acc
  | (s, _) :: t => let c := split_code s in touched t (if existsb (Nat.eqb c) acc then acc else acc ++ [c])
  end.

Definition filler_session (fs : fsT) (sub : list nat) (eps : nat) (ops : list wop) : fsT * list list_info :=
  let st := run_ops eps ops in
  let closes := f_closed st ++ exit_closes st in
  let fs1 := fold_left (fun fs0 c => add_shard fs0 (split_code (fst c) :: sub) (snd c) (f_heap st)) closes fs in
  let '(fs3, ups) := fold_left (fun (acc : fsT * list list_info) (c : nat) =>
      let (fs2, li) := write_list (fst acc) (load_or_create (fst acc) (c :: sub)) in (fs2, snd acc ++ [li]))
    (touched closes []) (fs1, []) in
  ({| lists := lists fs3; shards := shards fs3; ver := ver fs3; fresh := fresh fs3; base := (base fs3 + 100)%nat |}, ups).

(** Sessions of a history. *)
Inductive session :=
| SFiller (sub : list nat) (ops : list wop)            (* DatasetFiller(ds, relative_path_from_split = sub) *)
| SMulti (writers : list (list wop)).                  (* write_multiprocessing, argument order *)

Definition run_session (eps : nat) (st : fsT * dinfo) (s : session) : res (fsT * dinfo) :=
  let (fs, info) := st in
  match s with
  | SFiller sub ops =>
      let (fs1, ups) := filler_session fs sub eps ops in
      match ups with [] => Ok (fs1, info) | _ => write_config fs1 info ups end
  | SMulti writers =>
      (* every writer gets a fresh directory name when the call starts *)
      let '(fs1, ups, _) := fold_left (fun (acc : fsT * list list_info * nat) (ops : list wop) =>
            let '(fs0, us, k) := acc in
            let (fs', u) := filler_session fs0 [k] eps ops in (fs', us ++ u, S k))
          writers ({| lists := lists fs; shards := shards fs; ver := ver fs; fresh := (fresh fs + length writers)%nat; base := base fs |}, [], fresh fs) in
      match ups with [] => Ok (fs1, info) | _ => write_config fs1 info ups end
  end.

Definition fs0 : fsT := {| lists := []; shards := []; ver := 0; fresh := 1000; base := 0 |}.
Definition run_history (eps : nat) (h : list session) : res (fsT * dinfo) :=
  fold_left (fun acc s => match acc with Err e => Err e | Ok st => run_session eps st s end) h (Ok (fs0, [])).

(** [shard_info_iterator]: own shards, then the children depth first. *)
Fixpoint dfs (fuel : nat) (fs : fsT) (d : dpath) : list shard_info :=
  match fuel with
  | O => []
  | S f => match lookup d (lists fs) with
           | None => []
           | Some (s, _) => sl_files s ++ flat_map (fun c => dfs f fs (li_dir c)) (sl_children s)
           end
  end.
Definition examples_of (fs : fsT) (sh : shard_info) : list nat :=
  match lookup_shard (sh_dir sh) (sh_name sh) (shards fs) with Some (ex, _) => ex | None => [] end.
Definition iterate (fs : fsT) (info : dinfo) (s : nat) : list nat :=
  match dget info s with Some li => flat_map (examples_of fs) (dfs FUEL fs (li_dir li)) | None => [] end.

(** Executable exactness oracle (C04) for the subtree summarised by [li]. *)
Definition sumZ {X} (f : X -> Z) (l : list X) : Z := fold_left (fun z x => z + f x) l 0.
Definition shard_exact (fs : fsT) (d : dpath) (sh : shard_info) : bool :=
  dpath_eqb (sh_dir sh) d &&
  match lookup_shard d (sh_name sh) (shards fs) with
  | Some (ex, h) => Nat.eqb (length ex) (sh_num sh) && Nat.eqb h (sh_hash sh)
  | None => false
  end.
Fixpoint exact (fuel : nat) (fs : fsT) (li : list_info) : bool :=
  match fuel with
  | O => false
  | S f =>
      match lookup (li_dir li) (lists fs) with
      | None => false
      | Some (s, h) =>
          Nat.eqb h (li_hash li) && dpath_eqb (sl_dir s) (li_dir li) &&
          Z.eqb (li_nex li) (sl_nex s) && Z.eqb (li_nsh li) (nsh_of s) &&
          forallb (shard_exact fs (li_dir li)) (sl_files s) &&
          Z.eqb (sl_nex s) (sumZ (fun sh => Z.of_nat (sh_num sh)) (sl_files s) + sumZ li_nex (sl_children s)) &&
          forallb (fun c => dpath_eqb (firstn (length (li_dir li)) (li_dir c)) (li_dir li) &&
                            Nat.eqb (length (li_dir c)) (S (length (li_dir li))) && exact f fs c) (sl_children s)
      end
  end.
Fixpoint nodup_names (l : list (dpath * nat)) : bool :=
  match l with [] => true | (d, n) :: t => negb (existsb (fun x => dpath_eqb (fst x) d && Nat.eqb (snd x) n) t) && nodup_names t end.
Definition all_listed (fs : fsT) (info : dinfo) : list (dpath * nat) :=
  flat_map (fun e => map (fun sh => (sh_dir sh, sh_name sh)) (dfs FUEL fs (li_dir (snd e)))) info.
Definition exact_all (fs : fsT) (info : dinfo) : bool :=
  forallb (fun e => exact FUEL fs (snd e) && dpath_eqb (li_dir (snd e)) [fst e]) info &&
  nodup_names (all_listed fs info) &&
  forallb (fun k => existsb (fun x => dpath_eqb (fst x) (fst (fst k)) && Nat.eqb (snd x) (snd (fst k))) (all_listed fs info)) (shards fs).

(** [check]: recorded digests of every reachable list file and shard file match the disk. *)
Fixpoint check_lists (fuel : nat) (fs : fsT) (li : list_info) : bool :=
  match fuel with
  | O => false
  | S f => match lookup (li_dir li) (lists fs) with
           | None => false
           | Some (s, h) => Nat.eqb h (li_hash li) && forallb (check_lists f fs) (sl_children s)
           end
  end.
Definition check (fs : fsT) (info : dinfo) : bool :=
  forallb (fun e => check_lists FUEL fs (snd e)) info &&
  forallb (fun e => forallb (fun sh => match lookup_shard (sh_dir sh) (sh_name sh) (shards fs) with
                                       | Some (_, h) => Nat.eqb h (sh_hash sh) | None => false end)
                            (dfs FUEL fs (li_dir (snd e)))) info.

(** Canonical dump compared with the implementation after every session. *)
Definition node := (dpath * (Z * (list (nat * (list nat * meta)) * list (dpath * (Z * Z)))))%type.
Fixpoint dump (fuel : nat) (fs : fsT) (d : dpath) : list node :=
  match fuel with
  | O => []
  | S f => match lookup d (lists fs) with
           | None => []
           | Some (s, _) =>
               (d, (sl_nex s, (map (fun sh => (sh_num sh, (examples_of fs sh, sh_md sh))) (sl_files s),
                               map (fun c => (li_dir c, (li_nex c, li_nsh c))) (sl_children s))))
               :: flat_map (fun c => dump f fs (li_dir c)) (sl_children s)
           end
  end.
Definition observe_state (st : fsT * dinfo) :=
  let (fs, info) := st in
  (map (fun e => (fst e, (li_nex (snd e), li_nsh (snd e)))) info,
   (flat_map (fun e => dump FUEL fs (li_dir (snd e))) info,
    (map (fun e => (fst e, iterate fs info (fst e))) info, (exact_all fs info, check fs info)))).
