#!/bin/sh
# Rebuild the Rust extension from /repo/rust (offline, incremental) and expose it through an overlay package:
# build/overlay/sedpack/<entry> -> /repo/src/sedpack/<entry> (symlinks), except _sedpack_rs*.so = the fresh build.
set -e
here=$(dirname "$(readlink -f "$0")")/..
cd "$here"
mkdir -p build/cargo build/overlay
CARGO_NET_OFFLINE=true timeout 1200 cargo build --release --offline --features pyo3/extension-module \
   --manifest-path /repo/rust/Cargo.toml --target-dir build/cargo >build/cargo.log 2>&1 || { tail -20 build/cargo.log; exit 1; }
so=$(ls build/cargo/release/lib*sedpack_rs.so | head -1)
rm -rf build/overlay/sedpack.new && mkdir -p build/overlay/sedpack.new
for e in /repo/src/sedpack/*; do
  b=$(basename "$e")
  case "$b" in _sedpack_rs*.so|__pycache__) ;; *) ln -s "$e" build/overlay/sedpack.new/"$b";; esac
done
cp "$so" build/overlay/sedpack.new/_sedpack_rs.cpython-312-x86_64-linux-gnu.so
rm -rf build/overlay/sedpack.old; [ -d build/overlay/sedpack ] && mv build/overlay/sedpack build/overlay/sedpack.old
mv build/overlay/sedpack.new build/overlay/sedpack; rm -rf build/overlay/sedpack.old
echo "native extension rebuilt: $so"
