"""Generator of filler op sequences (shared by C10, C11, C18, C04)."""
from __future__ import annotations


def corpus():
    """Minimised historical failures and boundary cases: always run first."""
    W, M = "W", "M"
    return [
        # rejected write carrying metadata, then a write with different metadata (empty shard closed)
        {"eps": 3, "ops": [[M, 1, 1], [M, 2, 2], [W, 0, 1, False], [W, 0, 2, True]]},
        # same dict mutated between writes (aliasing, F6)
        {"eps": 4, "ops": [[M, 1, 1], [W, 0, 1, True], [W, 0, 1, True], [M, 1, 2], [W, 0, 1, True], [W, 0, 1, True]]},
        # mutate an object after its last use, then an equal value through another object
        {"eps": 5, "ops": [[M, 1, 5], [W, 0, 1, True], [M, 1, 7], [M, 2, 5], [W, 0, 2, True]]},
        # exact multiples and +-1
        {"eps": 2, "ops": [[W, 0, None, True]] * 4},
        {"eps": 2, "ops": [[W, 0, None, True]] * 5},
        {"eps": 2, "ops": [[W, 0, None, True]] * 3},
        {"eps": 1, "ops": [[W, 0, None, True], [W, 1, None, True], [W, 0, None, True]]},
        {"eps": 3, "ops": []},
        # rejected write exactly at the roll-over boundary, and as the only write
        {"eps": 2, "ops": [[W, 0, None, True], [W, 0, None, True], [W, 0, None, False], [W, 0, None, True]]},
        {"eps": 2, "ops": [[W, 1, None, False]]},
        # metadata first provided late (retroactive labelling), then changed at a boundary
        {"eps": 2, "ops": [[M, 1, 3], [M, 2, 4], [W, 0, None, True], [W, 0, 1, True], [W, 0, 2, True], [W, 0, 2, True], [W, 0, 1, True]]},
        # a change in the middle of a shard followed by more than a shard of the new value
        {"eps": 4, "ops": [[M, 1, 1], [M, 2, 2]] + [[W, 0, 1, True]] * 2 + [[W, 0, 2, True]] * 9},
        # a rejected write carrying another value in the middle of a shard (the roll-over and the label precede the validation)
        {"eps": 4, "ops": [[M, 1, 1], [M, 2, 2], [W, 0, 1, True], [W, 0, 1, True], [W, 0, 2, False], [W, 0, 1, True], [W, 0, 1, True]]},
        # metadata first provided right after an exact multiple of the shard size
        {"eps": 4, "ops": [[M, 1, 1]] + [[W, 0, None, True]] * 4 + [[W, 0, 1, True]] * 3},
    ]


def gen_runs_case(rng):
    """One or two splits; the metadata value is held for runs whose lengths straddle the shard size, so that changes fall in the
    middle of shards and are followed by more than a shard of the new value (and metadata may start late, at or off a boundary)."""
    eps = rng.choice([2, 3, 4, 4, 5])
    nobj = rng.choice([2, 3])
    ops = [["M", o, o] for o in range(1, nobj + 1)]
    splits = rng.sample([0, 1, 2], rng.choice([1, 1, 2]))
    cur = {s: rng.choice([None, 1, 2]) for s in splits}
    left = {s: rng.choice([1, 2, eps - 1, eps, eps + 1, 2 * eps]) for s in splits}
    for _ in range(rng.choice([2, 3, 4]) * eps + rng.choice([0, 1, 2, 3])):
        s = rng.choice(splits)
        if left[s] <= 0:
            cur[s] = rng.choice([v for v in list(range(1, nobj + 1)) + [None] if v != cur[s]])
            left[s] = rng.choice([1, eps - 1, eps, eps + 1, eps + 2, 2 * eps + 1])
        ops.append(["W", s, cur[s], True])
        left[s] -= 1
    return {"eps": eps, "ops": ops}


def gen_case(rng):
    if rng.random() < 0.25:
        return gen_runs_case(rng)
    eps = rng.choice([1, 1, 2, 2, 3, 3, 4, 5])
    nsplits = rng.choice([1, 1, 2, 3])
    splits = rng.sample([0, 1, 2], nsplits)
    ops = []
    # metadata behaviour per case
    mode = rng.choice(["none", "none", "const", "alternate", "mutate_same", "mixed"])
    nobj = {"none": 0, "const": 1, "alternate": rng.choice([2, 3]), "mutate_same": 1, "mixed": 3}[mode]
    for o in range(1, nobj + 1):
        ops.append(["M", o, rng.choice([1, 2, 3]) if mode != "mixed" else rng.choice([0, 1, 2])])
    reject_p = rng.choice([0, 0, 0, 0.1, 0.25])
    # per split target counts around the interesting boundaries
    for s in splits:
        k = rng.choice([0, 1, 2, 3])
        target = max(0, k * eps + rng.choice([-1, 0, 0, 1]))
        if rng.random() < 0.15:
            target = rng.choice([0, 1])
        splits_count = target
        for _ in range(splits_count):
            ops.append(["pending", s])
    pend = [o for o in ops if o[0] == "pending"]
    head = [o for o in ops if o[0] != "pending"]
    rng.shuffle(pend) if rng.random() < 0.7 else None
    out = list(head)
    for _, s in pend:
        if mode == "none":
            cm = None
        elif mode == "const":
            cm = rng.choice([1, 1, 1, None])
        elif mode == "alternate":
            cm = rng.choice(list(range(1, nobj + 1)) + [None])
        elif mode == "mutate_same":
            if rng.random() < 0.3:
                out.append(["M", 1, rng.choice([1, 2, 3])])
            cm = rng.choice([1, 1, None])
        else:
            if rng.random() < 0.2:
                out.append(["M", rng.randint(1, nobj), rng.choice([0, 1, 2, 3])])
            cm = rng.choice([1, 2, 3, None])
        out.append(["W", s, cm, True])
        if rng.random() < reject_p:
            out.append(["W", s, rng.choice([cm, None]), False])
    return {"eps": eps, "ops": out}


def coq_ops(ops):
    sp = ["Train", "Test", "Holdout"]
    parts = []
    for op in ops:
        if op[0] == "M":
            parts.append(f"WMutate {op[1]} {op[2]}")
        else:
            cm = "None" if op[2] is None else f"(Some {op[2]})"
            parts.append(f"WWrite {sp[op[1]]} {cm} {'true' if op[3] else 'false'}")
    return "[" + "; ".join(parts) + "]"


def at_write_values(ops):
    """Per split: list of (op index, metadata value at write time or 0, ok)."""
    heap, res = {}, {0: [], 1: [], 2: []}
    for i, op in enumerate(ops):
        if op[0] == "M":
            heap[op[1]] = op[2]
        else:
            v = 0 if op[2] is None else heap.get(op[2], 0)
            res[op[1]].append((i, v, op[3]))
    return res


def features(case):
    ops = case["ops"]
    w = [o for o in ops if o[0] == "W"]
    f = []
    if any(not o[3] for o in w):
        f.append("reject")
    if any(o[0] == "M" for o in ops[1:]) and any(o[2] is not None for o in w):
        f.append("meta")
    per = {}
    for o in w:
        if o[3]:
            per[o[1]] = per.get(o[1], 0) + 1
    if any(n > case["eps"] for n in per.values()):
        f.append("roll")
    if any(n % case["eps"] for n in per.values()):
        f.append("short-last")
    if len(per) > 1:
        f.append("multi-split")
    return f
