#!/bin/sh
# tools/confirm_seed.sh <seed dir>: in the scratch worktree /tmp/seedwork (at /repo HEAD) show that the demo
# fails with the patch and passes without it.  With FULL=1 also run the whole test-suite with the patch.
d=$(readlink -f "$1"); W=/tmp/seedwork
[ -d $W ] || git -C /repo worktree add --detach $W HEAD -q
cd $W && git checkout -q --detach $(git -C /repo rev-parse HEAD) && git checkout -- . || exit 2
cp -n /repo/src/sedpack/_sedpack_rs.cpython-312-x86_64-linux-gnu.so $W/src/sedpack/ 2>/dev/null
demo=$(ls $d/demo.* | head -1)
run() { case $demo in *.py) SEDPACK_SRC=$W/src PYTHONPATH=$W/src PYTHONHASHSEED=0 TF_CPP_MIN_LOG_LEVEL=3 timeout 300 /venv/bin/python $demo >/tmp/seed_demo.log 2>&1;; *) SEDPACK_SRC=$W/src PYTHONPATH=$W/src timeout 300 sh $demo >/tmp/seed_demo.log 2>&1;; esac; echo $?; }
without=$(run)
git apply $d/patch.diff || { echo "patch does not apply"; exit 3; }
with=$(run)
suite=skipped
if [ -n "$FULL" ]; then
  PYTHONPATH=$W/src timeout 1500 /venv/bin/python -m pytest -q -p no:cacheprovider --timeout=900 tests >/tmp/seed_suite.log 2>&1
  suite=$(tail -1 /tmp/seed_suite.log)
fi
git checkout -- .
echo "$(basename $d): demo without patch rc=$without, with patch rc=$with, suite: $suite"
