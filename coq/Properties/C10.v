(** C10 — Shards respect the configured size.
    Property theorems only; each is closed by [exact] of a lemma proved in Proofs/. *)
Require Import Sedpack.Model.Base Sedpack.Generated.GenFiller Sedpack.Model.Filler Sedpack.Proofs.FillerProofs Sedpack.Proofs.FillerChange.

(** For every shard size >= 1 and every sequence of caller operations inside a filler context
    (writes to any interleaving of splits, with or without metadata, accepted or rejected by the
    shard writer, and caller-side mutations of metadata objects), every shard that the session
    records (closed by a roll-over or by leaving the context) holds between 1 and
    [examples_per_shard] examples and records exactly that number. *)
Theorem c10_closed_sizes_ok :
  forall (eps : nat), 1 <= eps -> forall (ops : list wop), sizes_ok eps ops = true.
Proof. exact sizes_ok_lemma. Qed.
Print Assumptions c10_closed_sizes_ok.

(** Within one session and split, if [metadata_changed] never fired for that split, every shard
    except the last one recorded for the split is full. *)
Theorem c10_all_but_last_full :
  forall (eps : nat), 1 <= eps -> forall (ops : list wop) (s : split),
    changed_in eps ops s = false -> all_but_last_full eps ops s = true.
Proof. exact all_but_last_full_lemma. Qed.
Print Assumptions c10_all_but_last_full.

(** Non-vacuity: a concrete session with roll-overs, a metadata change, a rejected write and two
    splits produces five shards, satisfies the hypotheses, and one split has a short last shard. *)
(** The second sentence of the property at full strength, write by write: whenever a [write_example] call of a session closes a
    shard (i.e. before the session ends), that shard is full, or the shard-level metadata changes at this very write: the value
    passed and the shard's metadata are two different non-empty values (and the shard is not empty).  The write in question may
    itself be rejected by the shard writer afterwards: the roll-over precedes the validation (generated effect order). *)
Theorem c10_short_shard_only_at_metadata_change :
  forall (eps : nat), 1 <= eps -> forall (ops : list wop) (s : split) (cm : option obj) (ok : bool) (sh : shard),
    let st := run_ops eps ops in
    f_closed (fst (write_example eps st s cm ok)) = f_closed st ++ [(s, sh)] ->
    length (sh_ex sh) = eps \/
    (1 <= length (sh_ex sh) /\ cm_value (f_heap st) cm <> 0 /\ mval (f_heap st) (sh_meta sh) <> 0 /\ cm_value (f_heap st) cm <> mval (f_heap st) (sh_meta sh)).
Proof. exact short_close_is_metadata_change. Qed.
Print Assumptions c10_short_shard_only_at_metadata_change.

Theorem c10_nonvacuous :
  let ops := [WMutate 1 7; WWrite Train (Some 1) true; WWrite Train None true; WWrite Test None true;
              WMutate 2 9; WWrite Train (Some 2) true; WWrite Train None true; WWrite Train None false;
              WWrite Train None true; WWrite Train None true; WWrite Test None true; WWrite Test None true] in
  length (session_closed 3 ops) = 4 /\ changed_in 3 ops Test = false /\ changed_in 3 ops Train = true
  /\ map (fun sh => length (sh_ex sh)) (closed_of Test (session_closed 3 ops)) = [3]
  /\ map (fun sh => length (sh_ex sh)) (closed_of Train (session_closed 3 ops)) = [2; 3; 1].
Proof. vm_compute. repeat split; reflexivity. Qed.
Print Assumptions c10_nonvacuous.
