(** C07 — Unreadable shards surface as errors: never a hang, never silent truncation.
    Property theorems only; each is closed by [exact] of a lemma proved in Proofs/.
    [read p = None] / [f a = None]: the shard file is missing or rejected by the decoder. *)
Require Import Sedpack.Model.Base Sedpack.Model.Iter Sedpack.Model.ReadFail Sedpack.Proofs.ReadFailProofs.
Require Import Sedpack.Generated.GenLazyPool Sedpack.Model.LazyPool Sedpack.Proofs.LazyPoolInv Sedpack.Proofs.LazyPoolResult.

(** Sequential readers (sync and async unshuffled/shuffled chains): a pass over paths containing an
    unreadable shard ends by raising, wherever the shard is. *)
Theorem c07_chain_raises :
  forall (P E : Type) (read : P -> option (list E)) (paths : list P) (p : P),
    List.In p paths -> read p = None -> snd (chain_read P E read paths) = true.
Proof. exact chain_read_raises. Qed.
Print Assumptions c07_chain_raises.

(** Unshuffled concurrent reader (batches of T paths through an ordered map): the same, for every T. *)
Theorem c07_batches_raise :
  forall (P E : Type) (read : P -> option (list E)) (T fuel : nat) (paths : list P) (p : P),
    1 <= T -> length paths < fuel -> List.In p paths -> read p = None ->
    snd (batch_read P E read fuel T paths) = true.
Proof. exact batch_read_raises. Qed.
Print Assumptions c07_batches_raise.

(** Shuffled concurrent reader (lazy pool), every schedule: with an unreadable shard among the
    inputs the pass never ends normally, it cannot deadlock and performs at most 5n+15T+12 queue
    operations — hence it ends by raising (or by the caller abandoning it). *)
Theorem c07_lazy_pool_never_finishes_normally :
  forall (A B : Type) (f : A -> option B) (T : nat), 1 <= T ->
  forall (xs : list A) (s : st A B) (a : A), reach A B f T xs s -> List.In a xs -> f a = None -> pc s <> Final Finished.
Proof. exact failure_not_finished_lemma. Qed.
Print Assumptions c07_lazy_pool_never_finishes_normally.

Theorem c07_lazy_pool_no_hang :
  forall (A B : Type) (f : A -> option B) (T : nat), 1 <= T ->
  forall (xs : list A) (s : st A B), reach A B f T xs s -> quiescent s = false -> exists t s', step A B f T s t = Some s'.
Proof. exact no_deadlock_lemma. Qed.
Print Assumptions c07_lazy_pool_no_hang.

Theorem c07_nonvacuous :
  let read := fun p : nat => if p =? 2 then None else Some [10 * p; 10 * p + 1] in
  chain_read nat nat read [0; 1; 2; 3] = ([0; 1; 10; 11], true) /\
  batch_read nat nat read 9 3 [0; 1; 3; 4; 2; 5] = ([0; 1; 10; 11; 30; 31; 40; 41], true) /\
  chain_read nat nat read [0; 1; 3] = ([0; 1; 10; 11; 30; 31], false).
Proof. vm_compute. repeat split. Qed.
Print Assumptions c07_nonvacuous.
