"""./check Cxx --tier quick|thorough [--replay FILE]"""
import argparse
import importlib
import json
import os
import sys
import traceback
from pathlib import Path

sys.path.insert(0, str(Path(__file__).resolve().parent.parent))
from harness import common  # noqa: E402
from harness.common import Broken, Ctx  # noqa: E402


def main():
    ap = argparse.ArgumentParser()
    ap.add_argument("pid")
    ap.add_argument("--tier", default=os.environ.get("VERIF_TIER", "quick"), choices=["quick", "thorough"])
    ap.add_argument("--replay")
    a = ap.parse_args()
    seed = int(os.environ.get("VERIF_SEED", "0") or 0)
    ctx = Ctx(a.pid, a.tier, seed)
    mod = importlib.import_module(f"harness.props.{a.pid.lower()}")
    if a.replay:
        rp = json.loads(Path(a.replay).read_text())
        ok = mod.replay(ctx, rp)
        print("REPLAY", "reproduced" if not ok else "not reproduced")
        sys.exit(0 if ok else 1)
    try:
        mod.run(ctx)
    except Broken as b:
        # an obligation / the translator / the correspondence broke and the property module did
        # not (or could not) turn it into a concrete failing input
        ctx.report(f"broken:{b.what}", f"{b.what}", {"unchecked": b.what, "detail": b.detail[-4000:]}, found_input=False)
    except Exception:  # harness failure: fail closed, visibly
        tb = traceback.format_exc()
        ctx.report("harness-error", "check could not complete (harness error; nothing is shown to hold)",
                   {"unchecked": "harness", "detail": tb[-4000:]}, found_input=False)
        sys.stderr.write(tb)
    if "obligations" not in ctx.coverage:
        ctx.coverage.update({"obligations": 1, "discharged": 0, "checker_cmd": "coqc", "trusted_base": []})
    sys.exit(ctx.finish())


main()
