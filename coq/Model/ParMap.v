(** M5: the Rust [parallel_map] (rust/src/parallel_map.rs) as a transition system.

    Tasks are identified by their index in the source; [bad i] says the mapped function panics on
    task [i].  Every worker owns a private pair of FIFO channels.  The consumer visits the workers
    in a fixed rotation; the model keeps the workers as a ring whose head is the worker the
    consumer will visit next ([now]), so a visit moves the head to the tail.  A schedule is a list
    of choices: 0 = the consumer's [next()], S j = the worker at ring position j. *)
Require Import Sedpack.Model.Base.

Inductive wstate := WRecv | WBusy (i : nat) | WExit | WPanic.
Record worker := {
  inq : list (option nat);    (* tasks sent to the thread ([None] = finish) *)
  wst : wstate;
  outq : list nat;            (* results sent back (the index stands for f(x_i)) *)
  owes : bool                 (* [outstanding]: the last message sent was a task *)
}.
Inductive cstate := CRun | CDone | CPanic.
Record pstate := {
  ring : list worker;         (* head = communication[now] *)
  kdone : nat;                (* results returned so far *)
  sent : nat;                 (* tasks taken from the source iterator *)
  cons : cstate;
  returned : list nat
}.

Section PM.
Variable n : nat.                      (* length of the source *)
Variable bad : nat -> bool.            (* the mapped function panics on this task *)

Definition gone (w : worker) : bool := match wst w with WExit | WPanic => true | _ => false end.

(** [ParallelMap::next] *)
Definition cnext (s : pstate) : option pstate :=
  match cons s with
  | CRun =>
      match ring s with
      | [] => Some {| ring := []; kdone := kdone s; sent := sent s; cons := CDone; returned := returned s |}
      | w :: r =>
          match outq w with
          | i :: o' =>
              let more := sent s <? n in
              let w' := {| inq := inq w ++ [if more then Some (sent s) else None]; wst := wst w; outq := o'; owes := more |} in
              Some {| ring := r ++ [w']; kdone := S (kdone s); sent := if more then S (sent s) else sent s; cons := CRun;
                      returned := returned s ++ [i] |}
          | [] =>
              if gone w then
                Some {| ring := ring s; kdone := kdone s; sent := sent s; cons := if owes w then CPanic else CDone; returned := returned s |}
              else None   (* recv blocks *)
          end
      end
  | _ => None
  end.

Fixpoint upd_nth (l : list worker) (j : nat) (w : worker) : list worker :=
  match l, j with
  | [], _ => []
  | _ :: t, O => w :: t
  | h :: t, S j' => h :: upd_nth t j' w
  end.

(** the thread body: [while let Ok(Some(task)) = recv() { send(Some(fun(task))) }] *)
Definition wnext (w : worker) : option worker :=
  match wst w with
  | WRecv =>
      match inq w with
      | Some i :: q => Some {| inq := q; wst := WBusy i; outq := outq w; owes := owes w |}
      | None :: q => Some {| inq := q; wst := WExit; outq := outq w; owes := owes w |}
      | [] => None
      end
  | WBusy i =>
      if bad i then Some {| inq := inq w; wst := WPanic; outq := outq w; owes := owes w |}
      else Some {| inq := inq w; wst := WRecv; outq := outq w ++ [i]; owes := owes w |}
  | WExit | WPanic => None
  end.

Definition pstep (s : pstate) (t : nat) : option pstate :=
  match t with
  | O => cnext s
  | S j => match nth_error (ring s) j with
           | Some w => match wnext w with
                       | Some w' => Some {| ring := upd_nth (ring s) j w'; kdone := kdone s; sent := sent s; cons := cons s; returned := returned s |}
                       | None => None
                       end
           | None => None
           end
  end.

(** [parallel_map(fun, iter, threads)]: one thread per task while tasks last, at most [T]. *)
Definition pinit (T : nat) : pstate :=
  let W := Nat.min T n in
  {| ring := map (fun j => {| inq := [Some j]; wst := WRecv; outq := []; owes := true |}) (seq 0 W);
     kdone := 0; sent := W; cons := CRun; returned := [] |}.

Fixpoint prun (s : pstate) (sched : list nat) : pstate :=
  match sched with
  | [] => s
  | t :: rest => match pstep s t with Some s' => prun s' rest | None => prun s rest end
  end.

Inductive preach (T : nat) : pstate -> Prop :=
| pr0 : preach T (pinit T)
| prS s t s' : preach T s -> pstep s t = Some s' -> preach T s'.
End PM.
