(** C14 — Iteration is lazy: read-ahead is bounded by the configured buffers.
    Property theorems only; each is closed by [exact] of a lemma proved in Proofs/.
    Every bound below holds at every moment of every run over an arbitrary source — finite of any
    length or endless — and depends only on the buffer size / thread count. *)
Require Import Sedpack.Model.Base Sedpack.Generated.GenIter Sedpack.Model.Iter Sedpack.Proofs.IterProofs Sedpack.Proofs.ChainProofs.
Require Import Sedpack.Proofs.RrAccount Sedpack.Proofs.ConcComp.
Require Import Sedpack.Proofs.BatchProofs Sedpack.Model.PipeBase Sedpack.Generated.GenPipeline.
Require Import Sedpack.Generated.GenLazyPool Sedpack.Model.LazyPool Sedpack.Proofs.LazyPoolInv Sedpack.Proofs.LazyPoolBound.
From Coq Require Import Permutation.

(** Shuffle buffer: elements taken from the source <= elements yielded + buffer size. *)
Theorem c14_shuffle_buffer_readahead :
  forall (A : Type) (pick : nat -> nat -> nat) (perm : list A -> list A) (b : nat),
    (forall l, Permutation (perm l) l) ->
    forall (src : source A) (fuel : nat) (s0 : s_state src),
      let st := sb_run src pick perm b fuel (sb_init src s0) in sb_pulled st <= length (sb_out st) + b.
Proof. intros A pick perm b Hperm src fuel s0. exact (sb_readahead_lemma A pick perm b Hperm src fuel s0). Qed.
Print Assumptions c14_shuffle_buffer_readahead.

(** Round robin: never more than [b] inner iterators open at once, and the number of inner
    iterables ever opened is at most [b] plus the number of iterators found exhausted so far. *)
Theorem c14_round_robin_open_bound :
  forall (A : Type) (pick : nat -> nat -> nat) (b : nat) (src : source (list A)) (fuel : nat) (s0 : s_state src),
    let st := rr_run src pick b fuel (rr_init src s0) in
    length (rr_buf st) <= b /\ rr_opened st + length (rr_out st) <= b + rr_j st /\ length (rr_out st) <= rr_j st.
Proof.
  intros A pick b src fuel s0. cbv zeta.
  destruct (rr_bound_run A pick b src fuel _ (rr_bound_init A b src s0)) as (H1 & H2 & H3). repeat split; lia.
Qed.
Print Assumptions c14_round_robin_open_bound.

(** Lazy pool, every schedule: inputs taken from the (possibly endless) iterable <= 2T+2 + results yielded. *)
Theorem c14_lazy_pool_inflight :
  forall (A B : Type) (f : A -> option B) (T : nat) (xs : list A) (s : st A B),
    reach A B f T xs s -> length xs - length (src s) <= 2 * T + 2 + length (out s).
Proof. exact lp_inflight_lemma. Qed.
Print Assumptions c14_lazy_pool_inflight.

(** Unshuffled concurrent reader: every batch handed to the executor holds at most T paths. *)
Theorem c14_batches_bounded :
  forall (A : Type) (T fuel : nat) (l : list A), Forall (fun bt => length bt <= T) (batches fuel T l).
Proof. intros A. exact (@batches_bounded_lemma A). Qed.
Print Assumptions c14_batches_bounded.

(** Non-vacuity on an endless source: after 50 machine steps over a cycle of 3 paths the shuffle
    buffer (size 4) has yielded 45 elements and pulled exactly 4 more. *)
(** The synchronous interface as a composition (the example-level shuffle buffer over the lazy chain of shards, itself fed by any
    — possibly shuffled, possibly endless — stream of paths): at every moment, all but one of the shard files opened so far are
    accounted for by the examples already handed over plus the buffer: (opened - 1) * m <= yielded + shuffle, where every shard
    holds at least m >= 1 examples.  With shuffle = 0 this is: at most one shard file is open beyond those fully consumed. *)
Theorem c14_sync_interface_readahead :
  forall (path ex : Type) (psrc : @source path) (read : path -> list ex) (m : nat), 1 <= m -> (forall p, m <= length (read p)) ->
  forall (pick : nat -> nat -> nat) (perm : list ex -> list ex) (b : nat), (forall l, Permutation.Permutation (perm l) l) ->
  forall (fuel : nat) (s0 : s_state psrc),
    let st := sb_run (chain_source path ex psrc read) pick perm b fuel (sb_init (chain_source path ex psrc read) (chain_init path ex psrc s0)) in
    (c_opened path ex psrc (sb_src st) - 1) * m <= length (sb_out st) + b.
Proof. exact sync_readahead. Qed.
Print Assumptions c14_sync_interface_readahead.

(** The unshuffled concurrent reader (batches of T paths through executor.map, the next batch taken only when the previous one has been
    handed over; any stream of paths, finite or endless): at every moment the shard files opened exceed those accounted for by the
    examples handed over by at most T:  (opened - T) * m <= yielded. *)
Theorem c14_ordered_concurrent_readahead :
  forall (path ex : Type) (psrc : @source path) (read : path -> list ex) (T m : nat), (forall p, m <= length (read p)) ->
  forall (n : nat) (s0 : s_state psrc) (s : bstate path ex psrc),
    after (batch_source path ex psrc read T) n (batch_init path ex psrc s0) = Some s -> (b_opened path ex psrc s - T) * m <= n.
Proof. exact batch_readahead. Qed.
Print Assumptions c14_ordered_concurrent_readahead.

(** ... and that machine is the reader: over a finite list of paths it delivers what the composition regenerated from
    as_numpy_iterator_concurrent (shuffle = 0) delivers. *)
Theorem c14_batch_machine_is_the_ordered_reader :
  forall (path ex : Type) (read : path -> list ex) (process : ex -> ex) pickA permA pickB pool_perm (T : nat) (l : list path),
  1 <= T -> (forall p, 1 <= length (read p)) ->
  drain (batch_source path ex list_source read T) (S (length (concat (map read l)))) (batch_init path ex list_source l)
  = anc path ex read process pickA permA pickB pool_perm 0 T false l.
Proof. exact batch_machine_refines_anc. Qed.
Print Assumptions c14_batch_machine_is_the_ordered_reader.

(** The unshuffled async reader is the plain lazy chain of shards: one file beyond those used up. *)
Theorem c14_ordered_async_readahead :
  forall (path ex : Type) (psrc : @source path) (read : path -> list ex) (m : nat), 1 <= m -> (forall p, m <= length (read p)) ->
  forall (n : nat) (s0 : s_state psrc) (s : cstate path ex psrc),
    after (chain_source path ex psrc read) n (chain_init path ex psrc s0) = Some s -> (c_opened path ex psrc s - 1) * m <= n.
Proof. exact chain_readahead. Qed.
Print Assumptions c14_ordered_async_readahead.

(** Round robin over lazily opened inner iterables, each of at least m elements (any source whose reachable states hand out such
    iterables): every closed iterator was used up, so at every moment (opened - buffer) * m <= yielded. *)
Theorem c14_round_robin_readahead :
  forall (A : Type) (pick : nat -> nat -> nat) (b : nat), (forall j len, 0 < len -> pick j len < len) ->
  forall (src : @source (list A)) (m : nat) (Good : s_state src -> Prop),
  (forall s l s', Good s -> s_next src s = Some (l, s') -> m <= length l /\ Good s') ->
  forall (fuel : nat) (s0 : s_state src), Good s0 ->
    let st := rr_run src pick b fuel (rr_init src s0) in (rr_opened st - b) * m <= length (rr_out st).
Proof. exact rr_readahead. Qed.
Print Assumptions c14_round_robin_readahead.

(** The shuffled concurrent reader as a composition, round_robin(pool.imap_unordered(process_and_list, paths), buffer_size = b):
    the pool in ANY reachable state (every thread schedule) over the paths xs; round_robin at any moment of its run over what the pool
    hands over, having pulled exactly what the pool has yielded so far (a generator advances only inside its consumer's next()).
    The shard files taken exceed those accounted for by the examples handed over by at most 2T+2 (in flight) + b (slots). *)
Theorem c14_shuffled_concurrent_readahead :
  forall (path ex : Type) (read : path -> list ex) (m : nat), (forall p, m <= length (read p)) ->
  forall (pick : nat -> nat -> nat), (forall j len, 0 < len -> pick j len < len) ->
  forall (b T : nat) (xs : list path) (s : st path (list ex)) (later : list (list ex)) (fuel : nat),
  reach path (list ex) (fun p => Some (read p)) T xs s -> Forall (fun l => m <= length l) later ->
  let r := rr_run list_source pick b fuel (rr_init list_source (out s ++ later)) in
  rr_opened r = length (out s) ->
  (length xs - length (src s) - (2 * T + 2) - b) * m <= length (rr_out r).
Proof. exact concurrent_shuffled_readahead. Qed.
Print Assumptions c14_shuffled_concurrent_readahead.

(** The shuffled async reader, round_robin_async(asyncstdlib.map(iterate_shard_async, paths), buffer_size = b), any stream of paths. *)
Theorem c14_shuffled_async_readahead :
  forall (path ex : Type) (read : path -> list ex) (m : nat), (forall p, m <= length (read p)) ->
  forall (pick : nat -> nat -> nat), (forall j len, 0 < len -> pick j len < len) ->
  forall (b : nat) (psrc : @source path) (fuel : nat) (s0 : s_state psrc),
    let r := rr_run (shards_source path ex read psrc) pick b fuel (rr_init (shards_source path ex read psrc) s0) in
    (rr_opened r - b) * m <= length (rr_out r).
Proof. exact async_shuffled_readahead. Qed.
Print Assumptions c14_shuffled_async_readahead.

(** non-vacuity of the coupling hypothesis, and tightness: one worker (T = 1), 8 shards of 2 examples, round-robin buffer 1; after the
    schedule below the pool has taken 7 paths and yielded 3 shards, round robin has pulled these 3 and handed over 4 examples:
    (7 - 4 - 1) * 2 = 4 <= 4. *)
Theorem c14_composition_nonvacuous :
  let rd := fun p : nat => [p; p + 10] in
  let s := run nat (list nat) (fun p => Some (rd p)) 1 (init nat (list nat) 1 [0; 1; 2; 3; 4; 5; 6; 7]) [0;0;0;0;0;0; 2;2;2;2; 0;0; 2;2; 0;0; 2;2;2;2; 0;0] in
  let r := rr_run list_source (fun j len => j mod len) 1 8 (rr_init list_source (out s ++ [[9; 9]])) in
  reach nat (list nat) (fun p => Some (rd p)) 1 [0; 1; 2; 3; 4; 5; 6; 7] s /\ rr_opened r = length (out s) /\
  (8 - length (src s) - (2 * 1 + 2) - 1) * 2 = 4 /\ length (rr_out r) = 4.
Proof. split; [apply run_reach; constructor | vm_compute; repeat split; reflexivity]. Qed.
Print Assumptions c14_composition_nonvacuous.

Theorem c14_nonvacuous :
  let st := sb_run (cycle_source [10; 20; 30] 0) (lcg_pick 1) (@rev nat) 4 50 (sb_init (cycle_source [10; 20; 30] 0) 0) in
  length (sb_out st) = 45 /\ sb_pulled st = 49.
Proof. vm_compute. split; reflexivity. Qed.
Print Assumptions c14_nonvacuous.
